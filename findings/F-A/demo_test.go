// F-A demo: VP8 picture-id delta is applied with the wrong sign when
// (*rtpDownTrack).Write withholds whole frames (temporal-layer filtering).
//
// Placement: copy this file to  rtpconn/zz_demo_a_test.go  (internal test,
// package rtpconn).  Run with:
//
//	export GOFLAGS=-mod=mod GOPROXY=off
//	go test -vet=off -count=1 -run TestDemoFA_PictureIdStaysConsecutive -v ./rtpconn/
//
// This test drives the REAL (*rtpDownTrack).Write.  The down track's
// webrtc.TrackLocalStaticRTP is bound (through its public Bind method) to a
// fake TrackLocalContext whose write stream records every RTP packet that
// Write emits.  The recorded packets are parsed with pion's own VP8
// depacketizer (github.com/pion/rtp/codecs), i.e. independently of galene's
// rewriter.
//
// Scenario: five one-packet VP8 frames, seqnos 100..104, picture ids 10..14,
// temporal layer 0,1,0,1,0.  The down track has already seen tid 1 and is
// currently selecting tid 0 (layerInfo{tid:0, wantedTid:0, maxTid:1}, set
// through the package's own setLayerInfo), so Write withholds frames 11 and
// 13.  What the receiver gets must be gap free: seqnos 100,101,102 and picture
// ids 10,11,12.
package rtpconn

import (
	"testing"
	"time"

	"github.com/pion/interceptor"
	"github.com/pion/rtp"
	rtpcodecs "github.com/pion/rtp/codecs"
	"github.com/pion/webrtc/v4"

	"github.com/jech/galene/conn"
	"github.com/jech/galene/estimator"
)

// demoAUpTrack is a minimal conn.UpTrack; Write only uses Codec().
type demoAUpTrack struct{}

func (demoAUpTrack) AddLocal(conn.DownTrack) error { return nil }
func (demoAUpTrack) DelLocal(conn.DownTrack) bool  { return true }
func (demoAUpTrack) Kind() webrtc.RTPCodecType     { return webrtc.RTPCodecTypeVideo }
func (demoAUpTrack) Label() string                 { return "demo" }
func (demoAUpTrack) Codec() webrtc.RTPCodecCapability {
	return webrtc.RTPCodecCapability{MimeType: "video/VP8", ClockRate: 90000}
}
func (demoAUpTrack) GetPacket(uint16, []byte, bool) uint16 { return 0 }
func (demoAUpTrack) RequestKeyframe() error                { return nil }

type demoASent struct {
	seqno   uint16
	payload []byte
}

// demoAWriteStream is the webrtc.TrackLocalWriter that receives what
// rtpDownTrack.Write finally emits.
type demoAWriteStream struct{ sent []demoASent }

func (w *demoAWriteStream) WriteRTP(h *rtp.Header, payload []byte) (int, error) {
	w.sent = append(w.sent, demoASent{
		seqno:   h.SequenceNumber,
		payload: append([]byte(nil), payload...),
	})
	return len(payload), nil
}

func (w *demoAWriteStream) Write(b []byte) (int, error) {
	var p rtp.Packet
	if err := p.Unmarshal(b); err != nil {
		return 0, err
	}
	return w.WriteRTP(&p.Header, p.Payload)
}

// demoAContext is a fake webrtc.TrackLocalContext.
type demoAContext struct{ ws *demoAWriteStream }

func (c demoAContext) CodecParameters() []webrtc.RTPCodecParameters {
	return []webrtc.RTPCodecParameters{{
		RTPCodecCapability: demoAUpTrack{}.Codec(),
		PayloadType:        96,
	}}
}
func (c demoAContext) HeaderExtensions() []webrtc.RTPHeaderExtensionParameter { return nil }
func (c demoAContext) SSRC() webrtc.SSRC                                      { return 0x1234 }
func (c demoAContext) SSRCRetransmission() webrtc.SSRC                        { return 0 }
func (c demoAContext) SSRCForwardErrorCorrection() webrtc.SSRC                { return 0 }
func (c demoAContext) WriteStream() webrtc.TrackLocalWriter                   { return c.ws }
func (c demoAContext) ID() string                                             { return "demo-binding" }
func (c demoAContext) RTCPReader() interceptor.RTCPReader                     { return nil }

// demoAPacket builds a one-packet VP8 frame: 12-byte RTP header followed
// by the RFC 7741 payload descriptor
//
//	0x90            X=1, S=1, PartID=0
//	0xE0            I=1 L=1 T=1 (picture id, TL0PICIDX and TID present)
//	0x80|pid>>8     M=1, 15-bit picture id, high bits
//	pid&0xff        picture id, low bits
//	tl0picidx
//	tid<<6          TID, Y=0, KEYIDX=0
//
// and three bytes of VP8 payload (first byte bit 0 = 0 for a key frame).
func demoAPacket(seqno, pid uint16, tid uint8, keyframe bool) []byte {
	first := byte(0x01)
	if keyframe {
		first = 0x00
	}
	return []byte{
		0x80, 0x80 | 96, byte(seqno >> 8), byte(seqno), // V=2, M=1, PT=96
		0, 0, byte(pid >> 8), byte(pid), // timestamp
		0, 0, 0x12, 0x34, // ssrc
		0x90, 0xE0, 0x80 | byte(pid>>8), byte(pid), 7, tid << 6,
		first, 0xAA, 0xBB,
	}
}

func TestDemoFA_PictureIdStaysConsecutive(t *testing.T) {
	local, err := webrtc.NewTrackLocalStaticRTP(
		demoAUpTrack{}.Codec(), "video", "demo",
	)
	if err != nil {
		t.Fatal(err)
	}
	ws := &demoAWriteStream{}
	if _, err := local.Bind(demoAContext{ws}); err != nil {
		t.Fatalf("Bind: %v", err)
	}

	// same fields as addDownTrackUnlocked (rtpconn/webclient.go) sets
	down := &rtpDownTrack{
		track:          local,
		remote:         demoAUpTrack{},
		maxBitrate:     new(bitrate),
		maxREMBBitrate: new(bitrate),
		stats:          new(receiverStats),
		rate:           estimator.New(time.Second),
		atomics:        &downTrackAtomics{},
	}
	// tid 1 has been seen before; we are currently forwarding tid 0 only.
	down.setLayerInfo(layerInfo{tid: 0, wantedTid: 0, maxTid: 1})

	type in struct {
		seqno, pid uint16
		tid        uint8
	}
	input := []in{
		{100, 10, 0}, {101, 11, 1}, {102, 12, 0}, {103, 13, 1}, {104, 14, 0},
	}
	for i, f := range input {
		_, err := down.Write(demoAPacket(f.seqno, f.pid, f.tid, i == 0))
		if err != nil {
			t.Fatalf("Write(seqno %v): %v", f.seqno, err)
		}
	}

	var seqnos, pids []uint16
	for _, s := range ws.sent {
		var vp8 rtpcodecs.VP8Packet
		if _, err := vp8.Unmarshal(s.payload); err != nil {
			t.Fatalf("pion VP8 parser rejects forwarded packet: %v", err)
		}
		if vp8.TID != 0 {
			t.Errorf("forwarded a packet with TID %v", vp8.TID)
		}
		seqnos = append(seqnos, s.seqno)
		pids = append(pids, vp8.PictureID)
	}
	t.Logf("forwarded seqnos      %v", seqnos)
	t.Logf("forwarded picture ids %v", pids)

	wantSeq := []uint16{100, 101, 102}
	wantPid := []uint16{10, 11, 12}
	if len(ws.sent) != 3 {
		t.Fatalf("forwarded %v packets, expected 3 (frames 11 and 13 withheld)",
			len(ws.sent))
	}
	for i := range wantSeq {
		if seqnos[i] != wantSeq[i] {
			t.Errorf("seqnos: got %v, want %v", seqnos, wantSeq)
			break
		}
	}
	for i := range wantPid {
		if pids[i] != wantPid[i] {
			t.Errorf("picture ids: got %v, want %v "+
				"(must stay consecutive when frames are withheld)",
				pids, wantPid)
			break
		}
	}
}
