// Demo for finding F-B: nil dereference (server crash) on an "offer" sent
// after a join that was refused by a locked group.
//
// Place this file at   rtpconn/zz_demo_fb_test.go   (package rtpconn) and run
//
//	export GOFLAGS=-mod=mod GOPROXY=off
//	go test -vet=off -count=1 -run 'TestDemoFB' ./rtpconn/
//
// Expected: FAIL on the unpatched tree (panic caught by the test),
// PASS once findings/F-B/fix.diff is applied.
package rtpconn

import (
	"os"
	"path/filepath"
	"runtime/debug"
	"testing"

	"github.com/jech/galene/group"
	"github.com/jech/galene/unbounded"
)

func TestDemoFB_OfferAfterRefusedJoin(t *testing.T) {
	group.Directory = t.TempDir()
	group.DataDirectory = t.TempDir()
	desc := `{"users": {
	    "boss":  {"password": "pw", "permissions": "op"},
	    "alice": {"password": "pw", "permissions": "present"}}}`
	err := os.WriteFile(
		filepath.Join(group.Directory, "demofb.json"), []byte(desc), 0600,
	)
	if err != nil {
		t.Fatal(err)
	}
	g, err := group.Add("demofb", nil)
	if err != nil {
		t.Fatalf("group.Add: %v", err)
	}
	g.SetLocked(true, "")

	c := &webClient{
		id:         "c1",
		actions:    unbounded.New[any](),
		done:       make(chan struct{}),
		writeCh:    make(chan interface{}, 1000),
		writerDone: make(chan struct{}),
	}

	// 1. alice (permission "present", not an operator) tries to join the
	// locked group and is refused.
	user := "alice"
	err = handleClientMessage(c, clientMessage{
		Type: "join", Kind: "join", Group: "demofb",
		Username: &user, Password: "pw",
	})
	if err != nil {
		t.Fatalf("join: %v", err)
	}
	m, ok := (<-c.writeCh).(clientMessage)
	if !ok || m.Type != "joined" || m.Kind != "fail" {
		t.Fatalf("expected joined/fail, got %#v", m)
	}
	t.Logf("join refused: %q; c.group == nil: %v; c.permissions = %v",
		m.Value, c.group == nil, c.permissions)
	if c.group != nil || g.ClientCount() != 0 {
		t.Fatalf("the client is not supposed to be in the group")
	}

	// 2. the same connection now sends an offer.
	var panicked any
	var stack []byte
	func() {
		defer func() {
			panicked = recover()
			if panicked != nil {
				stack = debug.Stack()
			}
		}()
		err = handleClientMessage(c, clientMessage{
			Type: "offer", Id: "u1",
			SDP: "v=0\r\no=- 0 0 IN IP4 127.0.0.1\r\ns=-\r\nt=0 0\r\n",
		})
	}()
	if panicked != nil {
		t.Fatalf("offer after a refused join PANICS (in production this "+
			"is the client goroutine, nothing recovers: the whole "+
			"server exits): %v\n%s", panicked, stack)
	}
	if err != nil {
		t.Fatalf("offer: %v", err)
	}

	// Without a panic, the offer must have been refused cleanly.
	select {
	case x := <-c.writeCh:
		m, ok := x.(clientMessage)
		if !ok || m.Type != "abort" || m.Id != "u1" {
			t.Errorf("expected abort for u1, got %#v", x)
		}
	default:
		t.Errorf("nothing was written in reply to the offer")
	}
	select {
	case x := <-c.writeCh:
		m, ok := x.(clientMessage)
		if !ok || m.Type != "usermessage" || m.Kind != "error" ||
			m.Value != "not authorised" {
			t.Errorf("expected error \"not authorised\", got %#v", x)
		}
	default:
		t.Errorf("no error message was written")
	}
	if len(c.up) != 0 {
		t.Errorf("an up connection was created for a non-member")
	}
}
