// Demo for finding F-C: a client that joins a group whose description has a
// "redirect" field is added to the group's member table by group.AddClient,
// but handleClientMessage returns joined/redirect without setting c.group,
// so nothing ever removes it: a ghost member stays for ever.
//
// Place this file at   rtpconn/zz_demo_fc_test.go   (package rtpconn) and run
//
//	export GOFLAGS=-mod=mod GOPROXY=off
//	go test -vet=off -count=1 -v -run 'TestDemoFC' ./rtpconn/
//
// Expected: FAIL on the unpatched tree (ClientCount stays 1),
// PASS once findings/F-C/fix.diff is applied.
package rtpconn

import (
	"fmt"
	"os"
	"path/filepath"
	"testing"

	"github.com/jech/galene/group"
	"github.com/jech/galene/unbounded"
)

func TestDemoFC_GhostMemberOnRedirect(t *testing.T) {
	group.Directory = t.TempDir()
	group.DataDirectory = t.TempDir()
	desc := `{"redirect": "https://elsewhere.example.org/group/demofc/",
	  "users": {"alice": {"password": "pw", "permissions": "present"}}}`
	err := os.WriteFile(
		filepath.Join(group.Directory, "demofc.json"), []byte(desc), 0600,
	)
	if err != nil {
		t.Fatal(err)
	}

	c := &webClient{
		id:         "c1",
		actions:    unbounded.New[any](),
		done:       make(chan struct{}),
		writeCh:    make(chan interface{}, 1000),
		writerDone: make(chan struct{}),
	}
	user := "alice"
	err = handleClientMessage(c, clientMessage{
		Type: "join", Kind: "join", Group: "demofc",
		Username: &user, Password: "pw",
	})
	if err != nil {
		t.Fatalf("join: %v", err)
	}
	m, ok := (<-c.writeCh).(clientMessage)
	if !ok || m.Type != "joined" || m.Kind != "redirect" {
		t.Fatalf("expected joined/redirect, got %#v", m)
	}
	g := group.Get("demofc")
	if g == nil {
		t.Fatal("group does not exist")
	}
	t.Logf("after joined/redirect: c.group == nil: %v, ClientCount = %v",
		c.group == nil, g.ClientCount())

	// The connection ends; this is what clientLoop's defer does.
	leaveGroup(c)

	if n := g.ClientCount(); n != 0 {
		t.Errorf("the connection is over but the group still has %v "+
			"member(s); g.GetClient(\"c1\") is our dead client: %v "+
			"(ghost member, never removed)",
			n, g.GetClient("c1") == group.Client(c))
	}

	// For information only (this is finding F-D, not F-C): the actions
	// that AddClient queued for this client are processed by clientLoop
	// while c.group is nil.
	for _, a := range c.actions.Get() {
		func() {
			defer func() {
				if r := recover(); r != nil {
					t.Logf("note (F-D): handleAction(%T) "+
						"panics: %v", a, r)
				}
			}()
			err := handleAction(c, a)
			t.Logf("handleAction(%v) = %v", fmt.Sprintf("%T", a), err)
		}()
	}
}
