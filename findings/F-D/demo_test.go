// Demo for finding F-D: handleAction dereferences c.group without a nil test
// in the pushClientAction case.  A pushClientAction that is still queued when
// the client has left its group (or that was queued by a refused/redirected
// join, see F-C) crashes the server.
//
// Place this file at   rtpconn/zz_demo_fd_test.go   (package rtpconn) and run
//
//	export GOFLAGS=-mod=mod GOPROXY=off
//	go test -vet=off -count=1 -run 'TestDemoFD' ./rtpconn/
//
// Expected: FAIL on the unpatched tree (panic caught by the test),
// PASS once findings/F-D/fix.diff is applied.
package rtpconn

import (
	"runtime/debug"
	"testing"

	"github.com/jech/galene/unbounded"
)

func TestDemoFD_PushClientActionWithoutGroup(t *testing.T) {
	c := &webClient{
		id:         "c1",
		actions:    unbounded.New[any](),
		done:       make(chan struct{}),
		writeCh:    make(chan interface{}, 1000),
		writerDone: make(chan struct{}),
	}
	if c.group != nil {
		t.Fatal("precondition: the client is in no group")
	}

	var err error
	var panicked any
	var stack []byte
	func() {
		defer func() {
			panicked = recover()
			if panicked != nil {
				stack = debug.Stack()
			}
		}()
		err = handleAction(c, pushClientAction{
			group: "g", kind: "add", id: "x", username: "bob",
		})
	}()
	if panicked != nil {
		t.Fatalf("handleAction(pushClientAction) with c.group == nil "+
			"PANICS (in production this is the client goroutine, "+
			"nothing recovers: the whole server exits): %v\n%s",
			panicked, stack)
	}
	if err != nil {
		t.Errorf("handleAction: %v", err)
	}
	select {
	case x := <-c.writeCh:
		t.Errorf("a user message for a foreign group was written: %#v", x)
	default:
	}
}
