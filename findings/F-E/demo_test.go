// F-E demo: nil pointer dereference in the administrative API when an
// administrator creates a new token with PUT.
//
// Placement: copy this file to  webserver/zz_demo_e_test.go  (internal test,
// package webserver).  Run with:
//
//	export GOFLAGS=-mod=mod GOPROXY=off
//	go test -vet=off -count=1 -run TestDemoFE_PutNewToken -v ./webserver/
//
// The test calls the real top-level API handler (apiHandler, the function
// registered for "/galene-api/") with authenticated requests, exactly as
// net/http would, but through httptest.NewRecorder so that a panic in the
// handler is visible to the test instead of being swallowed by net/http's
// per-connection recover (which just closes the connection).
//
// No listening socket is needed, so the test does not depend on port 1234.
package webserver

import (
	"fmt"
	"net/http"
	"net/http/httptest"
	"os"
	"path/filepath"
	"runtime/debug"
	"strings"
	"testing"

	"github.com/jech/galene/group"
	"github.com/jech/galene/token"
)

func TestDemoFE_PutNewToken(t *testing.T) {
	dir, datadir := t.TempDir(), t.TempDir()
	group.Directory = dir
	group.DataDirectory = datadir
	err := os.WriteFile(filepath.Join(datadir, "config.json"), []byte(`{
    "writableGroups": true,
    "users": {"root": {"password": "pw", "permissions": "admin"}}
}`), 0o600)
	if err != nil {
		t.Fatal(err)
	}
	token.SetStatefulFilename(filepath.Join(datadir, "tokens.jsonl"))

	// do performs one authenticated request against apiHandler and
	// reports a panic of the handler as an error.
	do := func(method, path, inm, body string) (rec *httptest.ResponseRecorder, err error) {
		req := httptest.NewRequest(method, path, strings.NewReader(body))
		if body != "" {
			req.Header.Set("Content-Type", "application/json")
		}
		if inm != "" {
			req.Header.Set("If-None-Match", inm)
		}
		req.SetBasicAuth("root", "pw")
		rec = httptest.NewRecorder()
		defer func() {
			if r := recover(); r != nil {
				stack := strings.Split(string(debug.Stack()), "\n")
				var where []string
				for _, l := range stack {
					if strings.Contains(l, "webserver/api.go") {
						where = append(where, strings.TrimSpace(l))
					}
				}
				err = fmt.Errorf("handler panicked: %v\n\tat %v",
					r, strings.Join(where, "\n\tat "))
			}
		}()
		apiHandler(rec, req)
		return rec, nil
	}

	// the group must exist before tokens can be created in it
	rec, err := do("PUT", "/galene-api/v0/.groups/test/", "*", "{}")
	if err != nil || rec.Code != http.StatusCreated {
		t.Fatalf("create group: %v %v", err, rec.Code)
	}

	// Create a NEW token with a client-chosen name.  This is the
	// documented way to create a token with PUT (If-None-Match: *).
	const tokpath = "/galene-api/v0/.groups/test/.tokens/brandnewtoken"
	rec, err = do("PUT", tokpath, "*",
		`{"expires":"2100-01-01T00:00:00Z","permissions":["present"]}`)
	if err != nil {
		t.Fatalf("PUT new token: %v", err)
	}
	if rec.Code != http.StatusCreated && rec.Code != http.StatusNoContent {
		t.Fatalf("PUT new token: status %v, body %q", rec.Code, rec.Body)
	}
	t.Logf("PUT new token: status %v", rec.Code)

	// and the token must now be there
	rec, err = do("GET", tokpath, "", "")
	if err != nil || rec.Code != http.StatusOK {
		t.Fatalf("GET new token: %v %v", err, rec.Code)
	}
	tok, _, err := token.Get("brandnewtoken")
	if err != nil || tok == nil || tok.Group != "test" {
		t.Fatalf("token.Get: %v %v", tok, err)
	}
}
