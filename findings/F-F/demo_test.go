// F-F demo: out-of-bounds read (index out of range panic) in
// codecs.RewritePacket on a short packet that has the RTP header extension
// bit set.
//
// Placement: copy this file to  codecs/zz_demo_test.go  (internal test,
// package codecs, so that it can compare against errTruncated).  Run with:
//
//	export GOFLAGS=-mod=mod GOPROXY=off
//	go test -vet=off -count=1 -run TestDemoFF_RewriteShortExtension -v ./codecs/
//
// RewritePacket is called by (*rtpDownTrack).Write on every forwarded packet
// whose seqno or picture id needs rewriting; its input is whatever the remote
// peer sent.  With delta != 0 and X=1 (data[0]&0x10), the code checks only
// len(data) > 12 before reading the extension length at data[14], data[15].
package codecs

import (
	"errors"
	"fmt"
	"testing"
)

func TestDemoFF_RewriteShortExtension(t *testing.T) {
	for length := 13; length <= 15; length++ {
		// V=2, X=1, CC=0; everything else zero.  The 12-byte fixed
		// header is complete, the 4-byte extension header is cut short.
		data := make([]byte, length)
		data[0] = 0x90
		data[1] = 96

		err := func() (err error) {
			defer func() {
				if r := recover(); r != nil {
					err = fmt.Errorf("PANIC: %v", r)
				}
			}()
			return RewritePacket("video/VP8", data, false, 1, 1)
		}()

		if !errors.Is(err, errTruncated) {
			t.Errorf("len(data)=%v: got %v, expected %q",
				length, err, errTruncated)
		} else {
			t.Logf("len(data)=%v: %v", length, err)
		}
	}
}
