// F-G demo: a packet that the disk writer recovers from the packet cache is
// parsed together with the unused tail of its 1504-byte buffer, so the
// recording receives ~1.4 kB of trailing zero bytes as media data.
//
// Placement: copy this file to  diskwriter/zz_demo_g_test.go  (internal
// test, package diskwriter).  Run with:
//
//	export GOFLAGS=-mod=mod GOPROXY=off
//	go test -vet=off -count=1 -run TestDemoFG -v ./diskwriter/
//
// Both tests go through the real fetch().  The track is built the way
// newDiskConn builds an audio/opus track (samplebuilder.New(audioMaxLate,
// &codecs.OpusPacket{}, clockrate)); the only stand-ins are
//   - a fake conn.UpTrack whose GetPacket behaves like the real packet cache
//     (copies the marshalled packet into the caller's buffer and returns its
//     length), and
//   - a fake mkvcore.BlockWriteCloser in diskTrack.writer that records the
//     blocks which would have been written to the .mkv/.webm file.
package diskwriter

import (
	"bytes"
	"testing"

	"github.com/jech/samplebuilder"
	"github.com/pion/rtp"
	"github.com/pion/rtp/codecs"
	"github.com/pion/webrtc/v4"

	"github.com/jech/galene/conn"
)

// demoGUpTrack is a conn.UpTrack backed by a tiny "packet cache".
type demoGUpTrack struct {
	cache map[uint16][]byte
}

func (u *demoGUpTrack) AddLocal(conn.DownTrack) error { return nil }
func (u *demoGUpTrack) DelLocal(conn.DownTrack) bool  { return true }
func (u *demoGUpTrack) Kind() webrtc.RTPCodecType     { return webrtc.RTPCodecTypeAudio }
func (u *demoGUpTrack) Label() string                 { return "" }
func (u *demoGUpTrack) RequestKeyframe() error        { return nil }
func (u *demoGUpTrack) Codec() webrtc.RTPCodecCapability {
	return webrtc.RTPCodecCapability{
		MimeType: "audio/opus", ClockRate: 48000, Channels: 2,
	}
}

// GetPacket has the contract documented in conn/conn.go: copy the packet
// into result and return its length, or 0 if it is not cached.
func (u *demoGUpTrack) GetPacket(seqno uint16, result []byte, nack bool) uint16 {
	return uint16(copy(result, u.cache[seqno]))
}

// demoGWriter records what reaches the Matroska block writer.
type demoGWriter struct{ blocks [][]byte }

func (w *demoGWriter) Write(keyframe bool, ts int64, b []byte) (int, error) {
	w.blocks = append(w.blocks, append([]byte(nil), b...))
	return len(b), nil
}
func (w *demoGWriter) Close() error { return nil }

const demoGPayloadLen = 20

// demoGPacket marshals a 12-byte RTP header plus 20 payload bytes, all
// equal to fill.
func demoGPacket(t *testing.T, seqno uint16, fill byte) []byte {
	p := rtp.Packet{
		Header: rtp.Header{
			Version: 2, PayloadType: 111, SequenceNumber: seqno,
			Timestamp: uint32(seqno) * 960, SSRC: 42,
		},
		Payload: bytes.Repeat([]byte{fill}, demoGPayloadLen),
	}
	buf, err := p.Marshal()
	if err != nil {
		t.Fatal(err)
	}
	if len(buf) != 12+demoGPayloadLen {
		t.Fatalf("unexpected packet length %v", len(buf))
	}
	return buf
}

func demoGTrack() (*diskTrack, *demoGUpTrack, *demoGWriter) {
	up := &demoGUpTrack{cache: make(map[uint16][]byte)}
	w := &demoGWriter{}
	track := &diskTrack{
		remote: up,
		conn:   &diskConn{}, // hasVideo == false: audio-only recording
		builder: samplebuilder.New(
			audioMaxLate, &codecs.OpusPacket{}, up.Codec().ClockRate,
		),
		writer: w,
	}
	return track, up, w
}

// TestDemoFG_RecoveredPacketViaWrite drives the real (*diskTrack).Write.
// Packets 1000 and 1002 arrive; 1001 was lost on the way to the disk writer
// but is in the up track's cache, so Write itself calls fetch(t, 1001).
func TestDemoFG_RecoveredPacketViaWrite(t *testing.T) {
	track, up, w := demoGTrack()
	up.cache[1001] = demoGPacket(t, 1001, 'B')

	for _, p := range [][]byte{
		demoGPacket(t, 1000, 'A'),
		demoGPacket(t, 1002, 'C'),
	} {
		if _, err := track.Write(p); err != nil {
			t.Fatalf("Write: %v", err)
		}
	}

	var lens []int
	for _, b := range w.blocks {
		lens = append(lens, len(b))
	}
	t.Logf("lengths of the blocks written to the recording: %v", lens)
	if len(w.blocks) != 3 {
		t.Fatalf("expected 3 blocks (1000, recovered 1001, 1002), got %v",
			len(w.blocks))
	}
	for i, fill := range []byte{'A', 'B', 'C'} {
		want := bytes.Repeat([]byte{fill}, demoGPayloadLen)
		if !bytes.Equal(w.blocks[i], want) {
			t.Errorf("block %v: %v bytes, of which %v trailing zero "+
				"bytes; expected exactly the %v payload bytes %q",
				i, len(w.blocks[i]),
				len(w.blocks[i])-len(bytes.TrimRight(w.blocks[i], "\x00")),
				demoGPayloadLen, want)
		}
	}
}

// TestDemoFG_FetchDirect calls fetch() directly on a fresh track and looks
// at the block it produces.
func TestDemoFG_FetchDirect(t *testing.T) {
	track, up, w := demoGTrack()
	up.cache[7] = demoGPacket(t, 7, 'X')

	track.conn.mu.Lock() // fetch is called with the conn locked
	fetch(track, 7)
	track.conn.mu.Unlock()

	if len(w.blocks) != 1 {
		t.Fatalf("expected 1 block, got %v", len(w.blocks))
	}
	t.Logf("fetch() produced a block of %v bytes", len(w.blocks[0]))
	if len(w.blocks[0]) != demoGPayloadLen {
		t.Errorf("fetch() produced a block of %v bytes, expected %v "+
			"(the RTP payload of the cached packet)",
			len(w.blocks[0]), demoGPayloadLen)
	}
}
