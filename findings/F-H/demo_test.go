// Demo for finding F-H: (*webClient).Init stores the slice returned by
// Permissions.Permissions without copying it; for a named role ("op", ...)
// that slice IS the process-wide role table group.permissionsMap[role].
// remove() in webclient.go then edits it in place, so taking "message" away
// from ONE operator ("shutup") silently rewrites the role "op" for every
// later login, in every group.
//
// Place this file at   rtpconn/zz_demo_fh_test.go   (package rtpconn) and run
//
//	export GOFLAGS=-mod=mod GOPROXY=off
//	go test -vet=off -count=1 -v -run 'TestDemoFH' ./rtpconn/
//
// Expected: FAIL on the unpatched tree, PASS once findings/F-H/fix.diff is
// applied.  NB: on the unpatched tree the test leaves the role table of the
// test process damaged (that is the defect), so run it with -run.
package rtpconn

import (
	"os"
	"path/filepath"
	"slices"
	"testing"

	"github.com/jech/galene/group"
	"github.com/jech/galene/unbounded"
)

func demoFHJoin(t *testing.T, id, grp, user, pw string) *webClient {
	t.Helper()
	c := &webClient{
		id:         id,
		actions:    unbounded.New[any](),
		done:       make(chan struct{}),
		writeCh:    make(chan interface{}, 1000),
		writerDone: make(chan struct{}),
	}
	err := handleClientMessage(c, clientMessage{
		Type: "join", Kind: "join", Group: grp,
		Username: &user, Password: pw,
	})
	if err != nil {
		t.Fatalf("join %v: %v", user, err)
	}
	if c.group == nil {
		t.Fatalf("join %v refused: %#v", user, <-c.writeCh)
	}
	return c
}

func TestDemoFH_ShutupRewritesSharedRoleTable(t *testing.T) {
	group.Directory = t.TempDir()
	group.DataDirectory = t.TempDir()
	desc := `{"users": {
	    "opa": {"password": "pwa", "permissions": "op"},
	    "opb": {"password": "pwb", "permissions": "op"}}}`
	for _, name := range []string{"demofh", "demofh2"} {
		err := os.WriteFile(
			filepath.Join(group.Directory, name+".json"),
			[]byte(desc), 0600,
		)
		if err != nil {
			t.Fatal(err)
		}
	}
	want := []string{"op", "present", "message", "caption", "token"}

	a := demoFHJoin(t, "ca", "demofh", "opa", "pwa")
	defer leaveGroup(a)
	t.Logf("A joined:            A.permissions = %v", a.permissions)
	if !slices.Equal(a.permissions, want) {
		t.Fatalf("precondition: role op is %v, expected %v",
			a.permissions, want)
	}

	// Somebody does "shutup" on A: clientLoop runs this action.
	err := handleAction(a, changePermissionsAction{"shutup"})
	if err != nil {
		t.Fatalf("changePermissionsAction: %v", err)
	}
	t.Logf("after shutup on A:   A.permissions = %v", a.permissions)
	if slices.Contains(a.permissions, "message") {
		t.Fatalf("shutup did not remove \"message\" from A")
	}

	// A NEW operator logs in, same group and then another group.
	b := demoFHJoin(t, "cb", "demofh", "opb", "pwb")
	defer leaveGroup(b)
	t.Logf("B joined (same grp): B.permissions = %v", b.permissions)
	if !slices.Equal(b.permissions, want) {
		t.Errorf("new operator B got %v, expected role op = %v: "+
			"the shared role table was rewritten by A's shutup",
			b.permissions, want)
	}
	b2 := demoFHJoin(t, "cb2", "demofh2", "opb", "pwb")
	defer leaveGroup(b2)
	t.Logf("B joined (other grp): B.permissions = %v", b2.permissions)
	if !slices.Contains(b2.permissions, "message") {
		t.Errorf("operator of ANOTHER group got %v, lacks \"message\"",
			b2.permissions)
	}
}
