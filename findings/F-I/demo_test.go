// Demo for finding F-I: groupaction/edittoken looks the token up with
// token.Get(tok.Token) and never compares its Group with the group the
// requesting member belongs to, so an operator of group A can change the
// validity (expires / not-before) of a token that belongs to group B.
//
// Place this file at   rtpconn/zz_demo_fi_test.go   (package rtpconn) and run
//
//	export GOFLAGS=-mod=mod GOPROXY=off
//	go test -vet=off -count=1 -v -run 'TestDemoFI' ./rtpconn/
//
// Expected: FAIL on the unpatched tree (tokB's expiry was changed),
// PASS once findings/F-I/fix.diff is applied.
package rtpconn

import (
	"os"
	"path/filepath"
	"testing"
	"time"

	"github.com/jech/galene/group"
	"github.com/jech/galene/token"
	"github.com/jech/galene/unbounded"
)

func TestDemoFI_EditTokenOfAnotherGroup(t *testing.T) {
	group.Directory = t.TempDir()
	group.DataDirectory = t.TempDir()
	token.SetStatefulFilename(
		filepath.Join(group.DataDirectory, "var", "tokens.jsonl"),
	)
	defer token.SetStatefulFilename("")
	for name, desc := range map[string]string{
		"demofiA": `{"users": {"opa": {"password": "pwa", "permissions": "op"}}}`,
		"demofiB": `{"users": {"opb": {"password": "pwb", "permissions": "op"}}}`,
	} {
		err := os.WriteFile(
			filepath.Join(group.Directory, name+".json"),
			[]byte(desc), 0600,
		)
		if err != nil {
			t.Fatal(err)
		}
	}

	// Group B owns a token that expired an hour ago.
	expired := time.Now().Add(-time.Hour).UTC().Truncate(time.Second)
	_, err := token.Update(&token.Stateful{
		Token: "tokB", Group: "demofiB", Expires: &expired,
		Permissions: []string{"present"},
	}, "")
	if err != nil {
		t.Fatalf("token.Update: %v", err)
	}

	// C is an operator of group A only.
	c := &webClient{
		id:         "c1",
		actions:    unbounded.New[any](),
		done:       make(chan struct{}),
		writeCh:    make(chan interface{}, 1000),
		writerDone: make(chan struct{}),
	}
	user := "opa"
	err = handleClientMessage(c, clientMessage{
		Type: "join", Kind: "join", Group: "demofiA",
		Username: &user, Password: "pwa",
	})
	if err != nil || c.group == nil || c.group.Name() != "demofiA" {
		t.Fatalf("join: %v, group %v", err, c.group)
	}
	defer leaveGroup(c)
	t.Logf("C is in group %q with permissions %v",
		c.group.Name(), c.permissions)

	// C edits B's token: revive it for ten years.
	future := time.Now().Add(10 * 365 * 24 * time.Hour).UTC()
	err = handleClientMessage(c, clientMessage{
		Type: "groupaction", Kind: "edittoken",
		Value: map[string]interface{}{
			"token":   "tokB",
			"expires": future.Format(time.RFC3339),
		},
	})
	if err != nil {
		t.Fatalf("edittoken: %v", err)
	}
	reply, _ := (<-c.writeCh).(clientMessage)
	t.Logf("server reply: type=%v kind=%v error=%q value=%+v",
		reply.Type, reply.Kind, reply.Error, reply.Value)

	tok, _, err := token.Get("tokB")
	if err != nil {
		t.Fatalf("token.Get: %v", err)
	}
	if tok.Group != "demofiB" {
		t.Fatalf("token group is %v", tok.Group)
	}
	if tok.Expires == nil || !tok.Expires.Equal(expired) {
		t.Errorf("an operator of group %q changed the expiry of a token "+
			"of group %q: was %v, now %v",
			c.group.Name(), tok.Group, expired, tok.Expires)
	}
	if reply.Error == "" {
		t.Errorf("the request was not refused")
	}
}
