// F-J demo: group.DelClient calls autoLockKick(g) after g.mu.Unlock(),
// although autoLockKick ("called locked") reads g.description, g.locked and
// g.clients and writes g.locked.
//
// Place in the repo's group/ directory as zz_demo_fj_test.go, then run
// (the race detector is what fails the test, so -race is required):
//
//	export GOFLAGS=-mod=mod GOPROXY=off
//	go test -race -vet=off -count=1 -run TestDemoFJ_DelClientAutoLockRace ./group/
//
// Expected on the unpatched code: "WARNING: DATA RACE" reports whose stacks
// contain group.autoLockKick <- group.DelClient on one side and
// (*Group).SetLocked / (*Group).Locked on the other, then
// "testing.go:...: race detected during execution of test".
package group

import (
	"net"
	"os"
	"path/filepath"
	"sync"
	"sync/atomic"
	"testing"
	"time"

	"github.com/jech/galene/conn"
)

// fjClient is a minimal Client that never touches the group.
type fjClient struct {
	g     *Group
	id    string
	user  string
	perms []string
}

func (c *fjClient) Group() *Group                { return c.g }
func (c *fjClient) Addr() net.Addr               { return nil }
func (c *fjClient) Id() string                   { return c.id }
func (c *fjClient) Username() string             { return c.user }
func (c *fjClient) Init(u string, p []string)    { c.user, c.perms = u, p }
func (c *fjClient) Permissions() []string        { return c.perms }
func (c *fjClient) Data() map[string]interface{} { return nil }
func (c *fjClient) PushConn(*Group, string, conn.Up, []conn.UpTrack, string) error {
	return nil
}
func (c *fjClient) RequestConns(Client, *Group, string) error { return nil }
func (c *fjClient) Joined(string, string) error               { return nil }
func (c *fjClient) PushClient(string, string, string, string, []string, map[string]interface{}) error {
	return nil
}
func (c *fjClient) Kick(string, *string, string) error { return nil }

func TestDemoFJ_DelClientAutoLockRace(t *testing.T) {
	Directory = t.TempDir()
	DataDirectory = t.TempDir()
	err := os.WriteFile(filepath.Join(Directory, "fj.json"), []byte(
		`{"autolock": true,
		  "users": {"op": {"password": "pw", "permissions": "op"}}}`,
	), 0o600)
	if err != nil {
		t.Fatalf("WriteFile: %v", err)
	}
	g, err := Add("fj", nil)
	if err != nil {
		t.Fatalf("Add: %v", err)
	}

	var stop atomic.Bool
	var wg sync.WaitGroup
	wg.Add(1)
	go func() {
		// e.g. another operator's "unlock" group action, or any of
		// the many callers of g.Locked() (status page, join)
		defer wg.Done()
		for !stop.Load() {
			g.SetLocked(false, "")
			g.Locked()
		}
	}()

	opname := "op"
	op := &fjClient{g: g, id: "op-id"}
	for i := 0; i < 200; i++ {
		_, err := AddClient("fj", op,
			ClientCredentials{Username: &opname, Password: "pw"})
		if err != nil {
			t.Fatalf("AddClient(op) #%v: %v", i, err)
		}
		// last operator leaves: DelClient -> autoLockKick locks the
		// group (writes g.locked) after having released g.mu
		DelClient(op)
		// no synchronisation here (a sleep creates no happens-before
		// edge); it just leaves room for the other goroutine to run
		// before this one next touches g.mu
		time.Sleep(200 * time.Microsecond)
	}
	stop.Store(true)
	wg.Wait()
}
