// F-K demo: group.Shutdown self-deadlocks when a recording (diskwriter)
// client is a member of a group.
//
// Place in the repo's diskwriter/ directory as zz_demo_fk_test.go, then run:
//
//	export GOFLAGS=-mod=mod GOPROXY=off
//	go test -vet=off -count=1 -run TestDemoFK_ShutdownWithRecorder ./diskwriter/
//
// Path: group.Shutdown -> kickall -> (*Group).Range [holds g.mu, calls f]
// -> (*diskwriter.Client).Kick -> group.DelClient -> g.mu.Lock() (same goroutine).
// sync.Mutex is not reentrant, so Shutdown never returns.
package diskwriter

import (
	"os"
	"path/filepath"
	"runtime"
	"strings"
	"testing"
	"time"

	"github.com/jech/galene/group"
)

func TestDemoFK_ShutdownWithRecorder(t *testing.T) {
	group.Directory = t.TempDir()
	group.DataDirectory = t.TempDir()
	Directory = t.TempDir()

	err := os.WriteFile(
		filepath.Join(group.Directory, "fk.json"),
		[]byte(`{"users": {"op": {"password": "pw", "permissions": "op"}}}`),
		0o600,
	)
	if err != nil {
		t.Fatalf("WriteFile: %v", err)
	}

	g, err := group.Add("fk", nil)
	if err != nil {
		t.Fatalf("group.Add: %v", err)
	}

	// exactly what webclient.go does for the "record" group action
	disk, err := New(g)
	if err != nil {
		t.Fatalf("diskwriter.New: %v", err)
	}
	_, err = group.AddClient(
		g.Name(), disk, group.ClientCredentials{System: true},
	)
	if err != nil {
		t.Fatalf("AddClient(recorder): %v", err)
	}
	if n := g.ClientCount(); n != 1 {
		t.Fatalf("expected 1 client, got %v", n)
	}

	done := make(chan struct{})
	go func() {
		// what galene.go does on SIGINT/SIGTERM
		group.Shutdown("server is shutting down")
		close(done)
	}()

	select {
	case <-done:
	case <-time.After(3 * time.Second):
		buf := make([]byte, 1<<20)
		buf = buf[:runtime.Stack(buf, true)]
		for _, gr := range strings.Split(string(buf), "\n\n") {
			if strings.Contains(gr, "group.Shutdown") {
				t.Logf("blocked goroutine:\n%s", gr)
			}
		}
		t.Fatalf("DEADLOCK: group.Shutdown did not return within 3s " +
			"(Range holds g.mu while diskwriter.Client.Kick " +
			"calls group.DelClient, which locks g.mu again)")
	}

	if n := g.ClientCount(); n != 0 {
		t.Errorf("after Shutdown: expected 0 clients, got %v", n)
	}
	if locked, _ := g.Locked(); !locked {
		t.Errorf("after Shutdown: group is not locked")
	}
}
