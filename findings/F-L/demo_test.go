// F-L demo: ABBA deadlock between (*rtpconn.WhipClient).Close and
// group.AddClient.
//
// Place in the repo's rtpconn/ directory as zz_demo_fl_test.go, then run:
//
//	export GOFLAGS=-mod=mod GOPROXY=off
//	go test -vet=off -count=1 -run TestDemoFL_WhipCloseVsAddClient ./rtpconn/
//
// Goroutine A: WhipClient.Close   holds W.mu (deferred unlock) -> group.DelClient wants g.mu
// Goroutine B: group.AddClient(X) holds g.mu -> W.Permissions() wants W.mu
// The interleaving is forced by the joining client X, whose Permissions()
// (called by AddClient right after it took g.mu) starts W.Close() and waits
// long enough for it to take W.mu and block on g.mu.
package rtpconn

import (
	"net"
	"os"
	"path/filepath"
	"runtime"
	"strings"
	"sync"
	"testing"
	"time"

	"github.com/jech/galene/conn"
	"github.com/jech/galene/group"
)

// flClient is a minimal group.Client; hook runs once, from Permissions().
type flClient struct {
	g     *group.Group
	once  sync.Once
	hook  func()
	user  string
	perms []string
}

func (c *flClient) Group() *group.Group          { return c.g }
func (c *flClient) Addr() net.Addr               { return nil }
func (c *flClient) Id() string                   { return "x-id" }
func (c *flClient) Username() string             { return c.user }
func (c *flClient) Init(u string, p []string)    { c.user, c.perms = u, p }
func (c *flClient) Data() map[string]interface{} { return nil }
func (c *flClient) Permissions() []string {
	c.once.Do(c.hook)
	return c.perms
}
func (c *flClient) PushConn(*group.Group, string, conn.Up, []conn.UpTrack, string) error {
	return nil
}
func (c *flClient) RequestConns(group.Client, *group.Group, string) error { return nil }
func (c *flClient) Joined(string, string) error                           { return nil }
func (c *flClient) PushClient(string, string, string, string, []string, map[string]interface{}) error {
	return nil
}
func (c *flClient) Kick(string, *string, string) error { return nil }

func TestDemoFL_WhipCloseVsAddClient(t *testing.T) {
	group.Directory = t.TempDir()
	group.DataDirectory = t.TempDir()
	err := os.WriteFile(filepath.Join(group.Directory, "fl.json"), []byte(
		`{"users": {"w": {"password": "pw", "permissions": "present"},
		            "x": {"password": "pw", "permissions": "present"}}}`,
	), 0o600)
	if err != nil {
		t.Fatalf("WriteFile: %v", err)
	}
	g, err := group.Add("fl", nil)
	if err != nil {
		t.Fatalf("group.Add: %v", err)
	}

	wname, xname := "w", "x"
	w := NewWhipClient(g, "whip-id", "", nil)
	_, err = group.AddClient("fl", w,
		group.ClientCredentials{Username: &wname, Password: "pw"})
	if err != nil {
		t.Fatalf("AddClient(whip): %v", err)
	}

	closed := make(chan struct{})
	x := &flClient{g: g}
	x.hook = func() { // runs inside AddClient, with g.mu held
		go func() {
			w.Close() // e.g. WHIP DELETE, or ICE failure callback
			close(closed)
		}()
		time.Sleep(200 * time.Millisecond)
	}

	added := make(chan error, 1)
	go func() {
		_, err := group.AddClient("fl", x,
			group.ClientCredentials{Username: &xname, Password: "pw"})
		added <- err
	}()

	timeout := time.After(3 * time.Second)
	for added != nil || closed != nil {
		select {
		case err := <-added:
			if err != nil {
				t.Fatalf("AddClient(x): %v", err)
			}
			added = nil
		case <-closed:
			closed = nil
		case <-timeout:
			buf := make([]byte, 1<<20)
			buf = buf[:runtime.Stack(buf, true)]
			for _, gr := range strings.Split(string(buf), "\n\n") {
				if strings.Contains(gr, "WhipClient") {
					t.Logf("blocked goroutine:\n%s", gr)
				}
			}
			t.Fatalf("DEADLOCK after 3s: AddClient returned=%v, "+
				"WhipClient.Close returned=%v",
				added == nil, closed == nil)
		}
	}
	if n := g.ClientCount(); n != 1 {
		t.Errorf("expected 1 client (x) left, got %v", n)
	}
}
