// F-M demo: group.GetDescription reads g.description without holding g.mu,
// while group.add (reached from group.Add(name, nil), i.e. from every
// AddClient and from the periodic group.Update) replaces g.description
// under g.mu when the group's JSON file has changed on disk.
//
// Place in the repo's group/ directory as zz_demo_fm_test.go, then run
// (the race detector is what fails the test, so -race is required):
//
//	export GOFLAGS=-mod=mod GOPROXY=off
//	go test -race -vet=off -count=1 -run TestDemoFM_GetDescriptionRace ./group/
//
// Expected on the unpatched code: "WARNING: DATA RACE" with
// group.GetDescription (description.go:299/300) on the read side and
// group.add (group.go:514) on the write side, then
// "testing.go:...: race detected during execution of test".
package group

import (
	"fmt"
	"os"
	"path/filepath"
	"strings"
	"sync"
	"sync/atomic"
	"testing"
)

func TestDemoFM_GetDescriptionRace(t *testing.T) {
	Directory = t.TempDir()
	DataDirectory = t.TempDir()
	scratch := t.TempDir()
	fileName := filepath.Join(Directory, "fm.json")

	// replace the group definition atomically (write + rename), as an
	// administrator's editor or galenectl would; every version has a
	// different size so that descriptionUnchanged notices the change
	// even if the mtime granularity is coarse
	rewrite := func(i int) {
		tmp := filepath.Join(scratch, "fm.json.tmp")
		data := fmt.Sprintf(
			`{"displayName": "v%d", "comment": "%s"}`,
			i, strings.Repeat("x", i%64),
		)
		if err := os.WriteFile(tmp, []byte(data), 0o600); err != nil {
			t.Errorf("WriteFile: %v", err)
			return
		}
		if err := os.Rename(tmp, fileName); err != nil {
			t.Errorf("Rename: %v", err)
		}
	}

	rewrite(0)
	if _, err := Add("fm", nil); err != nil {
		t.Fatalf("Add: %v", err)
	}

	var stop atomic.Bool
	var wg sync.WaitGroup
	wg.Add(1)
	go func() {
		// e.g. the web server's group status / API handlers
		defer wg.Done()
		for !stop.Load() {
			desc, err := GetDescription("fm")
			if err != nil {
				t.Errorf("GetDescription: %v", err)
				return
			}
			_ = desc.DisplayName
		}
	}()

	for i := 1; i <= 500; i++ {
		rewrite(i)
		// what AddClient and the periodic group.Update() do; re-reads
		// the file and stores the new *Description into g.description
		g, err := Add("fm", nil)
		if err != nil {
			t.Fatalf("Add #%v: %v", i, err)
		}
		want := fmt.Sprintf("v%d", i)
		if got := g.Description().DisplayName; got != want {
			t.Fatalf("description not reloaded: got %q, want %q",
				got, want)
		}
	}
	stop.Store(true)
	wg.Wait()
}
