package rtpconn

// Demonstration: the OnTrack callback registered by newUpConn
// (rtpconn/rtpconn.go:667-690) dereferences c.Group() after the client has
// left its group, which kills the whole server process.
//
// Place this file in rtpconn/ (package rtpconn, internal test) and run
//
//     go test -vet=off -count=1 -run 'TestDemoFP' -v ./rtpconn/
//
// On the unpatched tree both tests FAIL: the server, run in a child
// process, dies with a nil pointer dereference in newUpConn.func1
// (rtpconn.go:689).  With the nil check in the callback both PASS.
//
//   - TestDemoFPOnTrackAfterLeave forces the fatal schedule, from test code
//     only, and is deterministic;
//   - TestDemoFPUnforced does not influence the server's schedule at all: a
//     client publishes and leaves at about the same time, again and again,
//     until the server dies (typically within a few dozen iterations).
//
// The tests drive the real server code (StartClient behind a real
// websocket) with a real pion publisher sending RTP over ICE/DTLS/SRTP on the
// machine's non-loopback interface.  No non-test source file is modified.
// See README.md for the schedule and for how it is forced.

import (
	"bytes"
	"fmt"
	"net"
	"net/http"
	"net/http/httptest"
	"os"
	"os/exec"
	"path/filepath"
	"regexp"
	"runtime"
	"strconv"
	"strings"
	"sync"
	"testing"
	"time"

	"github.com/gorilla/websocket"
	"github.com/pion/rtp"
	"github.com/pion/webrtc/v4"

	"github.com/jech/galene/group"
)

// ---------------------------------------------------------------------
// a tiny end-to-end harness: real StartClient behind a real websocket,
// pion publisher.
// ---------------------------------------------------------------------

const fpGroup = `{
    "users": {"boss": {"password": "secret", "permissions": "op"}},
    "wildcard-user": {"password": {"type": "wildcard"}, "permissions": "present"}
}`

func fpServer(t *testing.T, groups ...string) string {
	t.Helper()
	dir := t.TempDir()
	group.Directory = dir
	group.DataDirectory = t.TempDir()
	for _, g := range groups {
		err := os.WriteFile(
			filepath.Join(dir, g+".json"), []byte(fpGroup), 0o600,
		)
		if err != nil {
			t.Fatal(err)
		}
	}
	up := websocket.Upgrader{}
	srv := httptest.NewServer(http.HandlerFunc(
		func(w http.ResponseWriter, r *http.Request) {
			conn, err := up.Upgrade(w, r, nil)
			if err != nil {
				return
			}
			addr, _ := net.ResolveTCPAddr("tcp", r.RemoteAddr)
			go StartClient(conn, addr)
		},
	))
	t.Cleanup(srv.Close)
	return "ws" + strings.TrimPrefix(srv.URL, "http")
}

type fpClient struct {
	t        *testing.T
	id, name string
	ws       *websocket.Conn
	wmu      sync.Mutex

	mu   sync.Mutex
	msgs []clientMessage
}

func fpDial(t *testing.T, url, id, name string) *fpClient {
	t.Helper()
	ws, _, err := websocket.DefaultDialer.Dial(url, nil)
	if err != nil {
		t.Fatal(err)
	}
	c := &fpClient{t: t, id: id, name: name, ws: ws}
	t.Cleanup(func() { ws.Close() })
	go func() {
		for {
			var m clientMessage
			err := ws.ReadJSON(&m)
			if err != nil {
				return
			}
			if m.Type == "ping" {
				c.send(clientMessage{Type: "pong"})
				continue
			}
			c.mu.Lock()
			c.msgs = append(c.msgs, m)
			c.mu.Unlock()
		}
	}()
	c.send(clientMessage{
		Type: "handshake", Version: []string{"2"}, Id: id,
	})
	c.wait("handshake", 0, func(m clientMessage) bool {
		return m.Type == "handshake"
	})
	return c
}

func (c *fpClient) send(m clientMessage) {
	c.wmu.Lock()
	defer c.wmu.Unlock()
	err := c.ws.WriteJSON(m)
	if err != nil {
		c.t.Logf("%v: write: %v", c.id, err)
	}
}

func (c *fpClient) snapshot() []clientMessage {
	c.mu.Lock()
	defer c.mu.Unlock()
	return append([]clientMessage(nil), c.msgs...)
}

// find waits up to d for a message at index >= from satisfying f.
func (c *fpClient) find(from int, d time.Duration, f func(clientMessage) bool) (int, *clientMessage) {
	deadline := time.Now().Add(d)
	for {
		ms := c.snapshot()
		for i := from; i < len(ms); i++ {
			if f(ms[i]) {
				return i, &ms[i]
			}
		}
		if time.Now().After(deadline) {
			return -1, nil
		}
		time.Sleep(2 * time.Millisecond)
	}
}

func (c *fpClient) wait(what string, from int, f func(clientMessage) bool) (int, clientMessage) {
	c.t.Helper()
	i, m := c.find(from, 10*time.Second, f)
	if m == nil {
		c.t.Fatalf("%v: timed out waiting for %v", c.id, what)
	}
	return i, *m
}

func (c *fpClient) join(g string) {
	c.t.Helper()
	n := len(c.snapshot())
	name := c.name
	c.send(clientMessage{
		Type: "join", Kind: "join", Group: g,
		Username: &name, Password: "",
	})
	_, m := c.wait("joined", n, func(m clientMessage) bool {
		return m.Type == "joined"
	})
	if m.Kind != "join" {
		c.t.Fatalf("%v: join failed: %v %v", c.id, m.Kind, m.Value)
	}
}

// server returns the server-side object for this client (white-box peek,
// used only to find the mutex that the schedule is forced with).
func (c *fpClient) server(g string) *webClient {
	gg := group.Get(g)
	if gg == nil {
		return nil
	}
	cc, _ := gg.GetClient(c.id).(*webClient)
	return cc
}

type fpPub struct {
	c      *fpClient
	id     string
	pc     *webrtc.PeerConnection
	tracks []*webrtc.TrackLocalStaticRTP
	stop   chan struct{}
	once   sync.Once
}

// publish offers a stream with one track per entry of kinds ("audio" or
// "video") and completes the offer/answer exchange.  No RTP is sent until
// start is called.
func (c *fpClient) publish(id, label string, kinds ...string) *fpPub {
	t := c.t
	t.Helper()
	pc, err := webrtc.NewPeerConnection(webrtc.Configuration{})
	if err != nil {
		t.Fatal(err)
	}
	p := &fpPub{c: c, id: id, pc: pc, stop: make(chan struct{})}
	t.Cleanup(p.close)
	for i, k := range kinds {
		codec := webrtc.RTPCodecCapability{
			MimeType: webrtc.MimeTypeOpus, ClockRate: 48000, Channels: 2,
		}
		if k == "video" {
			codec = webrtc.RTPCodecCapability{
				MimeType: webrtc.MimeTypeVP8, ClockRate: 90000,
			}
		}
		tr, err := webrtc.NewTrackLocalStaticRTP(
			codec, fmt.Sprintf("%v%v", k, i), "stream-"+id,
		)
		if err != nil {
			t.Fatal(err)
		}
		_, err = pc.AddTransceiverFromTrack(tr, webrtc.RTPTransceiverInit{
			Direction: webrtc.RTPTransceiverDirectionSendonly,
		})
		if err != nil {
			t.Fatal(err)
		}
		p.tracks = append(p.tracks, tr)
	}
	offer, err := pc.CreateOffer(nil)
	if err != nil {
		t.Fatal(err)
	}
	gathered := webrtc.GatheringCompletePromise(pc)
	if err := pc.SetLocalDescription(offer); err != nil {
		t.Fatal(err)
	}
	<-gathered
	n := len(c.snapshot())
	name := c.name
	c.send(clientMessage{
		Type: "offer", Id: id, Label: label,
		Source: c.id, Username: &name,
		SDP: pc.LocalDescription().SDP,
	})
	_, m := c.wait("answer "+id, n, func(m clientMessage) bool {
		return (m.Type == "answer" || m.Type == "abort") && m.Id == id
	})
	if m.Type != "answer" {
		t.Fatalf("offer %v was refused", id)
	}
	err = pc.SetRemoteDescription(webrtc.SessionDescription{
		Type: webrtc.SDPTypeAnswer, SDP: m.SDP,
	})
	if err != nil {
		t.Fatal(err)
	}
	// the server trickles its candidates
	go func() {
		from := n
		for {
			select {
			case <-p.stop:
				return
			default:
			}
			i, m := c.find(from, 50*time.Millisecond,
				func(m clientMessage) bool {
					return m.Type == "ice" && m.Id == id
				})
			if m == nil {
				continue
			}
			from = i + 1
			if m.Candidate != nil {
				pc.AddICECandidate(*m.Candidate)
			}
		}
	}()
	return p
}

// connected waits until the publisher's peer connection is up.
func (p *fpPub) connected() {
	deadline := time.Now().Add(10 * time.Second)
	for p.pc.ConnectionState() != webrtc.PeerConnectionStateConnected {
		if time.Now().After(deadline) {
			p.c.t.Fatalf("publisher %v: not connected (%v)",
				p.id, p.pc.ConnectionState())
		}
		time.Sleep(2 * time.Millisecond)
	}
}

// sendOne sends one RTP packet on every track.
func (p *fpPub) sendOne(seqno uint16) {
	for _, tr := range p.tracks {
		payload := []byte{0xf8, 0xff, 0xfe}
		if tr.Kind() == webrtc.RTPCodecTypeVideo {
			// VP8: start of partition, key frame
			payload = []byte{
				0x10, 0x00, 0x00, 0x00,
				0x9d, 0x01, 0x2a, 0x10, 0x00, 0x10, 0x00,
			}
		}
		tr.WriteRTP(&rtp.Packet{
			Header: rtp.Header{
				Version:        2,
				Marker:         true,
				SequenceNumber: seqno,
				Timestamp:      uint32(seqno) * 960,
			},
			Payload: payload,
		})
	}
}

// start starts sending RTP on all tracks, one packet every 20ms.
func (p *fpPub) start() {
	go func() {
		var seqno uint16
		ticker := time.NewTicker(20 * time.Millisecond)
		defer ticker.Stop()
		for {
			seqno++
			p.sendOne(seqno)
			select {
			case <-p.stop:
				return
			case <-ticker.C:
			}
		}
	}()
}

func (p *fpPub) close() {
	p.once.Do(func() {
		close(p.stop)
		p.pc.Close()
	})
}

// ---------------------------------------------------------------------
// schedule control
// ---------------------------------------------------------------------

var fpT0 = time.Now()

func fpLogf(format string, args ...any) {
	fmt.Printf("DEMO-FP: [%7.1fms] %s\n",
		float64(time.Since(fpT0).Microseconds())/1000,
		fmt.Sprintf(format, args...))
}

// fpGoroutines returns the stack of every goroutine, one string each.
func fpGoroutines() []string {
	buf := make([]byte, 1<<20)
	for {
		n := runtime.Stack(buf, true)
		if n < len(buf) {
			buf = buf[:n]
			break
		}
		buf = make([]byte, 2*len(buf))
	}
	return strings.Split(string(buf), "\n\n")
}

// fpFind returns the stacks of the goroutines whose stack contains all of
// the strings in all and none of the strings in none.
func fpFind(all []string, none []string) []string {
	var r []string
outer:
	for _, g := range fpGoroutines() {
		for _, s := range all {
			if !strings.Contains(g, s) {
				continue outer
			}
		}
		for _, s := range none {
			if strings.Contains(g, s) {
				continue outer
			}
		}
		r = append(r, g)
	}
	return r
}

// the header of a goroutine that is parked in sync.Mutex.Lock
const fpParked = "[sync.Mutex.Lock"

func fpWaitFor(d time.Duration, f func() bool) bool {
	deadline := time.Now().Add(d)
	for {
		if f() {
			return true
		}
		if time.Now().After(deadline) {
			return false
		}
		time.Sleep(time.Millisecond)
	}
}

// a server goroutine counts as parked in Lock once its goroutine header says
// so; we then let it age past sync.Mutex's 1ms starvation threshold, so that
// it keeps the mutex in starvation (strict FIFO hand-off) mode when its turn
// comes.
const fpAge = 5 * time.Millisecond

// fpSpacer is a test goroutine that queues on a mutex and, once it owns
// it, holds it until released.  Spacers are what the test uses to hold a
// server goroutine at an up.mu.Lock() call for as long as it wishes: a
// goroutine that is queued behind a spacer on a mutex in starvation mode
// cannot proceed until the spacer releases the mutex (sync.Mutex hands the
// mutex to waiters in FIFO order in that mode).
type fpSpacer struct {
	name     string
	acquired chan struct{}
	release  chan struct{}
}

func fpSpacerBody(mu *sync.Mutex, s *fpSpacer) {
	mu.Lock()
	close(s.acquired)
	<-s.release
	mu.Unlock()
}

// fpNewSpacer starts a spacer and waits until it is parked in mu.Lock().
func fpNewSpacer(name string, mu *sync.Mutex) (*fpSpacer, error) {
	s := &fpSpacer{
		name:     name,
		acquired: make(chan struct{}),
		release:  make(chan struct{}),
	}
	parked := func() int {
		return len(fpFind([]string{"fpSpacerBody(", fpParked}, nil))
	}
	n := parked()
	go fpSpacerBody(mu, s)
	ok := fpWaitFor(2*time.Second, func() bool {
		return parked() == n+1
	})
	if !ok {
		return nil, fmt.Errorf("spacer %v did not park", name)
	}
	time.Sleep(fpAge)
	return s, nil
}

func (s *fpSpacer) owns() bool {
	select {
	case <-s.acquired:
		return true
	default:
		return false
	}
}

func (s *fpSpacer) waitOwns() error {
	select {
	case <-s.acquired:
		return nil
	case <-time.After(5 * time.Second):
		return fmt.Errorf("spacer %v never got the mutex", s.name)
	}
}

// pass releases the mutex (which must be owned by s) and so lets the next
// goroutines in the queue through, up to the next spacer.
func (s *fpSpacer) pass() {
	close(s.release)
}

// ---------------------------------------------------------------------
// the child: runs the server and the forced schedule, may die
// ---------------------------------------------------------------------

const fpChildEnv = "GALENE_DEMO_FP_CHILD"

// TestDemoFPChild is the body of the demonstration.  It runs in a child
// process because the defect kills the process.  It is a no-op unless
// started by TestDemoFPOnTrackAfterLeave.
func TestDemoFPChild(t *testing.T) {
	mode := os.Getenv(fpChildEnv)
	if mode == "" {
		t.Skip("helper for TestDemoFPOnTrackAfterLeave")
	}
	if strings.HasPrefix(mode, "unforced:") {
		fpUnforced(t, strings.TrimPrefix(mode, "unforced:"))
		return
	}
	err := fpForced(t, mode)
	if err == nil {
		return
	}
	// not a verdict about the server: the test failed to set up its
	// schedule (the parent retries)
	fmt.Printf("DEMO-FP: SCHEDULE-NOT-REACHED: %v\n", err)
}

// fpForced runs the following schedule against the real server, with a real
// publisher.  G1 is the pion goroutine running the OnTrack callback
// (rtpconn.go:667-690); G2 is the client's own goroutine (clientLoop)
// running leaveGroup (webclient.go:1313-1334).
//
//	G2  leaveGroup -> delUpConn("s1"):  removes s1 from c.up,
//	    is about to set conn.closed (webclient.go:233)
//	    [publisher's first RTP packet arrives; pion starts G1]
//	G1  enters the OnTrack callback, is about to lock up.mu (rtpconn.go:668)
//	G2  conn.closed = true; conn.pc.Close() (does not wait for G1);
//	    group.DelClient(c); c.group = nil (webclient.go:1333); returns
//	G1  runs the body of the callback, reaches rtpconn.go:689:
//	    c.Group() is nil; c.Group().GetClients(c) dereferences it.
//
// G1 and G2 are held at their up.mu.Lock() calls by making them queue behind
// test goroutines ("spacers") on up.mu.
func fpForced(t *testing.T, mode string) error {
	url := fpServer(t, "demo")
	p := fpDial(t, url, "p-id", "paula")
	p.join("demo")

	offered := time.Now()
	s1 := p.publish("s1", "camera", "audio")
	s1.connected()
	// let the delayed push scheduled at offer time (rtpconn.go:692)
	// fire, so that it does not take part in what follows
	if d := 400*time.Millisecond - time.Since(offered); d > 0 {
		time.Sleep(d)
	}
	ps := p.server("demo")
	if ps == nil {
		t.Fatal("cannot find paula on the server")
	}
	up := getUpConn(ps, "s1")
	if up == nil {
		t.Fatal("cannot find s1 on the server")
	}
	if n := len(up.getTracks()); n != 0 {
		t.Fatalf("s1 has %v tracks before any RTP was sent", n)
	}
	fpLogf("paula has joined and published s1 (audio); " +
		"ICE/DTLS are up; no RTP sent yet")

	// Put up.mu into starvation mode, owned by this goroutine:
	// the waiter w1 is woken by Unlock, finds the mutex taken again
	// after having waited for more than 1ms, and therefore switches
	// the mutex to starvation mode (sync/mutex.go).
	mu := &up.mu
	var w1 *fpSpacer
	for i := 0; ; i++ {
		if i >= 20 {
			return fmt.Errorf("could not retake up.mu")
		}
		var err error
		mu.Lock()
		w1, err = fpNewSpacer("w1", mu)
		if err != nil {
			mu.Unlock()
			return err
		}
		mu.Unlock()
		if mu.TryLock() {
			break
		}
		// w1 was too fast for us, start again
		if err := w1.waitOwns(); err != nil {
			return err
		}
		w1.pass()
	}
	time.Sleep(fpAge)
	if w1.owns() {
		return fmt.Errorf("w1 owns the mutex early")
	}
	// from now on, up.mu is passed from hand to hand in FIFO order.
	// Queue: [w1]

	// G2: paula leaves.
	nmsg := len(p.snapshot())
	switch mode {
	case "leave":
		p.send(clientMessage{
			Type: "join", Kind: "leave", Group: "demo",
		})
		fpLogf("paula has sent join/leave")
	case "disconnect":
		p.ws.Close()
		fpLogf("paula has closed her websocket")
	default:
		t.Fatalf("unknown mode %v", mode)
	}
	g2a := []string{
		"rtpconn.leaveGroup(", "rtpconn.delUpConn(",
		"getReplace(", fpParked,
	}
	if !fpWaitFor(5*time.Second, func() bool {
		return len(fpFind(g2a, nil)) == 1
	}) {
		return fmt.Errorf("G2 did not reach getReplace")
	}
	time.Sleep(fpAge)
	fpLogf("G2 (leaveGroup) is parked in delUpConn -> getReplace " +
		"(webclient.go:227)")
	// Queue: [w1, G2]
	w3, err := fpNewSpacer("w3", mu)
	if err != nil {
		return err
	}
	w4, err := fpNewSpacer("w4", mu)
	if err != nil {
		return err
	}
	// Queue: [w1, G2, w3, w4]
	mu.Unlock()
	if err := w1.waitOwns(); err != nil {
		return err
	}
	w1.pass()
	// G2 goes through getReplace, w3 gets the mutex
	if err := w3.waitOwns(); err != nil {
		return err
	}
	if w4.owns() {
		return fmt.Errorf("w4 owns the mutex early")
	}
	g2b := []string{
		"rtpconn.leaveGroup(", "rtpconn.delUpConn(", fpParked,
	}
	if !fpWaitFor(5*time.Second, func() bool {
		return len(fpFind(g2b, []string{"getReplace("})) == 1
	}) {
		return fmt.Errorf("G2 did not reach conn.mu.Lock")
	}
	time.Sleep(fpAge)
	fpLogf("G2 (leaveGroup) has removed s1 from c.up and is parked in " +
		"delUpConn at conn.mu.Lock() (webclient.go:233), " +
		"just before conn.pc.Close()")
	// Queue: [w4, G2]
	w5, err := fpNewSpacer("w5", mu)
	if err != nil {
		return err
	}
	// Queue: [w4, G2, w5]

	// The peer connection is still open.  The publisher's media starts
	// flowing: pion calls the OnTrack callback in a new goroutine, G1.
	s1.start()
	fpLogf("publisher has started sending RTP")
	g1 := []string{"rtpconn.newUpConn.func1(", fpParked}
	if !fpWaitFor(5*time.Second, func() bool {
		return len(fpFind(g1, nil)) == 1
	}) {
		return fmt.Errorf("G1 did not reach up.mu.Lock")
	}
	time.Sleep(fpAge)
	fpLogf("G1 (OnTrack callback) is parked at up.mu.Lock() " +
		"(rtpconn.go:668)")
	// Queue: [w4, G2, w5, G1]

	// Let G2 (only) proceed.
	w3.pass()
	if err := w4.waitOwns(); err != nil {
		return err
	}
	if w5.owns() {
		return fmt.Errorf("w5 owns the mutex early")
	}
	w4.pass()
	if err := w5.waitOwns(); err != nil {
		return err
	}
	// Queue: [G1]; w5 owns the mutex; G2 is running
	// conn.pc.Close() and the rest of leaveGroup.
	switch mode {
	case "leave":
		// the server's reply to join/leave is queued by
		// group.DelClient and written by clientLoop after
		// leaveGroup has returned.
		i, _ := p.find(nmsg, 10*time.Second,
			func(m clientMessage) bool {
				return m.Type == "joined" && m.Kind == "leave"
			})
		if i < 0 {
			return fmt.Errorf("leaveGroup did not complete")
		}
		fpLogf("paula has received joined/leave")
	}
	if !fpWaitFor(10*time.Second, func() bool {
		return len(fpFind([]string{"rtpconn.leaveGroup("}, nil)) == 0 &&
			group.Get("demo").GetClient("p-id") == nil
	}) {
		return fmt.Errorf("leaveGroup did not complete")
	}
	fpLogf("G2: leaveGroup has returned (pc closed, client deleted " +
		"from group, c.group = nil)")

	gs := fpFind(g1, nil)
	if len(gs) != 1 {
		return fmt.Errorf("G1 is not parked any more")
	}
	fpLogf("G1 is still where it was:\n%v", gs[0])

	// Let G1 proceed.
	fpLogf("letting G1 proceed")
	w5.pass()

	// If the server survives, the callback has appended its track at
	// rtpconn.go:681, and has had ample time to get through
	// rtpconn.go:689.
	if !fpWaitFor(5*time.Second, func() bool {
		return len(up.getTracks()) == 1
	}) {
		t.Errorf("G1 did not run?")
		return nil
	}
	time.Sleep(500 * time.Millisecond)
	if len(fpFind([]string{"rtpconn.newUpConn.func1("}, nil)) != 0 {
		t.Errorf("G1 is still running?")
		return nil
	}
	fpLogf("OK: the OnTrack callback ran to completion after " +
		"leaveGroup had returned, and the server is still alive")
	return nil
}

// ---------------------------------------------------------------------
// the parent
// ---------------------------------------------------------------------

var fpPanicRE = regexp.MustCompile(
	`invalid memory address or nil pointer dereference`,
)

// fpExcerpt returns the panic message and the stack of the panicking
// goroutine.
func fpExcerpt(out []byte) string {
	i := bytes.Index(out, []byte("panic: "))
	if i < 0 {
		return string(out)
	}
	out = out[i:]
	j := bytes.Index(out, []byte("\n\ngoroutine "))
	if j >= 0 {
		k := bytes.Index(out[j+2:], []byte("\n\n"))
		if k >= 0 {
			out = out[:j+2+k]
		}
	}
	return string(out)
}

func fpTrace(out []byte) string {
	var b strings.Builder
	keep := false
	for _, l := range strings.Split(string(out), "\n") {
		if strings.HasPrefix(l, "DEMO-FP:") {
			keep = strings.Contains(l, "still where it was")
			b.WriteString(l + "\n")
		} else if keep && l != "" {
			b.WriteString("    " + l + "\n")
		} else {
			keep = false
		}
	}
	return b.String()
}

// fpRaces returns a summary (the two accesses) of each data race report
// in the child's output.
func fpRaces(out []byte) []string {
	var r []string
	for _, rep := range strings.Split(string(out), "WARNING: DATA RACE")[1:] {
		var b strings.Builder
		for _, l := range strings.Split(rep, "\n") {
			l = strings.TrimSpace(l)
			if l == "" {
				continue
			}
			if strings.HasPrefix(l, "Goroutine ") ||
				strings.HasPrefix(l, "=====") {
				break
			}
			if strings.HasPrefix(l, "/") {
				b.WriteString("          " + l + "\n")
			} else {
				b.WriteString("  " + l + "\n")
			}
		}
		r = append(r, "DATA RACE\n"+b.String())
	}
	return r
}

// fpRunChild runs TestDemoFPChild in a child process and returns its output.
func fpRunChild(t *testing.T, mode string) ([]byte, error) {
	cmd := exec.Command(os.Args[0],
		"-test.run=^TestDemoFPChild$", "-test.v",
		"-test.count=1", "-test.timeout=120s",
	)
	cmd.Env = append(os.Environ(), fpChildEnv+"="+mode)
	return cmd.CombinedOutput()
}

// TestDemoFPOnTrackAfterLeave: a publisher's media starts flowing at the
// moment she leaves the group (subtest leave) or disconnects (subtest
// disconnect).  The server must survive.
func TestDemoFPOnTrackAfterLeave(t *testing.T) {
	if os.Getenv(fpChildEnv) != "" {
		t.Skip("in child")
	}
	attempts := 3
	if s := os.Getenv("GALENE_DEMO_FP_ATTEMPTS"); s != "" {
		attempts, _ = strconv.Atoi(s)
	}
	for _, mode := range []string{"leave", "disconnect"} {
		t.Run(mode, func(t *testing.T) {
			for i := 1; i <= attempts; i++ {
				out, err := fpRunChild(t, mode)
				t.Logf("attempt %v: child: %v\n%v",
					i, err, fpTrace(out))
				if fpPanicRE.Match(out) {
					t.Fatalf("the server process died in "+
						"the OnTrack callback:\n\n%v\n%v",
						fpExcerpt(out), strings.Join(
							fpRaces(out), "\n"))
				}
				if bytes.Contains(out,
					[]byte("SCHEDULE-NOT-REACHED")) {
					continue
				}
				ok := bytes.Contains(out, []byte("] OK: "))
				races := fpRaces(out)
				if ok && len(races) > 0 {
					// only under go test -race.  This
					// test is about the crash; the
					// race is reported as a note.
					t.Logf("NOTE: the server survived, "+
						"but the race detector "+
						"reported:\n%v",
						strings.Join(races, "\n"))
					return
				}
				if err != nil {
					t.Fatalf("child failed otherwise:\n%s",
						out)
				}
				if !ok {
					t.Fatalf("unexpected output:\n%s", out)
				}
				return
			}
			t.Fatalf("could not set up the schedule "+
				"in %v attempts", attempts)
		})
	}
}

// ---------------------------------------------------------------------
// the same scenario with no schedule control at all
// ---------------------------------------------------------------------

// fpUnforced: again and again, a client joins, publishes a stream with four
// tracks, and leaves (even iterations) or disconnects (odd iterations) at
// about the time her first RTP packets reach the server.  Nothing is done to
// influence the server's schedule, except possibly for GOMAXPROCS.
// spec is iterations[:gomaxprocs].
func fpUnforced(t *testing.T, spec string) {
	f := strings.Split(spec, ":")
	n, _ := strconv.Atoi(f[0])
	if len(f) > 1 {
		procs, _ := strconv.Atoi(f[1])
		if procs > 0 {
			runtime.GOMAXPROCS(procs)
		}
	}
	url := fpServer(t, "demo")
	for i := 0; i < n; i++ {
		id := fmt.Sprintf("p%v", i)
		p := fpDial(t, url, id, id)
		p.join("demo")
		s := p.publish("s", "camera",
			"audio", "video", "audio", "video")
		s.connected()
		// delay between the first RTP packets and the
		// departure: -500us .. +1500us
		d := time.Duration(i/2%21-5) * 100 * time.Microsecond
		depart := func() {
			if i%2 == 0 {
				p.send(clientMessage{
					Type: "join", Kind: "leave", Group: "demo",
				})
			} else {
				p.ws.Close()
			}
		}
		if d >= 0 {
			s.sendOne(1)
			time.Sleep(d)
			depart()
		} else {
			depart()
			time.Sleep(-d)
			s.sendOne(1)
		}
		fpWaitFor(5*time.Second, func() bool {
			return group.Get("demo").GetClient(id) == nil
		})
		time.Sleep(20 * time.Millisecond)
		s.close()
		p.ws.Close()
		fmt.Printf("DEMO-FP: iteration %v done (delay %v)\n", i, d)
	}
	fpLogf("OK: %v iterations, the server is still alive", n)
}

// TestDemoFPUnforced runs fpUnforced in a child process: 420 iterations by
// default, or what GALENE_DEMO_FP_UNFORCED=iterations[:gomaxprocs] says
// (0 skips the test).  The server must survive.  Contrary to
// TestDemoFPOnTrackAfterLeave, this test is probabilistic: nothing forces
// the fatal schedule, it merely happens sooner or later.
func TestDemoFPUnforced(t *testing.T) {
	if os.Getenv(fpChildEnv) != "" {
		t.Skip("in child")
	}
	spec := os.Getenv("GALENE_DEMO_FP_UNFORCED")
	if spec == "" {
		spec = "420"
	}
	if spec == "0" {
		t.Skip("GALENE_DEMO_FP_UNFORCED=0")
	}
	cmd := exec.Command(os.Args[0],
		"-test.run=^TestDemoFPChild$", "-test.v",
		"-test.count=1", "-test.timeout=3600s",
	)
	cmd.Env = append(os.Environ(), fpChildEnv+"=unforced:"+spec)
	out, err := cmd.CombinedOutput()
	done := bytes.Count(out, []byte("DEMO-FP: iteration "))
	races := fpRaces(out)
	t.Logf("child: %v; %v iterations completed; %v data race reports",
		err, done, len(races))
	seen := make(map[string]bool)
	for _, r := range races {
		if strings.Contains(r, "newUpConn.func1") &&
			strings.Contains(r, "leaveGroup") && !seen["x"] {
			seen["x"] = true
			t.Logf("first race report involving the OnTrack "+
				"callback and leaveGroup:\n%v", r)
		}
	}
	if fpPanicRE.Match(out) {
		t.Fatalf("the server process died after %v iterations:\n\n%v",
			done, fpExcerpt(out))
	}
	if err != nil && len(races) == 0 {
		t.Fatalf("child failed otherwise:\n%s", out)
	}
}
