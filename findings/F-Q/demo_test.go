package group

// F-Q demonstration: place in group/ as zz_demo_q_test.go and run
//   go test -vet=off -count=1 -run TestDemoFQ ./group/
// Fails on the tree before the fix (the record matches every password),
// passes after it.

import "testing"

func TestDemoFQEmptyPbkdf2Key(t *testing.T) {
	empty := ""
	// what `galenectl hash-password -type pbkdf2 -key 0` used to write
	// (a key of length 0, hex-encoded as the empty string)
	p := Password{
		Type:       "pbkdf2",
		Hash:       "sha-256",
		Key:        &empty,
		Salt:       "0102030405060708",
		Iterations: 4096,
	}
	for _, pw := range []string{"", "x", "the real password", "anything else"} {
		ok, err := p.Match(pw)
		if ok {
			t.Errorf("password %q matches a record with an empty key (err=%v)", pw, err)
		}
	}
	// and through the login path: a user entry with that record
	desc := &Description{
		Users: map[string]UserDescription{
			"alice": {Password: p, Permissions: Permissions{name: "op"}},
		},
	}
	alice := "alice"
	_, err := desc.getPasswordPermission(ClientCredentials{Username: &alice, Password: "wrong"})
	if err == nil {
		t.Errorf("alice logged in with a wrong password")
	}
}
