package group

// F-R demonstration: place in group/ as zz_demo_r_test.go and run
//   go test -vet=off -count=1 -run TestDemoFR ./group/
// Fails before the fix, passes after it.

import (
	"encoding/json"
	"testing"
)

// An entry whose password is JSON null (or the malformed {"type":"plain"}
// after one rewrite of the file) has no password: it must never match.
func TestDemoFRNullPassword(t *testing.T) {
	var d Description
	err := json.Unmarshal([]byte(`{"users":{"bob":{"password":null,"permissions":"op"}}}`), &d)
	if err != nil {
		t.Fatal(err)
	}
	bob := "bob"
	_, err = d.getPasswordPermission(ClientCredentials{Username: &bob, Password: ""})
	if err == nil {
		t.Errorf("bob (password: null) logged in as operator with the empty password")
	}

	// the malformed record is refused as it stands ...
	var p Password
	if err := json.Unmarshal([]byte(`{"type":"plain"}`), &p); err != nil {
		t.Fatal(err)
	}
	if ok, _ := p.Match(""); ok {
		t.Fatalf("a plain record without key matches")
	}
	// ... but not after the file was rewritten once
	b, err := json.Marshal(p)
	if err != nil {
		t.Fatal(err)
	}
	var q Password
	if err := json.Unmarshal(b, &q); err != nil {
		t.Fatal(err)
	}
	if ok, _ := q.Match(""); ok {
		t.Errorf("after a rewrite (%s) the keyless record accepts the empty password", b)
	}
}
