package packetmap

import "testing"

// F-T: the first packet of a stream must become the map's reference point
// whatever its sequence number.  Fails on d9f3f8d for 57344 and 60000
// (Drop refuses the next packet: m.next was never set), passes with 8b09137.
func TestFTFirstPacketSetsNext(t *testing.T) {
	for _, start := range []uint16{1000, 40000, 57343, 57344, 60000, 65534} {
		var m Map
		ok, s, _ := m.Map(start, 0)
		if !ok || s != start {
			t.Fatalf("start %v: Map = %v %v", start, ok, s)
		}
		if !m.Drop(start+1, 0) {
			t.Errorf("start %v: the packet after the first cannot be withheld", start)
		}
	}
}
