package rtpconn

import (
	"slices"
	"testing"
)

// F-U: revoking a permission must remove every occurrence of it.  A token
// (or a group file) may list a permission twice - maketoken only checks that
// the creator holds each listed permission - and the client's list is a plain
// copy of that list.  Fails on 8b09137, passes with the fix.
func TestFURevokeRemovesEveryOccurrence(t *testing.T) {
	for _, p := range []string{"message", "op", "present"} {
		l := remove(p, []string{"present", p, "caption", p})
		if slices.Contains(l, p) {
			t.Errorf("%v still held after it was revoked: %v", p, l)
		}
	}
	if l := remove("op", []string{"present", "message"}); len(l) != 2 {
		t.Errorf("remove of an absent permission changed the list: %v", l)
	}
}
