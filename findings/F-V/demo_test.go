package rtpconn

import (
	"os"
	"path/filepath"
	"slices"
	"testing"

	"github.com/jech/galene/group"
	"github.com/jech/galene/unbounded"
)

func fvClient(id string) *webClient {
	return &webClient{
		id:         id,
		actions:    unbounded.New[any](),
		done:       make(chan struct{}),
		writeCh:    make(chan interface{}, 1000),
		writerDone: make(chan struct{}),
	}
}

func fvJoin(t *testing.T, c *webClient, g, user, pw string) {
	t.Helper()
	err := handleClientMessage(c, clientMessage{
		Type: "join", Kind: "join", Group: g, Username: &user, Password: pw,
	})
	if err != nil || c.group == nil {
		t.Fatalf("join %v/%v: %v", g, user, err)
	}
}

// F-V: a permission change is queued for the target and applied by the
// target's own loop.  The queued action did not say which group it was issued
// for: a target that leaves that group and joins another one before its loop
// reaches the action (the loop selects at random between its reader and its
// action queue) has the change applied in the other group.  The operator of a
// group of one's own can thus make a second connection an operator of any
// group that connection may join.
//
// The schedule is forced here by handling the queued action by hand after the
// target's leave and join, which is one of the orders clientLoop may take.
func TestFVPermissionChangeStaysInItsGroup(t *testing.T) {
	dir := t.TempDir()
	oldDir, oldData := group.Directory, group.DataDirectory
	group.Directory, group.DataDirectory = dir, dir
	defer func() { group.Directory, group.DataDirectory = oldDir, oldData }()
	for _, g := range []string{"fv-mine", "fv-theirs"} {
		err := os.WriteFile(filepath.Join(dir, g+".json"), []byte(`{
			"users": {
				"boss":  {"password": "bosspw", "permissions": "op"},
				"guest": {"password": "guestpw", "permissions": "present"}
			}}`), 0600)
		if err != nil {
			t.Fatal(err)
		}
	}
	boss, guest := fvClient("boss-id"), fvClient("guest-id")
	fvJoin(t, boss, "fv-mine", "boss", "bosspw")
	fvJoin(t, guest, "fv-mine", "guest", "guestpw")

	// the operator of fv-mine makes guest an operator of fv-mine
	err := handleClientMessage(boss, clientMessage{
		Type: "useraction", Kind: "op", Dest: "guest-id",
	})
	if err != nil {
		t.Fatal(err)
	}
	queued := guest.actions.Get()
	var change any
	for _, a := range queued {
		if _, ok := a.(changePermissionsAction); ok {
			change = a
		}
	}
	if change == nil {
		t.Fatalf("no permission change queued: %#v", queued)
	}

	// before its loop reaches the action, guest moves to the other group
	err = handleClientMessage(guest, clientMessage{Type: "join", Kind: "leave", Group: "fv-mine"})
	if err != nil {
		t.Fatal(err)
	}
	fvJoin(t, guest, "fv-theirs", "guest", "guestpw")
	if slices.Contains(guest.permissions, "op") {
		t.Fatalf("guest joined fv-theirs as an operator: %v", guest.permissions)
	}

	err = handleAction(guest, change)
	if err != nil {
		t.Fatal(err)
	}
	if slices.Contains(guest.permissions, "op") {
		t.Errorf("a permission change issued in fv-mine made guest an operator of %v: %v",
			guest.group.Name(), guest.permissions)
	}
}
