package main

// E6 (affine part): coefficient of a symbol in an SSA value, through the
// arithmetic that is linear modulo 2^n (add, sub, negate), value-preserving
// conversions, and the bit extraction used to scatter a number over packet
// bytes (and/or/shift with constants), which preserves the sign of the
// dependency.

import (
	"go/token"
	"go/types"

	"golang.org/x/tools/go/ssa"
)

type affSym func(v ssa.Value) bool

// coeffOf returns the coefficient with which the symbol enters v (0 if v
// does not depend on it) and whether the dependency is affine/extractive.
func coeffOf(v ssa.Value, sym affSym, depth int) (int, bool) {
	if depth > 40 {
		return 0, false
	}
	if sym(v) {
		return 1, true
	}
	switch x := v.(type) {
	case *ssa.Const, *ssa.Parameter, *ssa.Global, *ssa.FreeVar, *ssa.Function, *ssa.Builtin:
		return 0, true
	case *ssa.Convert:
		return coeffOf(x.X, sym, depth+1)
	case *ssa.ChangeType:
		return coeffOf(x.X, sym, depth+1)
	case *ssa.UnOp:
		switch x.Op {
		case token.SUB:
			c, ok := coeffOf(x.X, sym, depth+1)
			return -c, ok
		case token.MUL:
			// load: through a local slot with a single store; other loads are leaves
			if al, ok := x.X.(*ssa.Alloc); ok {
				var st *ssa.Store
				n := 0
				for _, ref := range *al.Referrers() {
					if s, ok := ref.(*ssa.Store); ok && s.Addr == al {
						st = s
						n++
					}
				}
				if n == 1 {
					return coeffOf(st.Val, sym, depth+1)
				}
			}
			return 0, true
		case token.XOR, token.NOT:
			c, ok := coeffOf(x.X, sym, depth+1)
			if c != 0 {
				return 0, false
			}
			return 0, ok
		}
		return 0, true
	case *ssa.BinOp:
		cx, okx := coeffOf(x.X, sym, depth+1)
		cy, oky := coeffOf(x.Y, sym, depth+1)
		if !okx || !oky {
			return 0, false
		}
		switch x.Op {
		case token.ADD:
			return cx + cy, true
		case token.SUB:
			return cx - cy, true
		case token.AND, token.OR, token.SHL, token.SHR, token.AND_NOT:
			// extraction / packing with a constant or an independent value
			if cy == 0 {
				return cx, true
			}
			if cx == 0 && (x.Op == token.AND || x.Op == token.OR) {
				return cy, true
			}
			return 0, false
		case token.MUL:
			if cx == 0 && cy == 0 {
				return 0, true
			}
			if k, ok := x.Y.(*ssa.Const); ok && cy == 0 && k.Value != nil {
				if n, exact := constInt(k); exact {
					return cx * n, true
				}
			}
			return 0, false
		default:
			if cx == 0 && cy == 0 {
				return 0, true
			}
			return 0, false
		}
	case *ssa.Phi:
		first := true
		var c int
		for _, e := range x.Edges {
			if e == v {
				continue
			}
			ce, ok := coeffOf(e, sym, depth+1)
			if !ok {
				return 0, false
			}
			if first {
				c, first = ce, false
			} else if ce != c {
				return 0, false
			}
		}
		return c, true
	case *ssa.Extract, *ssa.Call, *ssa.Field, *ssa.FieldAddr, *ssa.IndexAddr, *ssa.Index, *ssa.Lookup, *ssa.Alloc, *ssa.MakeSlice, *ssa.Slice, *ssa.TypeAssert, *ssa.MakeInterface:
		return 0, true
	}
	return 0, true
}

func constInt(k *ssa.Const) (int, bool) {
	if k.Value == nil {
		return 0, false
	}
	if _, ok := k.Type().Underlying().(*types.Basic); !ok {
		return 0, false
	}
	return int(k.Int64()), true
}

// isLoadOfField reports whether v is a load of field f (through any base).
func isLoadOfField(v ssa.Value, f *types.Var) bool {
	for i := 0; i < 4; i++ {
		switch x := v.(type) {
		case *ssa.Convert:
			v = x.X
			continue
		case *ssa.ChangeType:
			v = x.X
			continue
		}
		break
	}
	// a field of a struct value that was loaded as a whole (e := m.entries[i]; e.first)
	if fv, ok := v.(*ssa.Field); ok {
		if st, ok := fv.X.Type().Underlying().(*types.Struct); ok && fv.Field < st.NumFields() {
			return st.Field(fv.Field).Origin() == f
		}
		return false
	}
	u, ok := v.(*ssa.UnOp)
	if !ok || u.Op != token.MUL {
		return false
	}
	fa, ok := u.X.(*ssa.FieldAddr)
	return ok && fieldOf(fa) == f
}

// storesToField lists the stores to field f in fn.
func storesToField(fn *ssa.Function, f *types.Var) []*ssa.Store {
	var out []*ssa.Store
	for _, b := range fn.Blocks {
		for _, ins := range b.Instrs {
			if st, ok := ins.(*ssa.Store); ok {
				if fa, ok := st.Addr.(*ssa.FieldAddr); ok && fieldOf(fa) == f {
					out = append(out, st)
				}
			}
		}
	}
	return out
}
