package main

import (
	"fmt"
	"go/ast"
	"go/types"
	"os"
	"sort"
)

// galint facts <pkg> <recv|-> <func> : dump the must-facts before every call.
func cmdFacts(args []string) int {
	repo := "/repo"
	if len(args) > 3 {
		repo = args[3]
	}
	p, err := Load(repo, BuildConfig{}, nil)
	if err != nil {
		fmt.Fprintln(os.Stderr, err)
		return 2
	}
	recv := args[1]
	if recv == "-" {
		recv = ""
	}
	fs := p.Func(args[0], recv, args[2])
	if fs == nil {
		fmt.Fprintln(os.Stderr, "no such function")
		return 2
	}
	dumpFacts(p, fs)
	for _, s := range p.Sources() {
		if s.Parent != nil && s.Root() == fs {
			fmt.Println("---- closure", s.Name)
			dumpFacts(p, s)
		}
	}
	return 0
}

func dumpFacts(p *Program, fs *FuncSrc) {
	ff := p.Facts().Analyze(fs)
	var calls []*ast.CallExpr
	for n := range ff.at {
		if c, ok := n.(*ast.CallExpr); ok {
			calls = append(calls, c)
		}
	}
	sort.Slice(calls, func(i, j int) bool { return calls[i].Pos() < calls[j].Pos() })
	for _, c := range calls {
		fmt.Printf("%s  %s\n    %s\n", p.PosStr(c.Pos()), types.ExprString(c.Fun), ff.at[c])
	}
	if os.Getenv("GALINT_DUMP_STMTS") != "" {
		var stmts []ast.Node
		for n := range ff.at {
			if _, ok := n.(ast.Stmt); ok {
				stmts = append(stmts, n)
			}
		}
		sort.Slice(stmts, func(i, j int) bool { return stmts[i].Pos() < stmts[j].Pos() })
		for _, n := range stmts {
			fmt.Printf("STMT %s  %T\n    %s\n", p.PosStr(n.Pos()), n, ff.at[n])
		}
	}
}

func cmdCFG(args []string) int {
	p, err := Load("/repo", BuildConfig{}, nil)
	if err != nil {
		fmt.Fprintln(os.Stderr, err)
		return 2
	}
	recv := args[1]
	if recv == "-" {
		recv = ""
	}
	fs := p.Func(args[0], recv, args[2])
	ff := p.Facts().Analyze(fs)
	fmt.Println(ff.graph.Format(p.Fset))
	for _, b := range ff.graph.Blocks {
		fmt.Println(b.Index, b.Kind, b.Live, len(b.Succs), len(b.Nodes))
	}
	return 0
}

func cmdAsserts(args []string) int {
	p, err := Load("/repo", BuildConfig{}, nil)
	if err != nil {
		fmt.Fprintln(os.Stderr, err)
		return 2
	}
	for _, fs := range p.Sources() {
		ast.Inspect(fs.Body(), func(n ast.Node) bool {
			if _, ok := n.(*ast.FuncLit); ok && n != ast.Node(fs.Lit) {
				return false
			}
			ta, ok := n.(*ast.TypeAssertExpr)
			if !ok || ta.Type == nil {
				return true
			}
			par := p.Parent(fs.File, ta)
			commaOk := false
			switch x := par.(type) {
			case *ast.AssignStmt:
				commaOk = len(x.Lhs) == 2 && len(x.Rhs) == 1
			case *ast.ValueSpec:
				commaOk = len(x.Names) == 2 && len(x.Values) == 1
			}
			if !commaOk {
				fmt.Printf("%s %s: %s  (operand type %s)\n", p.PosStr(ta.Pos()), fs.Name, types.ExprString(ta), fs.Pkg.TypesInfo.TypeOf(ta.X))
			}
			return true
		})
	}
	return 0
}

func cmdRetLen(args []string) int {
	p, err := Load("/repo", BuildConfig{}, nil)
	if err != nil {
		fmt.Fprintln(os.Stderr, err)
		return 2
	}
	var fs *FuncSrc
	if len(args) >= 3 {
		fs = p.Func(args[0], args[1], args[2])
	} else {
		fs = p.Func(args[0], "", args[1])
	}
	sf := p.SSAFunc(fs.Obj)
	ia := p.Intervals()
	fi := ia.Analyze(sf)
	for _, b := range sf.Blocks {
		for _, ins := range b.Instrs {
			if v, ok := ins.(interface {
				Name() string
				String() string
			}); ok {
				if val, isVal := ins.(interface{ Type() types.Type }); isVal {
					_ = val
				}
				_ = v
			}
			fmt.Printf("%d: %s", b.Index, ins.String())
			if v, ok := ins.(ssaValue); ok {
				if _, isInt := typeRange(v.Type(), ia.sizes); isInt {
					fmt.Printf("   => %s", fi.At(v, b))
				} else if _, isSl := v.Type().Underlying().(*types.Slice); isSl {
					fmt.Printf("   => len %s", fi.lenItv(v, b))
				}
			}
			fmt.Println()
		}
	}
	fmt.Println("retlen", ia.retLenItv(sf, 0))
	return 0
}
