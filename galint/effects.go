package main

// Mod/read summaries of module functions, computed on SSA and closed over the
// VTA call graph.  Entities are struct fields (types.Var, by origin) and
// package-level variables.

import (
	"go/token"
	"go/types"

	"golang.org/x/tools/go/ssa"
)

type Effects struct {
	p     *Program
	mods  map[*ssa.Function]map[types.Object]bool
	reads map[*ssa.Function]map[types.Object]bool
	// context-sensitive refinement for interface-typed parameters: base
	// excludes the effects of methods invoked on a parameter; pinv lists
	// those invocations so that a call site with a concrete argument type
	// only pays for that type's method.
	base map[*ssa.Function]map[types.Object]bool
	pinv map[*ssa.Function][]paramInvoke
}

type paramInvoke struct {
	idx    int // parameter index (receiver included for methods)
	method *types.Func
}

func (p *Program) Effects() *Effects {
	if p.effects != nil {
		return p.effects
	}
	e := &Effects{p: p, mods: map[*ssa.Function]map[types.Object]bool{}, reads: map[*ssa.Function]map[types.Object]bool{}}
	p.effects = e
	cg := p.CallGraph()
	var fns []*ssa.Function
	for fn := range cg.Nodes {
		if fn != nil && fn.Blocks != nil && fnInModule(fn) {
			fns = append(fns, fn)
		}
	}
	for _, fn := range fns {
		m, r := map[types.Object]bool{}, map[types.Object]bool{}
		for _, b := range fn.Blocks {
			for _, ins := range b.Instrs {
				switch i := ins.(type) {
				case *ssa.Store:
					if o := addrEntity(i.Addr); o != nil {
						m[o] = true
					}
				case *ssa.MapUpdate:
					if o := valueEntity(i.Map); o != nil {
						m[o] = true
					}
				case *ssa.UnOp:
					if i.Op == token.MUL {
						if o := addrEntity(i.X); o != nil {
							r[o] = true
						}
					}
				case *ssa.Field:
					if st, ok := i.X.Type().Underlying().(*types.Struct); ok {
						r[st.Field(i.Field).Origin()] = true
					}
				case *ssa.Call:
					if b, ok := i.Call.Value.(*ssa.Builtin); ok {
						switch b.Name() {
						case "delete", "copy", "clear":
							if len(i.Call.Args) > 0 {
								if o := valueEntity(i.Call.Args[0]); o != nil {
									m[o] = true
								}
							}
						}
					}
				}
			}
		}
		e.mods[fn], e.reads[fn] = m, r
	}
	// transitive closure (synchronous calls only)
	for changed := true; changed; {
		changed = false
		for _, fn := range fns {
			n := cg.Nodes[fn]
			for _, edge := range n.Out {
				if _, isGo := edge.Site.(*ssa.Go); isGo {
					continue
				}
				c := edge.Callee.Func
				for o := range e.mods[c] {
					if !e.mods[fn][o] {
						e.mods[fn][o] = true
						changed = true
					}
				}
				for o := range e.reads[c] {
					if !e.reads[fn][o] {
						e.reads[fn][o] = true
						changed = true
					}
				}
			}
		}
	}
	e.refine(fns)
	return e
}

func paramIndex(fn *ssa.Function, v ssa.Value) int {
	p, ok := v.(*ssa.Parameter)
	if !ok {
		return -1
	}
	for i, q := range fn.Params {
		if q == p {
			return i
		}
	}
	return -1
}

// refine computes base/pinv.
func (e *Effects) refine(fns []*ssa.Function) {
	cg := e.p.cg
	e.base = map[*ssa.Function]map[types.Object]bool{}
	e.pinv = map[*ssa.Function][]paramInvoke{}
	isPinvSite := func(fn *ssa.Function, site ssa.CallInstruction) (paramInvoke, bool) {
		if site == nil {
			return paramInvoke{}, false
		}
		cc := site.Common()
		if !cc.IsInvoke() {
			return paramInvoke{}, false
		}
		if i := paramIndex(fn, cc.Value); i >= 0 {
			return paramInvoke{i, cc.Method}, true
		}
		return paramInvoke{}, false
	}
	addPinv := func(fn *ssa.Function, pi paramInvoke) bool {
		for _, q := range e.pinv[fn] {
			if q == pi {
				return false
			}
		}
		e.pinv[fn] = append(e.pinv[fn], pi)
		return true
	}
	for _, fn := range fns {
		b := map[types.Object]bool{}
		// local stores = mods minus everything inherited; recompute locally
		for _, blk := range fn.Blocks {
			for _, ins := range blk.Instrs {
				switch i := ins.(type) {
				case *ssa.Store:
					if o := addrEntity(i.Addr); o != nil {
						b[o] = true
					}
				case *ssa.MapUpdate:
					if o := valueEntity(i.Map); o != nil {
						b[o] = true
					}
				case *ssa.Call:
					if bi, ok := i.Call.Value.(*ssa.Builtin); ok {
						switch bi.Name() {
						case "delete", "copy", "clear":
							if len(i.Call.Args) > 0 {
								if o := valueEntity(i.Call.Args[0]); o != nil {
									b[o] = true
								}
							}
						}
					}
				}
				if ci, ok := ins.(ssa.CallInstruction); ok {
					if _, isGo := ins.(*ssa.Go); !isGo {
						if pi, ok := isPinvSite(fn, ci); ok {
							addPinv(fn, pi)
						}
					}
				}
			}
		}
		e.base[fn] = b
	}
	for changed := true; changed; {
		changed = false
		for _, fn := range fns {
			n := cg.Nodes[fn]
			for _, edge := range n.Out {
				if _, isGo := edge.Site.(*ssa.Go); isGo {
					continue
				}
				if _, ok := isPinvSite(fn, edge.Site); ok {
					continue
				}
				c := edge.Callee.Func
				add := func(m map[types.Object]bool) {
					for o := range m {
						if !e.base[fn][o] {
							e.base[fn][o] = true
							changed = true
						}
					}
				}
				if _, known := e.base[c]; !known {
					add(e.mods[c]) // non-module callee: nothing, or full
					continue
				}
				add(e.base[c])
				// resolve the callee's parameter invocations at this site
				cc := edge.Site.Common()
				direct := cc.StaticCallee() == c
				for _, pi := range e.pinv[c] {
					var arg ssa.Value
					if direct && pi.idx < len(cc.Args) {
						arg = cc.Args[pi.idx]
					}
					switch {
					case arg == nil:
						add(e.mods[c])
					case paramIndex(fn, arg) >= 0:
						if addPinv(fn, paramInvoke{paramIndex(fn, arg), pi.method}) {
							changed = true
						}
					default:
						if mi, ok := arg.(*ssa.MakeInterface); ok {
							if m := e.p.ssaProg.LookupMethod(mi.X.Type(), pi.method.Pkg(), pi.method.Name()); m != nil {
								add(e.mods[m])
								continue
							}
						}
						add(e.mods[c])
					}
				}
			}
		}
	}
}

// ModsAt returns the mod-summary of callee as called with arguments of the
// given static types (nil entries = unknown): methods invoked on an
// interface-typed parameter are resolved to the argument's concrete type.
func (e *Effects) ModsAt(callee *ssa.Function, argTypes []types.Type) map[types.Object]bool {
	pinv := e.pinv[callee]
	if len(pinv) == 0 || e.base[callee] == nil {
		return e.mods[callee]
	}
	out := map[types.Object]bool{}
	for o := range e.base[callee] {
		out[o] = true
	}
	for _, pi := range pinv {
		var t types.Type
		if pi.idx < len(argTypes) {
			t = argTypes[pi.idx]
		}
		if t == nil || types.IsInterface(t) {
			return e.mods[callee]
		}
		if _, isBasic := t.(*types.Basic); isBasic {
			return e.mods[callee] // e.g. an untyped nil argument
		}
		if types.NewMethodSet(t).Lookup(pi.method.Pkg(), pi.method.Name()) == nil {
			return e.mods[callee]
		}
		m := e.p.ssaProg.LookupMethod(t, pi.method.Pkg(), pi.method.Name())
		if m == nil {
			return e.mods[callee]
		}
		for o := range e.mods[m] {
			out[o] = true
		}
	}
	return out
}

// addrEntity maps an address to the field or global it designates (elements
// of a slice/array/map held in a field are attributed to the field).
func addrEntity(v ssa.Value) types.Object {
	for i := 0; i < 8; i++ {
		switch a := v.(type) {
		case *ssa.FieldAddr:
			if _, fresh := a.X.(*ssa.Alloc); fresh {
				// a store into an object allocated by this very function
				// cannot invalidate anything known before the call
				return nil
			}
			if st, ok := derefStruct(a.X.Type()); ok {
				return st.Field(a.Field).Origin()
			}
			return nil
		case *ssa.Global:
			return a.Object()
		case *ssa.IndexAddr:
			// element of a slice/array: attribute to where the slice came from
			if o := valueEntity(a.X); o != nil {
				return o
			}
			v = a.X
		default:
			return nil
		}
	}
	return nil
}

// valueEntity maps a value (slice, map, pointer) to the field or global it
// was loaded from, if directly visible.
func valueEntity(v ssa.Value) types.Object {
	for i := 0; i < 8; i++ {
		switch a := v.(type) {
		case *ssa.UnOp:
			if a.Op == token.MUL {
				return addrEntity(a.X)
			}
			return nil
		case *ssa.Slice:
			v = a.X
		case *ssa.FieldAddr, *ssa.Global, *ssa.IndexAddr:
			return addrEntity(v)
		case *ssa.ChangeType:
			v = a.X
		default:
			return nil
		}
	}
	return nil
}

func (e *Effects) Mods(fn *ssa.Function) map[types.Object]bool  { return e.mods[fn] }
func (e *Effects) Reads(fn *ssa.Function) map[types.Object]bool { return e.reads[fn] }
