package main

// E2: must-fact dataflow over go/cfg on the typed AST.
//
// A fact is a signed atom over canonical terms (access paths over variables
// and fields, constants, pure calls, results of a particular call site).
// Facts are generated on CFG edges from recognised conditions, by
// assignments (equalities), and killed by stores to what they mention and by
// calls whose mod-summary may write what they mention.  The join is set
// intersection, so a fact in the state at a node holds on every path to it.

import (
	"fmt"
	"go/ast"
	"go/constant"
	"go/token"
	"go/types"
	"os"
	"sort"
	"strings"

	"golang.org/x/tools/go/cfg"
	"golang.org/x/tools/go/ssa"
	"golang.org/x/tools/go/types/typeutil"
)

// ---------- terms ----------

type Term struct {
	K    byte         // v var, c const, f field, d deref, k call, i index, r result, o operator/other, n nil
	Obj  types.Object // var / field / func
	Name string       // const value, operator, result id, type name
	Args []*Term
	Pos  token.Pos  // result site
	Typ  types.Type // static type of the expression the term came from (may be nil)
	str  string
}

func (t *Term) String() string {
	if t == nil {
		return "?"
	}
	if t.str != "" {
		return t.str
	}
	var s string
	switch t.K {
	case 'v':
		s = fmt.Sprintf("%s·%d", t.Obj.Name(), int(t.Obj.Pos()))
	case 'c', 'n':
		s = t.Name
	case 'f':
		s = t.Args[0].String() + "." + t.Obj.Name()
	case 'd':
		s = "(*" + t.Args[0].String() + ")"
	case 'k':
		var as []string
		for _, a := range t.Args {
			as = append(as, a.String())
		}
		s = t.Name + "(" + strings.Join(as, ",") + ")"
	case 'i':
		s = t.Args[0].String() + "[" + t.Args[1].String() + "]"
	case 'r':
		s = fmt.Sprintf("%s@%d", t.Name, int(t.Pos))
	case 'o':
		var as []string
		for _, a := range t.Args {
			as = append(as, a.String())
		}
		s = t.Name + "<" + strings.Join(as, ",") + ">"
	}
	t.str = s
	return s
}

// Pretty prints a term without object disambiguators.
func pretty(s string) string {
	var b strings.Builder
	for i := 0; i < len(s); i++ {
		if strings.HasPrefix(s[i:], "·") {
			i += len("·")
			for i < len(s) && s[i] >= '0' && s[i] <= '9' {
				i++
			}
			i--
			continue
		}
		b.WriteByte(s[i])
	}
	return b.String()
}

func TVar(o types.Object) *Term          { return &Term{K: 'v', Obj: o} }
func TConst(s string) *Term              { return &Term{K: 'c', Name: s} }
func TStr(s string) *Term                { return &Term{K: 'c', Name: fmt.Sprintf("%q", s)} }
func TNil() *Term                        { return &Term{K: 'n', Name: "nil"} }
func TField(b *Term, f *types.Var) *Term { return &Term{K: 'f', Obj: f.Origin(), Args: []*Term{b}} }
func TDeref(b *Term) *Term               { return &Term{K: 'd', Args: []*Term{b}} }
func TCall(name string, fn types.Object, args ...*Term) *Term {
	return &Term{K: 'k', Name: name, Obj: fn, Args: args}
}
func TIndex(b, i *Term) *Term { return &Term{K: 'i', Args: []*Term{b, i}} }

func (t *Term) walk(f func(*Term)) {
	if t == nil {
		return
	}
	f(t)
	for _, a := range t.Args {
		a.walk(f)
	}
}

func (t *Term) subst(from string, to *Term) *Term {
	if t.String() == from {
		return to
	}
	if len(t.Args) == 0 {
		return t
	}
	changed := false
	args := make([]*Term, len(t.Args))
	for i, a := range t.Args {
		args[i] = a.subst(from, to)
		if args[i] != a {
			changed = true
		}
	}
	if !changed {
		return t
	}
	n := *t
	n.Args = args
	n.str = ""
	return &n
}

func (t *Term) mentions(s string) bool {
	found := false
	t.walk(func(x *Term) {
		if x.String() == s {
			found = true
		}
	})
	return found
}

// ---------- facts ----------

type Fact struct {
	Pos  bool
	Op   string // eq, lt, true, imp
	A, B *Term
	key  string
	// implication facts (Op == "imp"): Cond => Then, produced at joins where
	// one side knows Cond and the other its negation
	Cond, Then *Fact
}

func mkImp(c, t *Fact) *Fact {
	return &Fact{Pos: true, Op: "imp", Cond: c, Then: t, key: "imp[" + c.key + " => " + t.key + "]"}
}

func negKey(f *Fact) string {
	if f.Pos {
		return "-" + f.key[1:]
	}
	return "+" + f.key[1:]
}

// simpleCond: a test of a plain variable (b, !b, v == const).
func simpleCond(f *Fact) bool {
	switch f.Op {
	case "true":
		return f.A.K == 'v'
	case "eq":
		return (f.A.K == 'v' && (f.B.K == 'c' || f.B.K == 'n')) || (f.B.K == 'v' && (f.A.K == 'c' || f.A.K == 'n'))
	}
	return false
}

func mkFact(pos bool, op string, a, b *Term) *Fact {
	if op == "eq" && b != nil && a.String() > b.String() {
		a, b = b, a
	}
	f := &Fact{Pos: pos, Op: op, A: a, B: b}
	sign := "+"
	if !pos {
		sign = "-"
	}
	if b != nil {
		f.key = sign + op + "(" + a.String() + "," + b.String() + ")"
	} else {
		f.key = sign + op + "(" + a.String() + ")"
	}
	return f
}

func (f *Fact) String() string { return pretty(f.key) }

func (f *Fact) terms() []*Term {
	if f.Op == "imp" {
		return append(f.Cond.terms(), f.Then.terms()...)
	}
	if f.B != nil {
		return []*Term{f.A, f.B}
	}
	return []*Term{f.A}
}

// State is an immutable set of facts; nil means "unreachable" (top).
type State struct {
	m map[string]*Fact
}

var emptyState = &State{m: map[string]*Fact{}}

func (s *State) Has(key string) bool {
	if s == nil {
		return true
	}
	_, ok := s.m[key]
	return ok
}

func (s *State) HasFact(f *Fact) bool { return s.Has(f.key) }

func (s *State) Facts() []*Fact {
	if s == nil {
		return nil
	}
	var out []*Fact
	for _, f := range s.m {
		out = append(out, f)
	}
	sort.Slice(out, func(i, j int) bool { return out[i].key < out[j].key })
	return out
}

func (s *State) String() string {
	if s == nil {
		return "unreachable"
	}
	var ks []string
	for _, f := range s.Facts() {
		ks = append(ks, f.String())
	}
	return "{" + strings.Join(ks, " ; ") + "}"
}

func (s *State) with(fs ...*Fact) *State {
	if s == nil || len(fs) == 0 {
		return s
	}
	n := &State{m: make(map[string]*Fact, len(s.m)+len(fs))}
	for k, v := range s.m {
		n.m[k] = v
	}
	for _, f := range fs {
		n.m[f.key] = f
	}
	return n
}

func (s *State) filter(keep func(*Fact) bool) *State {
	if s == nil {
		return s
	}
	changed := false
	for _, f := range s.m {
		if !keep(f) {
			changed = true
			break
		}
	}
	if !changed {
		return s
	}
	n := &State{m: make(map[string]*Fact, len(s.m))}
	for k, f := range s.m {
		if keep(f) {
			n.m[k] = f
		}
	}
	return n
}

func meet(a, b *State) *State {
	if a == nil {
		return b
	}
	if b == nil {
		return a
	}
	n := &State{m: map[string]*Fact{}}
	for k, f := range a.m {
		if _, ok := b.m[k]; ok {
			n.m[k] = f
		}
	}
	// an implication known on one side holds at the join when the other side
	// knows its conclusion, or knows that its condition is false
	keepImps := func(x, y *State) {
		for k, f := range x.m {
			if f.Op != "imp" || f.Cond == nil || f.Then == nil {
				continue
			}
			if _, both := y.m[k]; both {
				continue
			}
			if _, concl := y.m[f.Then.key]; concl {
				n.m[k] = f
				continue
			}
			if _, vac := y.m[negKey(f.Cond)]; vac {
				n.m[k] = f
			}
		}
	}
	keepImps(a, b)
	keepImps(b, a)
	// path correlation: C on one side, not-C on the other
	addImps := func(x, y *State) {
		for _, c := range x.m {
			if c.Op == "imp" || !simpleCond(c) {
				continue
			}
			if _, ok := y.m[negKey(c)]; !ok {
				continue
			}
			cnt := 0
			for _, k := range sortedKeys(x.m) {
				t := x.m[k]
				if t.Op == "imp" || t == c {
					continue
				}
				if _, both := y.m[k]; both {
					continue
				}
				if cnt > 24 {
					break
				}
				cnt++
				imp := mkImp(c, t)
				n.m[imp.key] = imp
			}
		}
	}
	addImps(a, b)
	addImps(b, a)
	// a boolean variable whose value is known on one side only (`flag = true`
	// in one branch, `flag = <expr>` or nothing in the other): where the flag
	// does not have that value at the join, control came from the other side,
	// so what the other side knows holds
	flagImps := func(x, y *State) {
		for _, ck := range sortedKeys(x.m) {
			c := x.m[ck]
			// flag = true / false, or result = nil (the "nothing" value of a helper's result)
			var fv *Term
			switch {
			case c.Op == "true" && c.A != nil && c.A.K == 'v':
				fv = c.A
			case c.Op == "eq" && c.Pos && c.A != nil && c.B != nil && c.A.K == 'v' && c.B.K == 'n':
				fv = c.A
			case c.Op == "eq" && c.Pos && c.A != nil && c.B != nil && c.B.K == 'v' && c.A.K == 'n':
				fv = c.B
			}
			if fv == nil {
				continue
			}
			if _, same := y.m[c.key]; same {
				continue
			}
			nc := complement(c)
			cnt := 0
			for _, k := range sortedKeys(y.m) {
				t := y.m[k]
				if t.Op == "imp" || k == nc.key {
					continue
				}
				if _, both := x.m[k]; both {
					continue
				}
				mentions := false
				for _, tt := range t.terms() {
					// (for a result that is nil on the other side, what it is on this side is
					// exactly what is wanted: result == the object the tests were made on)
					if tt.mentions(fv.String()) && c.Op == "true" {
						mentions = true
					}
				}
				if mentions {
					continue
				}
				if cnt > 24 {
					break
				}
				cnt++
				imp := mkImp(nc, t)
				n.m[imp.key] = imp
			}
		}
	}
	flagImps(a, b)
	flagImps(b, a)
	return n
}

func sameState(a, b *State) bool {
	if a == nil || b == nil {
		return a == b
	}
	if len(a.m) != len(b.m) {
		return false
	}
	for k := range a.m {
		if _, ok := b.m[k]; !ok {
			return false
		}
	}
	return true
}

// add inserts facts and saturates them through the equalities with a plain
// variable on one side (x == path  =>  every fact about x also holds of path
// and vice versa).
func (s *State) add(fs ...*Fact) *State {
	if s == nil {
		return s
	}
	var all []*Fact
	for _, f := range fs {
		all = append(all, f)
		// rewrite the new fact through existing equalities
		for _, e := range s.m {
			if e.Pos && e.Op == "eq" {
				all = append(all, rewriteThrough(f, e)...)
			}
		}
		// a new equality rewrites existing facts
		if f.Pos && f.Op == "eq" {
			for _, g := range s.m {
				all = append(all, rewriteThrough(g, f)...)
			}
		}
	}
	ns := s.with(all...)
	// fire implications whose condition is now known
	for round := 0; round < 3; round++ {
		var fired []*Fact
		for _, imp := range ns.m {
			if imp.Op != "imp" {
				continue
			}
			if _, ok := ns.m[imp.Cond.key]; ok {
				if _, have := ns.m[imp.Then.key]; !have {
					fired = append(fired, imp.Then)
				}
			}
		}
		if len(fired) == 0 {
			break
		}
		ns = ns.with(fired...)
	}
	return ns
}

func rewriteThrough(f, eq *Fact) []*Fact {
	if f.Op == "imp" || eq.Op == "imp" {
		return nil
	}
	if f == eq || f.key == eq.key {
		return nil
	}
	var out []*Fact
	try := func(from, to *Term) {
		if from.K != 'v' && from.K != 'r' {
			return
		}
		fs := from.String()
		hit := false
		for _, t := range f.terms() {
			if t.mentions(fs) {
				hit = true
			}
		}
		if !hit || to.mentions(fs) {
			return
		}
		var b *Term
		if f.B != nil {
			b = f.B.subst(fs, to)
		}
		nf := mkFact(f.Pos, f.Op, f.A.subst(fs, to), b)
		if nf.Op == "eq" && nf.B != nil && nf.A.String() == nf.B.String() {
			return
		}
		out = append(out, nf)
	}
	try(eq.A, eq.B)
	try(eq.B, eq.A)
	return out
}

// ---------- per-function analysis ----------

type FuncFacts struct {
	fs    *FuncSrc
	eng   *FactEngine
	at    map[ast.Node]*State // state holding immediately before the node is evaluated
	after map[ast.Node]*State // state after a statement node
	graph *cfg.CFG
	exit  []*ast.ReturnStmt
	// blockIn is the state at block entry
	blockIn  map[*cfg.Block]*State
	escaping map[types.Object]bool
	nonNegF  func(string, *Term) bool
}

type FactEngine struct {
	nonNilGlobals map[*types.Var]bool
	summarising   int
	p             *Program
	fx            *Effects
	cache         map[*FuncSrc]*FuncFacts
	// EntryFacts optionally supplies facts at the entry of a function
	// (used for closures invoked synchronously at a known site).
	objIDs  map[types.Object]int
	getters map[*types.Func]*types.Var
	events  map[*types.Func]bool
	// Semantic enables the semantic meet of numeric facts (bounds prover).
	Semantic bool
	// Concretise, when set, may rewrite a requirement after its parameters
	// were replaced by arguments whose static types are now known (types maps
	// the printed argument terms to their types): an interface method call
	// becomes the implementation's field, or the requirement is discharged.
	Concretise func(f *Fact, types map[string]types.Type) (*Fact, bool)
	// Accept, when set, lets a rule discharge a requirement from other
	// facts of the state than the required one (e.g. an identity guard).
	Accept func(st *State, f *Fact) bool
}

func NewFactEngine(p *Program) *FactEngine {
	return &FactEngine{p: p, fx: p.Effects(), cache: map[*FuncSrc]*FuncFacts{}, getters: map[*types.Func]*types.Var{}, events: map[*types.Func]bool{}}
}

// Event registers a function whose completed calls leave a fact
// `called:<name>(args)` behind (typestate events such as "DelClient(c) ran").
// Must be called before any Analyze.
func (e *FactEngine) Event(fn *types.Func) {
	if fn != nil {
		if len(e.cache) > 0 && !e.events[fn.Origin()] {
			e.cache = map[*FuncSrc]*FuncFacts{}
		}
		e.events[fn.Origin()] = true
	}
}

// getterField recognises `func (r T) M() X { return r.f }`.
func (e *FactEngine) getterField(fn *types.Func) *types.Var {
	if v, ok := e.getters[fn]; ok {
		return v
	}
	var res *types.Var
	defer func() { e.getters[fn] = res }()
	src := e.p.SrcOfFunc(fn)
	if src == nil || src.Decl == nil || src.Decl.Recv == nil || len(src.Decl.Body.List) != 1 {
		return nil
	}
	if src.Type().Params.NumFields() != 0 {
		return nil
	}
	ret, ok := src.Decl.Body.List[0].(*ast.ReturnStmt)
	if !ok || len(ret.Results) != 1 {
		return nil
	}
	sel, ok := unparen(ret.Results[0]).(*ast.SelectorExpr)
	if !ok {
		return nil
	}
	id, ok := unparen(sel.X).(*ast.Ident)
	if !ok || len(src.Decl.Recv.List) != 1 || len(src.Decl.Recv.List[0].Names) != 1 {
		return nil
	}
	info := src.Pkg.TypesInfo
	if info.ObjectOf(id) != info.Defs[src.Decl.Recv.List[0].Names[0]] {
		return nil
	}
	s, ok := info.Selections[sel]
	if !ok || s.Kind() != types.FieldVal || len(s.Index()) != 1 {
		return nil
	}
	res, _ = s.Obj().(*types.Var)
	return res
}

// pureCallee: a module function whose transitive mod-summary is empty, so
// that its result is a function of the state its read-summary names.
func (e *FactEngine) pureCallee(fn *types.Func) bool {
	sf := e.p.SSAFunc(fn.Origin())
	if sf == nil || !fnInModule(sf) || sf.Blocks == nil {
		return false
	}
	return len(e.fx.Mods(sf)) == 0
}

func (e *FactEngine) Analyze(fs *FuncSrc) *FuncFacts {
	if ff, ok := e.cache[fs]; ok {
		return ff
	}
	ff := &FuncFacts{fs: fs, eng: e, at: map[ast.Node]*State{}, after: map[ast.Node]*State{}, blockIn: map[*cfg.Block]*State{}}
	e.cache[fs] = ff
	ff.run(emptyState)
	return ff
}

// At returns the must-facts before node n (nil State = unreachable).
func (ff *FuncFacts) At(n ast.Node) (*State, bool) {
	s, ok := ff.at[n]
	return s, ok
}

func (ff *FuncFacts) info() *types.Info { return ff.fs.Pkg.TypesInfo }

func (ff *FuncFacts) mayReturn(call *ast.CallExpr) bool {
	info := ff.info()
	if id, ok := call.Fun.(*ast.Ident); ok {
		if b, ok := info.Uses[id].(*types.Builtin); ok && b.Name() == "panic" {
			return false
		}
	}
	if fn, ok := typeutil.Callee(info, call).(*types.Func); ok && fn.Pkg() != nil {
		full := fn.Pkg().Path() + "." + fn.Name()
		switch full {
		case "os.Exit", "log.Fatal", "log.Fatalf", "log.Fatalln", "log.Panic", "log.Panicf", "runtime.Goexit":
			return false
		}
	}
	return true
}

func (ff *FuncFacts) run(entry *State) {
	body := ff.fs.Body()
	ff.graph = cfg.New(body, ff.mayReturn)
	ff.findEscaping()
	blocks := ff.graph.Blocks
	if len(blocks) == 0 {
		return
	}
	in := make([]*State, len(blocks))
	visited := make([]bool, len(blocks))
	in[0] = entry
	visited[0] = true
	// out-state per CFG edge; the in-state of a block is recomputed as the
	// meet over all its incoming edges, so that path correlations
	// (implications) found at a join are not lost when one predecessor is
	// revisited
	type edge struct {
		from int32
		pos  int
	}
	edgeOut := map[edge]*State{}
	hasOut := map[edge]bool{}
	preds := make([][]edge, len(blocks))
	for _, b := range blocks {
		for i, s := range b.Succs {
			preds[s.Index] = append(preds[s.Index], edge{b.Index, i})
		}
	}
	work := []int32{0}
	iter := 0
	for len(work) > 0 {
		iter++
		if iter > 20000 {
			panic("facts: dataflow did not converge in " + ff.fs.Name)
		}
		bi := work[len(work)-1]
		work = work[:len(work)-1]
		b := blocks[bi]
		outs := ff.transfer(b, in[bi], false)
		for i, succ := range b.Succs {
			e := edge{b.Index, i}
			edgeOut[e] = outs[i]
			hasOut[e] = true
			var m *State
			first := true
			for _, pe := range preds[succ.Index] {
				if !hasOut[pe] {
					continue
				}
				if first {
					m, first = edgeOut[pe], false
				} else {
					m = ff.meetStates(m, edgeOut[pe])
				}
			}
			if succ.Index == 0 {
				m = meet(m, entry)
			}
			if !visited[succ.Index] {
				visited[succ.Index] = true
				in[succ.Index] = m
				work = append(work, succ.Index)
				continue
			}
			if !sameState(m, in[succ.Index]) {
				in[succ.Index] = m
				work = append(work, succ.Index)
			}
		}
	}
	for i, b := range blocks {
		if visited[i] {
			ff.blockIn[b] = in[i]
			ff.transfer(b, in[i], true)
		}
	}
}

// meetStates is the join of the analysis: set intersection, plus - when the
// function is analysed with Semantic set - the numeric facts of one side
// that the other side implies by linear reasoning (x < n and n >= x+4 both
// keep x < n).
func (ff *FuncFacts) meetStates(a, b *State) *State {
	m := meet(a, b)
	if !ff.eng.Semantic || a == nil || b == nil {
		return m
	}
	nn := ff.nonNeg()
	ia, ib := stateIneqs(a), stateIneqs(b)
	var extra []*Fact
	for k, f := range a.m {
		if f.Op == "lt" {
			if _, ok := m.m[k]; !ok && impliesFact(ib, f, nn) {
				extra = append(extra, f)
			}
		}
	}
	for k, f := range b.m {
		if f.Op == "lt" {
			if _, ok := m.m[k]; !ok && impliesFact(ia, f, nn) {
				extra = append(extra, f)
			}
		}
	}
	return m.with(extra...)
}

// nonNeg returns the non-negativity oracle for atoms of this function.
func (ff *FuncFacts) nonNeg() func(string, *Term) bool {
	if ff.nonNegF != nil {
		return ff.nonNegF
	}
	vars := ff.nonNegVars()
	ff.nonNegF = func(a string, t *Term) bool {
		if t == nil {
			return false
		}
		if t.K == 'k' && (t.Name == "len" || t.Name == "cap") {
			return true
		}
		if t.K == 'v' && vars[t.Obj] {
			return true
		}
		if t.Typ != nil {
			if bt, ok := t.Typ.Underlying().(*types.Basic); ok && bt.Info()&types.IsUnsigned != 0 {
				return true
			}
		}
		return false
	}
	return ff.nonNegF
}

// nonNegVars: integer locals only ever assigned non-negative values
// (constants >= 0, unsigned-typed expressions, len(), sums and products of
// such, increments).  Overflow of int arithmetic is assumed away.
func (ff *FuncFacts) nonNegVars() map[types.Object]bool {
	info := ff.info()
	cand := map[types.Object]bool{}
	type asg struct {
		obj types.Object
		rhs ast.Expr // nil for ++ ; for += the added expression
		add bool
	}
	var asgs []asg
	bad := map[types.Object]bool{}
	ast.Inspect(ff.fs.Body(), func(n ast.Node) bool {
		switch x := n.(type) {
		case *ast.AssignStmt:
			for i, l := range x.Lhs {
				id, ok := unparen(l).(*ast.Ident)
				if !ok {
					continue
				}
				o := info.ObjectOf(id)
				if o == nil || !isOrdered(o.Type()) {
					continue
				}
				cand[o] = true
				switch {
				case len(x.Lhs) != len(x.Rhs):
					bad[o] = true
				case x.Tok == token.ASSIGN || x.Tok == token.DEFINE:
					asgs = append(asgs, asg{o, x.Rhs[i], false})
				case x.Tok == token.ADD_ASSIGN || x.Tok == token.OR_ASSIGN || x.Tok == token.MUL_ASSIGN || x.Tok == token.SHL_ASSIGN:
					asgs = append(asgs, asg{o, x.Rhs[i], true})
				default:
					bad[o] = true
				}
			}
		case *ast.IncDecStmt:
			if id, ok := unparen(x.X).(*ast.Ident); ok {
				if o := info.ObjectOf(id); o != nil {
					cand[o] = true
					if x.Tok == token.DEC {
						bad[o] = true
					}
				}
			}
		case *ast.ValueSpec:
			for i, name := range x.Names {
				o := info.Defs[name]
				if o == nil || !isOrdered(o.Type()) {
					continue
				}
				cand[o] = true
				if i < len(x.Values) {
					asgs = append(asgs, asg{o, x.Values[i], false})
				}
			}
		case *ast.RangeStmt:
			for _, e := range []ast.Expr{x.Key} {
				if id, ok := e.(*ast.Ident); ok {
					if o := info.ObjectOf(id); o != nil {
						cand[o] = true // range index >= 0
					}
				}
			}
			if id, ok := x.Value.(*ast.Ident); ok {
				if o := info.ObjectOf(id); o != nil && isOrdered(o.Type()) {
					if bt, ok := o.Type().Underlying().(*types.Basic); !ok || bt.Info()&types.IsUnsigned == 0 {
						bad[o] = true
					}
				}
			}
		case *ast.UnaryExpr:
			if x.Op == token.AND {
				if id, ok := unparen(x.X).(*ast.Ident); ok {
					if o := info.ObjectOf(id); o != nil {
						bad[o] = true
					}
				}
			}
		}
		return true
	})
	good := map[types.Object]bool{}
	for o := range cand {
		if !bad[o] {
			good[o] = true
		}
	}
	var nn func(e ast.Expr) bool
	nn = func(e ast.Expr) bool {
		e = unparen(e)
		if tv, ok := info.Types[e]; ok && tv.Value != nil {
			s := tv.Value.ExactString()
			return !strings.HasPrefix(s, "-")
		}
		if t := info.TypeOf(e); t != nil {
			if bt, ok := t.Underlying().(*types.Basic); ok && bt.Info()&types.IsUnsigned != 0 {
				return true
			}
		}
		switch x := e.(type) {
		case *ast.Ident:
			return good[info.ObjectOf(x)]
		case *ast.BinaryExpr:
			switch x.Op {
			case token.ADD, token.MUL, token.OR, token.SHL, token.SHR, token.AND, token.QUO, token.REM:
				return nn(x.X) && nn(x.Y)
			}
		case *ast.CallExpr:
			if tv, ok := info.Types[x.Fun]; ok && tv.IsType() && len(x.Args) == 1 {
				return nn(x.Args[0])
			}
			if isBuiltin(info, x, "len") || isBuiltin(info, x, "cap") || isBuiltin(info, x, "copy") {
				return true
			}
		}
		return false
	}
	for changed := true; changed; {
		changed = false
		for _, a := range asgs {
			if good[a.obj] && !nn(a.rhs) {
				delete(good, a.obj)
				changed = true
			}
		}
	}
	// parameters are not assigned here: unknown sign unless unsigned
	return good
}

// findEscaping marks local variables whose address is taken or that are
// assigned inside a function literal: facts about them die at every call.
func (ff *FuncFacts) findEscaping() {
	ff.escaping = map[types.Object]bool{}
	info := ff.info()
	var inLit int
	var visit func(n ast.Node) bool
	visit = func(n ast.Node) bool {
		switch x := n.(type) {
		case *ast.FuncLit:
			inLit++
			ast.Inspect(x.Body, visit)
			inLit--
			return false
		case *ast.UnaryExpr:
			if x.Op == token.AND {
				if id, ok := unparen(x.X).(*ast.Ident); ok {
					if o := info.ObjectOf(id); o != nil {
						ff.escaping[o] = true
					}
				}
			}
		case *ast.AssignStmt:
			if inLit > 0 {
				for _, l := range x.Lhs {
					if id, ok := unparen(l).(*ast.Ident); ok {
						if o := info.ObjectOf(id); o != nil && x.Tok != token.DEFINE {
							ff.escaping[o] = true
						}
					}
				}
			}
		case *ast.IncDecStmt:
			if inLit > 0 {
				if id, ok := unparen(x.X).(*ast.Ident); ok {
					if o := info.ObjectOf(id); o != nil {
						ff.escaping[o] = true
					}
				}
			}
		}
		return true
	}
	ast.Inspect(ff.fs.Body(), visit)
}

func unparen(e ast.Expr) ast.Expr {
	for {
		p, ok := e.(*ast.ParenExpr)
		if !ok {
			return e
		}
		e = p.X
	}
}

// transfer pushes a state through a block; it returns one out-state per
// successor (edge facts applied).
func (ff *FuncFacts) transfer(b *cfg.Block, st *State, record bool) []*State {
	// range body: key and value are (re)assigned at every iteration
	if b.Kind == cfg.KindRangeBody {
		if rs, ok := b.Stmt.(*ast.RangeStmt); ok {
			for _, e := range []ast.Expr{rs.Key, rs.Value} {
				if e != nil {
					if t := ff.term(e); t != nil {
						st = ff.killTerm(st, t)
					}
				}
			}
			// for i := range X over a slice/array/string: 0 <= i < len(X)
			if rs.Key != nil && st != nil {
				switch ff.info().TypeOf(rs.X).Underlying().(type) {
				case *types.Slice, *types.Array:
					kt, xt := ff.term(rs.Key), ff.term(rs.X)
					if kt != nil && xt != nil && kt.K == 'v' {
						ln := TCall("len", nil, xt)
						st = st.with(mkFact(true, "lt", kt, ln), mkFact(false, "lt", kt, TConst("0")))
					}
				}
			}
		}
	}
	var lastExpr ast.Expr
	for _, n := range b.Nodes {
		lastExpr = nil
		st = ff.node(n, st, record)
		if e, ok := n.(ast.Expr); ok {
			lastExpr = e
		}
	}
	outs := make([]*State, len(b.Succs))
	for i := range outs {
		outs[i] = st
	}
	if b.Kind == cfg.KindRangeLoop && len(b.Succs) == 2 {
		if rs, ok := b.Stmt.(*ast.RangeStmt); ok {
			outs[1] = ff.forallFacts(rs, st)
		}
	}
	if len(b.Succs) == 2 && lastExpr != nil {
		switch par := ff.eng.p.Parent(ff.fs.File, lastExpr).(type) {
		case *ast.IfStmt:
			if par.Cond == lastExpr {
				outs[0] = ff.assume(st, lastExpr, true)
				outs[1] = ff.assume(st, lastExpr, false)
			}
		case *ast.ForStmt:
			if par.Cond == lastExpr {
				outs[0] = ff.assume(st, lastExpr, true)
				outs[1] = ff.assume(st, lastExpr, false)
			}
		case *ast.CaseClause:
			if sw, ok := ff.eng.p.Parent(ff.fs.File, ff.eng.p.Parent(ff.fs.File, par)).(*ast.SwitchStmt); ok {
				isCase := false
				for _, ce := range par.List {
					if ce == lastExpr {
						isCase = true
					}
				}
				if isCase {
					if sw.Tag == nil {
						outs[0] = ff.assume(st, lastExpr, true)
						outs[1] = ff.assume(st, lastExpr, false)
					} else {
						a, c := ff.term(sw.Tag), ff.term(lastExpr)
						if a != nil && c != nil {
							outs[0] = st.add(mkFact(true, "eq", a, c))
							outs[1] = st.add(mkFact(false, "eq", a, c))
						}
					}
				}
			}
		}
		// an edge whose facts contradict each other cannot be taken
		for i := range outs {
			if outs[i] != nil && st != nil && !contradictory(st) && contradictory(outs[i]) {
				outs[i] = nil
			}
		}
	}
	return outs
}

// forallFacts: a loop `for _, p := range X { if C(p) { return/panic } }`
// whose body is exactly that guard and which contains no break/goto/labelled
// continue leaves, on normal exit, not-C for every element of X.  The facts
// of the guard's false edge are kept with p replaced by each<X>.
func (ff *FuncFacts) forallFacts(rs *ast.RangeStmt, st *State) *State {
	if st == nil || rs.Value == nil || len(rs.Body.List) != 1 {
		return st
	}
	ifs, ok := rs.Body.List[0].(*ast.IfStmt)
	if !ok || ifs.Init != nil || ifs.Else != nil || len(ifs.Body.List) == 0 {
		return st
	}
	// the guard's body never completes normally: it returns, panics or breaks out
	// of the loop (also to a label outside it: the form inlined helpers take)
	inner := map[string]bool{}
	ast.Inspect(rs.Body, func(n ast.Node) bool {
		if ls, isL := n.(*ast.LabeledStmt); isL {
			inner[ls.Label.Name] = true
		}
		return true
	})
	var leaves func(list []ast.Stmt) bool
	leaves = func(list []ast.Stmt) bool {
		for _, s := range list {
			switch x := s.(type) {
			case *ast.ReturnStmt:
				return true
			case *ast.BranchStmt:
				if x.Tok == token.BREAK && (x.Label == nil || !inner[x.Label.Name]) {
					return true
				}
			case *ast.BlockStmt:
				if leaves(x.List) {
					return true
				}
			case *ast.ExprStmt:
				if call, isC := x.X.(*ast.CallExpr); isC {
					if id, isId := call.Fun.(*ast.Ident); isId && id.Name == "panic" {
						if _, isB := ff.info().Uses[id].(*types.Builtin); isB {
							return true
						}
					}
				}
			}
		}
		return false
	}
	if !leaves(ifs.Body.List) {
		return st
	}
	bad := false
	ast.Inspect(rs.Body, func(n ast.Node) bool {
		switch x := n.(type) {
		case *ast.BranchStmt:
			if x.Tok != token.BREAK {
				bad = true
			}
		case *ast.FuncLit:
			bad = true
		}
		return true
	})
	vid, ok := rs.Value.(*ast.Ident)
	if bad || !ok {
		return st
	}
	vobj := ff.info().ObjectOf(vid)
	xt := ff.term(rs.X)
	if vobj == nil || xt == nil {
		return st
	}
	if ff.assignedVarsIn(rs.Body)[vobj] {
		return st
	}
	vs := TVar(vobj).String()
	learnt := ff.assume(emptyState, ifs.Cond, false)
	each := &Term{K: 'o', Name: "each", Args: []*Term{xt}}
	var add []*Fact
	for _, f := range learnt.m {
		hit := false
		for _, t := range f.terms() {
			if t.mentions(vs) {
				hit = true
			}
		}
		if !hit {
			continue
		}
		var b *Term
		if f.B != nil {
			b = f.B.subst(vs, each)
		}
		add = append(add, mkFact(f.Pos, f.Op, f.A.subst(vs, each), b))
	}
	return st.with(add...)
}

func (ff *FuncFacts) assignedVarsIn(n ast.Node) map[types.Object]bool {
	out := map[types.Object]bool{}
	info := ff.info()
	ast.Inspect(n, func(n ast.Node) bool {
		switch x := n.(type) {
		case *ast.AssignStmt:
			for _, l := range x.Lhs {
				if id, ok := unparen(l).(*ast.Ident); ok {
					if o := info.ObjectOf(id); o != nil {
						out[o] = true
					}
				}
			}
		case *ast.IncDecStmt:
			if id, ok := unparen(x.X).(*ast.Ident); ok {
				if o := info.ObjectOf(id); o != nil {
					out[o] = true
				}
			}
		}
		return true
	})
	return out
}

// node evaluates one CFG node.
func (ff *FuncFacts) node(n ast.Node, st *State, record bool) *State {
	if record {
		if _, seen := ff.at[n]; !seen {
			ff.at[n] = st
		}
	}
	switch x := n.(type) {
	case ast.Expr:
		st = ff.expr(x, st, record)
	case *ast.ExprStmt:
		st = ff.expr(x.X, st, record)
	case *ast.AssignStmt:
		for _, r := range x.Rhs {
			st = ff.expr(r, st, record)
		}
		for _, l := range x.Lhs {
			st = ff.lhsSubexprs(l, st, record)
		}
		st = ff.assign(x, st)
	case *ast.IncDecStmt:
		st = ff.lhsSubexprs(x.X, st, record)
		if t := ff.term(x.X); t != nil {
			// v < T before v++  =>  v <= T after
			var shifted []*Fact
			if x.Tok == token.INC && st != nil {
				ts := t.String()
				for _, f := range st.m {
					if f.Op == "lt" && f.Pos && f.A.String() == ts && !f.B.mentions(ts) {
						shifted = append(shifted, mkFact(false, "lt", f.B, f.A))
					}
				}
			}
			st = ff.killTerm(st, t)
			if st != nil {
				st = st.with(shifted...)
			}
		} else {
			st = ff.killUnknownStore(st, x.X)
		}
	case *ast.ReturnStmt:
		for _, r := range x.Results {
			st = ff.expr(r, st, record)
		}
		if record {
			ff.after[n] = st
		}
	case *ast.DeclStmt:
		if gd, ok := x.Decl.(*ast.GenDecl); ok && gd.Tok == token.VAR {
			for _, sp := range gd.Specs {
				st = ff.valueSpec(sp.(*ast.ValueSpec), st, record)
			}
		}
	case *ast.ValueSpec:
		// go/cfg lists each spec of a `var` declaration as a node of its own
		st = ff.valueSpec(x, st, record)
	case *ast.GoStmt:
		for _, a := range x.Call.Args {
			st = ff.expr(a, st, record)
		}
		if record {
			ff.at[x.Call] = st
		}
	case *ast.DeferStmt:
		for _, a := range x.Call.Args {
			st = ff.expr(a, st, record)
		}
		if record {
			ff.at[x.Call] = st
		}
	case *ast.SendStmt:
		st = ff.expr(x.Chan, st, record)
		st = ff.expr(x.Value, st, record)
	}
	if record {
		if _, isRet := n.(*ast.ReturnStmt); !isRet {
			ff.after[n] = st
		}
	}
	return st
}

func zeroTerm(t types.Type) *Term {
	switch u := t.Underlying().(type) {
	case *types.Pointer, *types.Slice, *types.Map, *types.Interface, *types.Chan, *types.Signature:
		return TNil()
	case *types.Basic:
		switch {
		case u.Info()&types.IsBoolean != 0:
			return TConst("false")
		case u.Info()&types.IsString != 0:
			return TStr("")
		case u.Info()&types.IsNumeric != 0:
			return TConst("0")
		}
	}
	return nil
}

// lhsSubexprs evaluates the operand expressions of an assignment target.
func (ff *FuncFacts) lhsSubexprs(l ast.Expr, st *State, record bool) *State {
	switch x := unparen(l).(type) {
	case *ast.Ident:
		return st
	case *ast.SelectorExpr:
		if record {
			if _, seen := ff.at[x]; !seen {
				ff.at[x] = st
			}
		}
		return ff.expr(x.X, st, record)
	case *ast.IndexExpr:
		if record {
			if _, seen := ff.at[x]; !seen {
				ff.at[x] = st
			}
		}
		st = ff.expr(x.X, st, record)
		return ff.expr(x.Index, st, record)
	case *ast.StarExpr:
		if record {
			if _, seen := ff.at[x]; !seen {
				ff.at[x] = st
			}
		}
		return ff.expr(x.X, st, record)
	}
	return ff.expr(l, st, record)
}

// expr walks an expression in evaluation order, recording the state before
// each sub-expression and applying the effects of the calls it contains.
func (ff *FuncFacts) expr(e ast.Expr, st *State, record bool) *State {
	if e == nil {
		return st
	}
	if record {
		if _, seen := ff.at[e]; !seen {
			ff.at[e] = st
		}
	}
	switch x := e.(type) {
	case *ast.ParenExpr:
		return ff.expr(x.X, st, record)
	case *ast.BinaryExpr:
		if x.Op == token.LAND || x.Op == token.LOR {
			st1 := ff.expr(x.X, st, record)
			inner := ff.assume(st1, x.X, x.Op == token.LAND)
			st2 := ff.expr(x.Y, inner, record)
			// after the whole expression only what holds on both evaluation
			// paths remains; effects of calls in Y are conservatively applied
			return meet(st1, ff.dropAssumed(st2, st1))
		}
		st = ff.expr(x.X, st, record)
		return ff.expr(x.Y, st, record)
	case *ast.UnaryExpr:
		return ff.expr(x.X, st, record)
	case *ast.StarExpr:
		return ff.expr(x.X, st, record)
	case *ast.SelectorExpr:
		if _, isPkg := ff.info().Uses[identOf(x.X)].(*types.PkgName); isPkg {
			return st
		}
		return ff.expr(x.X, st, record)
	case *ast.IndexExpr:
		st = ff.expr(x.X, st, record)
		return ff.expr(x.Index, st, record)
	case *ast.IndexListExpr:
		return ff.expr(x.X, st, record)
	case *ast.SliceExpr:
		st = ff.expr(x.X, st, record)
		st = ff.expr(x.Low, st, record)
		st = ff.expr(x.High, st, record)
		return ff.expr(x.Max, st, record)
	case *ast.TypeAssertExpr:
		return ff.expr(x.X, st, record)
	case *ast.KeyValueExpr:
		st = ff.expr(x.Key, st, record)
		return ff.expr(x.Value, st, record)
	case *ast.CompositeLit:
		for _, el := range x.Elts {
			if kv, ok := el.(*ast.KeyValueExpr); ok {
				st = ff.expr(kv.Value, st, record)
			} else {
				st = ff.expr(el, st, record)
			}
		}
		return st
	case *ast.FuncLit:
		return st
	case *ast.CallExpr:
		if tv, ok := ff.info().Types[x.Fun]; ok && tv.IsType() {
			for _, a := range x.Args {
				st = ff.expr(a, st, record)
			}
			return st
		}
		st = ff.expr(x.Fun, st, record)
		for _, a := range x.Args {
			st = ff.expr(a, st, record)
		}
		if record {
			ff.at[x] = st // state at the moment of the call (arguments evaluated)
		}
		return ff.callEffects(x, st)
	}
	return st
}

func identOf(e ast.Expr) *ast.Ident {
	id, _ := e.(*ast.Ident)
	return id
}

// dropAssumed keeps of s only facts already present in base (facts learnt
// from the left operand do not survive the short-circuit expression).
func (ff *FuncFacts) dropAssumed(s, base *State) *State {
	if s == nil || base == nil {
		return s
	}
	return s.filter(func(f *Fact) bool { return base.Has(f.key) })
}

// ---------- terms from expressions ----------

func (ff *FuncFacts) term(e ast.Expr) *Term {
	t := ff.term0(e)
	if t != nil && t.Typ == nil && e != nil {
		if ty := ff.info().TypeOf(e); ty != nil {
			if t.str != "" || len(t.Args) > 0 || t.K == 'v' || t.K == 'c' {
				// terms may be shared; annotate a copy only when cheap
				c := *t
				c.Typ = ty
				return &c
			}
			t.Typ = ty
		}
	}
	return t
}

func (ff *FuncFacts) term0(e ast.Expr) *Term {
	info := ff.info()
	e = unparen(e)
	if tv, ok := info.Types[e]; ok && tv.Value != nil {
		if tv.Value.Kind() == constant.String {
			return TStr(constant.StringVal(tv.Value))
		}
		return TConst(tv.Value.ExactString())
	}
	switch x := e.(type) {
	case *ast.Ident:
		switch o := info.ObjectOf(x).(type) {
		case *types.Var:
			return TVar(o)
		case *types.Nil:
			return TNil()
		case *types.Const:
			return TConst(o.Val().ExactString())
		case *types.Func:
			return &Term{K: 'c', Name: "func:" + funcName(o)}
		}
		return nil
	case *ast.SelectorExpr:
		if sel, ok := info.Selections[x]; ok {
			switch sel.Kind() {
			case types.FieldVal:
				recv := x.X
				if u, isU := unparen(recv).(*ast.UnaryExpr); isU && u.Op == token.AND {
					recv = u.X // (&v).f is v.f
				} else if sx, isStar := unparen(recv).(*ast.StarExpr); isStar {
					recv = sx.X // (*p).f is p.f
				}
				b := ff.term(recv)
				if b == nil {
					return nil
				}
				// embedded-field paths: follow the index path
				t := b
				typ := info.TypeOf(x.X)
				for _, idx := range sel.Index() {
					st, ok := derefStruct(typ)
					if !ok {
						return nil
					}
					f := st.Field(idx)
					t = TField(t, f)
					typ = f.Type()
				}
				return t
			case types.MethodVal:
				b := ff.term(x.X)
				if b == nil {
					return nil
				}
				return &Term{K: 'o', Name: "methodval:" + sel.Obj().Name(), Args: []*Term{b}}
			}
			return nil
		}
		// qualified identifier
		switch o := info.Uses[x.Sel].(type) {
		case *types.Var:
			return TVar(o)
		case *types.Const:
			return TConst(o.Val().ExactString())
		case *types.Func:
			return &Term{K: 'c', Name: "func:" + funcName(o)}
		}
		return nil
	case *ast.StarExpr:
		b := ff.term(x.X)
		if b == nil {
			return nil
		}
		return TDeref(b)
	case *ast.CompositeLit:
		switch info.TypeOf(x).Underlying().(type) {
		case *types.Map, *types.Slice:
			return freshTerm(x.Pos())
		case *types.Struct:
			if len(x.Elts) == 0 {
				return &Term{K: 'c', Name: "zero:" + types.TypeString(info.TypeOf(x), func(p *types.Package) string { return p.Name() })}
			}
		}
		return nil
	case *ast.UnaryExpr:
		if x.Op == token.AND {
			if cl, ok := unparen(x.X).(*ast.CompositeLit); ok {
				return freshTerm(cl.Pos())
			}
		}
		b := ff.term(x.X)
		if b == nil {
			return nil
		}
		if x.Op == token.AND {
			return &Term{K: 'o', Name: "&", Args: []*Term{b}}
		}
		if x.Op == token.ARROW {
			return nil
		}
		return &Term{K: 'o', Name: x.Op.String(), Args: []*Term{b}}
	case *ast.BinaryExpr:
		a, b := ff.term(x.X), ff.term(x.Y)
		if a == nil || b == nil {
			return nil
		}
		return &Term{K: 'o', Name: x.Op.String(), Args: []*Term{a, b}}
	case *ast.IndexExpr:
		a, b := ff.term(x.X), ff.term(x.Index)
		if a == nil || b == nil {
			return nil
		}
		return TIndex(a, b)
	case *ast.SliceExpr:
		if x.Slice3 {
			return nil
		}
		b := ff.term(x.X)
		if b == nil {
			return nil
		}
		lo, hi := TConst("_"), TConst("_")
		if x.Low != nil {
			if lo = ff.term(x.Low); lo == nil {
				return nil
			}
		}
		if x.High != nil {
			if hi = ff.term(x.High); hi == nil {
				return nil
			}
		}
		return &Term{K: 'o', Name: "slice", Args: []*Term{b, lo, hi}}
	case *ast.TypeAssertExpr:
		a := ff.term(x.X)
		if a == nil || x.Type == nil {
			return nil
		}
		return &Term{K: 'o', Name: "assert:" + types.TypeString(info.TypeOf(x.Type), nil), Args: []*Term{a}}
	case *ast.CallExpr:
		if tv, ok := info.Types[x.Fun]; ok && tv.IsType() {
			if len(x.Args) != 1 {
				return nil
			}
			a := ff.term(x.Args[0])
			if a == nil {
				return nil
			}
			return &Term{K: 'o', Name: "conv:" + types.TypeString(tv.Type, nil), Args: []*Term{a}}
		}
		var args []*Term
		name := ""
		var fobj types.Object
		switch callee := typeutil.Callee(info, x).(type) {
		case *types.Func:
			name = funcName(callee.Origin())
			fobj = callee.Origin()
			if sel, ok := unparen(x.Fun).(*ast.SelectorExpr); ok {
				if _, isSel := info.Selections[sel]; isSel {
					r := ff.term(sel.X)
					if r == nil {
						return nil
					}
					// trivial getter: `func (r T) M() X { return r.f }` is the field
					if fld := ff.eng.getterField(callee.Origin()); fld != nil && len(x.Args) == 0 {
						return TField(r, fld)
					}
					args = append(args, r)
				}
			}
		case *types.Builtin:
			name = callee.Name()
			if name == "make" || name == "new" {
				return freshTerm(x.Pos())
			}
			if name != "len" && name != "cap" && name != "min" && name != "max" {
				return nil
			}
		default:
			return nil
		}
		for _, a := range x.Args {
			t := ff.term(a)
			if t == nil {
				return nil
			}
			args = append(args, t)
		}
		return TCall(name, fobj, args...)
	}
	return nil
}

// freshTerm denotes the object allocated by the expression at pos
// (make, new, &T{}, map/slice literal): distinct from everything else and non-nil.
func freshTerm(pos token.Pos) *Term {
	return &Term{K: 'o', Name: "fresh", Args: []*Term{TConst(fmt.Sprint(int(pos)))}}
}

func isFresh(t *Term) bool { return t != nil && t.K == 'o' && t.Name == "fresh" }

// ---------- assumptions from conditions ----------

func (ff *FuncFacts) assume(st *State, e ast.Expr, pol bool) *State {
	if st == nil {
		return st
	}
	e = unparen(e)
	switch x := e.(type) {
	case *ast.UnaryExpr:
		if x.Op == token.NOT {
			return ff.assume(st, x.X, !pol)
		}
	case *ast.BinaryExpr:
		switch x.Op {
		case token.LAND:
			if pol {
				return ff.assume(ff.assume(st, x.X, true), x.Y, true)
			}
			return ff.assumeEither(st, x.X, x.Y, false)
		case token.LOR:
			if !pol {
				return ff.assume(ff.assume(st, x.X, false), x.Y, false)
			}
			return ff.assumeEither(st, x.X, x.Y, true)
		case token.EQL, token.NEQ, token.LSS, token.GTR, token.LEQ, token.GEQ:
			// b == true / b == false / b != true ...
			if x.Op == token.EQL || x.Op == token.NEQ {
				for _, pr := range [][2]ast.Expr{{x.X, x.Y}, {x.Y, x.X}} {
					if tv, ok := ff.info().Types[pr[1]]; ok && tv.Value != nil && tv.Value.Kind() == constant.Bool {
						want := constant.BoolVal(tv.Value)
						if x.Op == token.NEQ {
							want = !want
						}
						return ff.assume(st, pr[0], pol == want)
					}
				}
			}
			a, b := ff.term(x.X), ff.term(x.Y)
			if a == nil || b == nil {
				return st
			}
			switch x.Op {
			case token.EQL:
				return st.add(mkFact(pol, "eq", a, b))
			case token.NEQ:
				return st.add(mkFact(!pol, "eq", a, b))
			case token.LSS:
				return st.add(mkFact(pol, "lt", a, b))
			case token.GEQ:
				return st.add(mkFact(!pol, "lt", a, b))
			case token.GTR:
				return st.add(mkFact(pol, "lt", b, a))
			case token.LEQ:
				return st.add(mkFact(!pol, "lt", b, a))
			}
		}
	}
	if call, ok := e.(*ast.CallExpr); ok {
		if tv, isT := ff.info().Types[call.Fun]; !isT || !tv.IsType() {
			// "this call returned true/false here": an event about the site,
			// which later state changes do not undo
			st = st.with(mkFact(pol, "true", &Term{K: 'r', Name: "res0", Pos: call.Lparen}, nil))
		}
	}
	if call, ok := e.(*ast.CallExpr); ok {
		st = ff.predicateSummary(st, call, pol)
		if !pol {
			st = ff.containsFuncFalse(st, call)
		}
	}
	if t := ff.term(e); t != nil {
		if t.K == 'c' {
			return st
		}
		return st.add(mkFact(pol, "true", t, nil))
	}
	return st
}

// predicateSummary: the call is a module function returning bool that was
// just assumed to have returned pol.  What holds at every `return pol` of
// the callee, expressed over its parameters, holds here for the arguments.
func (ff *FuncFacts) predicateSummary(st *State, call *ast.CallExpr, pol bool) *State {
	if st == nil {
		return st
	}
	e := ff.eng
	if e.summarising > 2 {
		return st
	}
	f, _ := typeutil.Callee(ff.info(), call).(*types.Func)
	if f == nil {
		return st
	}
	fs := e.p.SrcOfFunc(f.Origin())
	if fs == nil || fs == ff.fs || fs.Decl == nil {
		return st
	}
	sig, _ := f.Type().(*types.Signature)
	if sig == nil || sig.Results().Len() != 1 || sig.Variadic() {
		return st
	}
	if bt, ok := sig.Results().At(0).Type().Underlying().(*types.Basic); !ok || bt.Kind() != types.Bool {
		return st
	}
	e.summarising++
	cf := e.Analyze(fs)
	e.summarising--
	if cf == nil {
		return st
	}
	want := "false"
	if pol {
		want = "true"
	}
	var common *State
	n := 0
	for _, ex := range cf.Exits() {
		if ex.Ret == nil || len(ex.Ret.Results) != 1 || ex.St == nil {
			return st
		}
		tv := fs.Pkg.TypesInfo.Types[ex.Ret.Results[0]]
		if tv.Value == nil {
			// a computed answer: under pol the returned condition itself holds
			s2 := cf.assume(ex.St, ex.Ret.Results[0], pol)
			if s2 == nil {
				continue // this exit cannot produce pol
			}
			n++
			if common == nil {
				common = s2
			} else {
				common = meet(common, s2)
			}
			continue
		}
		if tv.Value.String() != want {
			continue
		}
		n++
		if common == nil {
			common = ex.St
		} else {
			common = meet(common, ex.St)
		}
	}
	if n == 0 || common == nil {
		return st
	}
	// substitute parameters by arguments; facts about anything else local are dropped
	info := fs.Pkg.TypesInfo
	params := fs.params(info)
	var args []ast.Expr
	if fs.Decl.Recv != nil {
		sel, ok := unparen(call.Fun).(*ast.SelectorExpr)
		if !ok {
			return st
		}
		args = append(args, sel.X)
	}
	args = append(args, call.Args...)
	if len(args) != len(params) {
		return st
	}
	assigned := cf.assignedVars()
	sub := map[string]*Term{}
	pset := map[types.Object]bool{}
	for i, po := range params {
		if po == nil {
			continue
		}
		if assigned[po] {
			continue
		}
		at := ff.term(args[i])
		if at == nil {
			continue
		}
		sub[TVar(po).String()] = at
		pset[po] = true
	}
	for _, g := range common.m {
		if g.Op == "imp" {
			continue
		}
		en := g.ents()
		if len(en.sites) > 0 {
			continue
		}
		okVars := true
		for v := range en.vars {
			if !pset[v] && !isGlobal(v) {
				okVars = false
			}
		}
		if !okVars {
			continue
		}
		a := g.A
		b := g.B
		for from, to := range sub {
			a = a.subst(from, to)
			if b != nil {
				b = b.subst(from, to)
			}
		}
		st = st.add(mkFact(g.Pos, g.Op, a, b))
	}
	return st
}

// ---------- kills ----------

// entities mentioned by a term
type ents struct {
	vars   map[types.Object]bool
	fields map[types.Object]bool
	sites  map[token.Pos]bool
	calls  []types.Object
	deref  bool
}

func termEnts(ts ...*Term) *ents {
	e := &ents{vars: map[types.Object]bool{}, fields: map[types.Object]bool{}, sites: map[token.Pos]bool{}}
	for _, t := range ts {
		t.walk(func(x *Term) {
			switch x.K {
			case 'v':
				e.vars[x.Obj] = true
			case 'f':
				e.fields[x.Obj] = true
			case 'r':
				e.sites[x.Pos] = true
			case 'k':
				if x.Obj != nil {
					e.calls = append(e.calls, x.Obj)
				}
			case 'd':
				e.deref = true
			}
		})
	}
	return e
}

func (f *Fact) ents() *ents { return termEnts(f.terms()...) }

// killTerm removes the facts invalidated by a store to the location t.
func (ff *FuncFacts) killTerm(st *State, t *Term) *State {
	if st == nil {
		return st
	}
	switch t.K {
	case 'v':
		s := t.String()
		return st.filter(func(f *Fact) bool {
			for _, x := range f.terms() {
				if x.mentions(s) {
					return false
				}
			}
			return true
		})
	case 'f':
		fld := t.Obj
		st = st.filter(func(f *Fact) bool { return !f.ents().fields[fld] && !ff.callReads(f, fld) })
		// a store to a field of a struct-valued variable also changes the
		// variable's value as a whole (x == y, x == f())
		if len(t.Args) == 1 && t.Args[0].K == 'v' && t.Args[0].Obj != nil {
			if _, isStruct := t.Args[0].Obj.Type().Underlying().(*types.Struct); isStruct {
				obj := t.Args[0].Obj
				st = st.filter(func(f *Fact) bool {
					for _, x := range f.terms() {
						if wholeUse(x, obj) {
							return false
						}
					}
					return true
				})
			}
		}
		return st
	case 'i':
		// store to an element: kill what depends on the container's
		// contents (index terms, calls taking it, len/each), but not facts
		// about the container value itself (x == nil, x == y)
		base := t.Args[0]
		if base.K != 'v' && base.K != 'f' {
			return ff.killAllHeap(st)
		}
		same := func(x *Term) bool {
			if base.K == 'v' {
				return x.K == 'v' && x.Obj == base.Obj
			}
			return x.K == 'f' && x.Obj == base.Obj
		}
		return st.filter(func(f *Fact) bool {
			dep := false
			for _, top := range f.terms() {
				top.walk(func(x *Term) {
					if x.K == 'k' && (x.Name == "len" || x.Name == "cap") {
						return // the length does not depend on the contents
					}
					if x.K == 'i' || x.K == 'k' || (x.K == 'o' && x.Name != "fresh") {
						for _, a := range x.Args {
							a.walk(func(y *Term) {
								if same(y) {
									dep = true
								}
							})
						}
					}
				})
			}
			return !dep
		})
	case 'd':
		return ff.killAllHeap(st)
	}
	return ff.killAllHeap(st)
}

func (ff *FuncFacts) killUnknownStore(st *State, e ast.Expr) *State { return ff.killAllHeap(st) }

// callReads: does the fact contain a call term whose callee may read entity o?
func (ff *FuncFacts) callReads(f *Fact, o types.Object) bool {
	for _, c := range f.ents().calls {
		fn, ok := c.(*types.Func)
		if !ok {
			continue
		}
		sf := ff.eng.p.SSAFunc(fn)
		if sf == nil {
			continue
		}
		if ff.eng.fx.Reads(sf)[o] {
			return true
		}
	}
	return false
}

// killAllHeap keeps only facts about non-escaping local variables and call results.
func (ff *FuncFacts) killAllHeap(st *State) *State {
	if st == nil {
		return st
	}
	return st.filter(func(f *Fact) bool {
		e := f.ents()
		if len(e.fields) > 0 || e.deref || len(e.calls) > 0 {
			return false
		}
		for v := range e.vars {
			if ff.escaping[v] || isGlobal(v) {
				return false
			}
		}
		return true
	})
}

func isGlobal(o types.Object) bool {
	return o.Pkg() != nil && o.Parent() == o.Pkg().Scope()
}

// callEffects applies the kills of a call.
func (ff *FuncFacts) callEffects(call *ast.CallExpr, st *State) *State {
	if st == nil {
		return st
	}
	info := ff.info()
	p := ff.eng.p
	// result terms of this site are recomputed
	site := call.Lparen
	st = st.filter(func(f *Fact) bool { return !f.ents().sites[site] })

	var callees []*ssa.Function
	external := false
	unknown := false
	switch callee := typeutil.Callee(info, call).(type) {
	case *types.Builtin:
		switch callee.Name() {
		case "delete", "copy", "clear":
			if len(call.Args) > 0 {
				if t := ff.term(call.Args[0]); t != nil {
					if t.K == 'o' { // slice expression etc.
						return ff.killAllHeap(st)
					}
					return ff.killTerm(st, &Term{K: 'i', Args: []*Term{t, TConst("_")}})
				}
				return ff.killAllHeap(st)
			}
		}
		return st
	case *types.Func:
		sf := p.SSAFunc(callee.Origin())
		if sf != nil && fnInModule(sf) && sf.Blocks != nil {
			callees = append(callees, sf)
			// generic functions: effects of all instantiations are the same fields
		} else if cs := p.CalleesAt(site); len(cs) > 0 {
			for _, c := range cs {
				if fnInModule(c) {
					callees = append(callees, c)
				} else {
					external = true
				}
			}
		} else {
			external = true
		}
	default:
		cs := p.CalleesAt(site)
		if len(cs) == 0 {
			unknown = true
		}
		for _, c := range cs {
			if fnInModule(c) {
				callees = append(callees, c)
			} else {
				external = true
			}
		}
	}
	if unknown {
		// a call through a function value the call graph cannot resolve:
		// assume the worst for heap facts
		return ff.killAllHeap(st)
	}
	mods := map[types.Object]bool{}
	var argTypes []types.Type
	if sel, ok := unparen(call.Fun).(*ast.SelectorExpr); ok {
		if s, isSel := info.Selections[sel]; isSel && s.Kind() == types.MethodVal {
			argTypes = append(argTypes, info.TypeOf(sel.X))
		}
	}
	for _, a := range call.Args {
		argTypes = append(argTypes, info.TypeOf(a))
	}
	for _, c := range callees {
		for o := range ff.eng.fx.ModsAt(c, argTypes) {
			mods[o] = true
		}
	}
	// function-valued arguments may be invoked by the callee
	for _, a := range call.Args {
		if lit, ok := unparen(a).(*ast.FuncLit); ok {
			if src := p.SrcOfLit(lit); src != nil {
				for _, sf := range p.ssaOfSrc(src) {
					for o := range ff.eng.fx.Mods(sf) {
						mods[o] = true
					}
				}
			}
		}
	}
	anyEscaping := len(ff.escaping) > 0
	st = st.filter(func(f *Fact) bool {
		e := f.ents()
		for o := range e.fields {
			if mods[o] {
				return false
			}
		}
		for v := range e.vars {
			if isGlobal(v) && mods[v] {
				return false
			}
			if anyEscaping && ff.escaping[v] {
				return false
			}
		}
		for _, c := range e.calls {
			if fn, ok := c.(*types.Func); ok {
				if sf := p.SSAFunc(fn); sf != nil {
					for o := range ff.eng.fx.Reads(sf) {
						if mods[o] {
							return false
						}
					}
				}
			}
		}
		return true
	})
	if external {
		// an external callee may write through pointer arguments
		for _, a := range call.Args {
			a = unparen(a)
			if u, ok := a.(*ast.UnaryExpr); ok && u.Op == token.AND {
				if t := ff.term(u.X); t != nil {
					st = ff.killTerm(st, t)
					root := t
					for len(root.Args) > 0 && (root.K == 'f' || root.K == 'i' || root.K == 'd') {
						root = root.Args[0]
					}
					st = ff.killRooted(st, root)
				}
				continue
			}
			if _, isPtr := info.TypeOf(a).Underlying().(*types.Pointer); isPtr {
				if t := ff.term(a); t != nil {
					st = ff.killRooted(st, t)
				}
			}
		}
	}
	return ff.eventFact(call, st)
}

// eventFact records that a registered function has been called with these
// arguments.
func (ff *FuncFacts) eventFact(call *ast.CallExpr, st *State) *State {
	if st == nil || len(ff.eng.events) == 0 {
		return st
	}
	fn, ok := typeutil.Callee(ff.info(), call).(*types.Func)
	if !ok || !ff.eng.events[fn.Origin()] {
		return st
	}
	var args []*Term
	if sel, ok := unparen(call.Fun).(*ast.SelectorExpr); ok {
		if _, isSel := ff.info().Selections[sel]; isSel {
			r := ff.term(sel.X)
			if r == nil {
				r = TConst("?")
			}
			args = append(args, r)
		}
	}
	for _, a := range call.Args {
		t := ff.term(a)
		if t == nil {
			// label by static type so that e.g. action(permissionsChangedAction{}) is recognisable
			t = TConst("type:" + types.TypeString(ff.info().TypeOf(a), func(p *types.Package) string { return p.Name() }))
		}
		args = append(args, t)
	}
	return st.with(mkFact(true, "true", &Term{K: 'o', Name: "called:" + funcName(fn.Origin()), Args: args}, nil))
}

// killRooted removes facts that mention a field or element reached through t.
func (ff *FuncFacts) killRooted(st *State, t *Term) *State {
	s := t.String()
	return st.filter(func(f *Fact) bool {
		for _, x := range f.terms() {
			hit := false
			x.walk(func(y *Term) {
				if (y.K == 'f' || y.K == 'i' || y.K == 'd') && y.Args[0].mentions(s) {
					hit = true
				}
			})
			if hit {
				return false
			}
		}
		return true
	})
}

// assign applies an assignment statement: kills, then equalities.
func (ff *FuncFacts) assign(x *ast.AssignStmt, st *State) *State {
	if st == nil {
		return st
	}
	info := ff.info()
	pre := st // the state before the assignment kills anything
	var lts []*Term
	for _, l := range x.Lhs {
		if id, ok := l.(*ast.Ident); ok && id.Name == "_" {
			lts = append(lts, nil)
			continue
		}
		lt := ff.term(l)
		lts = append(lts, lt)
	}
	// right-hand terms are computed before the kill
	var rts []*Term
	if len(x.Rhs) == len(x.Lhs) {
		for _, r := range x.Rhs {
			if x.Tok == token.ASSIGN || x.Tok == token.DEFINE {
				rts = append(rts, ff.term(r))
			} else {
				rts = append(rts, nil)
			}
		}
	} else if len(x.Rhs) == 1 {
		// multi-value: call, map index, type assertion, receive
		r := unparen(x.Rhs[0])
		var pos token.Pos
		switch rr := r.(type) {
		case *ast.CallExpr:
			pos = rr.Lparen
		default:
			pos = r.Pos()
		}
		for i := range x.Lhs {
			rts = append(rts, &Term{K: 'r', Name: fmt.Sprintf("res%d", i), Pos: pos})
		}
		// old facts about this site's results die
		st = st.filter(func(f *Fact) bool { return !f.ents().sites[pos] })
		// v, ok := m[k] / x.(T): remember what the results are results of
	}
	// x = x (as left behind by inlining `return x, err` of named results) changes nothing
	same := make([]bool, len(x.Lhs))
	if len(x.Rhs) == len(x.Lhs) && x.Tok == token.ASSIGN {
		for i := range x.Lhs {
			if lts[i] != nil && i < len(rts) && rts[i] != nil && lts[i].K == 'v' && lts[i].String() == rts[i].String() {
				same[i] = true
			}
		}
	}
	for i, l := range x.Lhs {
		lt := lts[i]
		if same[i] {
			continue
		}
		if lt == nil {
			if id, ok := l.(*ast.Ident); !ok || id.Name != "_" {
				st = ff.killUnknownStore(st, l)
			}
			continue
		}
		st = ff.killTerm(st, lt)
	}
	// x = append(y, e...): non-nil when y was, or when at least one element is added
	if len(x.Rhs) == len(x.Lhs) && (x.Tok == token.ASSIGN || x.Tok == token.DEFINE) {
		for i := range x.Lhs {
			lt := lts[i]
			if lt == nil || !(lt.K == 'v' || lt.K == 'f') {
				continue
			}
			call, ok := unparen(x.Rhs[i]).(*ast.CallExpr)
			if !ok || len(call.Args) < 1 {
				continue
			}
			id, isId := unparen(call.Fun).(*ast.Ident)
			if !isId {
				continue
			}
			if b, isB := info.Uses[id].(*types.Builtin); !isB || b.Name() != "append" {
				continue
			}
			a0 := ff.term(call.Args[0])
			wasNonNil := a0 != nil && pre != nil && (pre.HasFact(mkFact(false, "eq", a0, TNil())) || pre.HasFact(mkFact(false, "eq", TNil(), a0)))
			if wasNonNil || (len(call.Args) >= 2 && !call.Ellipsis.IsValid()) {
				st = st.add(mkFact(false, "eq", lt, TNil()))
			}
		}
	}
	if len(x.Rhs) == len(x.Lhs) && (x.Tok == token.ASSIGN || x.Tok == token.DEFINE) {
		for i := range x.Lhs {
			lt := lts[i]
			if lt == nil {
				continue
			}
			// x := T{f: e, ...}: the fields of the new value are what the literal says
			if cl, isCL := unparen(x.Rhs[i]).(*ast.CompositeLit); isCL && lt.K == 'v' {
				if stt, isStruct := info.TypeOf(cl).Underlying().(*types.Struct); isStruct {
					for _, el := range cl.Elts {
						kv, isKV := el.(*ast.KeyValueExpr)
						if !isKV {
							continue
						}
						kid, isId := kv.Key.(*ast.Ident)
						if !isId {
							continue
						}
						var fld *types.Var
						for k := 0; k < stt.NumFields(); k++ {
							if stt.Field(k).Name() == kid.Name {
								fld = stt.Field(k)
							}
						}
						if fld == nil {
							continue
						}
						if vt := ff.term(kv.Value); vt != nil && ff.pureTerm(vt) && !vt.mentions(lt.String()) {
							st = st.add(mkFact(true, "eq", TField(lt, fld), vt))
						}
					}
				}
			}
		}
	}
	for i := range x.Lhs {
		lt := lts[i]
		if lt == nil || i >= len(rts) || rts[i] == nil || same[i] {
			continue
		}
		rt := rts[i]
		if rt.mentions(lt.String()) {
			// x = f(x): only the link to this site's result survives
			if len(x.Rhs) == len(x.Lhs) && (lt.K == 'v' || lt.K == 'f') {
				if call, ok := unparen(x.Rhs[i]).(*ast.CallExpr); ok {
					if tv, isType := info.Types[call.Fun]; !isType || !tv.IsType() {
						st = st.add(mkFact(true, "eq", lt, &Term{K: 'r', Name: "res0", Pos: call.Lparen}))
					}
					// x = append(x, e...): non-nil when x was, or when at least one element is added
					if id, isId := unparen(call.Fun).(*ast.Ident); isId && len(call.Args) >= 1 {
						if b, isB := info.Uses[id].(*types.Builtin); isB && b.Name() == "append" {
							a0 := ff.term(call.Args[0])
							wasNonNil := a0 != nil && pre != nil && (pre.HasFact(mkFact(false, "eq", a0, TNil())) || pre.HasFact(mkFact(false, "eq", TNil(), a0)))
							if wasNonNil || (len(call.Args) >= 2 && !call.Ellipsis.IsValid()) {
								st = st.add(mkFact(false, "eq", lt, TNil()))
							}
							if os.Getenv("GALINT_DEBUG_APPEND") != "" {
								fmt.Fprintln(os.Stderr, "append:", lt, wasNonNil, len(call.Args), st)
							}
						}
					}
				}
			}
			continue
		}
		// a single-value call result gets a site term too, so that facts
		// about "the value returned here" survive reassignment of the variable
		if (lt.K == 'v' || lt.K == 'f' || lt.K == 'i') && ff.pureTerm(rt) {
			st = st.add(mkFact(true, "eq", lt, rt))
			// x = y: an implication conditioned on y's truth or nil-ness is one on x's
			if lt.K == 'v' && rt.K == 'v' {
				rs := rt.String()
				var add []*Fact
				for _, k := range sortedKeys(st.m) {
					f := st.m[k]
					if f.Op != "imp" || f.Cond == nil || f.Then == nil || f.Cond.Op == "imp" || f.Cond.A == nil {
						continue
					}
					cnd := f.Cond
					isFlag := (cnd.Op == "true" && cnd.A.String() == rs) ||
						(cnd.Op == "eq" && cnd.B != nil && ((cnd.A.String() == rs && cnd.B.K == 'n') || (cnd.B.String() == rs && cnd.A.K == 'n')))
					if !isFlag {
						continue
					}
					mentionsL := false
					for _, t := range f.Then.terms() {
						if t.mentions(lt.String()) {
							mentionsL = true
						}
					}
					if mentionsL {
						continue
					}
					var b *Term
					if cnd.B != nil {
						b = cnd.B.subst(rs, lt)
					}
					add = append(add, mkImp(mkFact(cnd.Pos, cnd.Op, cnd.A.subst(rs, lt), b), f.Then))
				}
				st = st.with(add...)
			}
			// x = y on struct values: what is known about y's fields holds of x's
			if lt.K == 'v' && rt.K == 'v' && len(x.Rhs) == len(x.Lhs) {
				if _, isStruct := info.TypeOf(x.Rhs[i]).Underlying().(*types.Struct); isStruct {
					rs, ls := rt.String(), lt.String()
					var add []*Fact
					for _, f := range st.Facts() {
						if f.Op == "imp" || f.A == nil {
							continue
						}
						hit, self := false, false
						for _, t := range f.terms() {
							t.walk(func(y *Term) {
								if y.K == 'f' && len(y.Args) == 1 && y.Args[0].String() == rs {
									hit = true
								}
							})
							if t.mentions(ls) {
								self = true
							}
						}
						if !hit || self {
							continue
						}
						var b *Term
						if f.B != nil {
							b = f.B.subst(rs, lt)
						}
						add = append(add, mkFact(f.Pos, f.Op, f.A.subst(rs, lt), b))
					}
					st = st.with(add...)
				}
			}
			if isFresh(rt) || (rt.K == 'o' && rt.Name == "&" && len(rt.Args) == 1) {
				st = st.add(mkFact(false, "eq", lt, TNil())) // a new object, or the address of something
			}
			if isOrdered(info.TypeOf(x.Lhs[i])) {
				// x = y: neither x < y nor y < x (survives a join with the
				// branch on which the comparison was already false)
				st = st.with(mkFact(false, "lt", lt, rt), mkFact(false, "lt", rt, lt))
			}
		}
		if len(x.Rhs) == len(x.Lhs) {
			if call, ok := unparen(x.Rhs[i]).(*ast.CallExpr); ok {
				if tv, isType := info.Types[call.Fun]; !isType || !tv.IsType() {
					rs := &Term{K: 'r', Name: "res0", Pos: call.Lparen}
					st = st.add(mkFact(true, "eq", lt, rs))
				}
				st = ff.resultShape(st, lt, call)
			}
			// iface = <value of a concrete type that has no nil>: a non-nil interface
			if lt.K == 'v' || lt.K == 'f' {
				if lty := info.TypeOf(x.Lhs[i]); lty != nil {
					if _, isIface := lty.Underlying().(*types.Interface); isIface {
						if rty := info.TypeOf(x.Rhs[i]); rty != nil {
							switch u := rty.Underlying().(type) {
							case *types.Struct, *types.Array:
								st = st.add(mkFact(false, "eq", lt, TNil()))
							case *types.Basic:
								if u.Kind() != types.UntypedNil && u.Kind() != types.UnsafePointer {
									st = st.add(mkFact(false, "eq", lt, TNil()))
								}
							}
						}
					}
				}
			}
			// err = ErrSomething: a package-level error value that is initialised
			// non-nil and assigned nowhere else
			if g := ff.globalOf(x.Rhs[i]); g != nil && ff.eng.nonNilGlobal(g) && (lt.K == 'v' || lt.K == 'f') {
				st = st.add(mkFact(false, "eq", lt, TNil()))
			}
		}
	}
	// b = true / b = false
	if len(x.Lhs) == len(x.Rhs) {
		for i := range x.Lhs {
			if lts[i] == nil || lts[i].K != 'v' {
				continue
			}
			if tv := info.Types[x.Rhs[i]]; tv.Value != nil && tv.Value.Kind() == constant.Bool {
				st = st.add(mkFact(constant.BoolVal(tv.Value), "true", lts[i], nil))
			}
		}
	}
	// b := <condition>: testing b later is testing the condition (as long as
	// nothing it mentions has changed; the implications are killed with it)
	if len(x.Lhs) == len(x.Rhs) {
		for i := range x.Lhs {
			lt := lts[i]
			if lt == nil || lt.K != 'v' {
				continue
			}
			if bt, ok := info.TypeOf(x.Lhs[i]).Underlying().(*types.Basic); !ok || bt.Kind() != types.Bool {
				continue
			}
			rhs := unparen(x.Rhs[i])
			if tv := info.Types[rhs]; tv.Value != nil {
				continue
			}
			if _, isId := rhs.(*ast.Ident); isId {
				continue
			}
			if rt := rts[i]; rt != nil && rt.mentions(lt.String()) {
				continue
			}
			for _, pol := range []bool{true, false} {
				learnt := ff.assume(emptyState, rhs, pol)
				if learnt == nil {
					continue
				}
				cond := mkFact(pol, "true", lt, nil)
				for _, g := range learnt.m {
					if g.Op == "imp" || g.key == cond.key {
						continue
					}
					mentionsSelf := false
					for _, t := range g.terms() {
						if t.mentions(lt.String()) {
							mentionsSelf = true
						}
					}
					if !mentionsSelf {
						st = st.with(mkImp(cond, g))
					}
				}
			}
		}
	}
	// x = f(x): the shape of the result is still known
	for i := range x.Lhs {
		if lts[i] == nil || i >= len(rts) || rts[i] == nil || !rts[i].mentions(lts[i].String()) || len(x.Rhs) != len(x.Lhs) {
			continue
		}
		if call, ok := unparen(x.Rhs[i]).(*ast.CallExpr); ok {
			st = ff.resultShape(st, lts[i], call)
		}
	}
	return st
}

// resultShape adds what is known about the value a call just produced for
// the location lt, independently of its arguments: the length of a make, the
// non-emptiness of a cleaned path.
func (ff *FuncFacts) resultShape(st *State, lt *Term, call *ast.CallExpr) *State {
	if lt == nil || !(lt.K == 'v' || lt.K == 'f') {
		return st
	}
	info := ff.info()
	switch callee := typeutil.Callee(info, call).(type) {
	case *types.Builtin:
		if callee.Name() == "make" && len(call.Args) >= 2 {
			if _, isSlice := info.TypeOf(call).Underlying().(*types.Slice); isSlice {
				if n := ff.term(call.Args[1]); n != nil && ff.pureTerm(n) && !n.mentions(lt.String()) {
					st = st.add(mkFact(true, "eq", TCall("len", nil, lt), n))
				}
			}
		}
	case *types.Func:
		switch callee.FullName() {
		case "path.Clean", "path/filepath.Clean":
			st = st.add(mkFact(false, "eq", TStr(""), lt))
		case "errors.New", "fmt.Errorf":
			st = st.add(mkFact(false, "eq", lt, TNil()))
		}
	default:
		// T(x) with T a named non-nillable type, stored in an interface: a non-nil value
		if tv, ok := info.Types[call.Fun]; ok && tv.IsType() {
			switch tv.Type.Underlying().(type) {
			case *types.Basic, *types.Struct, *types.Array:
				if lt.Typ != nil {
					if _, isIface := lt.Typ.Underlying().(*types.Interface); isIface {
						st = st.add(mkFact(false, "eq", lt, TNil()))
					}
				} else if lt.K == 'v' && lt.Obj != nil {
					if _, isIface := lt.Obj.Type().Underlying().(*types.Interface); isIface {
						st = st.add(mkFact(false, "eq", lt, TNil()))
					}
				}
			}
		}
	}
	return st
}

func isOrdered(t types.Type) bool {
	if t == nil {
		return false
	}
	b, ok := t.Underlying().(*types.Basic)
	return ok && b.Info()&(types.IsInteger|types.IsFloat) != 0
}

// pureTerm: every call inside the term is to a pure module function or a
// side-effect-free builtin, so "x == term" is a meaningful equality.
func (ff *FuncFacts) pureTerm(t *Term) bool {
	ok := true
	t.walk(func(x *Term) {
		if x.K == 'k' {
			fn, isFn := x.Obj.(*types.Func)
			if x.Obj == nil { // builtin len/cap/min/max
				return
			}
			if !isFn || !(ff.eng.pureCallee(fn) || pureStdlib[fn.FullName()]) {
				ok = false
			}
		}
	})
	return ok
}

// ssaOfSrc returns the SSA functions built from a source function.
func (p *Program) ssaOfSrc(src *FuncSrc) []*ssa.Function {
	p.CallGraph()
	if p.srcSSA == nil {
		p.srcSSA = map[*FuncSrc][]*ssa.Function{}
		for fn := range p.cg.Nodes {
			if fn == nil || !fnInModule(fn) {
				continue
			}
			if s := p.SrcOfSSA(fn); s != nil {
				p.srcSSA[s] = append(p.srcSSA[s], fn)
			}
		}
	}
	return p.srcSSA[src]
}

// ---------- interprocedural requirements ----------

type holdResult struct {
	ok       bool
	trail    []string // where the requirement was discharged, or where it failed
	failFact *Fact    // the (translated) fact at the point where the requirement failed
}

func (r holdResult) String() string { return strings.Join(r.trail, "; ") }

// params returns the parameter objects of a source function: receiver first.
func (fs *FuncSrc) params(info *types.Info) []types.Object {
	var out []types.Object
	if fs.Decl != nil && fs.Decl.Recv != nil {
		for _, f := range fs.Decl.Recv.List {
			for _, n := range f.Names {
				out = append(out, info.Defs[n])
			}
			if len(f.Names) == 0 {
				out = append(out, nil)
			}
		}
	}
	for _, f := range fs.Type().Params.List {
		for _, n := range f.Names {
			out = append(out, info.Defs[n])
		}
		if len(f.Names) == 0 {
			out = append(out, nil)
		}
	}
	return out
}

// assignedVars returns the variables assigned anywhere in the function body
// (other than by their declaration).
func (ff *FuncFacts) assignedVars() map[types.Object]bool {
	out := map[types.Object]bool{}
	info := ff.info()
	ast.Inspect(ff.fs.Body(), func(n ast.Node) bool {
		switch x := n.(type) {
		case *ast.AssignStmt:
			for _, l := range x.Lhs {
				if id, ok := unparen(l).(*ast.Ident); ok && x.Tok != token.DEFINE {
					if o := info.ObjectOf(id); o != nil {
						out[o] = true
					}
				}
				if id, ok := unparen(l).(*ast.Ident); ok && x.Tok == token.DEFINE {
					if o := info.Uses[id]; o != nil { // redeclaration in := reuses the variable
						out[o] = true
					}
				}
			}
		case *ast.IncDecStmt:
			if id, ok := unparen(x.X).(*ast.Ident); ok {
				if o := info.ObjectOf(id); o != nil {
					out[o] = true
				}
			}
		case *ast.RangeStmt:
			for _, e := range []ast.Expr{x.Key, x.Value} {
				if id, ok := e.(*ast.Ident); ok && x.Tok == token.ASSIGN {
					if o := info.ObjectOf(id); o != nil {
						out[o] = true
					}
				}
			}
		}
		return true
	})
	return out
}

// Holds decides whether fact f is a must-fact at node `at` of fs, or - when
// f only speaks about parameters (or, for a closure, captured variables) -
// at every call site of fs, recursively.
func (e *FactEngine) Holds(fs *FuncSrc, at ast.Node, f *Fact) holdResult {
	return e.holds(fs, at, f, 0, map[string]bool{})
}

func (e *FactEngine) holds(fs *FuncSrc, at ast.Node, f *Fact, depth int, seen map[string]bool) holdResult {
	ff := e.Analyze(fs)
	st, ok := ff.at[at]
	where := fs.Name + " at " + e.p.PosStr(at.Pos())
	if !ok {
		// node not on any live path of the CFG
		return holdResult{ok: true, trail: []string{where + ": unreachable"}}
	}
	if st == nil || st.Has(f.key) {
		return holdResult{ok: true, trail: []string{where + ": " + f.String()}}
	}
	if e.Accept != nil && e.Accept(st, f) {
		return holdResult{ok: true, trail: []string{where + ": " + f.String() + " (accepted from an equivalent guard)"}}
	}
	fail := func(why string) holdResult {
		return holdResult{false, []string{fmt.Sprintf("%s: %s not established (%s); facts here: %s", where, f.String(), why, st.String())}, f}
	}
	if depth >= 6 {
		return fail("call depth limit")
	}
	sk := fs.Name + "|" + f.key
	if seen[sk] {
		return holdResult{ok: true, trail: []string{where + ": (recursive)"}}
	}
	seen[sk] = true
	defer delete(seen, sk)

	info := ff.info()
	params := fs.params(info)
	pidx := map[types.Object]int{}
	for i, p := range params {
		if p != nil {
			pidx[p] = i
		}
	}
	assigned := ff.assignedVars()
	// which variables does the fact mention?
	en := f.ents()
	if len(en.sites) > 0 {
		return fail("speaks about a local call result")
	}
	for v := range en.vars {
		if isGlobal(v) {
			continue
		}
		if _, isParam := pidx[v]; isParam {
			if assigned[v] || ff.escaping[v] {
				return fail("parameter " + v.Name() + " is reassigned")
			}
			continue
		}
		// captured variable of a closure: same object in the enclosing function
		if fs.Lit != nil && !(v.Pos() >= fs.Lit.Pos() && v.Pos() < fs.Lit.End()) {
			continue
		}
		return fail("speaks about local variable " + v.Name())
	}
	// heap facts must not be invalidated between the function entry and the
	// node: check that the fact survives from entry (assume it at entry and see
	// whether it is still there)
	if !e.survivesFromEntry(fs, at, f) {
		return fail("may be invalidated between the entry of " + fs.Name + " and this point")
	}
	callers := e.p.CallersOf(fs)
	if len(callers) == 0 {
		return fail("no caller in the module (entry point)")
	}
	var trail []string
	for _, c := range callers {
		if c.cs == nil {
			return fail("called from outside module source (" + c.from + ")")
		}
		if c.isGo {
			return fail("started with go at " + e.p.PosStr(c.cs.Call.Pos()))
		}
		cff := e.Analyze(c.cs.In)
		// closures: the caller must be an ancestor for captured variables to denote the same object
		if fs.Lit != nil {
			anc := false
			for a := c.cs.In; a != nil; a = a.Parent {
				if a == fs.Parent {
					anc = true
				}
			}
			if !anc {
				for v := range en.vars {
					if _, isParam := pidx[v]; !isParam && !isGlobal(v) {
						return fail("closure called from " + c.cs.In.Name + ", where its captured variables are not in scope")
					}
				}
			}
		}
		// build the substitution
		call := c.cs.Call
		var args []ast.Expr
		if fs.Decl != nil && fs.Decl.Recv != nil {
			sel, ok := unparen(call.Fun).(*ast.SelectorExpr)
			if !ok {
				return fail("method called through a method value at " + e.p.PosStr(call.Pos()))
			}
			args = append(args, sel.X)
		}
		args = append(args, call.Args...)
		nf := f
		argTypes := map[string]types.Type{}
		for v := range en.vars {
			i, isParam := pidx[v]
			if !isParam {
				continue
			}
			if i >= len(args) {
				return fail("variadic/mismatched call at " + e.p.PosStr(call.Pos()))
			}
			at := cff.term(args[i])
			if at == nil {
				return fail("argument " + types.ExprString(args[i]) + " at " + e.p.PosStr(call.Pos()) + " is not an access path")
			}
			if tt := cff.info().TypeOf(args[i]); tt != nil {
				argTypes[at.String()] = tt
			}
			vs := TVar(v).String()
			var b *Term
			if nf.B != nil {
				b = nf.B.subst(vs, at)
			}
			nf = mkFact(nf.Pos, nf.Op, nf.A.subst(vs, at), b)
		}
		if e.Concretise != nil {
			nf2, done := e.Concretise(nf, argTypes)
			if done {
				trail = append(trail, c.cs.In.Name+" at "+e.p.PosStr(call.Pos())+": "+nf.String()+" holds for the concrete type of the argument")
				continue
			}
			nf = nf2
		}
		r := e.holds(c.cs.In, call, nf, depth+1, seen)
		if !r.ok {
			return holdResult{false, append([]string{where + ": needs " + f.String() + " from its callers"}, r.trail...), r.failFact}
		}
		trail = append(trail, r.trail...)
	}
	return holdResult{ok: true, trail: append([]string{where + ": required of all " + fmt.Sprint(len(callers)) + " call site(s)"}, trail...)}
}

// survivesFromEntry re-runs the function's dataflow with f assumed at entry
// and reports whether f is still a must-fact at the node.
func (e *FactEngine) survivesFromEntry(fs *FuncSrc, at ast.Node, f *Fact) bool {
	ff := &FuncFacts{fs: fs, eng: e, at: map[ast.Node]*State{}, after: map[ast.Node]*State{}, blockIn: map[*cfg.Block]*State{}}
	ff.run(emptyState.with(f))
	st, ok := ff.at[at]
	return !ok || st == nil || st.Has(f.key)
}

// EqualUnder reports whether two terms denote the same value given the
// equalities in the state (syntactic identity after rewriting variables and
// call results through `x == t` facts).
func (s *State) EqualUnder(a, b *Term) bool {
	if a == nil || b == nil {
		return false
	}
	if a.String() == b.String() {
		return true
	}
	if s == nil {
		return true
	}
	if s.Has(mkFact(true, "eq", a, b).key) {
		return true
	}
	// normal forms: rewrite both through equalities (a few rounds)
	na, nb := s.variants(a), s.variants(b)
	for x := range na {
		if nb[x] {
			return true
		}
	}
	// equivalence classes: follow the equalities in both directions (a term
	// may be equal to a variable that is equal to something else), rewriting
	// each term reached through the variables it mentions
	adj := map[string][]*Term{}
	for _, e := range s.m {
		if e.Pos && e.Op == "eq" && e.B != nil {
			adj[e.A.String()] = append(adj[e.A.String()], e.B)
			adj[e.B.String()] = append(adj[e.B.String()], e.A)
		}
	}
	seen := map[string]bool{}
	for x := range na {
		seen[x] = true
	}
	work := make([]string, 0, len(na))
	for x := range na {
		work = append(work, x)
	}
	for steps := 0; len(work) > 0 && steps < 400; steps++ {
		x := work[0]
		work = work[1:]
		for _, t := range adj[x] {
			for v := range s.variants(t) {
				if nb[v] {
					return true
				}
				if !seen[v] {
					seen[v] = true
					work = append(work, v)
				}
			}
		}
	}
	return false
}

// variants returns the set of strings of terms equal to t under the state's
// variable equalities (bounded).
func (s *State) variants(t *Term) map[string]bool {
	out := map[string]bool{t.String(): true}
	work := []*Term{t}
	for round := 0; round < 3 && len(work) > 0; round++ {
		var next []*Term
		for _, w := range work {
			for _, e := range s.m {
				if !e.Pos || e.Op != "eq" {
					continue
				}
				for _, pair := range [][2]*Term{{e.A, e.B}, {e.B, e.A}} {
					from, to := pair[0], pair[1]
					if from.K != 'v' && from.K != 'r' {
						continue
					}
					if !w.mentions(from.String()) || to.mentions(from.String()) {
						continue
					}
					n := w.subst(from.String(), to)
					if !out[n.String()] {
						out[n.String()] = true
						next = append(next, n)
					}
				}
			}
		}
		work = next
		if len(out) > 200 {
			break
		}
	}
	return out
}

// Find returns the facts satisfying pred.
func (s *State) Find(pred func(*Fact) bool) []*Fact {
	var out []*Fact
	for _, f := range s.Facts() {
		if pred(f) {
			out = append(out, f)
		}
	}
	return out
}

// TermAt computes the term of an expression in fs.
func (e *FactEngine) TermAt(fs *FuncSrc, x ast.Expr) *Term { return e.Analyze(fs).term(x) }

// ---------- E3: CFG path rules on the same graphs ----------

// edgeFacts returns, for a two-way block, the facts learnt on each edge.
func (ff *FuncFacts) edgeFacts(b *cfg.Block) [2][]*Fact {
	var out [2][]*Fact
	if len(b.Succs) != 2 {
		return out
	}
	outs := ff.transfer(b, emptyState, false)
	for i := 0; i < 2; i++ {
		if outs[i] != nil {
			out[i] = outs[i].Facts()
		}
	}
	return out
}

// blockOf returns the block and node index whose CFG node contains n.
func (ff *FuncFacts) blockOf(n ast.Node) (*cfg.Block, int) {
	for _, b := range ff.graph.Blocks {
		if !b.Live {
			continue
		}
		for i, nd := range b.Nodes {
			if nd.Pos() <= n.Pos() && n.End() <= nd.End() {
				// function literals are opaque to the CFG
				return b, i
			}
		}
	}
	return nil, -1
}

// ReachableAvoiding reports whether node `to` can be reached from the entry
// of the function along a path that never takes an edge on which `guard`
// holds for one of the facts learnt on that edge.  (False means: every path
// to the node establishes one of the guards - a disjunctive dominance test.)
func (ff *FuncFacts) ReachableAvoiding(to ast.Node, guard func(f *Fact, st *State) bool) bool {
	tb, _ := ff.blockOf(to)
	if tb == nil {
		return false
	}
	return ff.reach(ff.graph.Blocks[0], tb, guard)
}

// ReachableFromEdge reports whether `to` is reachable from the edge of block
// b on which guard holds.
func (ff *FuncFacts) reach(from, tb *cfg.Block, guard func(f *Fact, st *State) bool) bool {
	seen := map[*cfg.Block]bool{}
	var walk func(b *cfg.Block) bool
	walk = func(b *cfg.Block) bool {
		if b == tb {
			return true
		}
		if seen[b] {
			return false
		}
		seen[b] = true
		var ef [2][]*Fact
		if len(b.Succs) == 2 && guard != nil {
			// facts learnt on each edge, evaluated in the state at block end
			outs := ff.transfer(b, ff.blockIn[b], false)
			base := ff.blockIn[b]
			_ = base
			for i := 0; i < 2; i++ {
				if outs[i] != nil {
					ef[i] = outs[i].Facts()
				}
			}
		}
		for i, s := range b.Succs {
			blocked := false
			if len(b.Succs) == 2 && guard != nil {
				for _, f := range ef[i] {
					if guard(f, ff.blockIn[b]) {
						blocked = true
						break
					}
				}
			}
			if !blocked && walk(s) {
				return true
			}
		}
		return false
	}
	return walk(from)
}

// ReachableFrom reports whether node `to` is reachable from node `from`
// (both top-level or nested in CFG nodes of this function).
func (ff *FuncFacts) ReachableFrom(from, to ast.Node) bool {
	fb, fi := ff.blockOf(from)
	tb, ti := ff.blockOf(to)
	if fb == nil || tb == nil {
		return false
	}
	if fb == tb && fi < ti {
		return true
	}
	for _, s := range fb.Succs {
		if ff.reach(s, tb, nil) {
			return true
		}
	}
	return false
}

// Returns lists the return statements of the function (not of nested literals).
func (ff *FuncFacts) Returns() []*ast.ReturnStmt {
	var out []*ast.ReturnStmt
	ast.Inspect(ff.fs.Body(), func(n ast.Node) bool {
		switch x := n.(type) {
		case *ast.FuncLit:
			return false
		case *ast.ReturnStmt:
			out = append(out, x)
		}
		return true
	})
	return out
}

type exitPoint struct {
	Ret *ast.ReturnStmt // real or synthesised by go/cfg at the end of the body
	St  *State          // state when returning (results evaluated)
	Pos token.Pos
}

// Exits lists the points where the function returns, with the must-facts there.
func (ff *FuncFacts) Exits() []exitPoint {
	var out []exitPoint
	for _, b := range ff.graph.Blocks {
		if !b.Live || len(b.Nodes) == 0 {
			continue
		}
		for _, n := range b.Nodes {
			r, ok := n.(*ast.ReturnStmt)
			if !ok {
				continue
			}
			st, seen := ff.after[r]
			if !seen {
				continue
			}
			pos := r.Pos()
			if !pos.IsValid() {
				pos = ff.fs.Body().Rbrace
			}
			out = append(out, exitPoint{r, st, pos})
		}
	}
	sort.Slice(out, func(i, j int) bool { return out[i].Pos < out[j].Pos })
	return out
}

// PathToExitAvoiding searches for a path from just after node `from` to an
// exit of the function that executes no CFG node accepted by good and takes
// no conditional edge on which blocked holds for a fact of the edge's state.
// It returns the position of the exit reached.
func (ff *FuncFacts) PathToExitAvoiding(from ast.Node, good func(n ast.Node, st *State) bool, blocked func(f *Fact) bool) (token.Pos, bool) {
	fb, fi := ff.blockOf(from)
	if fb == nil {
		return token.NoPos, false
	}
	seen := map[*cfg.Block]bool{}
	var walk func(b *cfg.Block, start int) (token.Pos, bool)
	walk = func(b *cfg.Block, start int) (token.Pos, bool) {
		if start == 0 {
			if seen[b] {
				return token.NoPos, false
			}
			seen[b] = true
		}
		for i := start; i < len(b.Nodes); i++ {
			n := b.Nodes[i]
			st := ff.at[n]
			if good(n, st) {
				return token.NoPos, false
			}
		}
		if len(b.Succs) == 0 {
			pos := ff.fs.Body().Rbrace
			if len(b.Nodes) > 0 && b.Nodes[len(b.Nodes)-1].Pos().IsValid() {
				pos = b.Nodes[len(b.Nodes)-1].Pos()
			}
			return pos, true
		}
		var outs []*State
		if len(b.Succs) == 2 {
			outs = ff.transfer(b, ff.blockIn[b], false)
		}
		for i, s := range b.Succs {
			if outs != nil && outs[i] == nil && ff.blockIn[b] != nil {
				continue // the edge cannot be taken (contradictory facts)
			}
			if outs != nil && outs[i] != nil && blocked != nil {
				skip := false
				for _, f := range outs[i].m {
					if blocked(f) {
						skip = true
						break
					}
				}
				if skip {
					continue
				}
			}
			if !s.Live {
				continue
			}
			if pos, ok := walk(s, 0); ok {
				return pos, true
			}
		}
		return token.NoPos, false
	}
	return walk(fb, fi+1)
}

// PathSearch walks every path from just after node `from` to the exits of
// the function, threading an integer flag through step (called for every CFG
// node on the path; stop=true ends the path as satisfied).  Conditional edges
// on which blocked holds are not taken.  It returns the first exit reached
// for which bad(flag) holds.
func (ff *FuncFacts) PathSearch(from ast.Node, init int, step func(n ast.Node, st *State, flag int) (int, bool), blocked func(f *Fact) bool, bad func(flag int) bool) (token.Pos, bool) {
	fb, fi := ff.blockOf(from)
	if fb == nil {
		return token.NoPos, false
	}
	type key struct {
		b    *cfg.Block
		flag int
	}
	seen := map[key]bool{}
	var walk func(b *cfg.Block, start, flag int) (token.Pos, bool)
	walk = func(b *cfg.Block, start, flag int) (token.Pos, bool) {
		if start == 0 {
			k := key{b, flag}
			if seen[k] {
				return token.NoPos, false
			}
			seen[k] = true
		}
		for i := start; i < len(b.Nodes); i++ {
			n := b.Nodes[i]
			nf, stop := step(n, ff.at[n], flag)
			if stop {
				return token.NoPos, false
			}
			flag = nf
		}
		if len(b.Succs) == 0 {
			if !bad(flag) {
				return token.NoPos, false
			}
			pos := ff.fs.Body().Rbrace
			if len(b.Nodes) > 0 && b.Nodes[len(b.Nodes)-1].Pos().IsValid() {
				pos = b.Nodes[len(b.Nodes)-1].Pos()
			}
			return pos, true
		}
		var outs []*State
		if len(b.Succs) == 2 {
			outs = ff.transfer(b, ff.blockIn[b], false)
		}
		for i, s := range b.Succs {
			if outs != nil && outs[i] == nil && ff.blockIn[b] != nil {
				continue // the edge cannot be taken (contradictory facts)
			}
			if outs != nil && outs[i] != nil && blocked != nil {
				skip := false
				for _, f := range outs[i].m {
					if blocked(f) {
						skip = true
						break
					}
				}
				if skip {
					continue
				}
			}
			if !s.Live {
				continue
			}
			if pos, ok := walk(s, 0, flag); ok {
				return pos, true
			}
		}
		return token.NoPos, false
	}
	return walk(fb, fi+1, init)
}

// conjuncts splits a condition into the operands of its top-level &&.
func conjuncts(e ast.Expr) []ast.Expr {
	e = unparen(e)
	if be, ok := e.(*ast.BinaryExpr); ok && be.Op == token.LAND {
		return append(conjuncts(be.X), conjuncts(be.Y)...)
	}
	return []ast.Expr{e}
}

func disjuncts(e ast.Expr) []ast.Expr {
	e = unparen(e)
	if be, ok := e.(*ast.BinaryExpr); ok && be.Op == token.LOR {
		return append(disjuncts(be.X), disjuncts(be.Y)...)
	}
	return []ast.Expr{e}
}

// condOf returns the branch condition ending block b, if b is a two-way
// branch on an if/for/switch-case condition.
func (ff *FuncFacts) condOf(b *cfg.Block) ast.Expr {
	if len(b.Succs) != 2 || len(b.Nodes) == 0 {
		return nil
	}
	e, ok := b.Nodes[len(b.Nodes)-1].(ast.Expr)
	if !ok {
		return nil
	}
	switch par := ff.eng.p.Parent(ff.fs.File, e).(type) {
	case *ast.IfStmt:
		if par.Cond == e {
			return e
		}
	case *ast.ForStmt:
		if par.Cond == e {
			return e
		}
	case *ast.CaseClause:
		if sw, ok := ff.eng.p.Parent(ff.fs.File, ff.eng.p.Parent(ff.fs.File, par)).(*ast.SwitchStmt); ok && sw.Tag == nil {
			for _, ce := range par.List {
				if ce == e {
					return e
				}
			}
		}
	}
	return nil
}

// refutes reports whether taking edge #succ out of block b contradicts the
// conjunction P (a list of signed atoms): the edge establishes the complement
// of one atom, or it is the false edge of a condition all of whose conjuncts
// are atoms of P, or the true edge of a condition all of whose disjuncts are
// complements of atoms of P.
func (ff *FuncFacts) refutes(b *cfg.Block, succ int, inP func(*Fact) bool) bool {
	outs := ff.transfer(b, ff.blockIn[b], false)
	if succ < len(outs) && outs[succ] != nil {
		for _, f := range outs[succ].m {
			if f.Op != "imp" && inP(complement(f)) {
				return true
			}
		}
	} else if succ < len(outs) && outs[succ] == nil {
		return true
	}
	if succ < len(outs) && outs[succ] != nil && contradictory(outs[succ]) {
		return true // the edge cannot be taken at all
	}
	cond := ff.condOf(b)
	if cond == nil {
		return false
	}
	// atomsOf: for each expression the fact(s) equivalent to "e has value pol":
	// a comparison or a boolean variable gives one fact; a call gives two
	// equivalent spellings (the site result and, for a pure callee, the call
	// term); what a callee's summary adds are consequences, not equivalents.
	atomsOf := func(es []ast.Expr, pol bool) ([][]*Fact, bool) {
		var out [][]*Fact
		for _, e := range es {
			q, ep := unparen(e), pol
			for {
				if u, ok := q.(*ast.UnaryExpr); ok && u.Op == token.NOT {
					q, ep = unparen(u.X), !ep
					continue
				}
				break
			}
			if call, ok := q.(*ast.CallExpr); ok {
				if tv, isT := ff.info().Types[call.Fun]; !isT || !tv.IsType() {
					alts := []*Fact{mkFact(ep, "true", &Term{K: 'r', Name: "res0", Pos: call.Lparen}, nil)}
					if t := ff.term(call); t != nil && t.K != 'c' {
						alts = append(alts, mkFact(ep, "true", t, nil))
					}
					out = append(out, alts)
					continue
				}
			}
			learnt := ff.assume(emptyState, e, pol)
			if learnt == nil {
				return nil, false
			}
			var one []*Fact
			for _, f := range learnt.m {
				one = append(one, f)
			}
			if len(one) != 1 {
				return nil, false
			}
			out = append(out, one)
		}
		return out, true
	}
	// a boolean local defined by a condition (`restricted := !slices.Contains(perms, "op")`)
	// is that condition while both implications recorded at its definition stand
	pre := ff.blockIn[b] // what holds when the condition is evaluated
	if st, ok := ff.at[cond]; ok && st != nil {
		pre = st
	}
	equivalents := func(alts []*Fact) []*Fact {
		in := pre
		if in == nil {
			return alts
		}
		out := alts
		for _, a := range alts {
			if a.Op != "true" || a.A == nil || a.A.K != 'v' {
				continue
			}
			na := complement(a)
			for _, f := range in.m {
				if f.Op != "imp" || f.Cond == nil || f.Then == nil || f.Cond.key != a.key {
					continue
				}
				back := mkImp(na, complement(f.Then))
				if in.Has(back.key) {
					out = append(out, f.Then)
				}
			}
		}
		return out
	}
	atomsOf0 := atomsOf
	atomsOf = func(es []ast.Expr, pol bool) ([][]*Fact, bool) {
		as, ok := atomsOf0(es, pol)
		if !ok {
			return nil, false
		}
		for i := range as {
			as[i] = equivalents(as[i])
		}
		return as, true
	}
	anyIn := func(alts []*Fact, pred func(*Fact) bool) bool {
		for _, a := range alts {
			if pred(a) {
				return true
			}
		}
		return false
	}
	// refutesExpr: does assuming e with polarity pol contradict the conjunction P?
	var refutesExpr func(e ast.Expr, pol bool, depth int) bool
	refutesExpr = func(e ast.Expr, pol bool, depth int) bool {
		e = unparen(e)
		if depth > 6 {
			return false
		}
		if ue, ok := e.(*ast.UnaryExpr); ok && ue.Op == token.NOT {
			return refutesExpr(ue.X, !pol, depth+1)
		}
		be, isBin := e.(*ast.BinaryExpr)
		if isBin && be.Op == token.LAND && pol {
			// all conjuncts hold: one of them refuting is enough
			for _, x := range conjuncts(e) {
				if refutesExpr(x, true, depth+1) {
					return true
				}
			}
			return false
		}
		if isBin && be.Op == token.LOR && !pol {
			// all disjuncts are false
			for _, x := range disjuncts(e) {
				if refutesExpr(x, false, depth+1) {
					return true
				}
			}
			return false
		}
		if isBin && be.Op == token.LAND && !pol {
			// not all of the conjuncts hold: refutes P when every conjunct is an atom of P (or known to hold)
			if as, ok := atomsOf(conjuncts(e), true); ok {
				all, some := true, false
				for _, alts := range as {
					if anyIn(alts, inP) {
						some = true
					} else if !anyIn(alts, func(a *Fact) bool { return pre.Has(a.key) }) {
						all = false
					}
				}
				return all && some
			}
			return false
		}
		if isBin && be.Op == token.LOR && pol {
			// one of the disjuncts holds: refutes P when each is the complement of an atom of P
			if as, ok := atomsOf(disjuncts(e), true); ok && len(as) > 1 {
				for _, alts := range as {
					if !anyIn(alts, func(a *Fact) bool { return inP(complement(a)) }) {
						return false
					}
				}
				return true
			}
			return false
		}
		// atomic condition
		if as, ok := atomsOf([]ast.Expr{e}, pol); ok && len(as) == 1 {
			return anyIn(as[0], func(a *Fact) bool { return inP(complement(a)) })
		}
		return false
	}
	if refutesExpr(cond, succ == 0, 0) {
		return true
	}
	// in general: taking the edge means cond has the value v; it refutes P
	// when P (with what holds anyway when cond is evaluated) implies that
	// cond has the other value
	var implied func(e ast.Expr, pol bool, depth int) bool
	implied = func(e ast.Expr, pol bool, depth int) bool {
		e = unparen(e)
		if depth > 8 {
			return false
		}
		if ue, ok := e.(*ast.UnaryExpr); ok && ue.Op == token.NOT {
			return implied(ue.X, !pol, depth+1)
		}
		if be, ok := e.(*ast.BinaryExpr); ok && (be.Op == token.LAND || be.Op == token.LOR) {
			all := (be.Op == token.LAND) == pol // a && b true / a || b false: both operands decided
			l, r := implied(be.X, pol, depth+1), implied(be.Y, pol, depth+1)
			if all {
				return l && r
			}
			return l || r
		}
		as, ok := atomsOf([]ast.Expr{e}, pol)
		if !ok || len(as) != 1 {
			return false
		}
		return anyIn(as[0], inP) || anyIn(as[0], func(a *Fact) bool { return pre.Has(a.key) })
	}
	return implied(cond, succ != 0, 0)
}

func complement(f *Fact) *Fact {
	c := *f
	c.Pos = !f.Pos
	c.key = negKey(f)
	return &c
}

// factsConj turns a list of signed atoms into a conjunction matcher.
func factsConj(P ...*Fact) func(*Fact) bool {
	pk := map[string]bool{}
	for _, a := range P {
		pk[a.key] = true
	}
	return func(f *Fact) bool { return pk[f.key] }
}

func (ff *FuncFacts) ReachableNotRefuting(to ast.Node, P func(*Fact) bool) (bool, []string) {
	tb, _ := ff.blockOf(to)
	if tb == nil || len(ff.graph.Blocks) == 0 {
		return false, nil
	}
	seen := map[*cfg.Block]bool{}
	var path []string
	var walk func(b *cfg.Block) bool
	walk = func(b *cfg.Block) bool {
		if b == tb {
			return true
		}
		if seen[b] {
			return false
		}
		seen[b] = true
		for i, s := range b.Succs {
			if !s.Live {
				continue
			}
			if len(b.Succs) == 2 && ff.refutes(b, i, P) {
				continue
			}
			n := len(path)
			if c := ff.condOf(b); c != nil {
				path = append(path, fmt.Sprintf("%s:%v", ff.eng.p.PosStr(c.Pos()), i == 0))
			}
			if walk(s) {
				return true
			}
			path = path[:n]
		}
		return false
	}
	ok := walk(ff.graph.Blocks[0])
	return ok, path
}

// DominatedByNode reports whether every path from the entry to `to` executes
// the CFG node containing `by`.
func (ff *FuncFacts) DominatedByNode(to, by ast.Node) bool {
	tb, ti := ff.blockOf(to)
	bb, bi := ff.blockOf(by)
	if tb == nil || bb == nil {
		return false
	}
	if tb == bb {
		return bi <= ti
	}
	seen := map[*cfg.Block]bool{}
	var walk func(b *cfg.Block) bool
	walk = func(b *cfg.Block) bool {
		if b == bb {
			return false
		}
		if b == tb {
			return true
		}
		if seen[b] {
			return false
		}
		seen[b] = true
		for _, s := range b.Succs {
			if s.Live && walk(s) {
				return true
			}
		}
		return false
	}
	return !walk(ff.graph.Blocks[0])
}

// localVar finds a local variable (or parameter) of the function by name.
func (fs *FuncSrc) localVar(name string) types.Object {
	var out types.Object
	info := fs.Pkg.TypesInfo
	for _, p := range fs.params(info) {
		if p != nil && p.Name() == name {
			return p
		}
	}
	ast.Inspect(fs.Body(), func(n ast.Node) bool {
		if _, ok := n.(*ast.FuncLit); ok {
			return false
		}
		if id, ok := n.(*ast.Ident); ok && id.Name == name && out == nil {
			if o, ok := info.Defs[id].(*types.Var); ok {
				out = o
			}
		}
		return true
	})
	return out
}

// ---------- path-sensitive exploration ----------

// PathVisit is called for every CFG node on an explored path with the state
// accumulated along that path only (no joins) and the calls executed so far.
type PathVisit func(n ast.Node, st *State, trace []*ast.CallExpr) (stop bool)

// ExplorePaths enumerates the paths of the function from its entry (each
// block at most twice per path, at most maxPaths paths), threading the
// must-fact transfer function along each path separately.  It returns false
// if the path budget was exhausted (the caller must then report undecided).
func (ff *FuncFacts) ExplorePaths(visit PathVisit, atExit func(st *State, trace []*ast.CallExpr, last ast.Node), maxPaths int) bool {
	if len(ff.graph.Blocks) == 0 {
		return true
	}
	npaths := 0
	ok := true
	count := map[*cfg.Block]int{}
	var walk func(b *cfg.Block, st *State, trace []*ast.CallExpr)
	walk = func(b *cfg.Block, st *State, trace []*ast.CallExpr) {
		if !ok || st == nil {
			return
		}
		if count[b] >= 2 {
			return
		}
		count[b]++
		defer func() { count[b]-- }()
		if b.Kind == cfg.KindRangeBody {
			if rs, isR := b.Stmt.(*ast.RangeStmt); isR {
				for _, e := range []ast.Expr{rs.Key, rs.Value} {
					if e != nil {
						if t := ff.term(e); t != nil {
							st = ff.killTerm(st, t)
						}
					}
				}
			}
		}
		var lastExpr ast.Expr
		var last ast.Node
		for _, n := range b.Nodes {
			last = n
			lastExpr = nil
			if visit != nil && visit(n, st, trace) {
				return
			}
			// calls executed by this node, in source order
			ast.Inspect(n, func(x ast.Node) bool {
				switch y := x.(type) {
				case *ast.FuncLit:
					return false
				case *ast.CallExpr:
					trace = append(trace[:len(trace):len(trace)], y)
				}
				return true
			})
			st = ff.node(n, st, false)
			if e, isE := n.(ast.Expr); isE {
				lastExpr = e
			}
		}
		if len(b.Succs) == 0 {
			npaths++
			if npaths > maxPaths {
				ok = false
				return
			}
			if atExit != nil {
				atExit(st, trace, last)
			}
			return
		}
		outs := make([]*State, len(b.Succs))
		for i := range outs {
			outs[i] = st
		}
		if len(b.Succs) == 2 && lastExpr != nil && ff.condOf(b) != nil {
			// path-sensitive: the false edge of A && B is taken because A failed,
			// or because A held and B failed (dually for ||)
			for i, s := range b.Succs {
				if !s.Live {
					continue
				}
				for _, v := range ff.edgeVariants(st, lastExpr, i == 0) {
					if !contradictory(v) {
						walk(s, v, trace)
					}
				}
			}
			return
		} else if len(b.Succs) == 2 && lastExpr != nil {
			// switch case with a tag
			if cc, isCC := ff.eng.p.Parent(ff.fs.File, lastExpr).(*ast.CaseClause); isCC {
				if sw, isSw := ff.eng.p.Parent(ff.fs.File, ff.eng.p.Parent(ff.fs.File, cc)).(*ast.SwitchStmt); isSw && sw.Tag != nil {
					a, c := ff.term(sw.Tag), ff.term(lastExpr)
					if a != nil && c != nil {
						outs[0] = st.add(mkFact(true, "eq", a, c))
						outs[1] = st.add(mkFact(false, "eq", a, c))
					}
				}
			}
		}
		for i, s := range b.Succs {
			if !s.Live {
				continue
			}
			// infeasible edge: the path state contradicts what the edge establishes
			if contradictory(outs[i]) {
				continue
			}
			walk(s, outs[i], trace)
		}
	}
	walk(ff.graph.Blocks[0], emptyState, nil)
	return ok
}

// contradictory: the state contains an atom with both signs.
func contradictory(st *State) bool {
	if st == nil {
		return true
	}
	for k, f := range st.m {
		if f.Op == "imp" {
			continue
		}
		if _, both := st.m[negKey(f)]; both {
			_ = k
			return true
		}
	}
	// two different constants in one class of equal terms (x == y, y == 412, x == 0)
	nconst := 0
	for _, f := range st.m {
		if f.Op == "eq" && f.Pos && f.B != nil && (f.A.K == 'c') != (f.B.K == 'c') {
			nconst++
		}
	}
	if nconst >= 2 {
		parent := map[string]string{}
		var find func(x string) string
		find = func(x string) string {
			if p, ok := parent[x]; ok && p != x {
				r := find(p)
				parent[x] = r
				return r
			}
			parent[x] = x
			return x
		}
		for _, f := range st.m {
			if f.Op == "eq" && f.Pos && f.B != nil {
				a, b := find(f.A.String()), find(f.B.String())
				if a != b {
					parent[a] = b
				}
			}
		}
		cst := map[string]string{}
		for _, f := range st.m {
			if f.Op != "eq" || !f.Pos || f.B == nil {
				continue
			}
			for _, t := range []*Term{f.A, f.B} {
				if t.K != 'c' {
					continue
				}
				r := find(t.String())
				if prev, ok := cst[r]; ok && prev != t.Name {
					return true
				}
				cst[r] = t.Name
			}
		}
	}
	return false
}

// edgeVariants returns the path states for taking the given edge of a
// condition, one per way the condition can evaluate to that value.
func (ff *FuncFacts) edgeVariants(st *State, cond ast.Expr, pol bool) []*State {
	cond = unparen(cond)
	if u, ok := cond.(*ast.UnaryExpr); ok && u.Op == token.NOT {
		return ff.edgeVariants(st, u.X, !pol)
	}
	be, ok := cond.(*ast.BinaryExpr)
	if !ok || (be.Op != token.LAND && be.Op != token.LOR) {
		return []*State{ff.assume(st, cond, pol)}
	}
	var out []*State
	if (be.Op == token.LAND) == pol {
		// both operands have the value pol
		for _, a := range ff.edgeVariants(st, be.X, pol) {
			out = append(out, ff.edgeVariants(a, be.Y, pol)...)
		}
		return out
	}
	// short-circuit: X alone decides, or X does not and Y decides
	out = append(out, ff.edgeVariants(st, be.X, pol)...)
	for _, a := range ff.edgeVariants(st, be.X, !pol) {
		out = append(out, ff.edgeVariants(a, be.Y, pol)...)
	}
	if len(out) > 16 {
		return []*State{ff.assume(st, cond, pol)}
	}
	return out
}

// MustFlag runs a forward must-dataflow of one boolean over the CFG: the flag
// becomes true after a node for which gen holds, false after one for which
// kill holds (kill is tested first, then gen), is false at the entry, and is
// the conjunction over live predecessors at joins.  The returned function
// gives the flag immediately before the CFG node containing n.
func (ff *FuncFacts) MustFlag(gen, kill func(n ast.Node) bool) func(n ast.Node) bool {
	in := map[*cfg.Block]bool{}
	out := map[*cfg.Block]bool{}
	blocks := ff.graph.Blocks
	if len(blocks) == 0 {
		return func(ast.Node) bool { return false }
	}
	for _, b := range blocks {
		in[b], out[b] = true, true
	}
	preds := map[*cfg.Block][]*cfg.Block{}
	for _, b := range blocks {
		if !b.Live {
			continue
		}
		for _, s := range b.Succs {
			preds[s] = append(preds[s], b)
		}
	}
	step := func(b *cfg.Block, v bool, upto int) bool {
		for i, n := range b.Nodes {
			if i >= upto {
				break
			}
			if kill(n) {
				v = false
			}
			if gen(n) {
				v = true
			}
		}
		return v
	}
	for changed := true; changed; {
		changed = false
		for bi, b := range blocks {
			if !b.Live {
				continue
			}
			v := true
			if bi == 0 {
				v = false
			}
			for _, pb := range preds[b] {
				v = v && out[pb]
			}
			if bi != 0 && len(preds[b]) == 0 {
				v = false
			}
			o := step(b, v, len(b.Nodes))
			if v != in[b] || o != out[b] {
				in[b], out[b] = v, o
				changed = true
			}
		}
	}
	return func(n ast.Node) bool {
		b, i := ff.blockOf(n)
		if b == nil {
			return false
		}
		return step(b, in[b], i)
	}
}

// wholeUse reports whether the variable obj occurs in t as a whole value,
// i.e. other than as the base of a field selection.
func wholeUse(t *Term, obj types.Object) bool {
	if t == nil {
		return false
	}
	if t.K == 'v' {
		return t.Obj == obj
	}
	if t.K == 'o' && strings.HasPrefix(t.Name, "called:") {
		return false // "this call happened" is history, not a statement about the current value
	}
	for i, a := range t.Args {
		if t.K == 'f' && i == 0 && a.K == 'v' && a.Obj == obj {
			continue
		}
		if t.K == 'o' && t.Name == "&" && len(t.Args) == 1 && a.K == 'v' && a.Obj == obj {
			continue // the address of the variable does not change
		}
		if wholeUse(a, obj) {
			return true
		}
	}
	return false
}

// pureStdlib lists standard-library functions whose result depends only on
// their (immutable string / scalar) arguments.
var pureStdlib = map[string]bool{
	"strings.Index": true, "strings.IndexByte": true, "strings.LastIndex": true, "strings.HasPrefix": true, "strings.HasSuffix": true,
	"strings.TrimLeft": true, "strings.TrimSpace": true, "strings.TrimPrefix": true, "strings.TrimSuffix": true,
	"path.Clean": true, "path/filepath.Clean": true,
}

// AtSplit returns states one of which holds immediately before n on every
// execution reaching n: the ways of entering n's block are followed backwards
// over at most depth predecessor edges and each is transferred forward again
// separately, so that facts established on only some of the joining paths
// (`if a || b`, `case a, b:`, a condition named by a boolean local) are seen
// per path instead of being lost in the meet.  Beyond depth, and when the
// number of paths exceeds the cap, the block-entry state of the dataflow
// fixpoint (which holds on every path) is used.
func (ff *FuncFacts) AtSplit(n ast.Node, depth int) []*State {
	b, _ := ff.blockOf(n)
	if b == nil {
		return nil
	}
	preds := map[*cfg.Block][][2]int{}
	for _, blk := range ff.graph.Blocks {
		if _, ok := ff.blockIn[blk]; !ok {
			continue
		}
		for i, s := range blk.Succs {
			preds[s] = append(preds[s], [2]int{int(blk.Index), i})
		}
	}
	budget := 256
	var entry func(blk *cfg.Block, d int) []*State
	entry = func(blk *cfg.Block, d int) []*State {
		ps := preds[blk]
		if d == 0 || len(ps) == 0 || blk.Index == 0 || budget <= 0 {
			return []*State{ff.blockIn[blk]}
		}
		var out []*State
		for _, pe := range ps {
			pb := ff.graph.Blocks[pe[0]]
			dd := d - 1
			if len(ps) == 1 {
				dd = d // a straight edge costs nothing
				if len(preds[pb]) == 0 {
					dd = 0
				}
			}
			for _, s := range entry(pb, dd) {
				for _, o := range ff.edgeStates(pb, s, pe[1]) {
					budget--
					if o == nil || contradictory(o) {
						continue // this edge cannot be taken on that path
					}
					out = append(out, o)
				}
			}
		}
		if budget <= 0 {
			return []*State{ff.blockIn[blk]}
		}
		return out
	}
	var res []*State
	savedAt, savedAfter := ff.at, ff.after
	defer func() { ff.at, ff.after = savedAt, savedAfter }()
	for _, s := range entry(b, depth) {
		ff.at, ff.after = map[ast.Node]*State{}, map[ast.Node]*State{}
		ff.transfer(b, s, true)
		if st, ok := ff.at[n]; ok {
			res = append(res, st)
		} else {
			ff.at, ff.after = savedAt, savedAfter
			st, _ := ff.At(n)
			return []*State{st}
		}
	}
	if budget <= 0 {
		ff.at, ff.after = savedAt, savedAfter
		st, _ := ff.At(n)
		return []*State{st}
	}
	return res
}

// HoldsSomeAlt reports whether on every path to n all the facts of one of
// the alternatives hold (the alternative may differ from path to path), and
// the names of the alternatives used.
func (ff *FuncFacts) HoldsSomeAlt(n ast.Node, alts [][]*Fact) (bool, []int) {
	try := func(states []*State) (bool, []int) {
		used := map[int]bool{}
		if len(states) == 0 {
			return false, nil
		}
		for _, st := range states {
			found := -1
			for i, a := range alts {
				all := st != nil
				for _, f := range a {
					if !all || !ff.Entails(st, f) {
						all = false
					}
				}
				if all {
					found = i
					break
				}
			}
			if found < 0 {
				if os.Getenv("GALINT_DEBUG_SPLIT") != "" {
					fmt.Fprintf(os.Stderr, "split: at %s no alternative holds in %v\n", ff.eng.p.PosStr(n.Pos()), st)
				}
				return false, nil
			}
			used[found] = true
		}
		var u []int
		for i := range alts {
			if used[i] {
				u = append(u, i)
			}
		}
		return true, u
	}
	st, _ := ff.At(n)
	if ok, u := try([]*State{st}); ok {
		return true, u
	}
	for _, d := range []int{2, 4} {
		if ok, u := try(ff.AtSplit(n, d)); ok {
			return true, u
		}
	}
	return false, nil
}

// Entails: the fact is in the state, or follows from the state's order facts
// by linear reasoning over the integers (unsigned-typed terms are >= 0, and
// an unsigned x != 0 is x >= 1).  Values are treated as mathematical
// integers: use only for facts over variables and fields compared as they
// are, not for terms whose arithmetic can wrap.
func (ff *FuncFacts) Entails(st *State, f *Fact) bool {
	if st == nil || f == nil {
		return false
	}
	if st.HasFact(f) {
		return true
	}
	base := ff.nonNeg()
	nn := func(a string, t *Term) bool {
		if base(a, t) {
			return true
		}
		if t != nil && (t.K == 'v' || t.K == 'f') && t.Obj != nil {
			if bt, ok := t.Obj.Type().Underlying().(*types.Basic); ok && bt.Info()&types.IsUnsigned != 0 {
				return true
			}
		}
		return false
	}
	ineqs := stateIneqs(st)
	for _, g := range st.m {
		if g.Op == "eq" && !g.Pos && g.B != nil {
			for _, pr := range [][2]*Term{{g.A, g.B}, {g.B, g.A}} {
				if pr[0].K == 'c' && pr[0].Name == "0" && nn(pr[1].String(), pr[1]) {
					l := newLin()
					l.add(linOf(pr[1]), 1)
					l.k--
					ineqs = append(ineqs, l)
				}
			}
		}
	}
	switch f.Op {
	case "lt":
		return impliesFact(ineqs, f, nn)
	case "eq":
		if f.B == nil {
			return false
		}
		lt1, lt2 := mkFact(true, "lt", f.A, f.B), mkFact(true, "lt", f.B, f.A)
		if f.Pos {
			return impliesFact(ineqs, complement(lt1), nn) && impliesFact(ineqs, complement(lt2), nn)
		}
		return impliesFact(ineqs, lt1, nn) || impliesFact(ineqs, lt2, nn)
	}
	return false
}

// edgeStates: the states with which successor edge i of block b can be taken
// from entry state st; the outcomes of a short-circuit condition are kept
// apart (a || b true: a, or not-a and b).
func (ff *FuncFacts) edgeStates(b *cfg.Block, st *State, i int) []*State {
	outs := ff.transfer(b, st, false)
	if outs[i] == nil {
		return nil
	}
	cond := ff.condOf(b)
	if cond == nil || i > 1 {
		return []*State{outs[i]}
	}
	pre := st
	if b.Kind == cfg.KindRangeBody {
		return []*State{outs[i]}
	}
	for _, n := range b.Nodes {
		pre = ff.node(n, pre, false)
	}
	vs := ff.edgeVariants(pre, cond, i == 0)
	if len(vs) <= 1 {
		return []*State{outs[i]}
	}
	return vs
}

// globalOf: the package-level variable an expression names, if any.
func (ff *FuncFacts) globalOf(e ast.Expr) *types.Var {
	var id *ast.Ident
	switch x := unparen(e).(type) {
	case *ast.Ident:
		id = x
	case *ast.SelectorExpr:
		if _, isSel := ff.info().Selections[x]; isSel {
			return nil
		}
		id = x.Sel
	default:
		return nil
	}
	v, ok := ff.info().Uses[id].(*types.Var)
	if !ok || v.IsField() || v.Pkg() == nil || v.Parent() != v.Pkg().Scope() {
		return nil
	}
	return v
}

// nonNilGlobal: a package-level variable of the module declared with an
// initialiser that cannot be nil (errors.New, fmt.Errorf, &T{...}, T{...})
// and neither assigned nor address-taken anywhere in the module.
func (e *FactEngine) nonNilGlobal(g *types.Var) bool {
	if e.nonNilGlobals == nil {
		e.nonNilGlobals = map[*types.Var]bool{}
		for _, pkg := range e.p.Mod {
			info := pkg.TypesInfo
			for _, f := range pkg.Syntax {
				for _, d := range f.Decls {
					gd, ok := d.(*ast.GenDecl)
					if !ok || gd.Tok != token.VAR {
						continue
					}
					for _, sp := range gd.Specs {
						vs, ok := sp.(*ast.ValueSpec)
						if !ok || len(vs.Values) != len(vs.Names) {
							continue
						}
						for i, nm := range vs.Names {
							v, ok := info.Defs[nm].(*types.Var)
							if !ok {
								continue
							}
							switch x := unparen(vs.Values[i]).(type) {
							case *ast.CallExpr:
								if fn, ok := typeutil.Callee(info, x).(*types.Func); ok && (fn.FullName() == "errors.New" || fn.FullName() == "fmt.Errorf") {
									e.nonNilGlobals[v] = true
								}
							case *ast.UnaryExpr:
								if _, isLit := unparen(x.X).(*ast.CompositeLit); isLit && x.Op == token.AND {
									e.nonNilGlobals[v] = true
								}
							}
						}
					}
				}
			}
		}
		for _, pkg := range e.p.Mod {
			info := pkg.TypesInfo
			drop := func(x ast.Expr) {
				var id *ast.Ident
				switch y := unparen(x).(type) {
				case *ast.Ident:
					id = y
				case *ast.SelectorExpr:
					id = y.Sel
				default:
					return
				}
				if v, ok := info.Uses[id].(*types.Var); ok {
					delete(e.nonNilGlobals, v)
				}
			}
			for _, f := range pkg.Syntax {
				ast.Inspect(f, func(n ast.Node) bool {
					switch x := n.(type) {
					case *ast.AssignStmt:
						for _, l := range x.Lhs {
							drop(l)
						}
					case *ast.IncDecStmt:
						drop(x.X)
					case *ast.UnaryExpr:
						if x.Op == token.AND {
							drop(x.X)
						}
					case *ast.RangeStmt:
						if x.Key != nil {
							drop(x.Key)
						}
						if x.Value != nil {
							drop(x.Value)
						}
					}
					return true
				})
			}
		}
	}
	return e.nonNilGlobals[g]
}

// containsFuncFalse: slices.ContainsFunc(X, pred) returned false, with pred a
// function literal (or a local bound once to one) of the form
// `func(v T) bool { return E }`: E is false for every element of X.  The
// facts are those of the range loop with an early return (forallFacts).
func (ff *FuncFacts) containsFuncFalse(st *State, call *ast.CallExpr) *State {
	if st == nil || len(call.Args) != 2 {
		return st
	}
	fn, ok := typeutil.Callee(ff.info(), call).(*types.Func)
	if !ok || fn.Pkg() == nil || fn.Pkg().Path() != "slices" || (fn.Name() != "ContainsFunc" && fn.Name() != "IndexFunc") {
		return st // (for IndexFunc the caller has established that the result is negative)
	}
	info := ff.info()
	var lit *ast.FuncLit
	switch a := unparen(call.Args[1]).(type) {
	case *ast.FuncLit:
		lit = a
	case *ast.Ident:
		obj := info.Uses[a]
		if obj == nil {
			return st
		}
		// a declared function of this package: func isOp(c Client) bool { return E }
		if fobj, isFn := obj.(*types.Func); isFn {
			if src := ff.eng.p.SrcOfFunc(fobj); src != nil && src.Decl != nil && src.Decl.Recv == nil && src.Pkg == ff.fs.Pkg && src.Decl.Body != nil {
				lit = &ast.FuncLit{Type: src.Decl.Type, Body: src.Decl.Body}
			}
			break
		}
		n := 0
		ast.Inspect(ff.fs.Root().Body(), func(m ast.Node) bool {
			switch x := m.(type) {
			case *ast.AssignStmt:
				for i, l := range x.Lhs {
					if id, isId := l.(*ast.Ident); isId && info.ObjectOf(id) == obj {
						n++
						if len(x.Rhs) == len(x.Lhs) {
							lit, _ = unparen(x.Rhs[i]).(*ast.FuncLit)
						}
					}
				}
			case *ast.ValueSpec:
				for i, id := range x.Names {
					if info.ObjectOf(id) == obj {
						n++
						if len(x.Values) == len(x.Names) {
							lit, _ = unparen(x.Values[i]).(*ast.FuncLit)
						}
					}
				}
			case *ast.UnaryExpr:
				if id, isId := unparen(x.X).(*ast.Ident); isId && x.Op == token.AND && info.ObjectOf(id) == obj {
					n += 2
				}
			}
			return true
		})
		if n != 1 {
			return st
		}
	}
	if lit == nil || lit.Type.Params == nil || len(lit.Type.Params.List) != 1 || len(lit.Type.Params.List[0].Names) != 1 || len(lit.Body.List) != 1 {
		return st
	}
	ret, ok := lit.Body.List[0].(*ast.ReturnStmt)
	if !ok || len(ret.Results) != 1 {
		return st
	}
	vobj := info.ObjectOf(lit.Type.Params.List[0].Names[0])
	xt := ff.term(call.Args[0])
	if vobj == nil || xt == nil {
		return st
	}
	vs := TVar(vobj).String()
	learnt := ff.assume(emptyState, ret.Results[0], false)
	if learnt == nil {
		return st
	}
	each := &Term{K: 'o', Name: "each", Args: []*Term{xt}}
	var add []*Fact
	for _, f := range learnt.m {
		if f.Op == "imp" {
			continue
		}
		hit := false
		for _, t := range f.terms() {
			if t.mentions(vs) {
				hit = true
			}
		}
		if !hit {
			continue
		}
		var b *Term
		if f.B != nil {
			b = f.B.subst(vs, each)
		}
		add = append(add, mkFact(f.Pos, f.Op, f.A.subst(vs, each), b))
	}
	return st.with(add...)
}

// valueSpec: var a, b T = x, y  is  a, b := x, y  for what is known afterwards
// (the declared type is the variables' type either way); without values the
// variables hold their zero value.
func (ff *FuncFacts) valueSpec(vs *ast.ValueSpec, st *State, record bool) *State {
	for _, v := range vs.Values {
		st = ff.expr(v, st, record)
	}
	if len(vs.Values) > 0 {
		lhs := make([]ast.Expr, len(vs.Names))
		for i, name := range vs.Names {
			lhs[i] = name
		}
		return ff.assign(&ast.AssignStmt{Lhs: lhs, TokPos: vs.Pos(), Tok: token.DEFINE, Rhs: vs.Values}, st)
	}
	for _, name := range vs.Names {
		obj := ff.info().Defs[name]
		if obj == nil {
			continue
		}
		lt := TVar(obj)
		st = ff.killTerm(st, lt)
		if z := zeroTerm(obj.Type()); z != nil && st != nil {
			st = st.add(mkFact(true, "eq", lt, z))
		}
	}
	return st
}

// PointeeOf: the term x when the state equates t (through at most a few
// copies) with the address &x; nil otherwise.
func (s *State) PointeeOf(t *Term) *Term {
	if s == nil || t == nil {
		return nil
	}
	seen := map[string]bool{t.String(): true}
	work := []*Term{t}
	for depth := 0; depth < 4 && len(work) > 0; depth++ {
		var next []*Term
		for _, w := range work {
			if w.K == 'o' && w.Name == "&" && len(w.Args) == 1 {
				return w.Args[0]
			}
			ws := w.String()
			for _, f := range s.m {
				if f.Op != "eq" || !f.Pos || f.B == nil {
					continue
				}
				for _, pr := range [][2]*Term{{f.A, f.B}, {f.B, f.A}} {
					if pr[0].String() == ws && !seen[pr[1].String()] {
						seen[pr[1].String()] = true
						next = append(next, pr[1])
					}
				}
			}
		}
		work = next
	}
	for _, w := range work {
		if w.K == 'o' && w.Name == "&" && len(w.Args) == 1 {
			return w.Args[0]
		}
	}
	return nil
}

func sortedKeys(m map[string]*Fact) []string {
	ks := make([]string, 0, len(m))
	for k := range m {
		ks = append(ks, k)
	}
	sort.Strings(ks)
	return ks
}

// assumeEither: one of the two operands has the value pol (a || b is true, or
// a && b is false).  When each operand is a single simple fact this is kept as
// the two implications "the one does not, so the other does".
func (ff *FuncFacts) assumeEither(st *State, a, b ast.Expr, pol bool) *State {
	if st == nil {
		return st
	}
	single := func(e ast.Expr, v bool) *Fact {
		l := ff.assume(emptyState, e, v)
		if l == nil {
			return nil
		}
		var out *Fact
		for _, f := range l.m {
			if f.Op == "imp" {
				continue
			}
			if f.Op == "true" && f.A != nil && f.A.K == 'r' {
				continue // site twin of a call condition
			}
			if out != nil {
				return nil
			}
			out = f
		}
		if out == nil || !simpleCond(out) {
			return nil
		}
		return out
	}
	fa, fb := single(a, pol), single(b, pol)
	na, nb := single(a, !pol), single(b, !pol)
	if fa == nil || fb == nil || na == nil || nb == nil {
		return st
	}
	// already decided?
	if st.Has(na.key) {
		return st.add(fb)
	}
	if st.Has(nb.key) {
		return st.add(fa)
	}
	return st.with(mkImp(na, fb), mkImp(nb, fa))
}

// PathSearchPS is PathSearch with the state threaded along each path from
// `from` (no joins): an edge is infeasible when the path's own facts
// contradict it, so `ok = true` on this path decides a later `if !ok`.
// Exponential in the number of branches after `from`; past the budget the
// join-based PathSearch (which can only find more paths) answers.
func (ff *FuncFacts) PathSearchPS(from ast.Node, init int, step func(n ast.Node, st *State, flag int) (int, bool), blocked func(f *Fact) bool, bad func(flag int) bool) (token.Pos, bool) {
	return ff.pathSearchPS(from, init, step, blocked, bad, nil)
}

// PathSearchPSX is PathSearchPS with the exit test given the state the path
// arrives with (its own facts, including those of the last edge taken).  When
// the exploration exceeds its budget the answer is "found" (undecided counts
// as a violation).
func (ff *FuncFacts) PathSearchPSX(from ast.Node, init int, step func(n ast.Node, st *State, flag int) (int, bool), blocked func(f *Fact) bool, badSt func(flag int, st *State) bool) (token.Pos, bool) {
	return ff.pathSearchPS(from, init, step, blocked, nil, badSt)
}

func (ff *FuncFacts) pathSearchPS(from ast.Node, init int, step func(n ast.Node, st *State, flag int) (int, bool), blocked func(f *Fact) bool, bad func(flag int) bool, badSt func(flag int, st *State) bool) (token.Pos, bool) {
	fb, fi := ff.blockOf(from)
	if fb == nil {
		return token.NoPos, false
	}
	start, ok := ff.at[from]
	if !ok || start == nil {
		if bad == nil {
			return from.Pos(), true
		}
		return ff.PathSearch(from, init, step, blocked, bad)
	}
	// state after the from node's own block prefix is not known exactly: begin with
	// the recorded state before `from` and run the rest of its block
	budget := 40000
	count := map[*cfg.Block]int{}
	var walk func(b *cfg.Block, startIdx int, flag int, st *State, first bool) (token.Pos, bool, bool)
	walk = func(b *cfg.Block, startIdx int, flag int, st *State, first bool) (token.Pos, bool, bool) {
		budget--
		if budget < 0 {
			return token.NoPos, false, false
		}
		if !first {
			if count[b] >= 2 {
				return token.NoPos, false, true
			}
			count[b]++
			defer func() { count[b]-- }()
		}
		for i := startIdx; i < len(b.Nodes); i++ {
			n := b.Nodes[i]
			nf, stop := step(n, st, flag)
			if stop {
				return token.NoPos, false, true
			}
			flag = nf
			st = ff.node(n, st, false)
		}
		if len(b.Succs) == 0 {
			if (bad != nil && !bad(flag)) || (badSt != nil && !badSt(flag, st)) {
				return token.NoPos, false, true
			}
			pos := ff.fs.Body().Rbrace
			if len(b.Nodes) > 0 && b.Nodes[len(b.Nodes)-1].Pos().IsValid() {
				pos = b.Nodes[len(b.Nodes)-1].Pos()
			}
			return pos, true, true
		}
		for i, s := range b.Succs {
			if !s.Live {
				continue
			}
			// the nodes of b are already applied to st: only the edge's own facts are added
			outs := []*State{st}
			if len(b.Succs) == 2 && len(b.Nodes) > 0 {
				if lastExpr, isE := b.Nodes[len(b.Nodes)-1].(ast.Expr); isE {
					if ff.condOf(b) != nil {
						outs = ff.edgeVariants(st, lastExpr, i == 0)
					} else if cc, isCC := ff.eng.p.Parent(ff.fs.File, lastExpr).(*ast.CaseClause); isCC {
						if sw, isSw := ff.eng.p.Parent(ff.fs.File, ff.eng.p.Parent(ff.fs.File, cc)).(*ast.SwitchStmt); isSw && sw.Tag != nil {
							if a, c := ff.term(sw.Tag), ff.term(lastExpr); a != nil && c != nil {
								outs = []*State{st.add(mkFact(i == 0, "eq", a, c))}
							}
						}
					}
				}
			}
			for _, o := range outs {
				if o == nil || contradictory(o) {
					continue
				}
				skip := false
				if blocked != nil {
					for _, f := range o.m {
						if blocked(f) {
							skip = true
							break
						}
					}
				}
				if skip {
					continue
				}
				pos, found, complete := walk(s, 0, flag, o, false)
				if !complete {
					return token.NoPos, false, false
				}
				if found {
					return pos, true, true
				}
			}
		}
		return token.NoPos, false, true
	}
	// the from node itself is not stepped (as in PathSearch), but its effect is applied
	st := ff.node(fb.Nodes[fi], start, false)
	pos, found, complete := walk(fb, fi+1, init, st, true)
	if !complete {
		if bad == nil {
			return from.Pos(), true
		}
		return ff.PathSearch(from, init, step, blocked, bad)
	}
	return pos, found
}
