package main

// E6: interval analysis on SSA.
//
// Every integer-typed SSA value gets an interval [lo,hi] of mathematical
// integers inside the range of its Go type.  Arithmetic that may leave the
// type's range goes to the full range of the type (wrap-around is never
// assumed away).  Conditions refine operands on the branch edges; the
// refinements of a block are those of the edge from its unique predecessor
// plus those of its immediate dominator.  Phi nodes join the values as seen
// at the end of each predecessor (edge condition included); loop phis are
// widened after a few rounds.  Parameters are the join of the arguments at
// all module call sites (bounded depth), results the join of the returned
// values.

import (
	"fmt"
	"go/constant"
	"go/token"
	"go/types"
	"math/big"

	"golang.org/x/tools/go/ssa"
)

type Itv struct {
	Lo, Hi *big.Int
}

func (i Itv) String() string {
	if i.Lo == nil {
		return "⊥"
	}
	return fmt.Sprintf("[%s,%s]", i.Lo.String(), i.Hi.String())
}

func (i Itv) empty() bool { return i.Lo == nil || i.Lo.Cmp(i.Hi) > 0 }

func itvConst(v int64) Itv { return Itv{big.NewInt(v), big.NewInt(v)} }

func itvOf(lo, hi *big.Int) Itv { return Itv{new(big.Int).Set(lo), new(big.Int).Set(hi)} }

func (i Itv) join(j Itv) Itv {
	if i.empty() {
		return j
	}
	if j.empty() {
		return i
	}
	lo, hi := i.Lo, i.Hi
	if j.Lo.Cmp(lo) < 0 {
		lo = j.Lo
	}
	if j.Hi.Cmp(hi) > 0 {
		hi = j.Hi
	}
	return Itv{lo, hi}
}

func (i Itv) meet(j Itv) Itv {
	if i.empty() || j.empty() {
		return Itv{}
	}
	lo, hi := i.Lo, i.Hi
	if j.Lo.Cmp(lo) > 0 {
		lo = j.Lo
	}
	if j.Hi.Cmp(hi) < 0 {
		hi = j.Hi
	}
	return Itv{lo, hi}
}

func (i Itv) eq(j Itv) bool {
	if i.empty() || j.empty() {
		return i.empty() == j.empty()
	}
	return i.Lo.Cmp(j.Lo) == 0 && i.Hi.Cmp(j.Hi) == 0
}

func (i Itv) within(j Itv) bool {
	if i.empty() {
		return true
	}
	if j.empty() {
		return false
	}
	return i.Lo.Cmp(j.Lo) >= 0 && i.Hi.Cmp(j.Hi) <= 0
}

// typeRange returns the value range of an integer type (64-bit int/uint/uintptr
// for the platform-dependent ones unless sizes say otherwise).
func typeRange(t types.Type, sizes types.Sizes) (Itv, bool) {
	b, ok := t.Underlying().(*types.Basic)
	if !ok || b.Info()&types.IsInteger == 0 {
		return Itv{}, false
	}
	bits := int64(64)
	if sizes != nil {
		bits = sizes.Sizeof(b) * 8
	} else {
		switch b.Kind() {
		case types.Int8, types.Uint8:
			bits = 8
		case types.Int16, types.Uint16:
			bits = 16
		case types.Int32, types.Uint32:
			bits = 32
		}
	}
	one := big.NewInt(1)
	if b.Info()&types.IsUnsigned != 0 {
		hi := new(big.Int).Lsh(one, uint(bits))
		hi.Sub(hi, one)
		return Itv{big.NewInt(0), hi}, true
	}
	hi := new(big.Int).Lsh(one, uint(bits-1))
	lo := new(big.Int).Neg(hi)
	hi = new(big.Int).Sub(hi, one)
	return Itv{lo, hi}, true
}

type IntervalAnalysis struct {
	p       *Program
	sizes   types.Sizes
	fns     map[*ssa.Function]*FnIntervals
	busy    map[*ssa.Function]bool
	depth   int
	params  map[*ssa.Parameter]Itv
	dead    map[*ssa.Function]bool
	lens    map[*types.Var]Itv
	plens   map[*ssa.Parameter]Itv
	stack   []*ssa.Function
	tainted map[*ssa.Function]bool
	lenBusy map[*types.Var]bool
	// FieldItv, when set, supplies an invariant interval for loads of a field.
	FieldItv func(f *types.Var) (Itv, bool)
	// LenItv supplies an invariant for len() of a slice loaded from a field.
	LenItv func(f *types.Var) (Itv, bool)
}

func (p *Program) Intervals() *IntervalAnalysis {
	if p.intervals == nil {
		var sizes types.Sizes
		if len(p.Mod) > 0 {
			sizes = p.Mod[0].TypesSizes
		}
		p.CallGraph()
		p.intervals = &IntervalAnalysis{p: p, sizes: sizes, fns: map[*ssa.Function]*FnIntervals{}, busy: map[*ssa.Function]bool{}, params: map[*ssa.Parameter]Itv{}, dead: map[*ssa.Function]bool{}, lens: map[*types.Var]Itv{}, plens: map[*ssa.Parameter]Itv{}, tainted: map[*ssa.Function]bool{}, lenBusy: map[*types.Var]bool{}}
	}
	return p.intervals
}

type FnIntervals struct {
	ia       *IntervalAnalysis
	fn       *ssa.Function
	val      map[ssa.Value]Itv
	refine   map[*ssa.BasicBlock]map[ssa.Value]Itv
	rounds   map[ssa.Value]int
	unreach  map[*ssa.BasicBlock]bool
	lenDepth int
	done     bool
}

func (ia *IntervalAnalysis) top(t types.Type) Itv {
	r, ok := typeRange(t, ia.sizes)
	if !ok {
		return Itv{}
	}
	return r
}

func (ia *IntervalAnalysis) Analyze(fn *ssa.Function) *FnIntervals {
	if fi, ok := ia.fns[fn]; ok {
		return fi
	}
	fi := &FnIntervals{ia: ia, fn: fn, val: map[ssa.Value]Itv{}, refine: map[*ssa.BasicBlock]map[ssa.Value]Itv{}, rounds: map[ssa.Value]int{}, unreach: map[*ssa.BasicBlock]bool{}}
	ia.fns[fn] = fi
	if fn.Blocks == nil {
		return fi
	}
	ia.busy[fn] = true
	ia.stack = append(ia.stack, fn)
	defer func() {
		delete(ia.busy, fn)
		ia.stack = ia.stack[:len(ia.stack)-1]
		if len(ia.stack) == 0 {
			// results computed while a caller was still being analysed used
			// the full range for its arguments: drop them so that the next
			// query recomputes them against the finished caller
			for f := range ia.tainted {
				delete(ia.fns, f)
				for _, q := range f.Params {
					delete(ia.params, q)
					delete(ia.plens, q)
				}
			}
			ia.tainted = map[*ssa.Function]bool{}
		}
	}()
	order := fn.DomPreorder()
	for round := 0; round < 40; round++ {
		changed := false
		for _, b := range order {
			fi.computeRefine(b)
			if fi.unreach[b] {
				continue
			}
			for _, ins := range b.Instrs {
				v, ok := ins.(ssa.Value)
				if !ok {
					continue
				}
				if _, isInt := typeRange(v.Type(), ia.sizes); !isInt {
					continue
				}
				nv := fi.eval(v, b)
				if nv.empty() {
					continue
				}
				old, had := fi.val[v]
				if had && nv.eq(old) {
					continue
				}
				if had {
					// monotone: only grow; widen loop-carried values
					nv = nv.join(old)
					if nv.eq(old) {
						continue
					}
					fi.rounds[v]++
					if fi.rounds[v] > 3 {
						t := ia.top(v.Type())
						if nv.Lo.Cmp(old.Lo) < 0 {
							nv.Lo = t.Lo
						}
						if nv.Hi.Cmp(old.Hi) > 0 {
							nv.Hi = t.Hi
						}
					}
				}
				fi.val[v] = nv
				changed = true
			}
		}
		if !changed {
			break
		}
	}
	fi.done = true
	return fi
}

// At returns the interval of v as seen by an instruction in block b.
func (fi *FnIntervals) At(v ssa.Value, b *ssa.BasicBlock) Itv {
	base := fi.base(v)
	if b != nil {
		if r, ok := fi.refine[b][v]; ok {
			m := base.meet(r)
			if !m.empty() {
				return m
			}
			return r
		}
	}
	return base
}

func (fi *FnIntervals) base(v ssa.Value) Itv {
	ia := fi.ia
	switch x := v.(type) {
	case *ssa.Const:
		if x.Value == nil {
			return ia.top(x.Type())
		}
		if x.Value.Kind() == constant.Int {
			if bi, ok := constant.Val(x.Value).(*big.Int); ok {
				return itvOf(bi, bi)
			}
			if i64, ok := constant.Int64Val(x.Value); ok {
				return itvConst(i64)
			}
			if u64, ok := constant.Uint64Val(x.Value); ok {
				b := new(big.Int).SetUint64(u64)
				return Itv{b, b}
			}
		}
		return ia.top(x.Type())
	case *ssa.Parameter:
		return ia.paramItv(x)
	}
	if i, ok := fi.val[v]; ok {
		return i
	}
	if v.Parent() != nil && v.Parent() != fi.fn {
		// free variable / value of an enclosing function
		return ia.top(v.Type())
	}
	if !fi.done {
		if _, isInstr := v.(ssa.Instruction); isInstr {
			if _, isInt := typeRange(v.Type(), ia.sizes); isInt {
				return Itv{} // not computed yet in this round: bottom
			}
		}
	}
	return ia.top(v.Type())
}

func (fi *FnIntervals) computeRefine(b *ssa.BasicBlock) {
	m := map[ssa.Value]Itv{}
	if id := b.Idom(); id != nil {
		for k, v := range fi.refine[id] {
			m[k] = v
		}
	}
	if len(b.Preds) == 1 {
		p := b.Preds[0]
		fi.unreach[b] = !fi.edgeRefine(p, b, m)
	} else if len(b.Preds) > 1 {
		// reachable iff some incoming edge is feasible
		any := false
		for _, p := range b.Preds {
			if fi.edgeRefine(p, b, map[ssa.Value]Itv{}) {
				any = true
			}
		}
		fi.unreach[b] = !any
	}
	fi.refine[b] = m
}

// edgeRefine adds to m the refinements learnt on the edge p -> b.
func (fi *FnIntervals) edgeRefine(p, b *ssa.BasicBlock, m map[ssa.Value]Itv) bool {
	if fi.unreach[p] {
		return false
	}
	if len(p.Instrs) == 0 {
		return true
	}
	ifi, ok := p.Instrs[len(p.Instrs)-1].(*ssa.If)
	if !ok || len(p.Succs) != 2 || p.Succs[0] == p.Succs[1] {
		return true
	}
	pol := p.Succs[0] == b
	return fi.refineCond(ifi.Cond, pol, p, m)
}

func (fi *FnIntervals) refineCond(c ssa.Value, pol bool, at *ssa.BasicBlock, m map[ssa.Value]Itv) bool {
	switch x := c.(type) {
	case *ssa.UnOp:
		if x.Op == token.NOT {
			return fi.refineCond(x.X, !pol, at, m)
		}
	case *ssa.BinOp:
		op := x.Op
		switch op {
		case token.EQL, token.NEQ, token.LSS, token.LEQ, token.GTR, token.GEQ:
		default:
			return true
		}
		if _, isInt := typeRange(x.X.Type(), fi.ia.sizes); !isInt {
			return true
		}
		if !pol {
			op = negateOp(op)
		}
		xi := fi.atWith(x.X, at, m)
		yi := fi.atWith(x.Y, at, m)
		f1 := fi.applyRefine(x.X, op, yi, xi, m)
		f2 := fi.applyRefine(x.Y, flipOp(op), xi, yi, m)
		return f1 && f2
	}
	return true
}

func (fi *FnIntervals) atWith(v ssa.Value, b *ssa.BasicBlock, m map[ssa.Value]Itv) Itv {
	base := fi.At(v, b)
	if r, ok := m[v]; ok {
		if mm := base.meet(r); !mm.empty() {
			return mm
		}
	}
	return base
}

func negateOp(op token.Token) token.Token {
	switch op {
	case token.EQL:
		return token.NEQ
	case token.NEQ:
		return token.EQL
	case token.LSS:
		return token.GEQ
	case token.GEQ:
		return token.LSS
	case token.GTR:
		return token.LEQ
	case token.LEQ:
		return token.GTR
	}
	return op
}

func flipOp(op token.Token) token.Token {
	switch op {
	case token.LSS:
		return token.GTR
	case token.GTR:
		return token.LSS
	case token.LEQ:
		return token.GEQ
	case token.GEQ:
		return token.LEQ
	}
	return op
}

// applyRefine: v op other (other has interval oi; v currently vi).
func (fi *FnIntervals) applyRefine(v ssa.Value, op token.Token, oi, vi Itv, m map[ssa.Value]Itv) bool {
	if oi.empty() || vi.empty() {
		return true
	}
	one := big.NewInt(1)
	r := vi
	switch op {
	case token.EQL:
		r = vi.meet(oi)
	case token.LSS:
		r = vi.meet(Itv{vi.Lo, new(big.Int).Sub(oi.Hi, one)})
	case token.LEQ:
		r = vi.meet(Itv{vi.Lo, oi.Hi})
	case token.GTR:
		r = vi.meet(Itv{new(big.Int).Add(oi.Lo, one), vi.Hi})
	case token.GEQ:
		r = vi.meet(Itv{oi.Lo, vi.Hi})
	case token.NEQ:
		if oi.Lo.Cmp(oi.Hi) == 0 {
			if vi.Lo.Cmp(oi.Lo) == 0 {
				r = Itv{new(big.Int).Add(vi.Lo, one), vi.Hi}
			} else if vi.Hi.Cmp(oi.Lo) == 0 {
				r = Itv{vi.Lo, new(big.Int).Sub(vi.Hi, one)}
			}
		}
	}
	if r.empty() {
		return false // infeasible edge
	}
	if _, isConst := v.(*ssa.Const); isConst {
		return true
	}
	m[v] = r
	// look through value-preserving conversions and len-preserving copies
	switch x := v.(type) {
	case *ssa.Convert:
		if src, ok := typeRange(x.X.Type(), fi.ia.sizes); ok {
			if dst, ok2 := typeRange(x.Type(), fi.ia.sizes); ok2 {
				xi := fi.base(x.X)
				if xi.within(dst) || src.within(dst) {
					if cur, has := m[x.X]; has {
						r = r.meet(cur)
					}
					if !r.empty() {
						m[x.X] = r.meet(xi)
						if m[x.X].empty() {
							delete(m, x.X)
						}
					}
				}
			}
		}
	case *ssa.ChangeType:
		m[x.X] = r
	}
	return true
}

// eval computes the interval of an instruction's value.
func (fi *FnIntervals) eval(v ssa.Value, b *ssa.BasicBlock) Itv {
	ia := fi.ia
	top := ia.top(v.Type())
	clamp := func(i Itv) Itv {
		if i.empty() {
			if !fi.done {
				return Itv{}
			}
			return top
		}
		if i.within(top) {
			return i
		}
		return top // may wrap
	}
	switch x := v.(type) {
	case *ssa.Phi:
		var out Itv
		for k, e := range x.Edges {
			p := b.Preds[k]
			m := map[ssa.Value]Itv{}
			if _, seen := fi.refine[p]; !seen && p != b {
				// a predecessor that comes later in the dominator preorder
				// (the second operand of a short-circuit test): its branch
				// refinements only depend on its dominators, which are done
				fi.computeRefine(p)
			}
			for kk, vv := range fi.refine[p] {
				m[kk] = vv
			}
			if !fi.edgeRefineMulti(p, b, m) {
				continue // edge not (yet) feasible
			}
			out = out.join(fi.atWith(e, p, m))
		}
		return clamp(out)
	case *ssa.BinOp:
		xi, yi := fi.At(x.X, b), fi.At(x.Y, b)
		if xi.empty() || yi.empty() {
			if !fi.done {
				return Itv{}
			}
			return top
		}
		switch x.Op {
		case token.ADD:
			return clamp(Itv{new(big.Int).Add(xi.Lo, yi.Lo), new(big.Int).Add(xi.Hi, yi.Hi)})
		case token.SUB:
			return clamp(Itv{new(big.Int).Sub(xi.Lo, yi.Hi), new(big.Int).Sub(xi.Hi, yi.Lo)})
		case token.MUL:
			c := []*big.Int{new(big.Int).Mul(xi.Lo, yi.Lo), new(big.Int).Mul(xi.Lo, yi.Hi), new(big.Int).Mul(xi.Hi, yi.Lo), new(big.Int).Mul(xi.Hi, yi.Hi)}
			lo, hi := c[0], c[0]
			for _, z := range c[1:] {
				if z.Cmp(lo) < 0 {
					lo = z
				}
				if z.Cmp(hi) > 0 {
					hi = z
				}
			}
			return clamp(Itv{lo, hi})
		case token.QUO:
			if yi.Lo.Sign() > 0 && xi.Lo.Sign() >= 0 {
				return clamp(Itv{new(big.Int).Quo(xi.Lo, yi.Hi), new(big.Int).Quo(xi.Hi, yi.Lo)})
			}
			return top
		case token.REM:
			if yi.Lo.Sign() > 0 && xi.Lo.Sign() >= 0 {
				hi := new(big.Int).Sub(yi.Hi, big.NewInt(1))
				if xi.Hi.Cmp(hi) < 0 {
					hi = xi.Hi
				}
				return clamp(Itv{big.NewInt(0), hi})
			}
			return top
		case token.AND:
			if xi.Lo.Sign() >= 0 && yi.Lo.Sign() >= 0 {
				hi := xi.Hi
				if yi.Hi.Cmp(hi) < 0 {
					hi = yi.Hi
				}
				return clamp(Itv{big.NewInt(0), hi})
			}
			if yi.Lo.Sign() >= 0 {
				return clamp(Itv{big.NewInt(0), yi.Hi})
			}
			if xi.Lo.Sign() >= 0 {
				return clamp(Itv{big.NewInt(0), xi.Hi})
			}
			return top
		case token.OR, token.XOR:
			if xi.Lo.Sign() >= 0 && yi.Lo.Sign() >= 0 {
				// below the next power of two of the larger bound
				m := xi.Hi
				if yi.Hi.Cmp(m) > 0 {
					m = yi.Hi
				}
				hi := new(big.Int).Lsh(big.NewInt(1), uint(m.BitLen()))
				hi.Sub(hi, big.NewInt(1))
				lo := big.NewInt(0)
				if x.Op == token.OR {
					// x|y >= max(x, y) for non-negative operands
					lo = xi.Lo
					if yi.Lo.Cmp(lo) > 0 {
						lo = yi.Lo
					}
				}
				return clamp(Itv{lo, hi})
			}
			return top
		case token.SHL:
			if xi.Lo.Sign() >= 0 && yi.Lo.Sign() >= 0 && yi.Hi.IsInt64() && yi.Hi.Int64() < 128 {
				return clamp(Itv{new(big.Int).Lsh(xi.Lo, uint(yi.Lo.Int64())), new(big.Int).Lsh(xi.Hi, uint(yi.Hi.Int64()))})
			}
			return top
		case token.SHR:
			if xi.Lo.Sign() >= 0 && yi.Lo.Sign() >= 0 && yi.Hi.IsInt64() && yi.Hi.Int64() < 128 {
				return clamp(Itv{new(big.Int).Rsh(xi.Lo, uint(yi.Hi.Int64())), new(big.Int).Rsh(xi.Hi, uint(yi.Lo.Int64()))})
			}
			return top
		case token.AND_NOT:
			if xi.Lo.Sign() >= 0 {
				return clamp(Itv{big.NewInt(0), xi.Hi})
			}
			return top
		}
		return top
	case *ssa.UnOp:
		switch x.Op {
		case token.SUB:
			xi := fi.At(x.X, b)
			if xi.empty() {
				return clamp(xi)
			}
			return clamp(Itv{new(big.Int).Neg(xi.Hi), new(big.Int).Neg(xi.Lo)})
		case token.MUL:
			// load: field invariant?
			if fa, ok := x.X.(*ssa.FieldAddr); ok && ia.FieldItv != nil {
				if st, ok := derefStruct(fa.X.Type()); ok {
					if i, ok := ia.FieldItv(st.Field(fa.Field).Origin()); ok {
						return clamp(i.meet(top))
					}
				}
			}
			// load of a local (alloc) with stores in this function: join of stored values
			if al, ok := x.X.(*ssa.Alloc); ok {
				var out Itv
				okAll := true
				for _, ref := range *al.Referrers() {
					switch r := ref.(type) {
					case *ssa.Store:
						if r.Addr == al {
							out = out.join(fi.At(r.Val, r.Block()))
						} else {
							okAll = false
						}
					case *ssa.UnOp:
					default:
						okAll = false
					}
				}
				if okAll && !out.empty() {
					// zero value if read before any store: include it
					return clamp(out.join(itvConst(0)))
				}
			}
			return top
		case token.XOR:
			return top
		}
		return top
	case *ssa.Convert:
		xi := fi.At(x.X, b)
		if _, isInt := typeRange(x.X.Type(), ia.sizes); !isInt {
			return top // float -> int etc.
		}
		if xi.empty() {
			return clamp(xi)
		}
		return clamp(xi)
	case *ssa.ChangeType:
		return clamp(fi.At(x.X, b))
	case *ssa.Call:
		if bi, ok := x.Call.Value.(*ssa.Builtin); ok {
			switch bi.Name() {
			case "len", "cap":
				if len(x.Call.Args) == 1 {
					return fi.lenItv(x.Call.Args[0], b).meet(top)
				}
			case "min":
				out := fi.At(x.Call.Args[0], b)
				for _, a := range x.Call.Args[1:] {
					ai := fi.At(a, b)
					lo, hi := out.Lo, out.Hi
					if ai.Lo.Cmp(lo) < 0 {
						lo = ai.Lo
					}
					if ai.Hi.Cmp(hi) < 0 {
						hi = ai.Hi
					}
					out = Itv{lo, hi}
				}
				return clamp(out)
			case "max":
				out := fi.At(x.Call.Args[0], b)
				for _, a := range x.Call.Args[1:] {
					ai := fi.At(a, b)
					lo, hi := out.Lo, out.Hi
					if ai.Lo.Cmp(lo) > 0 {
						lo = ai.Lo
					}
					if ai.Hi.Cmp(hi) > 0 {
						hi = ai.Hi
					}
					out = Itv{lo, hi}
				}
				return clamp(out)
			case "copy":
				// returns min(len(dst), len(src))
				d, s := fi.lenItv(x.Call.Args[0], b), fi.lenItv(x.Call.Args[1], b)
				hi := d.Hi
				if s.Hi.Cmp(hi) < 0 {
					hi = s.Hi
				}
				lo := d.Lo
				if s.Lo.Cmp(lo) < 0 {
					lo = s.Lo
				}
				return clamp(Itv{lo, hi})
			}
			return top
		}
		if callee := x.Call.StaticCallee(); callee != nil && fnInModule(callee) && callee.Blocks != nil {
			return clamp(ia.retItv(callee, 0).meet(top))
		}
		return top
	case *ssa.Extract:
		if call, ok := x.Tuple.(*ssa.Call); ok {
			if callee := call.Call.StaticCallee(); callee != nil && fnInModule(callee) && callee.Blocks != nil {
				return clamp(ia.retItv(callee, x.Index).meet(top))
			}
		}
		return top
	}
	return top
}

// edgeRefineMulti is edgeRefine for a possibly multi-predecessor target.
func (fi *FnIntervals) edgeRefineMulti(p, b *ssa.BasicBlock, m map[ssa.Value]Itv) bool {
	return fi.edgeRefine(p, b, m)
}

// lenItv bounds the length of a slice/array/string/map value.
func (fi *FnIntervals) lenItv(v ssa.Value, b *ssa.BasicBlock) Itv {
	fi.lenDepth++
	defer func() { fi.lenDepth-- }()
	ia := fi.ia
	if fi.lenDepth > 12 {
		mx := ia.top(types.Typ[types.Int])
		return Itv{big.NewInt(0), mx.Hi}
	}
	maxLen := ia.top(types.Typ[types.Int])
	nonneg := Itv{big.NewInt(0), maxLen.Hi}
	switch t := v.Type().Underlying().(type) {
	case *types.Array:
		return itvConst(t.Len())
	case *types.Pointer:
		if at, ok := t.Elem().Underlying().(*types.Array); ok {
			return itvConst(at.Len())
		}
	}
	switch x := v.(type) {
	case *ssa.Const:
		if x.Value == nil {
			return itvConst(0) // nil slice / map
		}
		if x.Value.Kind() == constant.String {
			return itvConst(int64(len(constant.StringVal(x.Value))))
		}
	case *ssa.MakeSlice:
		return fi.At(x.Len, b).meet(nonneg)
	case *ssa.Slice:
		// x[lo:hi]
		base := fi.lenItv(x.X, b)
		var lo, hi Itv
		if x.Low != nil {
			lo = fi.At(x.Low, b).meet(nonneg)
		} else {
			lo = itvConst(0)
		}
		if x.High != nil {
			hi = fi.At(x.High, b).meet(nonneg)
		} else {
			hi = base
		}
		if lo.empty() || hi.empty() {
			return nonneg
		}
		r := Itv{new(big.Int).Sub(hi.Lo, lo.Hi), new(big.Int).Sub(hi.Hi, lo.Lo)}
		// a slice expression cannot extend beyond the capacity of its operand
		if ch := fi.capHi(x.X, b, 0); ch != nil {
			r = r.meet(Itv{big.NewInt(0), new(big.Int).Sub(ch, lo.Lo)})
			if r.empty() {
				return nonneg
			}
		}
		return r.meet(nonneg)
	case *ssa.Phi:
		var out Itv
		for _, e := range x.Edges {
			if e == v {
				continue
			}
			out = out.join(fi.lenItvShallow(e, b))
		}
		if out.empty() {
			return nonneg
		}
		return out
	case *ssa.UnOp:
		if x.Op == token.MUL {
			if fa, ok := x.X.(*ssa.FieldAddr); ok {
				if st, ok := derefStruct(fa.X.Type()); ok {
					f := st.Field(fa.Field).Origin()
					if _, isSlice := f.Type().Underlying().(*types.Slice); isSlice {
						r := fi.fieldLenAt(f, x.Block(), indexIn(x), map[ssa.Value]Itv{}, map[*ssa.BasicBlock]bool{})
						if !r.empty() {
							return r.meet(nonneg)
						}
					}
					if ia.LenItv != nil {
						if i, ok := ia.LenItv(f); ok {
							return i.meet(nonneg)
						}
					}
				}
			}
		}
	case *ssa.Parameter:
		return ia.paramLenItv(x).meet(nonneg)
	case *ssa.Call:
		if bi, ok := x.Call.Value.(*ssa.Builtin); ok && bi.Name() == "append" && len(x.Call.Args) == 2 {
			a := fi.lenItv(x.Call.Args[0], b)
			c := fi.lenItv(x.Call.Args[1], b)
			if x.Call.Signature().Variadic() {
				if _, isConstNil := x.Call.Args[1].(*ssa.Const); isConstNil {
					c = itvConst(0)
				}
			}
			return Itv{new(big.Int).Add(a.Lo, c.Lo), new(big.Int).Add(a.Hi, c.Hi)}.meet(nonneg)
		}
		if callee := x.Call.StaticCallee(); callee != nil {
			name := extName(callee)
			switch name {
			case "slices.DeleteFunc", "slices.Compact", "slices.CompactFunc":
				a := fi.lenItv(x.Call.Args[0], b)
				return Itv{big.NewInt(0), a.Hi}
			case "slices.Clone":
				return fi.lenItv(x.Call.Args[0], b)
			case "slices.Delete":
				// removes s[i:j] (panics unless 0 <= i <= j <= len(s)): len(s) - (j - i)
				if len(x.Call.Args) == 3 {
					a := fi.lenItv(x.Call.Args[0], b)
					i, j := fi.At(x.Call.Args[1], b), fi.At(x.Call.Args[2], b)
					hi := new(big.Int).Set(a.Hi)
					lo := big.NewInt(0)
					if !i.empty() && !j.empty() {
						// at least j.Lo - i.Hi elements go, at most j.Hi - i.Lo
						least := new(big.Int).Sub(j.Lo, i.Hi)
						if least.Sign() > 0 {
							hi = new(big.Int).Sub(a.Hi, least)
						}
						most := new(big.Int).Sub(j.Hi, i.Lo)
						if l := new(big.Int).Sub(a.Lo, most); l.Sign() > 0 {
							lo = l
						}
					}
					return Itv{lo, hi}.meet(nonneg)
				}
			}
			if fnInModule(callee) && callee.Blocks != nil {
				if r := ia.retLenItv(callee, 0); !r.empty() {
					return r.meet(nonneg)
				}
			}
		}
	case *ssa.Extract:
		if call, ok := x.Tuple.(*ssa.Call); ok {
			if callee := call.Call.StaticCallee(); callee != nil && fnInModule(callee) && callee.Blocks != nil {
				if r := ia.retLenItv(callee, x.Index); !r.empty() {
					return r.meet(nonneg)
				}
			}
		}
	case *ssa.Alloc:
		// new([N]T) sliced
	case *ssa.Convert:
		return fi.lenItv(x.X, b)
	case *ssa.ChangeType:
		return fi.lenItv(x.X, b)
	}
	return nonneg
}

func (fi *FnIntervals) lenItvShallow(v ssa.Value, b *ssa.BasicBlock) Itv {
	if _, isPhi := v.(*ssa.Phi); isPhi {
		mx := fi.ia.top(types.Typ[types.Int])
		return Itv{big.NewInt(0), mx.Hi}
	}
	return fi.lenItv(v, b)
}

// paramItv: join of the arguments at every module call site.
func (ia *IntervalAnalysis) paramItv(p *ssa.Parameter) Itv {
	if i, ok := ia.params[p]; ok {
		return i
	}
	top := ia.top(p.Type())
	fn := p.Parent()
	idx := -1
	for i, q := range fn.Params {
		if q == p {
			idx = i
		}
	}
	ia.params[p] = top // recursion guard
	if idx < 0 || ia.depth > 4 {
		return top
	}
	n := ia.p.cg.Nodes[fn]
	if n == nil {
		return top
	}
	if len(n.In) == 0 {
		// no caller anywhere in the program: dead code contributes nothing
		// to the invariants of what it calls; analysed with the full range
		ia.dead[fn] = true
		return top
	}
	var out Itv
	ia.depth++
	defer func() { ia.depth-- }()
	for _, e := range n.In {
		caller := e.Caller.Func
		if !fnInModule(caller) || e.Site == nil || ia.busy[caller] {
			ia.taint(caller)
			return top
		}
		cc := e.Site.Common()
		args := cc.Args
		k := idx
		if cc.IsInvoke() {
			k = idx - 1
		}
		if k < 0 || k >= len(args) {
			return top
		}
		if ia.isDead(caller) {
			continue
		}
		cfi := ia.Analyze(caller)
		out = out.join(cfi.At(args[k], e.Site.Block()))
	}
	if out.empty() {
		return top
	}
	out = out.meet(top)
	ia.params[p] = out
	return out
}

// retItv: join of the values returned at result index i.
func (ia *IntervalAnalysis) retItv(fn *ssa.Function, i int) Itv {
	if ia.busy[fn] || ia.depth > 4 {
		sig := fn.Signature.Results()
		if i < sig.Len() {
			return ia.top(sig.At(i).Type())
		}
		return Itv{}
	}
	ia.depth++
	defer func() { ia.depth-- }()
	fi := ia.Analyze(fn)
	var out Itv
	for _, b := range fn.Blocks {
		if len(b.Instrs) == 0 {
			continue
		}
		if r, ok := b.Instrs[len(b.Instrs)-1].(*ssa.Return); ok && i < len(r.Results) {
			out = out.join(fi.At(unspill(r.Results[i]), b))
		}
	}
	return out
}

// taint marks the functions currently being analysed on behalf of a caller
// that is itself still being analysed.
func (ia *IntervalAnalysis) taint(busyCaller *ssa.Function) {
	if !ia.busy[busyCaller] {
		return
	}
	seen := false
	for _, f := range ia.stack {
		if seen {
			ia.tainted[f] = true
		}
		if f == busyCaller {
			seen = true
		}
	}
}

// isDead: a module function (not a closure) with no incoming call-graph edge
// whose every transitive caller is dead as well.
func (ia *IntervalAnalysis) isDead(fn *ssa.Function) bool {
	if d, ok := ia.dead[fn]; ok {
		return d
	}
	n := ia.p.cg.Nodes[fn]
	d := n != nil && len(n.In) == 0 && fn.Parent() == nil && fn.Name() != "main" && fn.Name() != "init"
	ia.dead[fn] = d
	return d
}

// FieldLenInvariant computes an interval for len(x.f) that holds whenever
// the field is read: the join of the lengths of everything ever stored into
// the field by live module code.  ok=false when some allocation of the
// struct leaves the field unset (zero length) or a store cannot be bounded.
func (ia *IntervalAnalysis) FieldLenInvariant(f *types.Var) (Itv, []string) {
	if i, ok := ia.lens[f]; ok {
		return i, nil
	}
	maxLen := ia.top(types.Typ[types.Int])
	nonneg := Itv{big.NewInt(0), maxLen.Hi}
	if ia.lenBusy[f] {
		return nonneg, nil
	}
	ia.lenBusy[f] = true
	defer delete(ia.lenBusy, f)
	var out Itv
	var notes []string
	var owner types.Type
	for fn := range ia.p.cg.Nodes {
		if fn == nil || fn.Blocks == nil || !fnInModule(fn) || ia.isDead(fn) {
			continue
		}
		for _, b := range fn.Blocks {
			for _, ins := range b.Instrs {
				switch x := ins.(type) {
				case *ssa.Store:
					fa, ok := x.Addr.(*ssa.FieldAddr)
					if !ok {
						continue
					}
					st, ok := derefStruct(fa.X.Type())
					if !ok || st.Field(fa.Field).Origin() != f {
						continue
					}
					fi := ia.Analyze(fn)
					li := fi.lenItv(x.Val, b)
					notes = append(notes, fmt.Sprintf("%s stores a value of length %s", ssaFuncName(fn), li))
					out = out.join(li)
				case *ssa.Alloc:
					// an allocation of the owning struct that never sets the field
					t := x.Type().(*types.Pointer).Elem()
					st, ok := t.Underlying().(*types.Struct)
					if !ok {
						continue
					}
					has := false
					for i := 0; i < st.NumFields(); i++ {
						if st.Field(i).Origin() == f {
							has = true
							owner = t
						}
					}
					if !has {
						continue
					}
					set := false
					for _, ref := range *x.Referrers() {
						if fa, ok := ref.(*ssa.FieldAddr); ok && st.Field(fa.Field).Origin() == f {
							for _, r2 := range *fa.Referrers() {
								if s, ok := r2.(*ssa.Store); ok && s.Addr == fa {
									set = true
								}
							}
						}
					}
					if !set {
						notes = append(notes, fmt.Sprintf("%s allocates the struct without setting the field (length 0)", ssaFuncName(fn)))
						out = out.join(itvConst(0))
					}
				}
			}
		}
	}
	_ = owner
	if out.empty() {
		out = nonneg
	}
	out = out.meet(nonneg)
	ia.lens[f] = out
	return out, notes
}

func indexIn(ins ssa.Instruction) int {
	for i, x := range ins.Block().Instrs {
		if x == ins {
			return i
		}
	}
	return 0
}

// lenOfLoaded returns the interval of len(t) for a loaded slice value t, as
// refined along the path (m): through a len(t) instruction if there is one.
func (fi *FnIntervals) lenOfLoaded(t ssa.Value, at *ssa.BasicBlock, m map[ssa.Value]Itv) Itv {
	maxLen := fi.ia.top(types.Typ[types.Int])
	out := Itv{big.NewInt(0), maxLen.Hi}
	if u, ok := t.(*ssa.UnOp); ok {
		if fa, ok := u.X.(*ssa.FieldAddr); ok && fi.ia.LenItv != nil {
			if st, ok := derefStruct(fa.X.Type()); ok {
				if i, ok := fi.ia.LenItv(st.Field(fa.Field).Origin()); ok {
					out = out.meet(i)
				}
			}
		}
	}
	if refs := t.Referrers(); refs != nil {
		for _, r := range *refs {
			if call, ok := r.(*ssa.Call); ok {
				if bi, ok := call.Call.Value.(*ssa.Builtin); ok && bi.Name() == "len" {
					li := fi.atWith(call, at, m)
					if mm := out.meet(li); !mm.empty() {
						out = mm
					}
				}
			}
		}
	}
	return out
}

// fieldLenAt computes the length of the slice held in field f just before
// instruction #idx of block b, by walking backwards to the reaching stores
// and loads of the field (any base object of the struct type: the accesses of
// one function are assumed to be to the same object), accumulating the
// branch refinements of the edges walked.  Calls that may modify the field
// and the function entry yield the field's invariant (LenItv).
func (fi *FnIntervals) fieldLenAt(f *types.Var, b *ssa.BasicBlock, idx int, m map[ssa.Value]Itv, onPath map[*ssa.BasicBlock]bool) Itv {
	ia := fi.ia
	inv := func() Itv {
		if ia.LenItv != nil {
			if i, ok := ia.LenItv(f); ok {
				return i
			}
		}
		mx := ia.top(types.Typ[types.Int])
		return Itv{big.NewInt(0), mx.Hi}
	}
	for i := idx - 1; i >= 0; i-- {
		switch x := b.Instrs[i].(type) {
		case *ssa.Store:
			if fa, ok := x.Addr.(*ssa.FieldAddr); ok {
				if st, ok := derefStruct(fa.X.Type()); ok && st.Field(fa.Field).Origin() == f {
					mm := map[ssa.Value]Itv{}
					for k, v := range fi.refine[b] {
						mm[k] = v
					}
					for k, v := range m {
						if cur, has := mm[k]; has {
							v = v.meet(cur)
						}
						mm[k] = v
					}
					save := fi.refine[b]
					fi.refine[b] = mm
					r := fi.lenItv(x.Val, b)
					fi.refine[b] = save
					return r
				}
			}
		case *ssa.UnOp:
			if x.Op == token.MUL {
				if fa, ok := x.X.(*ssa.FieldAddr); ok {
					if st, ok := derefStruct(fa.X.Type()); ok && st.Field(fa.Field).Origin() == f {
						// the field was read here and not written since: same value;
						// first see what reached that load
						prev := fi.fieldLenAt(f, b, i, m, onPath)
						here := fi.lenOfLoaded(x, b, m)
						if r := prev.meet(here); !r.empty() {
							return r
						}
						return here
					}
				}
			}
		case ssa.CallInstruction:
			if _, isGo := x.(*ssa.Go); isGo {
				continue
			}
			cc := x.Common()
			if _, isB := cc.Value.(*ssa.Builtin); isB {
				continue
			}
			mod := false
			if sc := cc.StaticCallee(); sc != nil {
				if fnInModule(sc) {
					mod = ia.p.Effects().Mods(sc)[f]
				}
			} else {
				for _, callee := range ia.p.CalleesAt(x.Pos()) {
					if fnInModule(callee) && ia.p.Effects().Mods(callee)[f] {
						mod = true
					}
				}
			}
			if mod {
				return inv()
			}
		}
	}
	if len(b.Preds) == 0 {
		return inv()
	}
	if onPath[b] {
		return Itv{}
	}
	onPath[b] = true
	defer delete(onPath, b)
	var out Itv
	for _, p := range b.Preds {
		mm := map[ssa.Value]Itv{}
		for k, v := range m {
			mm[k] = v
		}
		em := map[ssa.Value]Itv{}
		fi.edgeRefine(p, b, em)
		for k, v := range em {
			if cur, has := mm[k]; has {
				v = v.meet(cur)
			}
			if !v.empty() {
				mm[k] = v
			}
		}
		out = out.join(fi.fieldLenAt(f, p, len(p.Instrs), mm, onPath))
	}
	return out
}

// paramLenItv: join of len(arg) over all live module call sites.
func (ia *IntervalAnalysis) paramLenItv(p *ssa.Parameter) Itv {
	mx := ia.top(types.Typ[types.Int])
	nonneg := Itv{big.NewInt(0), mx.Hi}
	if i, ok := ia.plens[p]; ok {
		return i
	}
	ia.plens[p] = nonneg
	fn := p.Parent()
	idx := -1
	for i, q := range fn.Params {
		if q == p {
			idx = i
		}
	}
	n := ia.p.cg.Nodes[fn]
	if idx < 0 || n == nil || len(n.In) == 0 || ia.depth > 4 {
		return nonneg
	}
	ia.depth++
	defer func() { ia.depth-- }()
	var out Itv
	for _, e := range n.In {
		caller := e.Caller.Func
		if !fnInModule(caller) || e.Site == nil || ia.busy[caller] {
			ia.taint(caller)
			return nonneg
		}
		if ia.isDead(caller) {
			continue
		}
		cc := e.Site.Common()
		k := idx
		if cc.IsInvoke() {
			k = idx - 1
		}
		if k < 0 || k >= len(cc.Args) {
			return nonneg
		}
		cfi := ia.Analyze(caller)
		out = out.join(cfi.lenItv(cc.Args[k], e.Site.Block()))
	}
	if out.empty() {
		return nonneg
	}
	ia.plens[p] = out.meet(nonneg)
	return ia.plens[p]
}

// retLenItv: join of the lengths of the slices returned at result index i.
func (ia *IntervalAnalysis) retLenItv(fn *ssa.Function, i int) Itv {
	if ia.busy[fn] || ia.depth > 4 {
		return Itv{}
	}
	sig := fn.Signature.Results()
	if i >= sig.Len() {
		return Itv{}
	}
	if _, ok := sig.At(i).Type().Underlying().(*types.Slice); !ok {
		return Itv{}
	}
	ia.depth++
	defer func() { ia.depth-- }()
	fi := ia.Analyze(fn)
	var out Itv
	for _, b := range fn.Blocks {
		if len(b.Instrs) == 0 {
			continue
		}
		if r, ok := b.Instrs[len(b.Instrs)-1].(*ssa.Return); ok && i < len(r.Results) {
			out = out.join(fi.lenItv(unspill(r.Results[i]), b))
		}
	}
	return out
}

type ssaValue = ssa.Value

// capHi returns an upper bound of cap(v), or nil when none is known.
func (fi *FnIntervals) capHi(v ssa.Value, b *ssa.BasicBlock, depth int) *big.Int {
	if depth > 6 {
		return nil
	}
	switch t := v.Type().Underlying().(type) {
	case *types.Array:
		return big.NewInt(t.Len())
	case *types.Pointer:
		if at, ok := t.Elem().Underlying().(*types.Array); ok {
			return big.NewInt(at.Len())
		}
	}
	switch x := v.(type) {
	case *ssa.MakeSlice:
		c := fi.At(x.Cap, b)
		if c.empty() {
			return nil
		}
		return c.Hi
	case *ssa.Slice:
		if x.Max != nil {
			m := fi.At(x.Max, b)
			if !m.empty() {
				return m.Hi
			}
		}
		return fi.capHi(x.X, b, depth+1)
	case *ssa.Phi:
		var out *big.Int
		for _, e := range x.Edges {
			if e == v {
				continue
			}
			c := fi.capHi(e, b, depth+1)
			if c == nil {
				return nil
			}
			if out == nil || c.Cmp(out) > 0 {
				out = c
			}
		}
		return out
	case *ssa.Convert:
		return fi.capHi(x.X, b, depth+1)
	case *ssa.ChangeType:
		return fi.capHi(x.X, b, depth+1)
	}
	return nil
}
