package main

// E7: linear reasoning over E2 facts, used by the bounds prover.
//
// A linear form is k + Σ c_i·a_i over atoms a_i (terms that are not sums,
// differences, constants or constant multiples).  Facts of the state that
// compare numeric terms become inequalities  form >= 0; a goal is proved when
// it is a non-negative combination (up to three facts, unit coefficients) of
// them plus a non-negative constant.

import (
	"go/types"
	"math/big"
	"sort"
	"strconv"
	"strings"
)

type linForm struct {
	k int64
	c map[string]int64
	t map[string]*Term
}

func newLin() *linForm { return &linForm{c: map[string]int64{}, t: map[string]*Term{}} }

func (l *linForm) add(m *linForm, f int64) {
	l.k += f * m.k
	for a, c := range m.c {
		l.c[a] += f * c
		if l.c[a] == 0 {
			delete(l.c, a)
		} else {
			l.t[a] = m.t[a]
		}
	}
}

func (l *linForm) String() string {
	var ks []string
	for a := range l.c {
		ks = append(ks, a)
	}
	sort.Strings(ks)
	var b strings.Builder
	b.WriteString(strconv.FormatInt(l.k, 10))
	for _, a := range ks {
		b.WriteString(" + ")
		b.WriteString(strconv.FormatInt(l.c[a], 10))
		b.WriteString("*")
		b.WriteString(pretty(a))
	}
	return b.String()
}

// linOf converts a term to a linear form.  Widening conversions of
// non-negative values and plain parentheses are transparent.
func linOf(t *Term) *linForm {
	l := newLin()
	switch t.K {
	case 'c':
		if v, err := strconv.ParseInt(t.Name, 10, 64); err == nil {
			l.k = v
			return l
		}
		if bi, ok := new(big.Int).SetString(t.Name, 10); ok && bi.IsInt64() {
			l.k = bi.Int64()
			return l
		}
	case 'o':
		switch {
		case t.Name == "+" && len(t.Args) == 2:
			l.add(linOf(t.Args[0]), 1)
			l.add(linOf(t.Args[1]), 1)
			return l
		case t.Name == "-" && len(t.Args) == 2:
			l.add(linOf(t.Args[0]), 1)
			l.add(linOf(t.Args[1]), -1)
			return l
		case t.Name == "*" && len(t.Args) == 2:
			a, b := linOf(t.Args[0]), linOf(t.Args[1])
			if len(a.c) == 0 {
				l.add(b, a.k)
				return l
			}
			if len(b.c) == 0 {
				l.add(a, b.k)
				return l
			}
		case strings.HasPrefix(t.Name, "conv:") && len(t.Args) == 1:
			// integer conversions: transparent (overflow-free arithmetic is an assumption)
			switch strings.TrimPrefix(t.Name, "conv:") {
			case "int", "int64", "int32", "uint", "uint64", "uint32", "uint16", "uint8", "byte", "int16":
				return linOf(t.Args[0])
			}
		}
	}
	if t.K == 'k' && t.Name == "len" && len(t.Args) == 1 {
		a := t.Args[0]
		// len("...") of a constant string
		if a.K == 'c' && strings.HasPrefix(a.Name, "\"") {
			if u, err := strconv.Unquote(a.Name); err == nil {
				l.k = int64(len(u))
				return l
			}
		}
		// len(x[lo:hi]) = hi - lo ; len(x[lo:]) = len(x) - lo
		if a.K == 'o' && a.Name == "slice" && len(a.Args) == 3 {
			if a.Args[2].K == 'c' && a.Args[2].Name == "_" {
				l.add(linOf(TCall("len", nil, a.Args[0])), 1)
			} else {
				l.add(linOf(a.Args[2]), 1)
			}
			if !(a.Args[1].K == 'c' && a.Args[1].Name == "_") {
				l.add(linOf(a.Args[1]), -1)
			}
			return l
		}
	}
	s := t.String()
	l.c[s] = 1
	l.t[s] = t
	return l
}

// ineqs extracts "form >= 0" inequalities from the state.
func stateIneqs(st *State) []*linForm {
	var out []*linForm
	if st == nil {
		return nil
	}
	for _, f := range st.m {
		switch f.Op {
		case "lt":
			a, b := linOf(f.A), linOf(f.B)
			l := newLin()
			if f.Pos { // a < b  =>  b - a - 1 >= 0
				l.add(b, 1)
				l.add(a, -1)
				l.k--
			} else { // !(a < b) => a - b >= 0
				l.add(a, 1)
				l.add(b, -1)
			}
			out = append(out, l)
		case "true":
			// strings.HasPrefix(s, p) / HasSuffix  =>  len(s) - len(p) >= 0
			if f.Pos && f.A.K == 'k' && (f.A.Name == "strings.HasPrefix" || f.A.Name == "strings.HasSuffix") && len(f.A.Args) == 2 {
				l := newLin()
				l.add(linOf(TCall("len", nil, f.A.Args[0])), 1)
				l.add(linOf(TCall("len", nil, f.A.Args[1])), -1)
				out = append(out, l)
			}
		case "eq":
			if !f.Pos && f.B != nil {
				// s != ""  =>  len(s) - 1 >= 0 ;  len(x) != 0  =>  len(x) - 1 >= 0
				for _, pr := range [][2]*Term{{f.A, f.B}, {f.B, f.A}} {
					if pr[0].K == 'c' && pr[0].Name == "\"\"" {
						l := newLin()
						l.add(linOf(TCall("len", nil, pr[1])), 1)
						l.k--
						out = append(out, l)
					}
					if pr[0].K == 'c' && pr[0].Name == "0" && pr[1].K == 'k' && (pr[1].Name == "len" || pr[1].Name == "cap") {
						l := newLin()
						l.add(linOf(pr[1]), 1)
						l.k--
						out = append(out, l)
					}
				}
			}
			if !f.Pos || f.A.K == 'n' || f.B.K == 'n' {
				continue
			}
			// x == "literal"  =>  len(x) == len(literal)
			for _, pr := range [][2]*Term{{f.A, f.B}, {f.B, f.A}} {
				if pr[0].K == 'c' && strings.HasPrefix(pr[0].Name, "\"") {
					a, b := linOf(TCall("len", nil, pr[1])), linOf(TCall("len", nil, pr[0]))
					l1, l2 := newLin(), newLin()
					l1.add(a, 1)
					l1.add(b, -1)
					l2.add(b, 1)
					l2.add(a, -1)
					out = append(out, l1, l2)
				}
			}
			if !numericTerm(f.A) && !numericTerm(f.B) && !(intVar(f.A) && intVar(f.B)) {
				continue
			}
			a, b := linOf(f.A), linOf(f.B)
			l1, l2 := newLin(), newLin()
			l1.add(a, 1)
			l1.add(b, -1)
			l2.add(b, 1)
			l2.add(a, -1)
			out = append(out, l1, l2)
		}
	}
	// postconditions of standard-library results mentioned in the state
	seen := map[string]bool{}
	for _, f := range st.m {
		for _, top := range f.terms() {
			top.walk(func(x *Term) {
				if x.K != 'k' || seen[x.String()] {
					return
				}
				seen[x.String()] = true
				switch x.Name {
				case "strings.Index", "strings.LastIndex":
					// r >= 0  =>  r + len(sep) <= len(s); unconditional when len(sep) <= 1 (r = -1 gives len(s) >= 0)
					if len(x.Args) == 2 {
						sep := linOf(TCall("len", nil, x.Args[1]))
						nonneg := false
						for _, g := range st.m {
							if g.Op == "lt" && !g.Pos && g.B != nil && g.B.K == 'c' && g.B.Name == "0" && (g.A.String() == x.String() || st.EqualUnder(g.A, x)) {
								nonneg = true
							}
						}
						if nonneg || (len(sep.c) == 0 && sep.k <= 1) {
							l := newLin()
							l.add(linOf(TCall("len", nil, x.Args[0])), 1)
							l.add(linOf(x), -1)
							l.add(sep, -1)
							out = append(out, l)
						}
						// r >= -1
						l2 := newLin()
						l2.add(linOf(x), 1)
						l2.k++
						out = append(out, l2)
					}
				case "min", "max":
					// min(a, b, ...) <= each argument <= max(a, b, ...)
					for _, a := range x.Args {
						l := newLin()
						if x.Name == "min" {
							l.add(linOf(a), 1)
							l.add(linOf(x), -1)
						} else {
							l.add(linOf(x), 1)
							l.add(linOf(a), -1)
						}
						out = append(out, l)
					}
				case "path.Clean", "path/filepath.Clean", "filepath.Clean":
					// never empty
					l := newLin()
					l.add(linOf(TCall("len", nil, x)), 1)
					l.k--
					out = append(out, l)
				case "strings.TrimLeft", "strings.TrimSpace", "strings.TrimPrefix", "strings.TrimSuffix":
					// not longer than the input
					if len(x.Args) >= 1 {
						l := newLin()
						l.add(linOf(TCall("len", nil, x.Args[0])), 1)
						l.add(linOf(TCall("len", nil, x)), -1)
						out = append(out, l)
					}
				}
			})
		}
	}
	return out
}

func numericTerm(t *Term) bool {
	switch t.K {
	case 'c':
		_, err := strconv.ParseInt(t.Name, 10, 64)
		return err == nil
	case 'k':
		return t.Name == "len" || t.Name == "cap"
	case 'o':
		return t.Name == "+" || t.Name == "-" || t.Name == "*" || strings.HasPrefix(t.Name, "conv:")
	}
	return false
}

// proveGE0 tries to show goal >= 0 from the inequalities, given the set of
// atoms known to be non-negative.
func proveGE0(goal *linForm, ineqs []*linForm, nonneg func(atom string, t *Term) bool) bool {
	// residual after subtracting a combination must be: constant >= 0 plus
	// non-negative atoms with non-negative coefficients
	ok := func(r *linForm) bool {
		if r.k < 0 {
			return false
		}
		for a, c := range r.c {
			if c < 0 {
				return false
			}
			if !nonneg(a, r.t[a]) {
				return false
			}
		}
		return true
	}
	if ok(goal) {
		return true
	}
	// only inequalities sharing an atom with the goal (or with each other) matter
	n := len(ineqs)
	sub := func(base *linForm, i int) *linForm {
		r := newLin()
		r.add(base, 1)
		r.add(ineqs[i], -1)
		return r
	}
	for i := 0; i < n; i++ {
		r1 := sub(goal, i)
		if ok(r1) {
			return true
		}
		for j := i; j < n; j++ {
			r2 := sub(r1, j)
			if ok(r2) {
				return true
			}
			if n > 40 {
				continue
			}
			for k := j; k < n; k++ {
				if ok(sub(r2, k)) {
					return true
				}
			}
		}
	}
	return false
}

// implies: does the state (as inequalities) imply the fact?  Used for the
// semantic meet of numeric facts.
func impliesFact(ineqs []*linForm, f *Fact, nonneg func(string, *Term) bool) bool {
	switch f.Op {
	case "lt":
		a, b := linOf(f.A), linOf(f.B)
		l := newLin()
		if f.Pos {
			l.add(b, 1)
			l.add(a, -1)
			l.k--
		} else {
			l.add(a, 1)
			l.add(b, -1)
		}
		return proveGE0(l, ineqs, nonneg)
	}
	return false
}

// lenNonNeg: len()/cap() terms and unsigned-typed atoms are non-negative.
func lenNonNeg(info *types.Info, extra map[string]bool) func(string, *Term) bool {
	return func(a string, t *Term) bool {
		if extra[a] {
			return true
		}
		if t == nil {
			return false
		}
		if t.K == 'k' && (t.Name == "len" || t.Name == "cap") {
			return true
		}
		if t.K == 'o' && strings.HasPrefix(t.Name, "conv:u") {
			return true
		}
		if t.K == 'o' && (t.Name == "&" || t.Name == ">>" || t.Name == "<<" || t.Name == "|") {
			// bit operations on bytes / unsigned values
			return true
		}
		if t.K == 'i' {
			return true // element of a []byte / []uintN (only such slices are indexed here)
		}
		return false
	}
}

// intVar: a variable (or field) of integer type.
func intVar(t *Term) bool {
	if t == nil || (t.K != 'v' && t.K != 'f') || t.Obj == nil {
		return false
	}
	b, ok := t.Obj.Type().Underlying().(*types.Basic)
	return ok && b.Info()&types.IsInteger != 0
}
