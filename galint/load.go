package main

// E1: loading of /repo's current working tree, SSA, call graph, anchor
// resolution.  Nothing in /repo is executed: the tree is parsed and
// type-checked with go/packages (which shells out to `go list` only).

import (
	"fmt"
	"go/ast"
	"go/token"
	"go/types"
	"os"
	"path/filepath"
	"regexp"
	"sort"
	"strconv"
	"strings"

	"golang.org/x/tools/go/callgraph"
	"golang.org/x/tools/go/callgraph/cha"
	"golang.org/x/tools/go/callgraph/vta"
	"golang.org/x/tools/go/packages"
	"golang.org/x/tools/go/ssa"
	"golang.org/x/tools/go/ssa/ssautil"
)

const modPath = "github.com/jech/galene"

// BuildConfig names one build configuration of the repository.
type BuildConfig struct {
	GOOS, GOARCH string
}

func (b BuildConfig) String() string {
	if b.GOOS == "" {
		return "default"
	}
	return b.GOOS + "/" + b.GOARCH
}

// Program is the type-checked repository plus derived representations.
type Program struct {
	// Normalised lists the helper functions inlined before analysis (normalise.go).
	Normalised []string
	overlayIn  map[string][]byte
	Repo       string
	Config     BuildConfig
	Fset       *token.FileSet
	All        []*packages.Package          // every package, deps included
	Mod        []*packages.Package          // packages of the galene module
	ByPath     map[string]*packages.Package // import path -> package
	parents    map[*ast.File]map[ast.Node]ast.Node

	// lazily built
	ssaProg   *ssa.Program
	ssaPkgs   map[*types.Package]*ssa.Package
	cg        *callgraph.Graph
	chaCG     *callgraph.Graph
	siteCall  map[token.Pos][]*ssa.Function // call Lparen -> callees (VTA)
	declOf    map[*types.Func]*FuncSrc
	litOf     map[*ast.FuncLit]*FuncSrc
	allSrc    []*FuncSrc
	callAt    map[token.Pos]*CallSite
	modsets   map[*ssa.Function]map[types.Object]bool
	fnOfSSA   map[*ssa.Function]*FuncSrc
	effects   *Effects
	srcSSA    map[*FuncSrc][]*ssa.Function
	facts     *FactEngine
	intervals *IntervalAnalysis
	callers   map[*FuncSrc][]callerSite
}

// FuncSrc is a source function (declaration or literal) of the module.
type FuncSrc struct {
	Pkg    *packages.Package
	File   *ast.File
	Decl   *ast.FuncDecl // nil for literals
	Lit    *ast.FuncLit  // nil for declarations
	Obj    *types.Func   // nil for literals
	Parent *FuncSrc      // enclosing function for literals
	Name   string        // printable, e.g. group.AddClient, rtpconn.(*webClient).write, group.add$1
	nlit   int
}

func (f *FuncSrc) Body() *ast.BlockStmt {
	if f.Decl != nil {
		return f.Decl.Body
	}
	return f.Lit.Body
}

func (f *FuncSrc) Type() *ast.FuncType {
	if f.Decl != nil {
		return f.Decl.Type
	}
	return f.Lit.Type
}

func (f *FuncSrc) Pos() token.Pos {
	if f.Decl != nil {
		return f.Decl.Pos()
	}
	return f.Lit.Pos()
}

// Root returns the outermost enclosing declared function.
func (f *FuncSrc) Root() *FuncSrc {
	for f.Parent != nil {
		f = f.Parent
	}
	return f
}

// CallSite is a call expression of module source.
type CallSite struct {
	Call *ast.CallExpr
	In   *FuncSrc
}

type loadError struct{ msg string }

func (e *loadError) Error() string { return e.msg }

// Load parses and type-checks the repository at dir for the given build
// configuration.  overlay maps absolute file names to replacement contents
// (used only for the in-memory mutant corpus; never for the verdict on the
// tree itself).
func Load(dir string, bc BuildConfig, overlay map[string][]byte) (*Program, error) {
	p, err := loadRaw(dir, bc, overlay)
	if err != nil {
		return nil, err
	}
	known := loadKnownFuncs()
	if known == nil {
		return p, nil
	}
	var notes []string
	cur := overlay
	funcAliases = map[string]*types.Func{}
	keepHelpers = false
	notes = append(notes, p.computeAliases(known)...)
	for round := 1; round <= 6; round++ {
		ov, ns := p.normaliseOnce(known, round)
		if ov == nil {
			break
		}
		merged := map[string][]byte{}
		for k, v := range cur {
			merged[k] = v
		}
		for k, v := range ov {
			merged[k] = v
		}
		p2, err2 := loadRaw(dir, bc, merged)
		if err2 != nil {
			// removing a helper may have taken the last use of an import with it:
			// such imports become blank imports
			if fixed := blankUnusedImports(err2.Error(), merged); fixed != nil {
				if p3, err3 := loadRaw(dir, bc, fixed); err3 == nil {
					p2, err2, merged = p3, nil, fixed
				}
			}
		}
		if err2 != nil && !keepHelpers {
			// once more without removing the helpers that became unused
			keepHelpers = true
			ov, ns = p.normaliseOnce(known, round)
			if ov != nil {
				merged = map[string][]byte{}
				for k, v := range cur {
					merged[k] = v
				}
				for k, v := range ov {
					merged[k] = v
				}
				p2, err2 = loadRaw(dir, bc, merged)
			}
		}
		if err2 != nil {
			notes = append(notes, "normalisation abandoned in round "+fmt.Sprint(round)+" (the inlined program does not type-check: "+firstLine(err2.Error())+"); the program is analysed as it is from that round on")
			break
		}
		notes = append(notes, ns...)
		p, cur = p2, merged
		funcAliases = map[string]*types.Func{}
		p.computeAliases(known)
	}
	// new local aggregates back into one local per field (sroa.go)
	if kt := loadKnownTypes(); kt != nil {
		for pass := 0; pass < 3; pass++ {
			ov, ns := p.sroaOnce(kt)
			if ov == nil {
				break
			}
			merged := map[string][]byte{}
			for k, v := range cur {
				merged[k] = v
			}
			for k, v := range ov {
				merged[k] = v
			}
			p2, err2 := loadRaw(dir, bc, merged)
			if err2 != nil {
				notes = append(notes, "scalar replacement abandoned (the rewritten program does not type-check: "+firstLine(err2.Error())+")")
				break
			}
			notes = append(notes, ns...)
			p, cur = p2, merged
			funcAliases = map[string]*types.Func{}
			p.computeAliases(known)
		}
	}
	p.Normalised = notes
	return p, nil
}

func loadRaw(dir string, bc BuildConfig, overlay map[string][]byte) (*Program, error) {
	env := []string{}
	for _, e := range os.Environ() {
		k := e
		if i := strings.IndexByte(e, '='); i >= 0 {
			k = e[:i]
		}
		switch k {
		case "GOWORK", "GOFLAGS", "GOPROXY", "GOOS", "GOARCH", "GOTOOLCHAIN", "GOSUMDB", "CGO_ENABLED":
			continue
		}
		env = append(env, e)
	}
	env = append(env, "GOWORK=off", "GOFLAGS=-mod=mod", "GOPROXY=off")
	if bc.GOOS != "" {
		env = append(env, "GOOS="+bc.GOOS, "GOARCH="+bc.GOARCH, "CGO_ENABLED=0")
	}
	cfg := &packages.Config{
		Mode:    packages.LoadAllSyntax,
		Dir:     dir,
		Env:     env,
		Tests:   false,
		Overlay: overlay,
	}
	pkgs, err := packages.Load(cfg, "./...")
	if err != nil {
		return nil, &loadError{"go/packages: " + err.Error()}
	}
	if len(pkgs) == 0 {
		return nil, &loadError{"no packages loaded from " + dir}
	}
	p := &Program{
		Repo:      dir,
		overlayIn: overlay,
		Config:    bc,
		ByPath:    map[string]*packages.Package{},
		parents:   map[*ast.File]map[ast.Node]ast.Node{},
	}
	var errs []string
	packages.Visit(pkgs, nil, func(pkg *packages.Package) {
		p.All = append(p.All, pkg)
		p.ByPath[pkg.PkgPath] = pkg
		if pkg.PkgPath == modPath || strings.HasPrefix(pkg.PkgPath, modPath+"/") {
			p.Mod = append(p.Mod, pkg)
			for _, e := range pkg.Errors {
				errs = append(errs, e.Error())
			}
			if pkg.Fset != nil {
				p.Fset = pkg.Fset
			}
		}
	})
	if len(errs) > 0 {
		return nil, &loadError{"type errors in module packages: " + strings.Join(errs, "; ")}
	}
	if len(p.Mod) == 0 {
		return nil, &loadError{"no packages of module " + modPath + " found"}
	}
	sort.Slice(p.Mod, func(i, j int) bool { return p.Mod[i].PkgPath < p.Mod[j].PkgPath })
	p.indexSources()
	return p, nil
}

func (p *Program) indexSources() {
	p.declOf = map[*types.Func]*FuncSrc{}
	p.litOf = map[*ast.FuncLit]*FuncSrc{}
	p.callAt = map[token.Pos]*CallSite{}
	for _, pkg := range p.Mod {
		for _, file := range pkg.Syntax {
			for _, d := range file.Decls {
				fd, ok := d.(*ast.FuncDecl)
				if !ok || fd.Body == nil {
					continue
				}
				obj, _ := pkg.TypesInfo.Defs[fd.Name].(*types.Func)
				fs := &FuncSrc{Pkg: pkg, File: file, Decl: fd, Obj: obj, Name: funcName(obj)}
				p.declOf[obj] = fs
				p.allSrc = append(p.allSrc, fs)
				p.indexBody(fs)
			}
			// package-level var initialisers may contain literals
			for _, d := range file.Decls {
				gd, ok := d.(*ast.GenDecl)
				if !ok {
					continue
				}
				init := &FuncSrc{Pkg: pkg, File: file, Name: shortPkg(pkg.PkgPath) + ".init"}
				ast.Inspect(gd, func(n ast.Node) bool {
					if lit, ok := n.(*ast.FuncLit); ok {
						init.nlit++
						fs := &FuncSrc{Pkg: pkg, File: file, Lit: lit, Parent: nil,
							Name: fmt.Sprintf("%s$%d", init.Name, init.nlit)}
						p.litOf[lit] = fs
						p.allSrc = append(p.allSrc, fs)
						p.indexBody(fs)
						return false
					}
					return true
				})
			}
		}
	}
}

func (p *Program) indexBody(fs *FuncSrc) {
	ast.Inspect(fs.Body(), func(n ast.Node) bool {
		switch n := n.(type) {
		case *ast.FuncLit:
			root := fs.Root()
			root.nlit++
			sub := &FuncSrc{Pkg: fs.Pkg, File: fs.File, Lit: n, Parent: fs,
				Name: fmt.Sprintf("%s$%d", root.Name, root.nlit)}
			p.litOf[n] = sub
			p.allSrc = append(p.allSrc, sub)
			p.indexBody(sub)
			return false
		case *ast.CallExpr:
			p.callAt[n.Lparen] = &CallSite{Call: n, In: fs}
		}
		return true
	})
}

func shortPkg(path string) string {
	if path == modPath {
		return "main"
	}
	return strings.TrimPrefix(path, modPath+"/")
}

func funcName(f *types.Func) string {
	if f == nil {
		return "?"
	}
	pkg := ""
	if f.Pkg() != nil {
		pkg = shortPkg(f.Pkg().Path())
	}
	sig := f.Type().(*types.Signature)
	if r := sig.Recv(); r != nil {
		t := r.Type()
		ptr := ""
		if pt, ok := t.(*types.Pointer); ok {
			t = pt.Elem()
			ptr = "*"
		}
		name := "?"
		switch t := t.(type) {
		case *types.Named:
			name = t.Obj().Name()
		case *types.Alias:
			name = t.Obj().Name()
		default:
			// interface method
			name = types.TypeString(t, func(*types.Package) string { return "" })
		}
		return fmt.Sprintf("%s.(%s%s).%s", pkg, ptr, name, f.Name())
	}
	return pkg + "." + f.Name()
}

// Pkg returns the module package with the given short name ("group", "rtpconn", "" for main).
func (p *Program) Pkg(short string) *packages.Package {
	path := modPath
	if short != "" && short != "main" {
		path = modPath + "/" + short
	}
	return p.ByPath[path]
}

// Func resolves a declared function or method of the module.
// recv is "" for functions, or the receiver type name (without *).
func (p *Program) Func(pkg, recv, name string) *FuncSrc {
	pk := p.Pkg(pkg)
	if pk == nil {
		return nil
	}
	alias := func() *FuncSrc {
		if f := funcAliases[shortPkg(pk.PkgPath)+"|"+recv+"|"+name]; f != nil {
			return p.declOf[f]
		}
		return nil
	}
	if recv == "" {
		if f, ok := pk.Types.Scope().Lookup(name).(*types.Func); ok {
			return p.declOf[f]
		}
		return alias()
	}
	tn, ok := pk.Types.Scope().Lookup(recv).(*types.TypeName)
	if !ok {
		return alias()
	}
	obj, _, _ := types.LookupFieldOrMethod(types.NewPointer(tn.Type()), true, pk.Types, name)
	if f, ok := obj.(*types.Func); ok {
		return p.declOf[f]
	}
	return alias()
}

// funcAliases: a function of the vocabulary (known_functions.txt) that is
// missing from the tree while exactly one new function of the same package
// has its name - a function turned into a method, a method into a function,
// or moved to another receiver - is that function: anchors and call-site
// tests (Func, fnIs) resolve to it, and it is not inlined away.  Key:
// "pkg|Recv|name" as the rules spell it.
var funcAliases = map[string]*types.Func{}

func (p *Program) computeAliases(known map[string]bool) []string {
	var notes []string
	present := map[string]bool{}
	for _, fs := range p.allSrc {
		if fs.Decl != nil {
			present[fs.Name] = true
		}
	}
	var names []string
	for k := range known {
		names = append(names, k)
	}
	sort.Strings(names)
	for _, k := range names {
		if present[k] {
			continue
		}
		// k = pkg.name | pkg.(*T).name | pkg.(T).name
		i := strings.IndexByte(k, '.')
		if i < 0 {
			continue
		}
		pkg, rest := k[:i], k[i+1:]
		recv, name := "", rest
		if strings.HasPrefix(rest, "(") {
			j := strings.Index(rest, ").")
			if j < 0 {
				continue
			}
			recv, name = strings.TrimPrefix(rest[1:j], "*"), rest[j+2:]
		}
		var cands []*FuncSrc
		for _, fs := range p.allSrc {
			if fs.Decl == nil || fs.Obj == nil || known[fs.Name] || shortPkg(fs.Pkg.PkgPath) != pkg || fs.Obj.Name() != name {
				continue
			}
			cands = append(cands, fs)
		}
		if len(cands) == 1 {
			funcAliases[pkg+"|"+recv+"|"+name] = cands[0].Obj
			notes = append(notes, fmt.Sprintf("%s is missing and %s is new: taken to be the same function", k, cands[0].Name))
		}
	}
	return notes
}

// Field resolves a struct field of a named type of the module.
func (p *Program) Field(pkg, typ, field string) *types.Var {
	pk := p.Pkg(pkg)
	if pk == nil {
		return nil
	}
	tn, ok := pk.Types.Scope().Lookup(typ).(*types.TypeName)
	if !ok {
		return nil
	}
	st, ok := tn.Type().Underlying().(*types.Struct)
	if !ok {
		return nil
	}
	for i := 0; i < st.NumFields(); i++ {
		if st.Field(i).Name() == field {
			return st.Field(i)
		}
	}
	return nil
}

// GlobalField resolves a field of a package-level variable of anonymous struct type.
func (p *Program) GlobalField(pkg, global, field string) *types.Var {
	pk := p.Pkg(pkg)
	if pk == nil {
		return nil
	}
	v, ok := pk.Types.Scope().Lookup(global).(*types.Var)
	if !ok {
		return nil
	}
	t := v.Type()
	if pt, ok := t.Underlying().(*types.Pointer); ok {
		t = pt.Elem()
	}
	st, ok := t.Underlying().(*types.Struct)
	if !ok {
		return nil
	}
	for i := 0; i < st.NumFields(); i++ {
		if st.Field(i).Name() == field {
			return st.Field(i)
		}
	}
	return nil
}

func (p *Program) Global(pkg, name string) *types.Var {
	pk := p.Pkg(pkg)
	if pk == nil {
		return nil
	}
	v, _ := pk.Types.Scope().Lookup(name).(*types.Var)
	return v
}

func (p *Program) TypeName(pkg, name string) *types.TypeName {
	pk := p.Pkg(pkg)
	if pk == nil {
		return nil
	}
	tn, _ := pk.Types.Scope().Lookup(name).(*types.TypeName)
	return tn
}

// PosStr prints a position relative to the repository root.
func (p *Program) PosStr(pos token.Pos) string {
	if !pos.IsValid() {
		return "-"
	}
	ps := p.Fset.Position(pos)
	rel, err := filepath.Rel(p.Repo, ps.Filename)
	if err != nil || strings.HasPrefix(rel, "..") {
		rel = ps.Filename
	}
	return fmt.Sprintf("%s:%d", rel, ps.Line)
}

// Parent returns the AST parent of n within file.
func (p *Program) Parent(file *ast.File, n ast.Node) ast.Node {
	m := p.parents[file]
	if m == nil {
		m = map[ast.Node]ast.Node{}
		var stack []ast.Node
		ast.Inspect(file, func(n ast.Node) bool {
			if n == nil {
				stack = stack[:len(stack)-1]
				return true
			}
			if len(stack) > 0 {
				m[n] = stack[len(stack)-1]
			}
			stack = append(stack, n)
			return true
		})
		p.parents[file] = m
	}
	return m[n]
}

// Sources returns every source function (declarations and literals) of the module.
func (p *Program) Sources() []*FuncSrc { return p.allSrc }

// SrcOfLit returns the FuncSrc of a function literal.
func (p *Program) SrcOfLit(l *ast.FuncLit) *FuncSrc { return p.litOf[l] }

// SrcOfFunc returns the FuncSrc of a declared function.
func (p *Program) SrcOfFunc(f *types.Func) *FuncSrc {
	if f == nil {
		return nil
	}
	return p.declOf[f.Origin()]
}

// ---------- SSA and call graph ----------

func (p *Program) SSA() *ssa.Program {
	if p.ssaProg != nil {
		return p.ssaProg
	}
	// Build SSA for every package, dependencies included, so that the call
	// graph can resolve interface calls and closures passed through module code.
	var initial []*packages.Package
	initial = append(initial, p.All...)
	prog, pkgs := ssautil.AllPackages(initial, ssa.InstantiateGenerics)
	prog.Build()
	p.ssaProg = prog
	p.ssaPkgs = map[*types.Package]*ssa.Package{}
	for _, sp := range pkgs {
		if sp != nil {
			p.ssaPkgs[sp.Pkg] = sp
		}
	}
	return prog
}

func (p *Program) SSAPkg(short string) *ssa.Package {
	p.SSA()
	pk := p.Pkg(short)
	if pk == nil {
		return nil
	}
	return p.ssaPkgs[pk.Types]
}

// SSAFunc returns the SSA function for a declared function.
func (p *Program) SSAFunc(f *types.Func) *ssa.Function {
	if f == nil {
		return nil
	}
	return p.SSA().FuncValue(f)
}

func inModule(pkg *types.Package) bool {
	return pkg != nil && (pkg.Path() == modPath || strings.HasPrefix(pkg.Path(), modPath+"/"))
}

// fnInModule reports whether an SSA function belongs to module source
// (including closures and generic instantiations of module functions).
func fnInModule(f *ssa.Function) bool {
	if f == nil {
		return false
	}
	for f.Parent() != nil {
		f = f.Parent()
	}
	if o := f.Origin(); o != nil {
		f = o
	}
	if f.Pkg != nil {
		return inModule(f.Pkg.Pkg)
	}
	if obj := f.Object(); obj != nil {
		return inModule(obj.Pkg())
	}
	return false
}

// CallGraph returns the VTA call graph refined from CHA.
func (p *Program) CallGraph() *callgraph.Graph {
	if p.cg != nil {
		return p.cg
	}
	prog := p.SSA()
	p.chaCG = cha.CallGraph(prog)
	p.cg = vta.CallGraph(ssautil.AllFunctions(prog), p.chaCG)
	p.siteCall = map[token.Pos][]*ssa.Function{}
	for _, n := range p.cg.Nodes {
		for _, e := range n.Out {
			if e.Site == nil {
				continue
			}
			pos := e.Site.Pos()
			if !pos.IsValid() {
				continue
			}
			p.siteCall[pos] = appendUniqueFn(p.siteCall[pos], e.Callee.Func)
		}
	}
	return p.cg
}

func (p *Program) CHAGraph() *callgraph.Graph {
	p.CallGraph()
	return p.chaCG
}

func appendUniqueFn(l []*ssa.Function, f *ssa.Function) []*ssa.Function {
	for _, g := range l {
		if g == f {
			return l
		}
	}
	return append(l, f)
}

// CalleesAt returns the call-graph callees of the call whose '(' is at pos.
func (p *Program) CalleesAt(pos token.Pos) []*ssa.Function {
	p.CallGraph()
	return p.siteCall[pos]
}

// SrcOfSSA maps an SSA function back to module source, if any.
func (p *Program) SrcOfSSA(f *ssa.Function) *FuncSrc {
	if f == nil {
		return nil
	}
	if p.fnOfSSA == nil {
		p.fnOfSSA = map[*ssa.Function]*FuncSrc{}
	}
	if s, ok := p.fnOfSSA[f]; ok {
		return s
	}
	var s *FuncSrc
	g := f
	if o := g.Origin(); o != nil {
		g = o
	}
	switch syn := g.Syntax().(type) {
	case *ast.FuncDecl:
		if obj, ok := g.Object().(*types.Func); ok {
			s = p.declOf[obj]
		}
		_ = syn
	case *ast.FuncLit:
		s = p.litOf[syn]
	}
	p.fnOfSSA[f] = s
	return s
}

func ssaFuncName(f *ssa.Function) string {
	if f == nil {
		return "?"
	}
	s := f.String()
	s = strings.ReplaceAll(s, modPath+"/", "")
	s = strings.ReplaceAll(s, modPath+".", "main.")
	return s
}

type callerSite struct {
	cs   *CallSite // nil when the caller is outside module source
	isGo bool
	from string
}

// CallersOf returns the call sites (call graph in-edges) of a source function.
func (p *Program) CallersOf(fs *FuncSrc) []callerSite {
	if p.callers == nil {
		p.callers = map[*FuncSrc][]callerSite{}
		cg := p.CallGraph()
		for fn, n := range cg.Nodes {
			if fn == nil || !fnInModule(fn) {
				continue
			}
			src := p.SrcOfSSA(fn)
			if src == nil {
				continue
			}
			for _, e := range n.In {
				cs := callerSite{from: ssaFuncName(e.Caller.Func)}
				if e.Site != nil {
					if _, ok := e.Site.(*ssa.Go); ok {
						cs.isGo = true
					}
					if site, ok := p.callAt[e.Site.Pos()]; ok {
						cs.cs = site
					}
				}
				dup := false
				for _, old := range p.callers[src] {
					if old.cs == cs.cs && old.from == cs.from && old.isGo == cs.isGo {
						dup = true
					}
				}
				if !dup {
					p.callers[src] = append(p.callers[src], cs)
				}
			}
		}
		for _, l := range p.callers {
			sort.Slice(l, func(i, j int) bool {
				pi, pj := token.NoPos, token.NoPos
				if l[i].cs != nil {
					pi = l[i].cs.Call.Lparen
				}
				if l[j].cs != nil {
					pj = l[j].cs.Call.Lparen
				}
				if pi != pj {
					return pi < pj
				}
				return l[i].from < l[j].from
			})
		}
	}
	return p.callers[fs]
}

// Facts returns the shared must-fact engine.
func (p *Program) Facts() *FactEngine {
	if p.facts == nil {
		p.facts = NewFactEngine(p)
	}
	return p.facts
}

// CallSites returns every call expression of module source, in position order.
func (p *Program) CallSites() []*CallSite {
	var out []*CallSite
	for _, cs := range p.callAt {
		out = append(out, cs)
	}
	sort.Slice(out, func(i, j int) bool { return out[i].Call.Lparen < out[j].Call.Lparen })
	return out
}

var unusedImportRE = regexp.MustCompile(`^(.+\.go):(\d+):(\d+): ("[^"]+") imported(?: as [\w.]+)? and not used$`)

// blankUnusedImports: when every type error is an unused import, returns the
// overlay with those import specs turned into blank imports; nil otherwise.
func blankUnusedImports(msg string, overlay map[string][]byte) map[string][]byte {
	msg = strings.TrimPrefix(msg, "type errors in module packages: ")
	type fix struct {
		file      string
		line, col int
		path      string
	}
	var fixes []fix
	for _, part := range strings.Split(msg, "; ") {
		m := unusedImportRE.FindStringSubmatch(strings.TrimSpace(part))
		if m == nil {
			return nil
		}
		l, _ := strconv.Atoi(m[2])
		c, _ := strconv.Atoi(m[3])
		fixes = append(fixes, fix{m[1], l, c, m[4]})
	}
	if len(fixes) == 0 {
		return nil
	}
	out := map[string][]byte{}
	for k, v := range overlay {
		out[k] = v
	}
	for _, f := range fixes {
		b, ok := out[f.file]
		if !ok {
			var err error
			b, err = os.ReadFile(f.file)
			if err != nil {
				return nil
			}
		}
		lines := strings.Split(string(b), "\n")
		if f.line < 1 || f.line > len(lines) {
			return nil
		}
		ln := lines[f.line-1]
		i := strings.Index(ln, f.path)
		if i < 0 || f.col-1 > i {
			return nil
		}
		lines[f.line-1] = ln[:f.col-1] + "_ " + ln[i:]
		out[f.file] = []byte(strings.Join(lines, "\n"))
	}
	return out
}
