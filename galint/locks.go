package main

// E5: lock analyses on SSA + VTA call graph.
//
//   - lock classes: a mutex field of a named struct type, a mutex field of a
//     package-level struct variable, or a package-level mutex;
//   - per-function forward dataflow of may-held / must-held sets;
//   - transitive acquisition summaries with witnesses (lock-order graph);
//   - interprocedural entry must-held sets (guarded-by);
//   - may-block summaries (no client-transport blocking under a lock).

import (
	"fmt"
	"go/token"
	"go/types"
	"sort"
	"strings"

	"golang.org/x/tools/go/ssa"
)

type lockSet uint64

func (s lockSet) has(i int) bool { return s&(1<<uint(i)) != 0 }

type LockClass struct {
	ID   int
	Var  *types.Var
	Name string
}

// syncExternals: external higher-order functions that invoke their function
// argument synchronously, before returning.  Every other external callee that
// receives a function value is treated as registering it for later
// (asynchronous) invocation; those sites are listed in the evidence.
var syncExternals = map[string]bool{
	"(github.com/pion/rtcp.NackPair).Range":  true,
	"(*github.com/pion/rtcp.NackPair).Range": true,
	"sort.Slice":                             true,
	"sort.SliceStable":                       true,
	"sort.Search":                            true,
	"slices.DeleteFunc":                      true,
	"slices.ContainsFunc":                    true,
	"slices.IndexFunc":                       true,
	"slices.SortFunc":                        true,
	"slices.SortStableFunc":                  true,
	"path/filepath.WalkDir":                  true,
	"path/filepath.Walk":                     true,
	"io/fs.WalkDir":                          true,
	"strings.Map":                            true,
	"strings.FieldsFunc":                     true,
	"strings.IndexFunc":                      true,
	"strings.TrimFunc":                       true,
	"(*sync.Once).Do":                        true,
	"(*sync.Map).Range":                      true,
}

// blocking transport receivers: any method call on these types may block on
// the network or on a peer.
var blockingRecvTypes = []string{
	"github.com/gorilla/websocket.Conn",
	"github.com/pion/webrtc/v4.PeerConnection",
	"github.com/pion/webrtc/v4.RTPSender",
	"github.com/pion/webrtc/v4.RTPReceiver",
	"github.com/pion/webrtc/v4.TrackRemote",
	"github.com/pion/webrtc/v4.TrackLocalStaticRTP",
}

// non-blocking accessors of the transport types (pure getters / callback
// registration), confirmed by reading pion v4 and gorilla.
var nonBlockingMethods = map[string]bool{
	"OnICECandidate": true, "OnICEConnectionStateChange": true, "OnConnectionStateChange": true,
	"OnTrack": true, "OnSignalingStateChange": true, "OnNegotiationNeeded": true,
	"ConnectionState": true, "SignalingState": true, "ICEConnectionState": true,
	"LocalDescription": true, "RemoteDescription": true, "CurrentLocalDescription": true,
	"ID": true, "RID": true, "StreamID": true, "Kind": true, "Codec": true, "SSRC": true,
	"PayloadType": true, "GetParameters": true, "Sender": true, "Track": true,
	"RemoteAddr": true, "LocalAddr": true, "Subprotocol": true, "SetReadLimit": true,
}

type witness struct {
	site  token.Pos // call or Lock site in the holder
	chain []string  // functions from the callee down to the acquiring/blocking function
	at    token.Pos // the Lock call / blocking instruction
}

type acqInfo struct {
	// class -> first witness found
	acq map[int]*witness
}

type lockEdge struct {
	from, to int
}

type edgeWitness struct {
	holder   *ssa.Function
	holdSite token.Pos // where the second acquisition (or the call leading to it) happens
	w        *witness
}

type accessInfo struct {
	fn    *ssa.Function
	pos   token.Pos
	field *types.Var
	must  lockSet
	write bool
	fresh bool
}

type blockInfo struct {
	w *witness
	k string // what blocks
}

type LockAnalysis struct {
	p               *Program
	classes         []*LockClass
	byVar           map[*types.Var]*LockClass
	owner           map[*types.Var]string // field -> "pkg.Type.field"
	fns             []*ssa.Function       // module functions (with bodies)
	callees         map[ssa.CallInstruction][]*ssa.Function
	local           map[*ssa.Function]*acqInfo
	trans           map[*ssa.Function]*acqInfo
	blocks          map[*ssa.Function]*blockInfo
	entry           map[*ssa.Function]lockSet // entry must-held
	hasEntry        map[*ssa.Function]bool
	instIn          map[ssa.Instruction][2]lockSet // may, must before instruction (with entry locksets)
	localIn         map[ssa.Instruction][2]lockSet // may, must from locks acquired in the function itself
	edges           map[lockEdge][]edgeWitness
	accesses        []accessInfo
	problems        []string // undecided constructs
	asyncReg        []string // external higher-order sites treated as asynchronous
	blockedUnder    []blockedSite
	unlockedRelease map[*ssa.Function]bool
	clientIface     *types.Interface
}

type blockedSite struct {
	fn   *ssa.Function
	pos  token.Pos
	held lockSet
	what string
	w    *witness
}

func (la *LockAnalysis) className(i int) string { return la.classes[i].Name }

func (la *LockAnalysis) setString(s lockSet) string {
	var names []string
	for i := range la.classes {
		if s.has(i) {
			names = append(names, la.classes[i].Name)
		}
	}
	return "{" + strings.Join(names, ",") + "}"
}

func isMutexType(t types.Type) bool {
	n, ok := t.(*types.Named)
	if !ok {
		return false
	}
	o := n.Obj()
	return o.Pkg() != nil && o.Pkg().Path() == "sync" && (o.Name() == "Mutex" || o.Name() == "RWMutex")
}

// NewLockAnalysis runs all lock analyses for the module.
func NewLockAnalysis(p *Program) *LockAnalysis {
	la := &LockAnalysis{
		p: p, byVar: map[*types.Var]*LockClass{}, owner: map[*types.Var]string{},
		callees: map[ssa.CallInstruction][]*ssa.Function{},
		local:   map[*ssa.Function]*acqInfo{}, trans: map[*ssa.Function]*acqInfo{},
		blocks: map[*ssa.Function]*blockInfo{}, entry: map[*ssa.Function]lockSet{},
		hasEntry: map[*ssa.Function]bool{}, instIn: map[ssa.Instruction][2]lockSet{}, localIn: map[ssa.Instruction][2]lockSet{},
		edges: map[lockEdge][]edgeWitness{}, unlockedRelease: map[*ssa.Function]bool{},
	}
	p.CallGraph()
	la.findClasses()
	la.collectFunctions()
	la.resolveCalls()
	la.summaries()
	la.entryFixpoint()
	la.finalPass()
	return la
}

func (la *LockAnalysis) addClass(v *types.Var, name string) {
	if _, ok := la.byVar[v]; ok {
		return
	}
	c := &LockClass{ID: len(la.classes), Var: v, Name: name}
	la.classes = append(la.classes, c)
	la.byVar[v] = c
}

func (la *LockAnalysis) findClasses() {
	for _, pkg := range la.p.Mod {
		sc := pkg.Types.Scope()
		names := sc.Names()
		sort.Strings(names)
		for _, n := range names {
			switch o := sc.Lookup(n).(type) {
			case *types.TypeName:
				if st, ok := o.Type().Underlying().(*types.Struct); ok {
					for i := 0; i < st.NumFields(); i++ {
						f := st.Field(i)
						la.owner[f] = shortPkg(pkg.PkgPath) + "." + o.Name() + "." + f.Name()
						if isMutexType(f.Type()) {
							la.addClass(f, la.owner[f])
						}
					}
				}
			case *types.Var:
				if isMutexType(o.Type()) {
					la.addClass(o, shortPkg(pkg.PkgPath)+"."+o.Name())
				}
				t := o.Type()
				if pt, ok := t.Underlying().(*types.Pointer); ok {
					t = pt.Elem()
				}
				if _, named := t.(*types.Named); named {
					continue
				}
				if st, ok := t.Underlying().(*types.Struct); ok {
					for i := 0; i < st.NumFields(); i++ {
						f := st.Field(i)
						la.owner[f] = shortPkg(pkg.PkgPath) + "." + o.Name() + "." + f.Name()
						if isMutexType(f.Type()) {
							la.addClass(f, la.owner[f])
						}
					}
				}
			}
		}
	}
	if len(la.classes) > 60 {
		la.problems = append(la.problems, "more than 60 lock classes")
	}
}

func (la *LockAnalysis) collectFunctions() {
	for fn := range la.p.cg.Nodes {
		if fn == nil || fn.Blocks == nil || !fnInModule(fn) {
			continue
		}
		la.fns = append(la.fns, fn)
	}
	sort.Slice(la.fns, func(i, j int) bool {
		if la.fns[i].Pos() != la.fns[j].Pos() {
			return la.fns[i].Pos() < la.fns[j].Pos()
		}
		return la.fns[i].String() < la.fns[j].String()
	})
}

func (la *LockAnalysis) resolveCalls() {
	for _, fn := range la.fns {
		n := la.p.cg.Nodes[fn]
		if n == nil {
			continue
		}
		for _, e := range n.Out {
			if e.Site != nil {
				la.callees[e.Site] = appendUniqueFn(la.callees[e.Site], e.Callee.Func)
			}
		}
	}
}

// lockOp classifies a call as Lock/Unlock of a class.
// kind: 0 none, 1 lock, 2 unlock.
func (la *LockAnalysis) lockOp(c *ssa.CallCommon) (kind int, class int, ok bool) {
	f := c.StaticCallee()
	if f == nil {
		return 0, 0, true
	}
	obj, _ := f.Object().(*types.Func)
	if obj == nil || obj.Pkg() == nil || obj.Pkg().Path() != "sync" {
		return 0, 0, true
	}
	sig := obj.Type().(*types.Signature)
	if sig.Recv() == nil {
		return 0, 0, true
	}
	rt := sig.Recv().Type()
	if pt, isp := rt.(*types.Pointer); isp {
		rt = pt.Elem()
	}
	if !isMutexType(rt) {
		return 0, 0, true
	}
	switch obj.Name() {
	case "Lock", "RLock":
		kind = 1
	case "Unlock", "RUnlock":
		kind = 2
	default:
		return 0, 0, true
	}
	if len(c.Args) == 0 {
		return kind, 0, false
	}
	v := la.classOfAddr(c.Args[0])
	if v == nil {
		return kind, 0, false
	}
	return kind, v.ID, true
}

func (la *LockAnalysis) classOfAddr(v ssa.Value) *LockClass {
	switch a := v.(type) {
	case *ssa.FieldAddr:
		st, ok := derefStruct(a.X.Type())
		if !ok {
			return nil
		}
		return la.byVar[st.Field(a.Field)]
	case *ssa.Global:
		if gv, ok := a.Object().(*types.Var); ok {
			return la.byVar[gv]
		}
	}
	return nil
}

func derefStruct(t types.Type) (*types.Struct, bool) {
	if pt, ok := t.Underlying().(*types.Pointer); ok {
		t = pt.Elem()
	}
	st, ok := t.Underlying().(*types.Struct)
	return st, ok
}

func extName(f *ssa.Function) string {
	if f == nil {
		return ""
	}
	if o := f.Origin(); o != nil {
		f = o
	}
	s := f.String()
	return s
}

// calleesOf returns the module callees of a call instruction, plus closures
// passed to synchronous external higher-order functions.
func (la *LockAnalysis) calleesOf(fn *ssa.Function, site ssa.CallInstruction) []*ssa.Function {
	var out []*ssa.Function
	cc := site.Common()
	ext := false
	for _, c := range la.callees[site] {
		if fnInModule(c) {
			if c.Blocks != nil {
				out = appendUniqueFn(out, c)
			}
		} else {
			ext = true
		}
	}
	if sc := cc.StaticCallee(); sc != nil && !fnInModule(sc) {
		ext = true
	}
	if ext {
		// function-valued arguments
		var fnArgs []*ssa.Function
		for _, a := range cc.Args {
			switch a := a.(type) {
			case *ssa.MakeClosure:
				fnArgs = append(fnArgs, a.Fn.(*ssa.Function))
			case *ssa.Function:
				fnArgs = append(fnArgs, a)
			}
		}
		if len(fnArgs) > 0 {
			name := ""
			if sc := cc.StaticCallee(); sc != nil {
				name = extName(sc)
			} else if cc.IsInvoke() {
				name = "(" + cc.Value.Type().String() + ")." + cc.Method.Name()
			}
			if syncExternals[name] {
				for _, f := range fnArgs {
					if fnInModule(f) && f.Blocks != nil {
						out = appendUniqueFn(out, f)
					}
				}
			} else {
				for _, f := range fnArgs {
					if fnInModule(f) {
						la.asyncReg = appendUniqueStr(la.asyncReg, fmt.Sprintf("%s <- %s", name, ssaFuncName(f)))
					}
				}
			}
		}
	}
	return out
}

func appendUniqueStr(l []string, s string) []string {
	for _, x := range l {
		if x == s {
			return l
		}
	}
	return append(l, s)
}

// blockingPrimitive reports whether an instruction may block on a client
// transport or a channel.
func (la *LockAnalysis) blockingPrimitive(ins ssa.Instruction) (string, bool) {
	switch i := ins.(type) {
	case *ssa.Send:
		if la.clientChan(i.Chan) {
			return "send on a client channel", true
		}
	case *ssa.UnOp:
		if i.Op == token.ARROW && la.clientChan(i.X) {
			return "receive from a client channel", true
		}
	case *ssa.Select:
		if i.Blocking {
			for _, st := range i.States {
				if la.clientChan(st.Chan) {
					return "blocking select on a client channel", true
				}
			}
		}
	case ssa.CallInstruction:
		if _, isGo := ins.(*ssa.Go); isGo {
			return "", false
		}
		cc := i.Common()
		if sc := cc.StaticCallee(); sc != nil {
			if obj, ok := sc.Object().(*types.Func); ok && obj.Pkg() != nil {
				full := obj.Pkg().Path() + "." + obj.Name()
				if full == "time.Sleep" {
					return "time.Sleep", true
				}
				sig := obj.Type().(*types.Signature)
				if sig.Recv() != nil {
					rt := sig.Recv().Type()
					if pt, ok := rt.(*types.Pointer); ok {
						rt = pt.Elem()
					}
					if n, ok := rt.(*types.Named); ok && n.Obj().Pkg() != nil {
						tn := n.Obj().Pkg().Path() + "." + n.Obj().Name()
						for _, b := range blockingRecvTypes {
							if tn == b && !nonBlockingMethods[obj.Name()] {
								return "(*" + tn + ")." + obj.Name(), true
							}
						}
						if tn == "sync.WaitGroup" && obj.Name() == "Wait" {
							return "sync.WaitGroup.Wait", true
						}
					}
				}
			}
		}
	}
	return "", false
}

// clientChan reports whether a channel value is loaded from a field of a
// struct type that implements group.Client (the per-client writer channels).
func (la *LockAnalysis) clientChan(v ssa.Value) bool {
	u, ok := v.(*ssa.UnOp)
	if !ok || u.Op != token.MUL {
		return false
	}
	fa, ok := u.X.(*ssa.FieldAddr)
	if !ok {
		return false
	}
	t := fa.X.Type()
	if la.clientIface == nil {
		if tn := la.p.TypeName("group", "Client"); tn != nil {
			la.clientIface, _ = tn.Type().Underlying().(*types.Interface)
		}
	}
	if la.clientIface == nil {
		return true
	}
	return types.Implements(t, la.clientIface)
}

// localScan collects the direct acquisitions of fn over the given blocks.
func (la *LockAnalysis) scan(fn *ssa.Function, live map[*ssa.BasicBlock]bool) (*acqInfo, *blockInfo, []ssa.CallInstruction) {
	ai := &acqInfo{acq: map[int]*witness{}}
	var bi *blockInfo
	var sites []ssa.CallInstruction
	for _, b := range fn.Blocks {
		if live != nil && !live[b] {
			continue
		}
		for _, ins := range b.Instrs {
			if what, ok := la.blockingPrimitive(ins); ok && bi == nil {
				bi = &blockInfo{w: &witness{site: ins.Pos(), chain: []string{ssaFuncName(fn)}, at: ins.Pos()}, k: what}
			}
			ci, ok := ins.(ssa.CallInstruction)
			if !ok {
				continue
			}
			if _, isGo := ins.(*ssa.Go); isGo {
				continue
			}
			kind, class, ok := la.lockOp(ci.Common())
			if kind != 0 {
				if !ok {
					la.problems = appendUniqueStr(la.problems, fmt.Sprintf("%s: lock operation on an unclassified mutex at %s", ssaFuncName(fn), la.p.PosStr(ins.Pos())))
					continue
				}
				if kind == 1 {
					if _, isDefer := ins.(*ssa.Defer); !isDefer {
						if ai.acq[class] == nil {
							ai.acq[class] = &witness{site: ins.Pos(), chain: []string{ssaFuncName(fn)}, at: ins.Pos()}
						}
					}
				}
				continue
			}
			sites = append(sites, ci)
		}
	}
	return ai, bi, sites
}

func (la *LockAnalysis) summaries() {
	siteMap := map[*ssa.Function][]ssa.CallInstruction{}
	for _, fn := range la.fns {
		ai, bi, sites := la.scan(fn, nil)
		la.local[fn] = ai
		t := &acqInfo{acq: map[int]*witness{}}
		for k, w := range ai.acq {
			t.acq[k] = w
		}
		la.trans[fn] = t
		if bi != nil {
			la.blocks[fn] = bi
		}
		siteMap[fn] = sites
	}
	for changed := true; changed; {
		changed = false
		for _, fn := range la.fns {
			t := la.trans[fn]
			for _, site := range siteMap[fn] {
				for _, callee := range la.calleesOf(fn, site) {
					ct := la.specialised(callee, site)
					if ct == nil {
						continue
					}
					for k, w := range ct.acq {
						if t.acq[k] == nil {
							t.acq[k] = &witness{site: site.Pos(), chain: append([]string{ssaFuncName(fn)}, w.chain...), at: w.at}
							changed = true
						}
					}
					if cb := la.blocks[callee]; cb != nil && la.blocks[fn] == nil {
						la.blocks[fn] = &blockInfo{k: cb.k, w: &witness{site: site.Pos(), chain: append([]string{ssaFuncName(fn)}, cb.w.chain...), at: cb.w.at}}
						changed = true
					}
				}
			}
		}
	}
}

// specialised returns the transitive acquisitions of callee as called from
// site: when the site passes a constant bool for a parameter that directly
// guards branches of the callee, unreachable branches are pruned (one level).
func (la *LockAnalysis) specialised(callee *ssa.Function, site ssa.CallInstruction) *acqInfo {
	full := la.trans[callee]
	if full == nil {
		return nil
	}
	cc := site.Common()
	if len(full.acq) == 0 {
		return full
	}
	args := cc.Args
	params := callee.Params
	if cc.IsInvoke() && len(params) > 0 {
		params = params[1:] // receiver
	}
	if len(args) != len(params) {
		return full
	}
	consts := map[*ssa.Parameter]bool{}
	found := false
	for i, a := range args {
		if c, ok := a.(*ssa.Const); ok && c.Value != nil && types.Identical(c.Type().Underlying(), types.Typ[types.Bool]) {
			consts[params[i]] = c.Value.String() == "true"
			found = true
		}
	}
	if !found {
		return full
	}
	live := map[*ssa.BasicBlock]bool{}
	var walk func(b *ssa.BasicBlock)
	walk = func(b *ssa.BasicBlock) {
		if live[b] {
			return
		}
		live[b] = true
		if len(b.Instrs) > 0 {
			if ifi, ok := b.Instrs[len(b.Instrs)-1].(*ssa.If); ok {
				if v, known := constCond(ifi.Cond, consts); known {
					if v {
						walk(b.Succs[0])
					} else {
						walk(b.Succs[1])
					}
					return
				}
			}
		}
		for _, s := range b.Succs {
			walk(s)
		}
	}
	walk(callee.Blocks[0])
	if len(live) == len(callee.Blocks) {
		return full
	}
	ai, _, sites := la.scan(callee, live)
	for _, s := range sites {
		for _, c2 := range la.calleesOf(callee, s) {
			if t2 := la.trans[c2]; t2 != nil {
				for k, w := range t2.acq {
					if ai.acq[k] == nil {
						ai.acq[k] = &witness{site: s.Pos(), chain: append([]string{ssaFuncName(callee)}, w.chain...), at: w.at}
					}
				}
			}
		}
	}
	return ai
}

func constCond(v ssa.Value, consts map[*ssa.Parameter]bool) (bool, bool) {
	switch c := v.(type) {
	case *ssa.Parameter:
		b, ok := consts[c]
		return b, ok
	case *ssa.UnOp:
		if c.Op == token.NOT {
			b, ok := constCond(c.X, consts)
			return !b, ok
		}
	}
	return false, false
}

const allLocks = ^lockSet(0)

// flow runs the intraprocedural may/must dataflow of fn from the given entry
// must-held set and calls visit for every instruction with the sets holding
// before it.
func (la *LockAnalysis) flow(fn *ssa.Function, entryMust lockSet, visit func(ins ssa.Instruction, may, must lockSet)) {
	type st struct {
		may, must lockSet
		ok        bool
	}
	in := make([]st, len(fn.Blocks))
	in[0] = st{may: entryMust, must: entryMust, ok: true}
	// defers in source order for LIFO simulation at RunDefers
	var defers []*ssa.Defer
	for _, b := range fn.Blocks {
		for _, ins := range b.Instrs {
			if d, ok := ins.(*ssa.Defer); ok {
				defers = append(defers, d)
			}
		}
	}
	sort.Slice(defers, func(i, j int) bool { return defers[i].Pos() < defers[j].Pos() })

	transfer := func(b *ssa.BasicBlock, s st, visit func(ins ssa.Instruction, may, must lockSet)) st {
		for _, ins := range b.Instrs {
			if visit != nil {
				visit(ins, s.may, s.must)
			}
			switch i := ins.(type) {
			case *ssa.Call:
				kind, class, ok := la.lockOp(i.Common())
				if kind != 0 && ok {
					bit := lockSet(1) << uint(class)
					if kind == 1 {
						s.may |= bit
						s.must |= bit
					} else {
						if s.may&bit == 0 {
							la.unlockedRelease[fn] = true
						}
						s.may &^= bit
						s.must &^= bit
					}
				}
			case *ssa.RunDefers:
				// simulate deferred calls in LIFO order
				for k := len(defers) - 1; k >= 0; k-- {
					d := defers[k]
					kind, class, ok := la.lockOp(d.Common())
					if kind == 2 && ok {
						bit := lockSet(1) << uint(class)
						s.may &^= bit
						s.must &^= bit
						continue
					}
					if visit != nil {
						visit(deferredCall{d}, s.may, s.must)
					}
				}
			}
		}
		return s
	}
	work := []int{0}
	for len(work) > 0 {
		bi := work[len(work)-1]
		work = work[:len(work)-1]
		b := fn.Blocks[bi]
		out := transfer(b, in[bi], nil)
		for _, succ := range b.Succs {
			t := in[succ.Index]
			if !t.ok {
				in[succ.Index] = st{may: out.may, must: out.must, ok: true}
				work = append(work, succ.Index)
				continue
			}
			nm, nu := t.may|out.may, t.must&out.must
			if nm != t.may || nu != t.must {
				in[succ.Index] = st{may: nm, must: nu, ok: true}
				work = append(work, succ.Index)
			}
		}
	}
	if visit != nil {
		for _, b := range fn.Blocks {
			if in[b.Index].ok {
				transfer(b, in[b.Index], visit)
			}
		}
	}
	// balance check at returns
	for _, b := range fn.Blocks {
		if !in[b.Index].ok || len(b.Instrs) == 0 {
			continue
		}
		if _, ok := b.Instrs[len(b.Instrs)-1].(*ssa.Return); ok {
			out := transfer(b, in[b.Index], nil)
			if out.may&^entryMust != 0 {
				la.problems = appendUniqueStr(la.problems, fmt.Sprintf("%s may return holding %s", ssaFuncName(fn), la.setString(out.may&^entryMust)))
			}
		}
	}
}

// deferredCall wraps a Defer instruction when it is visited at the point
// where it actually runs (RunDefers).
type deferredCall struct{ *ssa.Defer }

func (la *LockAnalysis) entryFixpoint() {
	// in-edges from outside the module, from `go`, or none at all => empty set.
	for _, fn := range la.fns {
		la.entry[fn] = allLocks
	}
	rooted := map[*ssa.Function]bool{}
	for _, fn := range la.fns {
		n := la.p.cg.Nodes[fn]
		external := len(n.In) == 0
		for _, e := range n.In {
			if !fnInModule(e.Caller.Func) {
				// called from library code: only synchronous higher-order
				// externals carry the module caller's lockset, handled below.
				external = true
			}
			if _, isGo := e.Site.(*ssa.Go); isGo {
				external = true
			}
		}
		if external {
			rooted[fn] = true
		}
	}
	// closures handed to synchronous externals are not roots: their entry set
	// comes from the module call site.  Detect them.
	syncArg := map[*ssa.Function]bool{}
	for _, fn := range la.fns {
		for _, b := range fn.Blocks {
			for _, ins := range b.Instrs {
				ci, ok := ins.(ssa.CallInstruction)
				if !ok {
					continue
				}
				cc := ci.Common()
				sc := cc.StaticCallee()
				if sc == nil || fnInModule(sc) || !syncExternals[extName(sc)] {
					continue
				}
				for _, a := range cc.Args {
					if mc, ok := a.(*ssa.MakeClosure); ok {
						syncArg[mc.Fn.(*ssa.Function)] = true
					}
				}
			}
		}
	}
	for fn := range rooted {
		if syncArg[fn] {
			// is every in-edge from library code inside a sync external? accept.
			n := la.p.cg.Nodes[fn]
			onlyLib := true
			for _, e := range n.In {
				if _, isGo := e.Site.(*ssa.Go); isGo {
					onlyLib = false
				}
			}
			if onlyLib {
				continue
			}
		}
		la.entry[fn] = 0
	}
	for changed := true; changed; {
		changed = false
		for _, fn := range la.fns {
			e := la.entry[fn]
			if e == allLocks {
				// not yet reached from any analysed caller; analysing it with
				// ⊤ would only propagate ⊤. Skip until reached.
				continue
			}
			la.flow(fn, e, func(ins ssa.Instruction, may, must lockSet) {
				ci, ok := ins.(ssa.CallInstruction)
				if !ok {
					return
				}
				if _, isGo := ins.(*ssa.Go); isGo {
					return
				}
				if _, isDefer := ins.(*ssa.Defer); isDefer {
					return // visited again as deferredCall at RunDefers
				}
				if dc, ok := ins.(deferredCall); ok {
					ci = dc.Defer
				}
				if k, _, _ := la.lockOp(ci.Common()); k != 0 {
					return
				}
				for _, callee := range la.calleesOf(fn, ci) {
					old := la.entry[callee]
					nw := old & must
					if nw != old {
						la.entry[callee] = nw
						changed = true
					}
				}
			})
		}
	}
	for _, fn := range la.fns {
		if la.entry[fn] == allLocks {
			// unreachable in the call graph from any root: analyse with ∅.
			la.entry[fn] = 0
		}
	}
}

func (la *LockAnalysis) finalPass() {
	for _, fn := range la.fns {
		fn := fn
		// (a) guarded-by: must-held sets with interprocedural entry locksets
		la.flow(fn, la.entry[fn], func(ins ssa.Instruction, may, must lockSet) {
			if _, isDC := ins.(deferredCall); !isDC {
				la.instIn[ins] = [2]lockSet{may, must}
			}
			switch i := ins.(type) {
			case *ssa.FieldAddr:
				if st, ok := derefStruct(i.X.Type()); ok {
					_, fresh := i.X.(*ssa.Alloc)
					la.accesses = append(la.accesses, accessInfo{fn: fn, pos: i.Pos(), field: st.Field(i.Field).Origin(), must: must, fresh: fresh, write: addrIsStored(i)})
				}
			case *ssa.Field:
				if st, ok := i.X.Type().Underlying().(*types.Struct); ok {
					la.accesses = append(la.accesses, accessInfo{fn: fn, pos: i.Pos(), field: st.Field(i.Field).Origin(), must: must})
				}
			}
		})
		// (b) lock order and may-block: locks acquired by this function
		// itself (callees are covered by the transitive summaries)
		la.flow(fn, 0, func(ins ssa.Instruction, may, must lockSet) {
			if _, isDC := ins.(deferredCall); !isDC {
				la.localIn[ins] = [2]lockSet{may, must}
			}
			if may != 0 {
				if what, ok := la.blockingPrimitive(ins); ok {
					la.blockedUnder = append(la.blockedUnder, blockedSite{fn: fn, pos: ins.Pos(), held: may, what: what,
						w: &witness{site: ins.Pos(), chain: []string{ssaFuncName(fn)}, at: ins.Pos()}})
				}
			}
			ci, ok := ins.(ssa.CallInstruction)
			if !ok {
				return
			}
			if _, isGo := ins.(*ssa.Go); isGo {
				return
			}
			if _, isDefer := ins.(*ssa.Defer); isDefer {
				return
			}
			if dc, ok := ins.(deferredCall); ok {
				ci = dc.Defer
			}
			kind, class, ok := la.lockOp(ci.Common())
			if kind != 0 {
				if !ok {
					la.problems = appendUniqueStr(la.problems, fmt.Sprintf("%s: lock operation on an unclassified mutex at %s", ssaFuncName(fn), la.p.PosStr(ins.Pos())))
					return
				}
				if kind == 1 {
					for h := range la.classes {
						if may.has(h) {
							la.addEdge(h, class, edgeWitness{holder: fn, holdSite: ins.Pos(),
								w: &witness{site: ins.Pos(), chain: []string{ssaFuncName(fn)}, at: ins.Pos()}})
						}
					}
				}
				return
			}
			if may == 0 {
				return
			}
			for _, callee := range la.calleesOf(fn, ci) {
				ct := la.specialised(callee, ci)
				if ct != nil {
					for k, w := range ct.acq {
						for h := range la.classes {
							if may.has(h) {
								la.addEdge(h, k, edgeWitness{holder: fn, holdSite: ins.Pos(), w: w})
							}
						}
					}
				}
				if cb := la.blocks[callee]; cb != nil {
					la.blockedUnder = append(la.blockedUnder, blockedSite{fn: fn, pos: ins.Pos(), held: may, what: cb.k, w: cb.w})
				}
			}
		})
	}
	for fn := range la.unlockedRelease {
		if la.entry[fn] == 0 {
			la.problems = appendUniqueStr(la.problems, fmt.Sprintf("%s releases a lock it may not hold", ssaFuncName(fn)))
		}
	}
	sort.Strings(la.problems)
	sort.Strings(la.asyncReg)
}

// instancesOf returns the analysed SSA functions whose origin is the source
// function obj (the function itself, or its generic instantiations).
func (la *LockAnalysis) instancesOf(obj *types.Func) []*ssa.Function {
	var out []*ssa.Function
	for _, fn := range la.fns {
		g := fn
		if o := g.Origin(); o != nil {
			g = o
		}
		if g.Object() == types.Object(obj) && fn.Parent() == nil && (g.TypeParams() == nil || g.TypeParams().Len() == len(fn.TypeArgs())) {
			out = append(out, fn)
		}
	}
	return out
}

func addrIsStored(a *ssa.FieldAddr) bool {
	for _, r := range *a.Referrers() {
		if s, ok := r.(*ssa.Store); ok && s.Addr == a {
			return true
		}
	}
	return false
}

func (la *LockAnalysis) addEdge(from, to int, w edgeWitness) {
	e := lockEdge{from, to}
	for _, x := range la.edges[e] {
		if x.holder == w.holder && x.holdSite == w.holdSite {
			return
		}
	}
	la.edges[e] = append(la.edges[e], w)
}

// witnessKey is a stable (line-free) identification of an edge witness.
func (la *LockAnalysis) witnessKey(e lockEdge, w edgeWitness) string {
	last := ""
	if len(w.w.chain) > 0 {
		last = w.w.chain[len(w.w.chain)-1]
	}
	first := ""
	if len(w.w.chain) > 0 {
		first = w.w.chain[0]
	}
	if first == ssaFuncName(w.holder) {
		first = "direct"
	}
	return fmt.Sprintf("%s->%s held-in:%s via:%s acquires-in:%s", la.className(e.from), la.className(e.to), ssaFuncName(w.holder), first, last)
}

func (la *LockAnalysis) witnessText(e lockEdge, w edgeWitness) string {
	return fmt.Sprintf("%s holds %s at %s and reaches the acquisition of %s at %s through %s",
		ssaFuncName(w.holder), la.className(e.from), la.p.PosStr(w.holdSite), la.className(e.to),
		la.p.PosStr(w.w.at), strings.Join(w.w.chain, " -> "))
}

// cycles returns the strongly connected components with more than one class,
// and the self-edges.
func (la *LockAnalysis) cyclicEdges() []lockEdge {
	n := len(la.classes)
	adj := make([][]int, n)
	for e := range la.edges {
		adj[e.from] = append(adj[e.from], e.to)
	}
	// Tarjan
	index := make([]int, n)
	low := make([]int, n)
	on := make([]bool, n)
	comp := make([]int, n)
	for i := range index {
		index[i] = -1
	}
	var stack []int
	idx, nc := 0, 0
	var strong func(v int)
	strong = func(v int) {
		index[v], low[v] = idx, idx
		idx++
		stack = append(stack, v)
		on[v] = true
		for _, w := range adj[v] {
			if index[w] < 0 {
				strong(w)
				if low[w] < low[v] {
					low[v] = low[w]
				}
			} else if on[w] && index[w] < low[v] {
				low[v] = index[w]
			}
		}
		if low[v] == index[v] {
			for {
				w := stack[len(stack)-1]
				stack = stack[:len(stack)-1]
				on[w] = false
				comp[w] = nc
				if w == v {
					break
				}
			}
			nc++
		}
	}
	for v := 0; v < n; v++ {
		if index[v] < 0 {
			strong(v)
		}
	}
	size := map[int]int{}
	for v := 0; v < n; v++ {
		size[comp[v]]++
	}
	var out []lockEdge
	for e := range la.edges {
		if e.from == e.to || (comp[e.from] == comp[e.to] && size[comp[e.from]] > 1) {
			out = append(out, e)
		}
	}
	sort.Slice(out, func(i, j int) bool {
		if out[i].from != out[j].from {
			return out[i].from < out[j].from
		}
		return out[i].to < out[j].to
	})
	return out
}

type culprit struct {
	fn     *ssa.Function       // function to blame
	site   ssa.CallInstruction // nil: the access itself, in fn
	callee *ssa.Function
}

// blame finds who is responsible for fn being entered without guard g:
// if no module call site of fn holds g, fn itself (it is not a "called
// locked" helper); otherwise the call sites that lack g, recursively.
func (la *LockAnalysis) blame(fn *ssa.Function, g int, visited map[*ssa.Function]bool) []culprit {
	if visited[fn] {
		return nil
	}
	visited[fn] = true
	n := la.p.cg.Nodes[fn]
	type siteInfo struct {
		site   ssa.CallInstruction
		caller *ssa.Function
		holds  bool
	}
	var sites []siteInfo
	holding := 0
	if n != nil {
		for _, e := range n.In {
			if e.Site == nil || !fnInModule(e.Caller.Func) {
				continue
			}
			if _, isGo := e.Site.(*ssa.Go); isGo {
				continue
			}
			st, ok := la.instIn[e.Site]
			if !ok {
				// deferred calls are not in instIn; use the caller's entry set
				st = [2]lockSet{la.entry[e.Caller.Func], la.entry[e.Caller.Func]}
			}
			h := st[1].has(g)
			if h {
				holding++
			}
			sites = append(sites, siteInfo{e.Site, e.Caller.Func, h})
		}
	}
	// closures passed to synchronous externals: their "call site" is the external call
	if holding == 0 {
		return []culprit{{fn: fn}}
	}
	var out []culprit
	for _, s := range sites {
		if s.holds {
			continue
		}
		sub := la.blame(s.caller, g, visited)
		if len(sub) == 1 && sub[0].site == nil && sub[0].fn == s.caller {
			out = append(out, culprit{fn: s.caller, site: s.site, callee: fn})
		} else {
			out = append(out, sub...)
		}
	}
	return out
}
