package main

// galint: repository-specific static analysis deciding the properties in
// /verif/properties.jsonl for the current working tree of /repo.
//
//	galint check <Cxx> [-tier quick|thorough] [-repo /repo] [-verif /verif]
//	galint replay <Cxx> <report.json>
//	galint mutant <Cxx> <mutant.json>     (internal: one in-memory variant)
//	galint list

import (
	"encoding/json"
	"flag"
	"fmt"
	"go/types"
	"os"
	"os/exec"
	"path/filepath"
	"runtime"
	"runtime/debug"
	"sort"
	"strconv"
	"strings"
	"sync"
	"time"
)

// Property is the rule set of one property.
type Property struct {
	ID          string
	Title       string
	Technique   string
	Decides     string   // what the rule set decides (goes into coverage.explanation)
	NotDecided  []string // clauses explicitly left undecided
	Assumptions []string
	NeedSSA     bool
	Run         func(c *Ctx)
	// Configs lists extra build configurations for the thorough tier
	// (default: linux/386 and windows/amd64).
	Configs []BuildConfig
}

var registry = map[string]*Property{}

func register(p *Property) { registry[p.ID] = p }

var defaultThorough = []BuildConfig{{}, {"linux", "386"}, {"windows", "amd64"}}

func main() {
	if len(os.Args) < 2 {
		usage()
	}
	switch os.Args[1] {
	case "list":
		var ids []string
		for id := range registry {
			ids = append(ids, id)
		}
		sort.Strings(ids)
		for _, id := range ids {
			fmt.Printf("%s\t%s\n", id, registry[id].Title)
		}
	case "factsn":
		knownFuncsFile = "/verif/known_functions.txt"
		os.Exit(cmdFacts(os.Args[2:]))
	case "normalise":
		// debug: print the normalised text of the files that normalisation rewrites
		knownFuncsFile = "/verif/known_functions.txt"
		repo := "/repo"
		if len(os.Args) > 2 {
			repo = os.Args[2]
		}
		p, err := loadRaw(repo, BuildConfig{}, nil)
		if err != nil {
			fmt.Fprintln(os.Stderr, err)
			os.Exit(2)
		}
		funcAliases = map[string]*types.Func{}
		for _, n := range p.computeAliases(loadKnownFuncs()) {
			fmt.Println("//", n)
		}
		ov, notes := p.normaliseOnce(loadKnownFuncs(), 1)
		for _, n := range notes {
			fmt.Println("//", n)
		}
		for f, b := range ov {
			fmt.Printf("// ===== %s\n%s\n", f, b)
		}
		if ov != nil {
			if _, err := loadRaw(repo, BuildConfig{}, ov); err != nil {
				fmt.Println("// TYPECHECK:", err)
			}
		}
	case "normalised":
		// debug: the text of the files as analysed after all normalisation rounds
		knownFuncsFile = "/verif/known_functions.txt"
		repo := "/repo"
		if len(os.Args) > 2 {
			repo = os.Args[2]
		}
		p, err := Load(repo, BuildConfig{}, nil)
		if err != nil {
			fmt.Fprintln(os.Stderr, err)
			os.Exit(2)
		}
		for _, n := range p.Normalised {
			fmt.Println("//", n)
		}
		for f, b := range p.overlayIn {
			fmt.Printf("// ===== %s\n%s\n", f, b)
		}
	case "checkall":
		// every rule set on one loaded program (default configuration, no self-test, nothing
		// written): used by the benign-change evaluation, where 20 separate loads per
		// patch are the cost.  One line per property that reports: "Cxx: <first reports>".
		os.Exit(cmdCheckAll(os.Args[2:]))
	case "funcs":
		// the vocabulary of known functions of a tree (default /repo): one printable name per line
		repo := "/repo"
		if len(os.Args) > 2 {
			repo = os.Args[2]
		}
		p, err := loadRaw(repo, BuildConfig{}, nil)
		if err != nil {
			fmt.Fprintln(os.Stderr, err)
			os.Exit(2)
		}
		var names []string
		for _, fs := range p.allSrc {
			if fs.Decl != nil {
				names = append(names, fs.Name)
			}
		}
		sort.Strings(names)
		for _, n := range names {
			fmt.Println(n)
		}
	case "types":
		// the vocabulary of known named types of a tree (default /repo)
		repo := "/repo"
		if len(os.Args) > 2 {
			repo = os.Args[2]
		}
		p, err := loadRaw(repo, BuildConfig{}, nil)
		if err != nil {
			fmt.Fprintln(os.Stderr, err)
			os.Exit(2)
		}
		for _, n := range p.typeNames() {
			fmt.Println(n)
		}
	case "describe":
		// markdown description of every rule set, generated from the registry
		var ids []string
		for id := range registry {
			ids = append(ids, id)
		}
		sort.Strings(ids)
		for _, id := range ids {
			pr := registry[id]
			fmt.Printf("### %s - %s\n\n", id, pr.Title)
			fmt.Printf("*Technique.* %s.\n\n*Decides.*\n\n", pr.Technique)
			for _, part := range strings.Split(pr.Decides, ". R") {
				part = strings.TrimSpace(part)
				if part == "" {
					continue
				}
				if !strings.HasPrefix(part, "R") {
					part = "R" + part
				}
				fmt.Printf("* %s\n", strings.TrimSuffix(part, "."))
			}
			fmt.Printf("\n*Not decided.*\n\n")
			for _, nd := range pr.NotDecided {
				fmt.Printf("* %s\n", nd)
			}
			if len(pr.Assumptions) > 0 {
				fmt.Printf("\n*Assumptions.*\n\n")
				for _, a := range pr.Assumptions {
					fmt.Printf("* %s\n", a)
				}
			}
			fmt.Println()
		}
	case "check":
		os.Exit(cmdCheck(os.Args[2:]))
	case "replay":
		os.Exit(cmdReplay(os.Args[2:]))
	case "mutant":
		os.Exit(cmdMutant(os.Args[2:]))
	case "cfg":
		os.Exit(cmdCFG(os.Args[2:]))
	case "asserts":
		os.Exit(cmdAsserts(os.Args[2:]))
	case "retlen":
		os.Exit(cmdRetLen(os.Args[2:]))
	case "facts":
		os.Exit(cmdFacts(os.Args[2:]))
	default:
		usage()
	}
}

func usage() {
	fmt.Fprintln(os.Stderr, "usage: galint check <Cxx> [-tier quick|thorough] | replay <Cxx> <report> | list")
	os.Exit(2)
}

type opts struct {
	prop   string
	tier   string
	repo   string
	verif  string
	only   string
	noself bool
}

func parseOpts(args []string) (*opts, []string) {
	o := &opts{}
	if len(args) < 1 {
		usage()
	}
	o.prop = args[0]
	fs := flag.NewFlagSet("check", flag.ExitOnError)
	fs.StringVar(&o.tier, "tier", "quick", "quick or thorough")
	fs.StringVar(&o.repo, "repo", "/repo", "repository root")
	fs.StringVar(&o.verif, "verif", "/verif", "verification root")
	fs.StringVar(&o.only, "only", "", "print only obligations whose rule|key contains this string")
	fs.BoolVar(&o.noself, "noselftest", false, "skip the checker self-test (mutant canaries)")
	fs.Parse(args[1:])
	if t := os.Getenv("VERIF_TIER"); t != "" && o.tier == "" {
		o.tier = t
	}
	return o, fs.Args()
}

// runOne loads one configuration and runs the rule set, converting checker
// panics into Undecided obligations (never a silent pass).
func runOne(prop *Property, repo string, bc BuildConfig, overlay map[string][]byte) (ctx *Ctx, stats map[string]any, err error) {
	p, err := Load(repo, bc, overlay)
	if err != nil {
		return nil, nil, err
	}
	ctx = NewCtx(prop.ID, p)
	for _, a := range prop.Assumptions {
		ctx.Assume(a)
	}
	for _, n := range p.Normalised {
		ctx.Note("normalisation: %s", n)
	}
	func() {
		defer func() {
			if r := recover(); r != nil {
				ctx.Rule("INTERNAL", "-", "the checker must not fail", 0)
				ctx.Unknown("INTERNAL", "panic", 0, "checker panic: %v\n%s", r, debug.Stack())
			}
		}()
		prop.Run(ctx)
	}()
	ctx.finish()
	nfun := len(p.Sources())
	stats = map[string]any{
		"config":           bc.String(),
		"module_packages":  len(p.Mod),
		"all_packages":     len(p.All),
		"source_functions": nfun,
	}
	if p.cg != nil {
		edges := 0
		for _, n := range p.cg.Nodes {
			edges += len(n.Out)
		}
		stats["callgraph_nodes"] = len(p.cg.Nodes)
		stats["callgraph_edges"] = edges
	}
	return ctx, stats, nil
}

func cmdCheck(args []string) int {
	o, _ := parseOpts(args)
	knownFuncsFile = filepath.Join(o.verif, "known_functions.txt")
	prop := registry[o.prop]
	if prop == nil {
		fmt.Fprintf(os.Stderr, "galint: no rule set for property %s\n", o.prop)
		return 2
	}
	t0 := time.Now()
	known, err := loadKnown(filepath.Join(o.verif, "known_findings.json"))
	if err != nil {
		fmt.Fprintf(os.Stderr, "galint: known_findings.json: %v\n", err)
		return 2
	}

	// The self-test (canary mutants analysed in memory, in subprocesses) runs
	// concurrently with the main analysis.
	var selfWG sync.WaitGroup
	var self *selfTestResult
	if !o.noself && o.only == "" {
		selfWG.Add(1)
		go func() {
			defer selfWG.Done()
			self = runSelfTest(o, prop)
		}()
	}

	configs := []BuildConfig{{}}
	if o.tier == "thorough" {
		configs = defaultThorough
		if prop.Configs != nil {
			configs = prop.Configs
		}
	}
	var merged []*Obligation
	seen := map[string]*Obligation{}
	var rules []*RuleInfo
	var runStats []map[string]any
	var assumptions []string
	var notes []string
	for i, bc := range configs {
		ctx, stats, err := runOne(prop, o.repo, bc, nil)
		if err != nil {
			fmt.Fprintf(os.Stderr, "galint: cannot analyse %s for %s: %v\n", o.repo, bc, err)
			return 2
		}
		runStats = append(runStats, stats)
		if i == 0 {
			for _, id := range ctx.order {
				rules = append(rules, ctx.rules[id])
			}
			assumptions = ctx.assume
			notes = ctx.notes
		}
		for _, ob := range ctx.obls {
			k := ob.Rule + "|" + ob.Key
			if prev, ok := seen[k]; ok {
				if prev.st == Discharged && ob.st != Discharged {
					*prev = *ob
					prev.Detail = "[" + bc.String() + "] " + prev.Detail
				}
				continue
			}
			cp := *ob
			if i > 0 {
				cp.Detail = "[only in " + bc.String() + "] " + cp.Detail
			}
			seen[k] = &cp
			merged = append(merged, &cp)
		}
		ctx.P = nil
		runtime.GC()
	}

	selfWG.Wait()
	if self != nil {
		failing := map[string]bool{}
		for _, ob := range merged {
			if ob.st != Discharged {
				failing[ob.Rule+"|"+ob.Key] = true
			}
		}
		self.settle(failing)
		for _, f := range self.failures {
			merged = append(merged, &Obligation{Rule: "SELFTEST", Key: f.name, Pos: "-", st: Undecided,
				Status: Undecided.String(), Detail: f.why})
		}
	}

	if o.only != "" {
		for _, ob := range merged {
			if strings.Contains(ob.Rule+"|"+ob.Key, o.only) {
				fmt.Printf("%-10s %-6s %s  %s\n    %s\n", ob.Status, ob.Rule, ob.Key, ob.Pos, ob.Detail)
			}
		}
	}

	out := verdict(prop.ID, merged, known)
	for _, ob := range out.known {
		fmt.Printf("KNOWN-FINDING: property=%s %s %s at %s: %s\n", prop.ID, ob.Rule, ob.Key, ob.Pos, out.knownWhat[ob])
	}
	// reports
	repDir := filepath.Join(o.verif, "reports")
	old, _ := filepath.Glob(filepath.Join(repDir, prop.ID+"-*.json"))
	for _, f := range old {
		os.Remove(f)
	}
	for i, ob := range out.violations {
		path := filepath.Join(repDir, fmt.Sprintf("%s-%d.json", prop.ID, i+1))
		kind := "violated"
		if ob.st == Undecided {
			kind = "undecided"
		}
		writeJSON(path, map[string]any{
			"property": prop.ID, "kind": kind, "rule": ob.Rule, "key": ob.Key,
			"pos": ob.Pos, "detail": ob.Detail, "tier": o.tier,
			"replay": fmt.Sprintf("./check %s --replay %s", prop.ID, path),
		})
		fmt.Printf("VIOLATION property=%s replay=%s\n", prop.ID, path)
		fmt.Printf("  %s %s %s at %s: %s\n", kind, ob.Rule, ob.Key, ob.Pos, firstLine(ob.Detail))
	}

	// evidence
	nd := 0
	for _, ob := range merged {
		if ob.st == Discharged {
			nd++
		}
	}
	var samples []any
	perRule := map[string]int{}
	for _, ob := range merged {
		if perRule[ob.Rule] < 3 || ob.st != Discharged {
			perRule[ob.Rule]++
			samples = append(samples, ob)
		}
	}
	expl := prop.Decides
	if len(prop.NotDecided) > 0 {
		expl += " NOT decided here: " + strings.Join(prop.NotDecided, "; ") + "."
	}
	cov := map[string]any{
		"explanation":         expl,
		"obligations":         len(merged),
		"discharged":          nd,
		"known_findings":      len(out.known),
		"rules":               rules,
		"samples":             samples,
		"all_obligations":     merged,
		"runs":                runStats,
		"exhaustive":          true,
		"rule":                "every site of each rule's kind in the type-checked module is enumerated (call sites by resolved callee, field accesses by field object, CFG edges by recognised condition); an obligation is one (rule, construct) pair",
		"evaluations":         len(merged),
		"distinct_nontrivial": len(merged),
		"checker_cmd":         "galint check " + prop.ID + " -tier " + o.tier,
		"trusted_base":        []string{"go/types, go/ssa, go/cfg, callgraph/vta of golang.org/x/tools v0.29.0", "the rule tables in /verif/galint/rules_*.go (resolved program entities confirmed by reading)"},
		"technique":           prop.Technique,
		"notes":               notes,
	}
	if self != nil {
		cov["selftest"] = self.summary
	}
	ev := Evidence{
		PropertyID: prop.ID, Tier: o.tier, Seed: seedFromEnv(), Level: "other",
		Coverage: cov, Assumptions: append([]string{"deterministic analysis: the seed is recorded but unused",
			"normalisation (E0): calls to module functions that are not in known_functions.txt are inlined into their callers in memory before the rules run, and a vocabulary function that is missing while one new function of its package has its name is taken to be that function; locals of struct types that are not in known_types.txt and are used only through their fields and whole-value copies are split into one local per field; the inliner's rewrites (continuations, result temporaries, deferred bodies run at the returns, hoisted calls, split short-circuit conditions) are trusted to preserve behaviour; on a tree that adds no function and no type nothing is rewritten (coverage.notes lists what was done on this run)"}, assumptions...),
		WallS: elapsed(t0), Violations: len(out.violations),
	}
	if err := writeJSON(filepath.Join(o.verif, "evidence", prop.ID+".json"), ev); err != nil {
		fmt.Fprintf(os.Stderr, "galint: writing evidence: %v\n", err)
		return 2
	}
	fmt.Printf("%s %s: %d obligations, %d discharged, %d known findings, %d violations (%.1fs)\n",
		prop.ID, o.tier, len(merged), nd, len(out.known), len(out.violations), elapsed(t0))
	if len(out.violations) > 0 {
		return 1
	}
	return 0
}

func firstLine(s string) string {
	if i := strings.IndexByte(s, '\n'); i >= 0 {
		return s[:i]
	}
	return s
}

func seedFromEnv() int {
	n, _ := strconv.Atoi(os.Getenv("VERIF_SEED"))
	return n
}

func cmdReplay(args []string) int {
	if len(args) < 2 {
		usage()
	}
	b, err := os.ReadFile(args[1])
	if err != nil {
		fmt.Fprintln(os.Stderr, err)
		return 2
	}
	var rep struct{ Rule, Key string }
	if err := json.Unmarshal(b, &rep); err != nil {
		fmt.Fprintln(os.Stderr, err)
		return 2
	}
	return cmdCheck(append([]string{args[0], "-only", rep.Rule + "|" + rep.Key, "-noselftest"}, args[2:]...))
}

// ---------- self-test by in-memory mutants ----------

type Mutant struct {
	Name   string `json:"name"`
	File   string `json:"file"` // relative to the repository root
	Old    string `json:"old"`
	New    string `json:"new"`
	Rule   string `json:"expect_rule"`
	KeySub string `json:"expect_key_contains"`
	Quick  bool   `json:"quick"`  // run in the quick tier too (canary)
	Benign bool   `json:"benign"` // behaviour-preserving edit: the check must stay silent
	Why    string `json:"why"`
	Edits  []struct {
		File string `json:"file"`
		Old  string `json:"old"`
		New  string `json:"new"`
	} `json:"edits"`
}

type selfFailure struct{ name, why string }

type selfTestResult struct {
	failures []selfFailure
	summary  map[string]any
	outcomes []mutantOutcome
}

// settle compares the mutant outcomes with the obligations failing on the
// tree itself: a behaviour-preserving variant "alarms" only through reports
// the unmodified tree does not have.
func (res *selfTestResult) settle(baselineFailing map[string]bool) {
	counts := map[string]int{}
	for i := range res.outcomes {
		oc := &res.outcomes[i]
		if oc.Status == "alarmed" {
			var rest []string
			for _, k := range oc.Matched {
				if !baselineFailing[k] {
					rest = append(rest, k)
				}
			}
			oc.Matched = rest
			if len(rest) == 0 {
				oc.Status, oc.Detail = "silent", ""
			}
		}
		counts[oc.Status]++
		switch oc.Status {
		case "missed", "alarmed", "error":
			res.failures = append(res.failures, selfFailure{oc.Name, "checker self-test: mutant " + oc.Name + " " + oc.Status + ": " + oc.Detail + " " + strings.Join(oc.Matched, ",")})
		}
	}
	res.summary["counts"] = counts
	res.summary["outcomes"] = res.outcomes
}

type mutantOutcome struct {
	Name    string   `json:"name"`
	Status  string   `json:"status"` // caught, missed, skipped, silent, alarmed, error
	Detail  string   `json:"detail,omitempty"`
	Matched []string `json:"matched,omitempty"`
}

func loadMutants(verif, prop string) []*Mutant {
	files, _ := filepath.Glob(filepath.Join(verif, "mutants", prop, "*.json"))
	sort.Strings(files)
	var out []*Mutant
	for _, f := range files {
		b, err := os.ReadFile(f)
		if err != nil {
			continue
		}
		var m Mutant
		if json.Unmarshal(b, &m) != nil {
			continue
		}
		if m.Name == "" {
			m.Name = strings.TrimSuffix(filepath.Base(f), ".json")
		}
		out = append(out, &m)
	}
	return out
}

func runSelfTest(o *opts, prop *Property) *selfTestResult {
	res := &selfTestResult{summary: map[string]any{}}
	muts := loadMutants(o.verif, prop.ID)
	var sel []*Mutant
	for _, m := range muts {
		if o.tier == "thorough" || m.Quick {
			sel = append(sel, m)
		}
	}
	outcomes := make([]mutantOutcome, len(sel))
	par := 6
	if o.tier != "thorough" {
		par = 3
	}
	sem := make(chan struct{}, par)
	var wg sync.WaitGroup
	self, _ := os.Executable()
	for i, m := range sel {
		wg.Add(1)
		go func(i int, m *Mutant) {
			defer wg.Done()
			sem <- struct{}{}
			defer func() { <-sem }()
			path := filepath.Join(o.verif, "mutants", prop.ID, m.Name+".json")
			cmd := exec.Command(self, "mutant", prop.ID, path, "-repo", o.repo, "-verif", o.verif)
			cmd.Env = append(os.Environ(), "GOMAXPROCS=4")
			b, err := cmd.Output()
			var oc mutantOutcome
			if jerr := json.Unmarshal(b, &oc); jerr != nil {
				oc = mutantOutcome{Name: m.Name, Status: "error", Detail: fmt.Sprintf("%v: %s", err, string(b))}
			}
			outcomes[i] = oc
		}(i, m)
	}
	wg.Wait()
	res.outcomes = outcomes
	res.summary["mutants_available"] = len(muts)
	res.summary["mutants_run"] = len(sel)
	res.summary["method"] = "each mutant is a single-instance edit applied in memory (go/packages overlay) to the current tree and analysed by the same rules; a mutant whose anchor text is absent from the current tree is skipped and counted, never a failure"
	return res
}

// cmdMutant analyses one in-memory variant and prints a mutantOutcome.
func cmdMutant(args []string) int {
	o, rest := parseOpts(args)
	_ = rest
	// args: <prop> <mutant.json> [flags]; parseOpts consumed prop; the json path is first of fs.Args only
	// if flags come after it, so re-parse by hand:
	var mpath string
	for _, a := range args[1:] {
		if strings.HasSuffix(a, ".json") {
			mpath = a
			break
		}
	}
	// flags after the path
	fs := flag.NewFlagSet("mutant", flag.ExitOnError)
	fs.StringVar(&o.repo, "repo", "/repo", "")
	fs.StringVar(&o.verif, "verif", "/verif", "")
	if len(args) > 2 {
		fs.Parse(args[2:])
	}
	knownFuncsFile = filepath.Join(o.verif, "known_functions.txt")
	prop := registry[o.prop]
	emit := func(oc mutantOutcome) int {
		b, _ := json.Marshal(oc)
		fmt.Println(string(b))
		return 0
	}
	b, err := os.ReadFile(mpath)
	if err != nil || prop == nil {
		return emit(mutantOutcome{Name: mpath, Status: "error", Detail: fmt.Sprint(err)})
	}
	var m Mutant
	if err := json.Unmarshal(b, &m); err != nil {
		return emit(mutantOutcome{Name: mpath, Status: "error", Detail: err.Error()})
	}
	if m.Name == "" {
		m.Name = strings.TrimSuffix(filepath.Base(mpath), ".json")
	}
	type edit struct{ file, old, new string }
	var edits []edit
	if m.File != "" {
		edits = append(edits, edit{m.File, m.Old, m.New})
	}
	for _, e := range m.Edits {
		edits = append(edits, edit{e.File, e.Old, e.New})
	}
	overlay := map[string][]byte{}
	for _, e := range edits {
		abs := filepath.Join(o.repo, e.file)
		src, ok := overlay[abs]
		if !ok {
			src, err = os.ReadFile(abs)
			if err != nil {
				return emit(mutantOutcome{Name: m.Name, Status: "skipped", Detail: "file missing: " + e.file})
			}
		}
		if strings.Count(string(src), e.old) != 1 {
			return emit(mutantOutcome{Name: m.Name, Status: "skipped", Detail: fmt.Sprintf("anchor text occurs %d times in %s on the current tree", strings.Count(string(src), e.old), e.file)})
		}
		overlay[abs] = []byte(strings.Replace(string(src), e.old, e.new, 1))
	}
	known, _ := loadKnown(filepath.Join(o.verif, "known_findings.json"))
	ctx, _, err := runOne(prop, o.repo, BuildConfig{}, overlay)
	if err != nil {
		// a mutant that does not compile on the current tree is not evidence either way
		return emit(mutantOutcome{Name: m.Name, Status: "skipped", Detail: "variant does not type-check on the current tree: " + firstLine(err.Error())})
	}
	out := verdict(prop.ID, ctx.obls, known)
	if m.Benign {
		if len(out.violations) == 0 {
			return emit(mutantOutcome{Name: m.Name, Status: "silent"})
		}
		var ms []string
		for _, v := range out.violations {
			ms = append(ms, v.Rule+"|"+v.Key)
		}
		return emit(mutantOutcome{Name: m.Name, Status: "alarmed", Detail: "false alarm on a behaviour-preserving edit", Matched: ms})
	}
	var matched []string
	for _, v := range out.violations {
		if (m.Rule == "" || v.Rule == m.Rule) && strings.Contains(v.Key, m.KeySub) {
			matched = append(matched, v.Rule+"|"+v.Key+" at "+v.Pos)
		}
	}
	if len(matched) > 0 {
		return emit(mutantOutcome{Name: m.Name, Status: "caught", Matched: matched})
	}
	var others []string
	for _, v := range out.violations {
		others = append(others, v.Rule+"|"+v.Key)
	}
	return emit(mutantOutcome{Name: m.Name, Status: "missed", Detail: fmt.Sprintf("expected %s %q; other reports: %v", m.Rule, m.KeySub, others)})
}

func cmdCheckAll(args []string) int {
	fs := flag.NewFlagSet("checkall", flag.ExitOnError)
	repo := fs.String("repo", "/repo", "repository root")
	verif := fs.String("verif", "/verif", "verification root")
	fs.Parse(args)
	knownFuncsFile = filepath.Join(*verif, "known_functions.txt")
	known, err := loadKnown(filepath.Join(*verif, "known_findings.json"))
	if err != nil {
		fmt.Fprintln(os.Stderr, "galint:", err)
		return 2
	}
	p, err := Load(*repo, BuildConfig{}, nil)
	if err != nil {
		fmt.Fprintln(os.Stderr, "galint:", err)
		return 2
	}
	rc := 0
	var ids []string
	for id := range registry {
		ids = append(ids, id)
	}
	sort.Strings(ids)
	for _, id := range ids {
		prop := registry[id]
		// engines are rebuilt per property: a rule set may configure them
		p.facts, p.intervals = nil, nil
		ctx := NewCtx(prop.ID, p)
		func() {
			defer func() {
				if r := recover(); r != nil {
					ctx.Rule("INTERNAL", "-", "the checker must not fail", 0)
					ctx.Unknown("INTERNAL", "panic", 0, "checker panic: %v", r)
				}
			}()
			prop.Run(ctx)
		}()
		ctx.finish()
		out := verdict(prop.ID, ctx.obls, known)
		if len(out.violations) > 0 {
			rc = 1
			var parts []string
			for i, ob := range out.violations {
				if i >= 4 {
					break
				}
				kind := "violated"
				if ob.st == Undecided {
					kind = "undecided"
				}
				d := fmt.Sprintf("%s %s %s at %s: %s", kind, ob.Rule, ob.Key, ob.Pos, firstLine(ob.Detail))
				if len(d) > 260 {
					d = d[:260]
				}
				parts = append(parts, d)
			}
			fmt.Printf("%s: %s|\n", prop.ID, strings.Join(parts, "|"))
		}
	}
	return rc
}
