package main

// Normalisation by inlining.
//
// The rules are phrased over the functions of the tree they were confirmed on.
// A behaviour-preserving refactoring that extracts part of such a function
// into a new helper would hide that part from a rule.  Before any rule runs,
// every call to a module function that is NOT in the vocabulary of known
// functions (known_functions.txt, the functions of the tree the rules were
// written against) is inlined back into its caller, in memory (go/packages
// overlay), and the program is re-type-checked.  On a tree that adds no
// function this does nothing at all; if the rewritten program does not
// type-check, the original one is analysed.  //line directives keep reported
// positions pointing into the real files.

import (
	"fmt"
	"go/ast"
	"go/token"
	"go/types"
	"os"
	"runtime"
	"sort"
	"strings"
)

var knownFuncsFile string // set by main; empty or unreadable: no normalisation

type textEdit struct {
	start, end int
	text       string
}

type inlineCand struct {
	fs          *FuncSrc
	exprOnly    ast.Expr // single `return expr` body
	genericRecv bool
	deferLit    bool // has a deferred function literal (which may change the named results)
	defers      []*ast.DeferStmt
}

func loadKnownFuncs() map[string]bool {
	if knownFuncsFile == "" {
		return nil
	}
	b, err := os.ReadFile(knownFuncsFile)
	if err != nil {
		return nil
	}
	m := map[string]bool{}
	for _, l := range strings.Split(string(b), "\n") {
		l = strings.TrimSpace(l)
		if l != "" && !strings.HasPrefix(l, "#") {
			m[l] = true
		}
	}
	return m
}

// normalise returns an overlay in which calls to unknown helper functions are
// inlined, plus notes for the evidence.  nil when there is nothing to do.
// everInlined records, across the rounds of one Load, the helpers of which at
// least one call was inlined: only those may be removed once unused (a new
// function that nothing calls is part of the program and must be analysed).
var everInlined = map[string]bool{}

// keepHelpers: do not remove helpers whose uses were all inlined (set for the
// retry of a round whose result did not type-check: the removal may have
// taken the last use of an import with it)
var keepHelpers bool

func (p *Program) normaliseOnce(known map[string]bool, round int) (map[string][]byte, []string) {
	if round == 1 {
		everInlined = map[string]bool{}
	}
	cands := map[*types.Func]*inlineCand{}
	aliased := map[*types.Func]bool{}
	for _, f := range funcAliases {
		aliased[f] = true
	}
	for _, fs := range p.allSrc {
		if fs.Decl == nil || fs.Obj == nil || known[fs.Name] || aliased[fs.Obj] {
			continue
		}
		if c := p.inlinable(fs); c != nil {
			cands[fs.Obj] = c
		}
	}
	if len(cands) == 0 {
		return nil, nil
	}
	src := map[string][]byte{}
	read := func(name string) []byte {
		if b, ok := src[name]; ok {
			return b
		}
		var b []byte
		if ob, ok := p.overlayIn[name]; ok {
			b = ob
		} else {
			b, _ = os.ReadFile(name)
		}
		src[name] = b
		return b
	}
	edits := map[string][]textEdit{}
	var notes []string
	// single-expression local closures of functions outside the vocabulary are
	// folded into their call sites first; such a function is inlined into its
	// callers in a later round, once its text no longer contains them
	for _, fs := range p.allSrc {
		if fs.Decl == nil || fs.Obj == nil || known[fs.Name] || aliased[fs.Obj] {
			continue
		}
		if ed, n := p.inlineLocalClosures(fs, read); len(ed) > 0 {
			fname := p.Fset.File(fs.Decl.Pos()).Name()
			edits[fname] = append(edits[fname], ed...)
			delete(cands, fs.Obj)
			notes = append(notes, fmt.Sprintf("%d call(s) of single-expression local functions of %s folded into their call sites", n, fs.Name))
		}
	}
	seq := 0
	// deterministic order
	var sites []*CallSite
	for _, cs := range p.callAt {
		sites = append(sites, cs)
	}
	sort.Slice(sites, func(i, j int) bool { return sites[i].Call.Lparen < sites[j].Call.Lparen })
	busyStmt := map[ast.Node]bool{}
	inlined := map[*types.Func]int{}
	type pendingInline struct {
		fname string
		ed    []textEdit
		cand  *inlineCand
		cs    *CallSite
	}
	var pending []pendingInline
	wrappedIn := map[*FuncSrc]bool{} // functions whose text gets a wrap/hoist edit this round
	for _, cs := range sites {
		callee := calleeOf(cs)
		if callee == nil {
			continue
		}
		cand := cands[callee.Origin()]
		if cand == nil || cs.In.Root() == cand.fs || cs.In.Pkg != cand.fs.Pkg {
			continue
		}
		if cand.genericRecv && !sameGenericRecv(cs.In.Root().Decl, cand.fs.Decl) {
			continue
		}
		// not inside another candidate's text that is itself going to be inlined elsewhere: fine, rounds converge
		file := p.Fset.File(cs.Call.Pos())
		if file == nil {
			continue
		}
		fname := file.Name()
		b := read(fname)
		if b == nil {
			continue
		}
		// `defer H(a, b)`: when nothing the call names can change before the
		// function returns, it is `defer func() { H(a, b) }()`, whose call the
		// next round inlines like any other statement
		if ds, isDefer := p.Parent(cs.In.File, cs.Call).(*ast.DeferStmt); isDefer && ds.Call == cs.Call {
			if !p.stableCallOperands(cs) {
				continue
			}
			start, end := file.Offset(cs.Call.Pos()), file.Offset(cs.Call.End())
			if busyStmt[ds] {
				continue
			}
			busyStmt[ds] = true
			edits[fname] = append(edits[fname], textEdit{start, end, "func() { " + string(b[start:end]) + " }()"})
			everInlined[cand.fs.Name] = true
			notes = append(notes, fmt.Sprintf("deferred call of %s in %s at %s wrapped in a function literal", cand.fs.Name, cs.In.Root().Name, p.PosStr(cs.Call.Pos())))
			wrappedIn[cs.In.Root()] = true
			continue
		}
		// `return A && H(x)` / `return A || H(x)`: the call is made only when A does not
		// decide; written `if !(A) { return false }; return H(x)` it is a tail call
		if cand.exprOnly == nil {
			if be, isB := p.Parent(cs.In.File, cs.Call).(*ast.BinaryExpr); isB && be.Y == ast.Expr(cs.Call) && (be.Op == token.LAND || be.Op == token.LOR) {
				if rs, isR := p.Parent(cs.In.File, be).(*ast.ReturnStmt); isR && len(rs.Results) == 1 && rs.Results[0] == ast.Expr(be) && !busyStmt[rs] {
					switch p.Parent(cs.In.File, rs).(type) {
					case *ast.BlockStmt, *ast.CaseClause, *ast.CommClause:
						rstart, rend := file.Offset(rs.Pos()), file.Offset(rs.End())
						overlap := false
						for _, o := range edits[fname] {
							if rstart < o.end && o.start < rend {
								overlap = true
							}
						}
						if !overlap {
							busyStmt[rs] = true
							xs := strings.ReplaceAll(string(b[file.Offset(be.X.Pos()):file.Offset(be.X.End())]), "\n", " ")
							cstr := strings.ReplaceAll(string(b[file.Offset(cs.Call.Pos()):file.Offset(cs.Call.End())]), "\n", " ")
							text := "if !(" + xs + ") { return false }; return " + cstr
							if be.Op == token.LOR {
								text = "if " + xs + " { return true }; return " + cstr
							}
							edits[fname] = append(edits[fname], textEdit{rstart, rend, text})
							everInlined[cand.fs.Name] = true
							wrappedIn[cs.In.Root()] = true
							notes = append(notes, fmt.Sprintf("return with a short-circuit call of %s in %s at %s split into a guard and a tail call", cand.fs.Name, cs.In.Root().Name, p.PosStr(cs.Call.Pos())))
							continue
						}
					}
				}
			}
		}
		// `if A && H(x) { body }` (no else, no init): H is called only when A holds;
		// written `if A { if H(x) { body } }` the inner test is a continuation form
		if cand.exprOnly == nil {
			if be, isB := p.Parent(cs.In.File, cs.Call).(*ast.BinaryExpr); isB && be.Y == ast.Expr(cs.Call) && be.Op == token.LAND {
				var top ast.Node = be
				for {
					if pe, isP := p.Parent(cs.In.File, top).(*ast.ParenExpr); isP {
						top = pe
						continue
					}
					break
				}
				if ifs, isIf := p.Parent(cs.In.File, top).(*ast.IfStmt); isIf && ifs.Cond == top.(ast.Expr) && ifs.Init == nil && ifs.Else == nil && !busyStmt[ifs] {
					okCtx := false
					switch p.Parent(cs.In.File, ifs).(type) {
					case *ast.BlockStmt, *ast.CaseClause, *ast.CommClause:
						okCtx = true
					}
					istart, iend := file.Offset(ifs.Pos()), file.Offset(ifs.End())
					for _, o := range edits[fname] {
						if istart < o.end && o.start < iend {
							okCtx = false
						}
					}
					if okCtx {
						busyStmt[ifs] = true
						xs := string(b[file.Offset(be.X.Pos()):file.Offset(be.X.End())])
						cstr := string(b[file.Offset(cs.Call.Pos()):file.Offset(cs.Call.End())])
						body := string(b[file.Offset(ifs.Body.Pos()):file.Offset(ifs.Body.End())])
						edits[fname] = append(edits[fname], textEdit{istart, iend, "if " + xs + " { if " + cstr + " " + body + " }"})
						everInlined[cand.fs.Name] = true
						wrappedIn[cs.In.Root()] = true
						notes = append(notes, fmt.Sprintf("condition with a short-circuit call of %s in %s at %s split into nested tests", cand.fs.Name, cs.In.Root().Name, p.PosStr(cs.Call.Pos())))
						continue
					}
				}
			}
		}
		// `go H(a, b)`: the arguments are evaluated now, the call runs in the goroutine:
		// `go func(p0 A, p1 B) { H(p0, p1) }(a, b)`, whose call the next round inlines
		if gs, isGo := p.Parent(cs.In.File, cs.Call).(*ast.GoStmt); isGo && gs.Call == cs.Call {
			if _, isIdent := unparen(cs.Call.Fun).(*ast.Ident); !isIdent || busyStmt[gs] {
				continue
			}
			sig, _ := callee.Type().(*types.Signature)
			if sig == nil || sig.Variadic() || sig.Params().Len() != len(cs.Call.Args) {
				continue
			}
			okQ := true
			qual := qualifierFor(cs.In.Pkg.Types, cs.In.File, cs.In.Pkg.TypesInfo, &okQ)
			seq++
			var ps, as []string
			for i := 0; i < sig.Params().Len(); i++ {
				nm := fmt.Sprintf("g%d_i%d_%d", i, round, seq)
				ps = append(ps, nm+" "+types.TypeString(sig.Params().At(i).Type(), qual))
				as = append(as, nm)
			}
			if !okQ {
				continue
			}
			busyStmt[gs] = true
			fstart, fend := file.Offset(cs.Call.Fun.Pos()), file.Offset(cs.Call.Fun.End())
			fn := string(b[fstart:fend])
			text := "func(" + strings.Join(ps, ", ") + ") { " + fn + "(" + strings.Join(as, ", ") + ") }"
			edits[fname] = append(edits[fname], textEdit{fstart, fend, text})
			everInlined[cand.fs.Name] = true
			notes = append(notes, fmt.Sprintf("go statement calling %s in %s at %s wrapped in a function literal", cand.fs.Name, cs.In.Root().Name, p.PosStr(cs.Call.Pos())))
			wrappedIn[cs.In.Root()] = true
			continue
		}
		// `if H(x) != y {`: the call is evaluated first and unconditionally; it is
		// hoisted into a temporary in front of the if (`t := H(x); if t != y {`),
		// which the next round inlines as an assignment
		if ifs, tmpOK := p.hoistableCondCall(cs); tmpOK && cand.exprOnly == nil {
			if busyStmt[ifs] {
				continue
			}
			busyStmt[ifs] = true
			seq++
			tmp := fmt.Sprintf("h_i%d_%d", round, seq)
			cstart, cend := file.Offset(cs.Call.Pos()), file.Offset(cs.Call.End())
			istart := file.Offset(ifs.Pos())
			overlap := false
			for _, o := range edits[fname] {
				if (cstart < o.end && o.start < cend) || (istart <= o.end && o.start <= istart) {
					overlap = true
				}
			}
			if overlap {
				continue
			}
			edits[fname] = append(edits[fname],
				textEdit{cstart, cend, tmp},
				textEdit{istart, istart, tmp + " := " + strings.ReplaceAll(string(b[cstart:cend]), "\n", " ") + "; "})
			everInlined[cand.fs.Name] = true
			notes = append(notes, fmt.Sprintf("call of %s in a condition of %s at %s hoisted into a temporary", cand.fs.Name, cs.In.Root().Name, p.PosStr(cs.Call.Pos())))
			wrappedIn[cs.In.Root()] = true
			continue
		}
		seq++
		tag := fmt.Sprintf("_i%d_%d", round, seq)
		ed, stmt, ok := p.inlineAt(cs, cand, tag, read)
		if !ok {
			continue
		}
		if stmt != nil {
			if busyStmt[stmt] {
				continue // one rewrite per statement and round
			}
			busyStmt[stmt] = true
		}
		// no overlap with earlier edits of this file
		overlap := false
		for _, e := range ed {
			for _, o := range edits[fname] {
				if e.start < o.end && o.start < e.end {
					overlap = true
				}
			}
		}
		if overlap {
			continue
		}
		pending = append(pending, pendingInline{fname, ed, cand, cs})
		edits[fname] = append(edits[fname], ed...) // provisional: keeps later sites from overlapping
	}
	// innermost first: a helper into whose own body something is inlined in
	// this round is inlined into its callers in the next one, with its final
	// body (the continuation forms restore the code as it was before the
	// extraction only in that order)
	receives := map[*FuncSrc]bool{}
	for _, pi := range pending {
		receives[pi.cs.In.Root()] = true
	}
	for f := range wrappedIn {
		receives[f] = true
	}
	provisional := map[string]map[int]bool{}
	for _, pi := range pending {
		if receives[pi.cand.fs] {
			if provisional[pi.fname] == nil {
				provisional[pi.fname] = map[int]bool{}
			}
			for _, e := range pi.ed {
				provisional[pi.fname][e.start] = true
			}
			continue
		}
		inlined[pi.cand.fs.Obj]++
		everInlined[pi.cand.fs.Name] = true
		notes = append(notes, fmt.Sprintf("%s inlined into %s at %s", pi.cand.fs.Name, pi.cs.In.Root().Name, p.PosStr(pi.cs.Call.Pos())))
	}
	for fname, drop := range provisional {
		var keep []textEdit
		for _, e := range edits[fname] {
			if !drop[e.start] {
				keep = append(keep, e)
			}
		}
		edits[fname] = keep
	}
	// a helper without any use left disappears (blank lines keep the
	// line numbers): it is not a function of the program any more
	refs := map[types.Object]int{}
	for _, pkg := range p.Mod {
		for _, o := range pkg.TypesInfo.Uses {
			if f, ok := o.(*types.Func); ok {
				refs[f.Origin()]++
			}
		}
	}
	for obj, cand := range cands {
		if refs[obj] != 0 || !everInlined[cand.fs.Name] || keepHelpers {
			continue
		}
		fd := cand.fs.Decl
		file := p.Fset.File(fd.Pos())
		b := read(file.Name())
		start, end := file.Offset(fd.Pos()), file.Offset(fd.End())
		if fd.Doc != nil {
			start = file.Offset(fd.Doc.Pos())
		}
		overlap := false
		for _, o := range edits[file.Name()] {
			if start < o.end && o.start < end {
				overlap = true // something was inlined into the helper itself this round: next round
			}
		}
		if overlap || b == nil {
			continue
		}
		edits[file.Name()] = append(edits[file.Name()], textEdit{start, end, strings.Repeat("\n", strings.Count(string(b[start:end]), "\n"))})
		notes = append(notes, cand.fs.Name+" removed (every use inlined)")
	}
	if len(edits) == 0 {
		return nil, nil
	}
	out := map[string][]byte{}
	for fname, es := range edits {
		sort.Slice(es, func(i, j int) bool { return es[i].start > es[j].start })
		b := append([]byte(nil), read(fname)...)
		for _, e := range es {
			b = append(b[:e.start], append([]byte(e.text), b[e.end:]...)...)
		}
		out[fname] = b
	}
	return out, notes
}

func (p *Program) inlinable(fs *FuncSrc) *inlineCand {
	fd := fs.Decl
	sig, _ := fs.Obj.Type().(*types.Signature)
	if sig == nil || sig.Variadic() || sig.TypeParams() != nil || fd.Body == nil {
		return nil
	}
	c := &inlineCand{fs: fs}
	// a method of a generic type is inlined only into methods of the same type
	// that name the type parameters alike (sameGenericRecv)
	c.genericRecv = sig.RecvTypeParams() != nil
	ok := true
	info := fs.Pkg.TypesInfo
	ast.Inspect(fd.Body, func(n ast.Node) bool {
		switch x := n.(type) {
		case *ast.FuncLit:
			return false
		case *ast.BranchStmt:
			if x.Tok == token.GOTO {
				ok = false
			}
		case *ast.CallExpr:
			if f, _ := calleeObj(info, x).(*types.Func); f != nil && f == fs.Obj {
				ok = false // recursive
			}
			if id, isId := unparen(x.Fun).(*ast.Ident); isId && id.Name == "recover" {
				ok = false
			}
		case *ast.DeferStmt:
			// only top-level, argument-less deferred calls (mu.Unlock()) are supported
			top := false
			for _, s := range fd.Body.List {
				if s == ast.Stmt(x) {
					top = true
				}
			}
			if !top {
				ok = false
			}
			// (a return that precedes the top-level defer does not run it, one that
			// follows does: deferredAt)
			for _, a := range x.Call.Args {
				if !accessPath(a) {
					ok = false // the argument would be evaluated at another time
				}
			}
			if lit, isLit := x.Call.Fun.(*ast.FuncLit); isLit {
				// defer func() { ... }(): the body is run in place at every return that
				// follows it (after the results are set), provided it cannot return early,
				// recover, or be handed anything
				if len(x.Call.Args) != 0 || (lit.Type.Params != nil && len(lit.Type.Params.List) != 0) || (lit.Type.Results != nil && len(lit.Type.Results.List) != 0) {
					ok = false
				}
				ast.Inspect(lit.Body, func(m ast.Node) bool {
					switch y := m.(type) {
					case *ast.ReturnStmt, *ast.FuncLit, *ast.DeferStmt:
						ok = false
					case *ast.CallExpr:
						if id, isId := unparen(y.Fun).(*ast.Ident); isId && id.Name == "recover" {
							ok = false
						}
					}
					return true
				})
				c.deferLit = true
			}
			c.defers = append(c.defers, x)
		}
		return true
	})
	if !ok {
		return nil
	}
	if len(fd.Body.List) == 1 {
		if r, isR := fd.Body.List[0].(*ast.ReturnStmt); isR && len(r.Results) == 1 && sig.Results().Len() == 1 {
			c.exprOnly = r.Results[0]
		}
	}
	return c
}

func calleeObj(info *types.Info, call *ast.CallExpr) types.Object {
	switch f := unparen(call.Fun).(type) {
	case *ast.Ident:
		return info.Uses[f]
	case *ast.SelectorExpr:
		if s := info.Selections[f]; s != nil {
			return s.Obj()
		}
		return info.Uses[f.Sel]
	}
	return nil
}

// qualifierFor builds a types.Qualifier for printing types inside file f; ok
// is cleared when a package is not imported under its own name there.
func qualifierFor(pkg *types.Package, f *ast.File, info *types.Info, ok *bool) types.Qualifier {
	imported := map[string]string{}
	for _, is := range f.Imports {
		if pn, _ := info.Implicits[is].(*types.PkgName); pn != nil {
			imported[pn.Imported().Path()] = pn.Name()
		}
		if is.Name != nil {
			if pn, _ := info.Defs[is.Name].(*types.PkgName); pn != nil {
				imported[pn.Imported().Path()] = pn.Name()
			}
		}
	}
	return func(q *types.Package) string {
		if q == pkg {
			return ""
		}
		if n, has := imported[q.Path()]; has && n != "_" && n != "." {
			return n
		}
		*ok = false
		return q.Name()
	}
}

// inlineAt builds the edits that inline the call cs of cand.  stmt is the
// statement rewritten (nil for expression-level inlining).
func (p *Program) inlineAt(cs *CallSite, cand *inlineCand, tag string, read func(string) []byte) ([]textEdit, ast.Node, bool) {
	caller := cs.In
	info := caller.Pkg.TypesInfo
	call := cs.Call
	callee := cand.fs
	fd := callee.Decl
	sig := callee.Obj.Type().(*types.Signature)
	cfile := p.Fset.File(call.Pos())
	dfile := p.Fset.File(fd.Pos())
	if cfile == nil || dfile == nil {
		return inlFail()
	}
	csrc, dsrc := read(cfile.Name()), read(dfile.Name())
	if csrc == nil || dsrc == nil {
		return inlFail()
	}
	off := func(f *token.File, pos token.Pos) int { return f.Offset(pos) }
	ctext := func(n ast.Node) string { return string(csrc[off(cfile, n.Pos()):off(cfile, n.End())]) }
	// every package the callee's body mentions must be visible under the same name in the caller's file
	okImports := true
	callerImports := map[string]string{}
	for _, is := range caller.File.Imports {
		var pn *types.PkgName
		if is.Name != nil {
			pn, _ = info.Defs[is.Name].(*types.PkgName)
		} else {
			pn, _ = info.Implicits[is].(*types.PkgName)
		}
		if pn != nil {
			callerImports[pn.Name()] = pn.Imported().Path()
		}
	}
	dinfo := callee.Pkg.TypesInfo
	ast.Inspect(fd, func(n ast.Node) bool {
		if id, ok := n.(*ast.Ident); ok {
			if pn, isP := dinfo.Uses[id].(*types.PkgName); isP {
				if callerImports[pn.Name()] != pn.Imported().Path() {
					okImports = false
				}
			}
		}
		return true
	})
	if !okImports {
		return inlFail()
	}
	// free identifiers of the callee (package-level objects) must not be shadowed at the call site
	shadow := false
	var callScope *types.Scope
	if s := caller.Pkg.Types.Scope().Innermost(call.Pos()); s != nil {
		callScope = s
	}
	isLocal := func(o types.Object) bool {
		return o != nil && o.Pos() >= fd.Pos() && o.Pos() < fd.End() && o.Parent() != nil && o.Parent() != callee.Pkg.Types.Scope() && o.Parent() != types.Universe
	}
	ast.Inspect(fd.Body, func(n ast.Node) bool {
		id, ok := n.(*ast.Ident)
		if !ok {
			return true
		}
		o := dinfo.Uses[id]
		if o == nil || isLocal(o) {
			return true
		}
		if _, isField := o.(*types.Var); isField && o.(*types.Var).IsField() {
			return true
		}
		if o.Parent() == callee.Pkg.Types.Scope() || o.Parent() == types.Universe {
			if callScope != nil {
				if _, found := callScope.LookupParent(id.Name, call.Pos()); found != nil && found != o {
					shadow = true
				}
			}
		}
		return true
	})
	if shadow {
		return inlFail()
	}
	// arguments (receiver first)
	type bind struct {
		obj  *types.Var
		text string
		expr ast.Expr
	}
	var binds []bind
	if sig.Recv() != nil {
		sel, ok := unparen(call.Fun).(*ast.SelectorExpr)
		if !ok {
			return inlFail()
		}
		s := info.Selections[sel]
		if s == nil || s.Kind() != types.MethodVal || len(s.Index()) != 1 {
			return inlFail()
		}
		rt := ctext(sel.X)
		_, recvPtr := sig.Recv().Type().(*types.Pointer)
		_, argPtr := info.TypeOf(sel.X).Underlying().(*types.Pointer)
		switch {
		case recvPtr && !argPtr:
			rt = "&(" + rt + ")"
		case !recvPtr && argPtr:
			rt = "*(" + rt + ")"
		}
		var robj *types.Var
		if fd.Recv != nil && len(fd.Recv.List) == 1 && len(fd.Recv.List[0].Names) == 1 {
			robj, _ = dinfo.Defs[fd.Recv.List[0].Names[0]].(*types.Var)
		}
		binds = append(binds, bind{robj, rt, sel.X})
	}
	if len(call.Args) != sig.Params().Len() {
		return inlFail()
	}
	pi := 0
	for _, fld := range fd.Type.Params.List {
		names := fld.Names
		if len(names) == 0 {
			names = []*ast.Ident{nil}
		}
		for _, nm := range names {
			var o *types.Var
			if nm != nil {
				o, _ = dinfo.Defs[nm].(*types.Var)
			}
			binds = append(binds, bind{o, ctext(call.Args[pi]), call.Args[pi]})
			pi++
		}
	}
	// a parameter that the callee never assigns and whose argument is a plain
	// access path is replaced by that path (no alias variable)
	assigned := map[types.Object]bool{}
	ast.Inspect(fd.Body, func(n ast.Node) bool {
		mark := func(e ast.Expr) {
			e = unparen(e)
			// v.f = x / v[i] = x on a struct- or array-valued variable changes
			// the variable itself (a parameter of such a type is a private copy)
			for {
				var inner ast.Expr
				switch x := e.(type) {
				case *ast.SelectorExpr:
					inner = x.X
				case *ast.IndexExpr:
					inner = x.X
				}
				if inner == nil {
					break
				}
				t := dinfo.TypeOf(inner)
				if t == nil {
					break
				}
				switch t.Underlying().(type) {
				case *types.Struct, *types.Array:
					e = unparen(inner)
					continue
				}
				break
			}
			if id, ok := e.(*ast.Ident); ok {
				if o := dinfo.Uses[id]; o != nil {
					assigned[o] = true
				}
				if o := dinfo.Defs[id]; o != nil {
					assigned[o] = true
				}
			}
		}
		switch x := n.(type) {
		case *ast.AssignStmt:
			for _, l := range x.Lhs {
				mark(l)
			}
		case *ast.IncDecStmt:
			mark(x.X)
		case *ast.UnaryExpr:
			if x.Op == token.AND {
				mark(x.X)
			}
		case *ast.RangeStmt:
			if x.Key != nil {
				mark(x.Key)
			}
			if x.Value != nil {
				mark(x.Value)
			}
		}
		return true
	})
	subst := map[types.Object]string{}
	for _, b := range binds {
		if b.obj == nil || assigned[b.obj] || !accessPath(b.expr) {
			continue
		}
		t := b.text
		if id, isId := unparen(b.expr).(*ast.Ident); !isId || id.Name != t {
			t = "(" + t + ")"
		}
		subst[b.obj] = t
	}
	// names in use in the calling function: a callee local keeps its name unless it collides
	taken := map[string]bool{}
	ast.Inspect(caller.Root().Body(), func(n ast.Node) bool {
		if id, ok := n.(*ast.Ident); ok {
			taken[id.Name] = true
		}
		return true
	})
	if caller.Root().Decl != nil {
		ast.Inspect(caller.Root().Decl.Type, func(n ast.Node) bool {
			if id, ok := n.(*ast.Ident); ok {
				taken[id.Name] = true
			}
			return true
		})
		if caller.Root().Decl.Recv != nil {
			ast.Inspect(caller.Root().Decl.Recv, func(n ast.Node) bool {
				if id, ok := n.(*ast.Ident); ok {
					taken[id.Name] = true
				}
				return true
			})
		}
	}
	forceTag := map[types.Object]bool{}
	rename := func(o types.Object) string {
		if t, ok := subst[o]; ok {
			return t
		}
		if !taken[o.Name()] && !forceTag[o] {
			return o.Name()
		}
		return o.Name() + tag
	}
	var bodyEditsRef func(from, to token.Pos) string
	bodyEdits := func(from, to token.Pos, extra func(n ast.Node) (textEdit, bool, bool)) string {
		// text of the callee between from and to with identifiers renamed and extra edits applied
		var es []textEdit
		var walk func(n ast.Node) bool
		walk = func(n ast.Node) bool {
			if n == nil {
				return true
			}
			if extra != nil {
				if e, has, descend := extra(n); has {
					es = append(es, e)
					if !descend {
						return false
					}
				}
			}
			if id, ok := n.(*ast.Ident); ok {
				o := dinfo.Uses[id]
				if o == nil {
					o = dinfo.Defs[id]
				}
				if isLocal(o) && id.Name != "_" {
					if v, isV := o.(*types.Var); !isV || !v.IsField() {
						es = append(es, textEdit{off(dfile, id.Pos()), off(dfile, id.End()), rename(o)})
					}
				}
			}
			return true
		}
		ast.Inspect(fd.Body, func(n ast.Node) bool {
			if n == nil {
				return true
			}
			if n.End() <= from || n.Pos() >= to {
				return false
			}
			if n.Pos() < from || n.End() > to {
				return true // an ancestor of the range: only its parts inside are rewritten
			}
			return walk(n)
		})
		sort.Slice(es, func(i, j int) bool { return es[i].start > es[j].start })
		b := append([]byte(nil), dsrc[off(dfile, from):off(dfile, to)]...)
		base := off(dfile, from)
		last := len(b) + 1
		for _, e := range es {
			if e.end-base > last || e.start < base {
				continue
			}
			b = append(b[:e.start-base], append([]byte(e.text), b[e.end-base:]...)...)
			last = e.start - base
		}
		return string(b)
	}
	okQ := true
	qual := qualifierFor(caller.Pkg.Types, caller.File, info, &okQ)
	typeStr := func(t types.Type) string { return types.TypeString(t, qual) }
	bodyEditsRef = func(from, to token.Pos) string { return bodyEdits(from, to, nil) }

	// ---------- expression-level inlining ----------
	if cand.exprOnly != nil {
		// parameters are replaced by the argument texts
		uses := map[*types.Var]int{}
		ast.Inspect(cand.exprOnly, func(n ast.Node) bool {
			if id, ok := n.(*ast.Ident); ok {
				if v, _ := dinfo.Uses[id].(*types.Var); v != nil {
					uses[v]++
				}
			}
			return true
		})
		argOf := map[*types.Var]string{}
		for _, b := range binds {
			if b.obj == nil {
				if !simpleExpr(b.expr) {
					return inlFail() // an unnamed parameter whose argument has effects
				}
				continue
			}
			if !simpleExpr(b.expr) && uses[b.obj] != 1 {
				return inlFail()
			}
			argOf[b.obj] = "(" + b.text + ")"
		}
		// no assignment to a parameter can occur in a single return expression; closures inside are left alone
		hasLit := false
		ast.Inspect(cand.exprOnly, func(n ast.Node) bool {
			if _, ok := n.(*ast.FuncLit); ok {
				hasLit = true
			}
			return true
		})
		if hasLit {
			// `return func(...) {...}`: the literal captures the parameters, which
			// the arguments may replace only when nothing can change them later
			// and they can be repeated textually
			if _, whole := unparen(cand.exprOnly).(*ast.FuncLit); !whole || !p.stableCallOperands(cs) {
				return inlFail()
			}
			for _, b := range binds {
				if !accessPath(b.expr) {
					return inlFail()
				}
			}
		}
		var es []textEdit
		ast.Inspect(cand.exprOnly, func(n ast.Node) bool {
			if id, ok := n.(*ast.Ident); ok {
				if v, _ := dinfo.Uses[id].(*types.Var); v != nil {
					if t, has := argOf[v]; has {
						es = append(es, textEdit{off(dfile, id.Pos()), off(dfile, id.End()), t})
					}
				}
			}
			return true
		})
		sort.Slice(es, func(i, j int) bool { return es[i].start > es[j].start })
		base := off(dfile, cand.exprOnly.Pos())
		b := append([]byte(nil), dsrc[base:off(dfile, cand.exprOnly.End())]...)
		for _, e := range es {
			b = append(b[:e.start-base], append([]byte(e.text), b[e.end-base:]...)...)
		}
		text := "(" + strings.ReplaceAll(string(b), "\n", " ") + ")"
		rt := sig.Results().At(0).Type()
		needConv := true
		if hasLit {
			// the literal keeps its lines; positions inside it point into the helper,
			// positions after it into the caller again
			dpos := p.Fset.PositionFor(cand.exprOnly.Pos(), true)
			epos := p.Fset.PositionFor(call.End(), true)
			text = fmt.Sprintf("(/*line %s:%d:%d*/%s/*line %s:%d:%d*/)", dpos.Filename, dpos.Line, dpos.Column, string(b), epos.Filename, epos.Line, epos.Column)
			// passed for a parameter of exactly the helper's result type: no conversion needed
			if pc, isCall := p.Parent(caller.File, call).(*ast.CallExpr); isCall {
				if psig, isSig := info.TypeOf(pc.Fun).(*types.Signature); isSig {
					for i, a := range pc.Args {
						if a == ast.Expr(call) && i < psig.Params().Len() && !(psig.Variadic() && i >= psig.Params().Len()-1) && types.Identical(psig.Params().At(i).Type(), rt) {
							needConv = false
						}
					}
				}
			}
		}
		if tv := dinfo.Types[cand.exprOnly]; needConv && (tv.Value != nil || !types.Identical(tv.Type, rt)) {
			ts := typeStr(rt)
			if !okQ {
				return inlFail()
			}
			text = ts + text
			if strings.ContainsAny(ts, "*[ (") {
				text = "(" + ts + ")" + text[len(ts):]
			}
		}
		return []textEdit{{off(cfile, call.Pos()), off(cfile, call.End()), text}}, nil, true
	}

	// ---------- statement-level inlining ----------
	// find the statement and the role of the call in it
	var stmt ast.Stmt
	for n := ast.Node(call); n != nil; n = p.Parent(caller.File, n) {
		if s, ok := n.(ast.Stmt); ok {
			stmt = s
			break
		}
		if _, isLit := n.(*ast.FuncLit); isLit {
			return inlFail()
		}
	}
	if stmt == nil {
		return inlFail()
	}
	// `if v := H(..); cond {`: the statement rewritten is the if
	if ifp, ok := p.Parent(caller.File, stmt).(*ast.IfStmt); ok && ifp.Init == stmt {
		stmt = ifp
	}
	// the statement must sit directly in a block (or case clause) so that declarations can precede it
	switch par := p.Parent(caller.File, stmt).(type) {
	case *ast.BlockStmt, *ast.CaseClause, *ast.CommClause:
		_ = par
	default:
		return inlFail()
	}
	role := ""
	switch s := stmt.(type) {
	case *ast.ExprStmt:
		if unparen(s.X) == ast.Expr(call) {
			role = "expr"
		}
	case *ast.AssignStmt:
		if len(s.Rhs) == 1 && unparen(s.Rhs[0]) == ast.Expr(call) && (s.Tok == token.ASSIGN || s.Tok == token.DEFINE) {
			role = "assign"
		}
	case *ast.ReturnStmt:
		if len(s.Results) == 1 && unparen(s.Results[0]) == ast.Expr(call) {
			role = "return"
		}
	case *ast.IfStmt:
		// if [!]call { ... }   or   if v := call; cond { ... }
		c := unparen(s.Cond)
		if u, ok := c.(*ast.UnaryExpr); ok && u.Op == token.NOT {
			c = unparen(u.X)
		}
		if c == ast.Expr(call) && s.Init == nil && sig.Results().Len() == 1 {
			role = "ifcond"
		}
		if as, ok := s.Init.(*ast.AssignStmt); ok && len(as.Rhs) == 1 && unparen(as.Rhs[0]) == ast.Expr(call) && as.Tok == token.DEFINE {
			role = "ifinit"
		}
		// an else-if cannot be preceded by declarations
		if ifp, ok := p.Parent(caller.File, s).(*ast.IfStmt); ok && ifp.Else == ast.Stmt(s) {
			role = ""
		}
	}
	// tail call: `return H(..)` - every return of H becomes a return of the caller
	tail := role == "return" && len(cand.defers) == 0
	noCont := cand.deferLit // the deferred literal may change the results after they are set
	// continuation inlining: `if v := H(..); v != nil { ...; return }` and
	// `if [!]H(..) { ...; return }` are rewritten so that every return of H
	// tests its own value and runs the caller's branch itself - the shape the
	// code had before the guards were extracted into H
	contKind, contVar := "", ""
	contAssign := false
	var contThen *ast.BlockStmt
	if ifs, ok := stmt.(*ast.IfStmt); ok && !noCont && ifs.Else == nil && (role == "ifinit" || role == "ifcond") && sig.Results().Len() == 1 && len(ifs.Body.List) > 0 {
		if endsWithJump(ifs.Body) && !bindsOutside(ifs.Body) {
			if role == "ifinit" {
				as := ifs.Init.(*ast.AssignStmt)
				if len(as.Lhs) == 1 {
					if vid, isId := as.Lhs[0].(*ast.Ident); isId && vid.Name != "_" {
						if be, isB := unparen(ifs.Cond).(*ast.BinaryExpr); isB && be.Op == token.NEQ && isNilIdent(info, be.Y) {
							if cid, isC := unparen(be.X).(*ast.Ident); isC && cid.Name == vid.Name {
								contKind, contVar, contThen = "nonnil", vid.Name, ifs.Body
							}
						}
					}
				}
			} else if bt, isB := sig.Results().At(0).Type().Underlying().(*types.Basic); isB && bt.Kind() == types.Bool {
				if _, neg := unparen(ifs.Cond).(*ast.UnaryExpr); neg {
					contKind, contThen = "false", ifs.Body
				} else {
					contKind, contThen = "true", ifs.Body
				}
			}
		}
	}
	// the two-statement form: v := H(..) ; if v != nil { ...; return }   (or  ok := H(..); if !ok {...})
	contEnd := stmt.End()
	contPre := ""
	contLHS := ""
	if as, ok := stmt.(*ast.AssignStmt); ok && !noCont && role == "assign" && contKind == "" && sig.Results().Len() == len(as.Lhs) && len(as.Lhs) >= 1 {
		allIdents := true
		var names []string
		for _, l := range as.Lhs {
			id, isId := l.(*ast.Ident)
			if !isId {
				allIdents = false
				break
			}
			names = append(names, id.Name)
		}
		var list []ast.Stmt
		switch par := p.Parent(caller.File, stmt).(type) {
		case *ast.BlockStmt:
			list = par.List
		case *ast.CaseClause:
			list = par.Body
		}
		for i, st := range list {
			if !allIdents || st != stmt || i+1 >= len(list) {
				continue
			}
			ifs, isIf := list[i+1].(*ast.IfStmt)
			if !isIf || ifs.Init != nil || ifs.Else != nil || len(ifs.Body.List) == 0 {
				continue
			}
			if !endsWithJump(ifs.Body) || bindsOutside(ifs.Body) {
				continue
			}
			cond := unparen(ifs.Cond)
			kind, tested := "", -1
			for k, nm := range names {
				if nm == "_" {
					continue
				}
				if be, isB := cond.(*ast.BinaryExpr); isB && be.Op == token.NEQ && isNilIdent(info, be.Y) {
					if cid, isC := unparen(be.X).(*ast.Ident); isC && cid.Name == nm {
						kind, tested = "nonnil", k
					}
				}
				if bt, isB := sig.Results().At(k).Type().Underlying().(*types.Basic); isB && bt.Kind() == types.Bool {
					if u, neg := cond.(*ast.UnaryExpr); neg && u.Op == token.NOT {
						if cid, isC := unparen(u.X).(*ast.Ident); isC && cid.Name == nm {
							kind, tested = "false", k
						}
					} else if cid, isC := cond.(*ast.Ident); isC && cid.Name == nm {
						kind, tested = "true", k
					}
				}
			}
			if kind == "" {
				continue
			}
			pre := ""
			okT := true
			if as.Tok == token.DEFINE {
				q := qualifierFor(caller.Pkg.Types, caller.File, info, &okT)
				for k, nm := range names {
					if nm == "_" {
						continue
					}
					// := may re-use a variable of the same scope; declaring it again would not compile
					if o := info.Defs[as.Lhs[k].(*ast.Ident)]; o == nil {
						continue
					}
					pre += "var " + nm + " " + types.TypeString(sig.Results().At(k).Type(), q) + "; _ = " + nm + "; "
				}
			}
			if !okT {
				continue
			}
			contKind, contVar, contThen, contEnd = kind, names[tested], ifs.Body, ifs.End()
			contPre = pre
			contAssign = true
			contLHS = strings.Join(names, ", ")
		}
	}
	if role == "" {
		return inlFail()
	}
	nres := sig.Results().Len()
	// result variables
	var rnames []string
	var decl strings.Builder
	named := fd.Type.Results != nil && len(fd.Type.Results.List) > 0 && len(fd.Type.Results.List[0].Names) > 0
	ri := 0
	if fd.Type.Results != nil {
		for _, fld := range fd.Type.Results.List {
			names := fld.Names
			if len(names) == 0 {
				names = []*ast.Ident{nil}
			}
			for _, nm := range names {
				rn := fmt.Sprintf("r%d%s", ri, tag)
				if nm != nil && nm.Name != "_" {
					if o := dinfo.Defs[nm]; o != nil {
						forceTag[o] = true
						rn = rename(o)
					}
				}
				rnames = append(rnames, rn)
				fmt.Fprintf(&decl, "var %s %s; _ = %s; ", rn, typeStr(sig.Results().At(ri).Type()), rn)
				ri++
			}
		}
	}
	var pdecl strings.Builder
	for i, b := range binds {
		if b.obj != nil {
			if _, isSub := subst[b.obj]; isSub {
				continue
			}
		}
		nmv := fmt.Sprintf("p%d%s", i, tag)
		var t types.Type
		if b.obj != nil {
			nmv = rename(b.obj)
			t = b.obj.Type()
		} else if sig.Recv() != nil && i == 0 {
			t = sig.Recv().Type()
		} else {
			k := i
			if sig.Recv() != nil {
				k--
			}
			t = sig.Params().At(k).Type()
		}
		if at := info.TypeOf(b.expr); at != nil && types.Identical(at, t) && b.text == ctext(b.expr) {
			fmt.Fprintf(&pdecl, "%s := %s; _ = %s; ", nmv, b.text, nmv)
		} else {
			fmt.Fprintf(&pdecl, "var %s %s = %s; _ = %s; ", nmv, typeStr(t), b.text, nmv)
		}
	}
	if !okQ {
		return inlFail()
	}
	label := "L" + tag
	// a loop to break out of is only needed when the callee returns early
	needLoop := false
	ast.Inspect(fd.Body, func(n ast.Node) bool {
		switch x := n.(type) {
		case *ast.FuncLit:
			return false
		case *ast.ReturnStmt:
			if len(fd.Body.List) == 0 || fd.Body.List[len(fd.Body.List)-1] != ast.Stmt(x) {
				needLoop = true
			}
		}
		return true
	})
	// body text with returns and defers rewritten
	var deferred []string
	for i := len(cand.defers) - 1; i >= 0; i-- {
		d := cand.defers[i]
		if lit, isLit := d.Call.Fun.(*ast.FuncLit); isLit {
			deferred = append(deferred, "\x00"+bodyEdits(lit.Body.Lbrace, lit.Body.Rbrace+1, nil))
			continue
		}
		deferred = append(deferred, bodyEdits(d.Call.Pos(), d.Call.End(), nil))
	}
	oneLine := func(d string) string {
		if strings.HasPrefix(d, "\x00") {
			return d[1:] // a block: its lines are kept
		}
		return strings.ReplaceAll(d, "\n", " ")
	}
	dtextAll := ""
	for _, d := range deferred {
		dtextAll += oneLine(d) + "; "
	}
	// the deferred calls a return at pos runs: those of the (top-level) defer
	// statements that precede it, last first
	deferredAt := func(pos token.Pos) string {
		out := ""
		for i := len(cand.defers) - 1; i >= 0; i-- {
			if cand.defers[i].Pos() < pos {
				out += oneLine(deferred[len(cand.defers)-1-i]) + "; "
			}
		}
		return out
	}
	// parameters and results of the helper: declared outside the block its body becomes
	outer := map[types.Object]bool{}
	for _, fl := range []*ast.FieldList{fd.Recv, fd.Type.Params, fd.Type.Results} {
		if fl == nil {
			continue
		}
		for _, fld := range fl.List {
			for _, nm := range fld.Names {
				if o := dinfo.Defs[nm]; o != nil {
					outer[o] = true
				}
			}
		}
	}
	extraFail := false
	extra := func(n ast.Node) (textEdit, bool, bool) {
		switch x := n.(type) {
		case *ast.FuncLit:
			// identifiers inside are still renamed, returns are the literal's own
			return textEdit{}, false, true
		case *ast.AssignStmt:
			// `f, err := g()` re-using a parameter or named result: in the helper both
			// live in one scope; here the body is a nested block, where := would
			// declare a new err.  Written out as declaration plus assignment.
			if x.Tok != token.DEFINE || inLit(fd.Body, x) {
				return textEdit{}, false, true
			}
			reuses := false
			for _, l := range x.Lhs {
				if id, ok := l.(*ast.Ident); ok && dinfo.Defs[id] == nil && outer[dinfo.Uses[id]] {
					reuses = true
				}
			}
			if !reuses {
				return textEdit{}, false, true
			}
			var sb strings.Builder
			var names []string
			for _, l := range x.Lhs {
				id, ok := l.(*ast.Ident)
				if !ok {
					extraFail = true
					return textEdit{}, false, true
				}
				if id.Name == "_" {
					names = append(names, "_")
					continue
				}
				if o := dinfo.Defs[id]; o != nil {
					ts := typeStr(o.Type())
					fmt.Fprintf(&sb, "var %s %s; _ = %s; ", rename(o), ts, rename(o))
					names = append(names, rename(o))
				} else if o := dinfo.Uses[id]; o != nil {
					names = append(names, rename(o))
				} else {
					extraFail = true
					return textEdit{}, false, true
				}
			}
			var rhs []string
			for _, r := range x.Rhs {
				rhs = append(rhs, bodyEditsRef(r.Pos(), r.End()))
			}
			sb.WriteString(strings.Join(names, ", ") + " = " + strings.Join(rhs, ", "))
			return textEdit{off(dfile, x.Pos()), off(dfile, x.End()), sb.String()}, true, false
		case *ast.DeferStmt:
			return textEdit{off(dfile, x.Pos()), off(dfile, x.End()), ""}, true, false
		case *ast.ReturnStmt:
			if inLit(fd.Body, x) {
				return textEdit{}, false, true
			}
			dtext := deferredAt(x.Pos())
			// the values returned: the expressions, or - a bare return - the named results
			var resTexts []string
			for _, r := range x.Results {
				resTexts = append(resTexts, bodyEdits(r.Pos(), r.End(), nil))
			}
			bareNamed := len(x.Results) == 0 && nres > 0 && named
			if bareNamed {
				resTexts = append(resTexts, rnames...)
			}
			if len(x.Results) == 0 && nres > 0 && !named {
				extraFail = true
				return textEdit{}, false, true
			}
			if tail {
				return textEdit{off(dfile, x.Pos()), off(dfile, x.End()), "return " + strings.ReplaceAll(strings.Join(resTexts, ", "), "\n", " ")}, true, false
			}
			if contKind != "" && len(resTexts) >= 1 && (len(resTexts) == 1 || contAssign) {
				then := string(csrc[off(cfile, contThen.Lbrace) : off(cfile, contThen.Rbrace)+1])
				parts := resTexts
				e := strings.ReplaceAll(strings.Join(parts, ", "), "\n", " ")
				var tv types.TypeAndValue
				if len(x.Results) == 1 {
					tv = dinfo.Types[x.Results[0]]
				} // otherwise the tested variable is read back from the assignment
				var sb strings.Builder
				sb.WriteString("{ ")
				if contAssign {
					// the variables stay visible after the statement pair
					// values assigned to _ are dropped (an untyped nil cannot be assigned to it)
					lhsNames := strings.Split(contLHS, ", ")
					if len(lhsNames) == len(parts) && strings.Contains(contLHS, "_") {
						var ln, rn []string
						for k, nm := range lhsNames {
							if nm == "_" {
								if k < len(x.Results) && !simpleExpr(x.Results[k]) {
									extraFail = true
								}
								// keep a local that is only returned here in use
								if k < len(x.Results) {
									if id, isId := unparen(x.Results[k]).(*ast.Ident); isId {
										if _, isVar := dinfo.Uses[id].(*types.Var); isVar {
											sb.WriteString("_ = " + strings.ReplaceAll(parts[k], "\n", " ") + "; ")
										}
									}
								}
								continue
							}
							ln = append(ln, nm)
							rn = append(rn, strings.ReplaceAll(parts[k], "\n", " "))
						}
						if len(ln) > 0 {
							sb.WriteString(strings.Join(ln, ", ") + " = " + strings.Join(rn, ", ") + "; " + dtext)
						} else {
							sb.WriteString(dtext)
						}
					} else {
						sb.WriteString(contLHS + " = " + e + "; " + dtext)
					}
					switch contKind {
					case "nonnil":
						if !tv.IsNil() {
							sb.WriteString("if " + contVar + " != nil " + then + "; ")
						}
					case "true":
						sb.WriteString("if " + contVar + " " + then + "; ")
					case "false":
						sb.WriteString("if !" + contVar + " " + then + "; ")
					}
					if needLoop {
						sb.WriteString("break " + label + " }")
					} else {
						sb.WriteString("}")
					}
					return textEdit{off(dfile, x.Pos()), off(dfile, x.End()), sb.String()}, true, false
				}
				if dtext != "" && contKind != "nonnil" {
					// the value is needed after the deferred calls: keep it in a temporary
					sb.WriteString("c" + tag + " := " + e + "; " + dtext)
					e = "c" + tag
					tv = types.TypeAndValue{}
				}
				switch contKind {
				case "nonnil":
					if !tv.IsNil() {
						decl := contVar + " := " + e
						if rt0 := sig.Results().At(0).Type(); tv.Type == nil || !types.Identical(tv.Type, rt0) {
							// the variable has the helper's result type, not the type of this value
							ts := typeStr(rt0)
							if !okQ {
								return textEdit{}, false, true
							}
							decl = "var " + contVar + " " + ts + " = " + e
						}
						sb.WriteString(decl + "; " + dtext + "if " + contVar + " != nil " + then + "; ")
					} else {
						sb.WriteString(dtext)
					}
				case "true", "false":
					cst := ""
					if tv.Value != nil {
						cst = tv.Value.String()
					}
					switch {
					case cst == contKind:
						sb.WriteString(then + "; ")
					case cst != "":
					case contKind == "true":
						sb.WriteString("if " + e + " " + then + "; ")
					default:
						sb.WriteString("if !(" + e + ") " + then + "; ")
					}
				}
				if needLoop {
					sb.WriteString("break " + label + " }")
				} else {
					sb.WriteString("}")
				}
				return textEdit{off(dfile, x.Pos()), off(dfile, x.End()), sb.String()}, true, false
			}
			var sb strings.Builder
			sb.WriteString("{ ")
			if len(x.Results) > 0 {
				var parts []string
				for _, r := range x.Results {
					parts = append(parts, bodyEdits(r.Pos(), r.End(), nil))
				}
				sb.WriteString(strings.Join(rnames, ", ") + " = " + strings.ReplaceAll(strings.Join(parts, ", "), "\n", " ") + "; ")
			} else if nres > 0 && !named {
				extraFail = true
				return textEdit{}, false, true
			}
			sb.WriteString(dtext)
			if needLoop {
				sb.WriteString("break " + label + " }")
			} else {
				sb.WriteString("}")
			}
			return textEdit{off(dfile, x.Pos()), off(dfile, x.End()), sb.String()}, true, false
		}
		return textEdit{}, false, true
	}
	body := bodyEdits(fd.Body.Lbrace+1, fd.Body.Rbrace, extra)
	if extraFail || !okQ {
		return inlFail()
	}
	endsWithReturn := false
	if n := len(fd.Body.List); n > 0 {
		_, endsWithReturn = fd.Body.List[n-1].(*ast.ReturnStmt)
	}
	if dtextAll != "" && !endsWithReturn {
		body += "; " + dtextAll
	}

	deferred = nil
	dline := p.Fset.PositionFor(fd.Body.Lbrace, false).Line
	sline := p.Fset.PositionFor(stmt.Pos(), false).Line
	eline := p.Fset.PositionFor(stmt.End(), false).Line
	var gen strings.Builder
	gen.WriteString(decl.String())
	gen.WriteString("{ " + pdecl.String() + "\n")
	fmt.Fprintf(&gen, "//line %s:%d\n", dfile.Name(), dline)
	if needLoop {
		gen.WriteString(label + ": for {" + body + "; break " + label + " }\n")
	} else {
		gen.WriteString("{" + body + "}\n")
	}
	for _, d := range deferred {
		gen.WriteString(d + "\n")
	}
	gen.WriteString("}\n")
	fmt.Fprintf(&gen, "//line %s:%d\n", cfile.Name(), sline)
	if tail {
		bare := false
		ast.Inspect(fd.Body, func(n ast.Node) bool {
			switch x := n.(type) {
			case *ast.FuncLit:
				return false
			case *ast.ReturnStmt:
				if len(x.Results) == 0 && nres > 0 {
					bare = true
				}
			}
			return true
		})
		endsRet := false
		if n := len(fd.Body.List); n > 0 {
			endsRet = terminating(fd.Body.List[n-1])
		}
		if !bare && endsRet {
			var g2 strings.Builder
			g2.WriteString("{ " + pdecl.String() + "\n")
			fmt.Fprintf(&g2, "//line %s:%d\n", dfile.Name(), dline)
			g2.WriteString("{" + body + "}\n}")
			fmt.Fprintf(&g2, "\n//line %s:%d\n", cfile.Name(), eline)
			return []textEdit{{off(cfile, stmt.Pos()), off(cfile, stmt.End()), g2.String()}}, stmt, true
		}
		return inlFail()
	}
	if contKind != "" {
		var g2 strings.Builder
		nd := ""
		if named {
			nd = decl.String() // the helper's named results are variables of its body
		}
		g2.WriteString(contPre + "{ " + nd + pdecl.String() + "\n")
		fmt.Fprintf(&g2, "//line %s:%d\n", dfile.Name(), dline)
		if needLoop {
			g2.WriteString(label + ": for {" + body + "; break " + label + " }\n")
		} else {
			g2.WriteString("{" + body + "}\n")
		}
		for _, d := range deferred {
			g2.WriteString(d + "\n")
		}
		g2.WriteString("}")
		fmt.Fprintf(&g2, "\n//line %s:%d\n", cfile.Name(), eline)
		return []textEdit{{off(cfile, stmt.Pos()), off(cfile, contEnd), g2.String()}}, stmt, true
	}
	// the original statement with the call replaced by the result variables
	repl := strings.Join(rnames, ", ")
	var eds []textEdit
	switch role {
	case "expr":
		eds = append(eds, textEdit{off(cfile, stmt.Pos()), off(cfile, stmt.End()), gen.String() + "_ = 0"})
	case "assign", "return", "ifcond", "ifinit":
		if nres == 0 {
			return inlFail()
		}
		eds = append(eds, textEdit{off(cfile, stmt.Pos()), off(cfile, stmt.Pos()), gen.String()})
		eds = append(eds, textEdit{off(cfile, call.Pos()), off(cfile, call.End()), repl})
	}
	if role != "ifcond" && role != "ifinit" {
		eds = append(eds, textEdit{off(cfile, stmt.End()), off(cfile, stmt.End()), fmt.Sprintf("\n//line %s:%d\n", cfile.Name(), eline)})
	}
	return eds, stmt, true
}

func inLit(root ast.Node, target ast.Node) bool {
	in := false
	ast.Inspect(root, func(n ast.Node) bool {
		if lit, ok := n.(*ast.FuncLit); ok {
			if lit.Pos() <= target.Pos() && target.End() <= lit.End() {
				in = true
			}
			return false
		}
		return true
	})
	return in
}

// simpleExpr: evaluating the expression twice, or at another point of the
// statement, cannot be observed (no calls, no channel operations).
func simpleExpr(e ast.Expr) bool {
	ok := true
	ast.Inspect(e, func(n ast.Node) bool {
		switch x := n.(type) {
		case *ast.CallExpr:
			// conversions and len/cap are fine
			if id, isId := unparen(x.Fun).(*ast.Ident); isId && (id.Name == "len" || id.Name == "cap") {
				return true
			}
			ok = false
		case *ast.UnaryExpr:
			if x.Op == token.ARROW {
				ok = false
			}
		case *ast.FuncLit:
			ok = false
		}
		return ok
	})
	return ok
}

// accessPath: an identifier or a selector chain over one (x, x.f, x.f.g), or a
// literal constant: can be repeated textually.  A receiver text such as
// &(x) / *(x) built above is not an access path of the original expression,
// so those go through a variable.
func accessPath(e ast.Expr) bool {
	switch x := unparen(e).(type) {
	case *ast.Ident:
		return x.Name != "_"
	case *ast.SelectorExpr:
		return accessPath(x.X)
	case *ast.BasicLit:
		return true
	}
	return false
}

// stableCallOperands: the receiver and arguments of the call are constants or
// local variables / parameters that the enclosing function assigns nowhere
// but at their declaration and whose address it never takes: evaluating them
// when the function returns gives what evaluating them now gives.
func (p *Program) stableCallOperands(cs *CallSite) bool {
	info := cs.In.Pkg.TypesInfo
	root := cs.In.Root()
	var ops []ast.Expr
	if sel, ok := unparen(cs.Call.Fun).(*ast.SelectorExpr); ok {
		if _, isSel := info.Selections[sel]; isSel {
			ops = append(ops, sel.X)
		}
	}
	ops = append(ops, cs.Call.Args...)
	vars := map[types.Object]bool{}
	for _, e := range ops {
		e = unparen(e)
		if tv, ok := info.Types[e]; ok && tv.Value != nil {
			continue
		}
		id, ok := e.(*ast.Ident)
		if !ok {
			return false
		}
		if id.Name == "nil" && info.Uses[id] == types.Universe.Lookup("nil") {
			continue
		}
		v, ok := info.Uses[id].(*types.Var)
		if !ok || v.IsField() || v.Parent() == nil || v.Parent() == v.Pkg().Scope() {
			return false
		}
		vars[v] = true
	}
	ok := true
	ast.Inspect(root.Body(), func(n ast.Node) bool {
		switch x := n.(type) {
		case *ast.AssignStmt:
			for _, l := range x.Lhs {
				if id, isId := unparen(l).(*ast.Ident); isId {
					if x.Tok == token.DEFINE && info.Defs[id] != nil {
						continue // its declaration
					}
					if vars[info.ObjectOf(id)] {
						ok = false
					}
				}
			}
		case *ast.IncDecStmt:
			if id, isId := unparen(x.X).(*ast.Ident); isId && vars[info.ObjectOf(id)] {
				ok = false
			}
		case *ast.UnaryExpr:
			if x.Op == token.AND {
				if id, isId := unparen(x.X).(*ast.Ident); isId && vars[info.ObjectOf(id)] {
					ok = false
				}
			}
		case *ast.RangeStmt:
			for _, e := range []ast.Expr{x.Key, x.Value} {
				if id, isId := e.(*ast.Ident); isId && x.Tok == token.ASSIGN && vars[info.ObjectOf(id)] {
					ok = false
				}
			}
		}
		return true
	})
	return ok
}

// sameGenericRecv: both are methods of the same generic type and spell its
// type parameters identically (func (x *T[A, B]) ...), so that the text of
// one is valid inside the other.
func sameGenericRecv(a, b *ast.FuncDecl) bool {
	if a == nil || b == nil || a.Recv == nil || b.Recv == nil || len(a.Recv.List) != 1 || len(b.Recv.List) != 1 {
		return false
	}
	strip := func(e ast.Expr) string {
		if st, ok := e.(*ast.StarExpr); ok {
			e = st.X
		}
		return types.ExprString(e)
	}
	sa, sb := strip(a.Recv.List[0].Type), strip(b.Recv.List[0].Type)
	return sa == sb && strings.Contains(sa, "[")
}

// inlFail: the call cannot be inlined (the line of the refusing test is shown with GALINT_DEBUG_NORM).
func inlFail() ([]textEdit, ast.Node, bool) {
	if os.Getenv("GALINT_DEBUG_NORM") != "" {
		_, _, line, _ := runtime.Caller(1)
		fmt.Fprintf(os.Stderr, "normalise: not inlined (normalise.go:%d)\n", line)
	}
	return nil, nil, false
}

// inlineLocalClosures: `v := func(a A) R { return E }` bound once to a local
// of fs, used only by calling it: every `v(x)` becomes E with x for a, and the
// definition disappears.  E is evaluated where the call was, with the same
// variables in scope (checked), so nothing observable changes.
func (p *Program) inlineLocalClosures(fs *FuncSrc, read func(string) []byte) ([]textEdit, int) {
	info := fs.Pkg.TypesInfo
	file := p.Fset.File(fs.Decl.Pos())
	if file == nil {
		return nil, 0
	}
	src := read(file.Name())
	if src == nil {
		return nil, 0
	}
	off := func(pos token.Pos) int { return file.Offset(pos) }
	okQ := true
	qual := qualifierFor(fs.Pkg.Types, fs.File, info, &okQ)
	var out []textEdit
	ncalls := 0
	ast.Inspect(fs.Decl.Body, func(n ast.Node) bool {
		as, ok := n.(*ast.AssignStmt)
		if !ok || as.Tok != token.DEFINE || len(as.Lhs) != 1 || len(as.Rhs) != 1 {
			return true
		}
		id, ok := as.Lhs[0].(*ast.Ident)
		lit, ok2 := as.Rhs[0].(*ast.FuncLit)
		if !ok || !ok2 || id.Name == "_" {
			return true
		}
		vobj := info.Defs[id]
		if vobj == nil || lit.Type.Results == nil || len(lit.Type.Results.List) != 1 || len(lit.Type.Results.List[0].Names) != 0 || len(lit.Body.List) != 1 {
			return true
		}
		ret, ok := lit.Body.List[0].(*ast.ReturnStmt)
		if !ok || len(ret.Results) != 1 {
			return true
		}
		E := ret.Results[0]
		etext := string(src[off(E.Pos()):off(E.End())])
		if strings.Contains(etext, "//") || strings.Contains(etext, "/*") {
			return true
		}
		hasLit := false
		ast.Inspect(E, func(m ast.Node) bool {
			if _, isLit := m.(*ast.FuncLit); isLit {
				hasLit = true
			}
			return true
		})
		if hasLit {
			return true
		}
		var params []*types.Var
		for _, fld := range lit.Type.Params.List {
			if len(fld.Names) == 0 {
				return true
			}
			if _, variadic := fld.Type.(*ast.Ellipsis); variadic {
				return true
			}
			for _, nm := range fld.Names {
				v, _ := info.Defs[nm].(*types.Var)
				if v == nil {
					return true
				}
				params = append(params, v)
			}
		}
		uses := map[*types.Var]int{}
		var free []*ast.Ident
		selOf := map[*ast.Ident]bool{}
		ast.Inspect(E, func(m ast.Node) bool {
			if se, isSel := m.(*ast.SelectorExpr); isSel {
				selOf[se.Sel] = true
			}
			if kv, isKV := m.(*ast.KeyValueExpr); isKV {
				if k, isId := kv.Key.(*ast.Ident); isId {
					if v, _ := info.Uses[k].(*types.Var); v != nil && v.IsField() {
						selOf[k] = true
					}
				}
			}
			return true
		})
		ast.Inspect(E, func(m ast.Node) bool {
			if x, isId := m.(*ast.Ident); isId && !selOf[x] {
				if v, _ := info.Uses[x].(*types.Var); v != nil {
					isParam := false
					for _, q := range params {
						if q == v {
							isParam = true
						}
					}
					if isParam {
						uses[v]++
					} else if !v.IsField() {
						free = append(free, x)
					}
				} else if o := info.Uses[x]; o != nil {
					if _, isPkg := o.(*types.PkgName); !isPkg && o.Parent() != types.Universe {
						free = append(free, x)
					}
				}
			}
			return true
		})
		// every use of v is a call v(args)
		var calls []*ast.CallExpr
		okUses := true
		ast.Inspect(fs.Decl.Body, func(m ast.Node) bool {
			if call, isCall := m.(*ast.CallExpr); isCall {
				if fid, isId := unparen(call.Fun).(*ast.Ident); isId && info.Uses[fid] == vobj {
					if len(call.Args) != len(params) || call.Ellipsis.IsValid() {
						okUses = false
					}
					calls = append(calls, call)
				}
			}
			return true
		})
		nuse := 0
		ast.Inspect(fs.Decl.Body, func(m ast.Node) bool {
			if x, isId := m.(*ast.Ident); isId && info.Uses[x] == vobj {
				nuse++
			}
			return true
		})
		if !okUses || nuse != len(calls) || len(calls) == 0 {
			return true
		}
		rt := info.TypeOf(lit).(*types.Signature).Results().At(0).Type()
		var eds []textEdit
		for _, call := range calls {
			// the free names of E mean the same at the call
			inner := fs.Pkg.Types.Scope().Innermost(call.Pos())
			for _, fid := range free {
				if inner == nil {
					return true
				}
				if _, o := inner.LookupParent(fid.Name, call.Pos()); o != info.Uses[fid] {
					return true
				}
			}
			var pe []textEdit
			bad := false
			for i, q := range params {
				a := call.Args[i]
				if !simpleExpr(a) || (uses[q] > 1 && !accessPath(a)) {
					if tv := info.Types[a]; tv.Value == nil {
						bad = true
					}
				}
			}
			if bad {
				return true
			}
			ast.Inspect(E, func(m ast.Node) bool {
				if x, isId := m.(*ast.Ident); isId {
					if v, _ := info.Uses[x].(*types.Var); v != nil {
						for i, q := range params {
							if q == v {
								a := call.Args[i]
								pe = append(pe, textEdit{off(x.Pos()), off(x.End()), "(" + strings.ReplaceAll(string(src[off(a.Pos()):off(a.End())]), "\n", " ") + ")"})
							}
						}
					}
				}
				return true
			})
			sort.Slice(pe, func(i, j int) bool { return pe[i].start > pe[j].start })
			base := off(E.Pos())
			b := append([]byte(nil), src[base:off(E.End())]...)
			for _, e := range pe {
				b = append(b[:e.start-base], append([]byte(e.text), b[e.end-base:]...)...)
			}
			text := "(" + strings.ReplaceAll(string(b), "\n", " ") + ")"
			if tv := info.Types[E]; tv.Value != nil || !types.Identical(tv.Type, rt) {
				ts := types.TypeString(rt, qual)
				if !okQ {
					return true
				}
				if strings.ContainsAny(ts, "*[ (") {
					ts = "(" + ts + ")"
				}
				text = ts + text
			}
			eds = append(eds, textEdit{off(call.Pos()), off(call.End()), text})
		}
		// calls nested in one another would overlap
		for i := range eds {
			for j := range eds {
				if i != j && eds[i].start < eds[j].end && eds[j].start < eds[i].end {
					return true
				}
			}
		}
		for _, e := range eds {
			for _, o := range out {
				if e.start < o.end && o.start < e.end {
					return true
				}
			}
		}
		// the definition goes (its lines stay)
		ds, de := off(as.Pos()), off(as.End())
		eds = append(eds, textEdit{ds, de, strings.Repeat("\n", strings.Count(string(src[ds:de]), "\n"))})
		out = append(out, eds...)
		ncalls += len(calls)
		return false
	})
	return out, ncalls
}

// endlessLoop: `for { ... }` without a condition and without a break that
// leaves it (a terminating statement: control never reaches what follows).
func endlessLoop(s ast.Stmt) bool {
	fs, ok := s.(*ast.ForStmt)
	if !ok || fs.Cond != nil {
		return false
	}
	leaves := false
	var walk func(n ast.Node, depth int)
	walk = func(n ast.Node, depth int) {
		ast.Inspect(n, func(m ast.Node) bool {
			if m == nil || m == n {
				return true
			}
			switch x := m.(type) {
			case *ast.FuncLit:
				return false
			case *ast.ForStmt, *ast.RangeStmt, *ast.SwitchStmt, *ast.TypeSwitchStmt, *ast.SelectStmt:
				walk(x, depth+1)
				return false
			case *ast.BranchStmt:
				if x.Tok == token.BREAK && (depth == 0 || x.Label != nil) {
					leaves = true
				}
				if x.Tok == token.GOTO {
					leaves = true
				}
			}
			return true
		})
	}
	walk(fs.Body, 0)
	return !leaves
}

// endsWithJump: control does not fall out of the end of the block (it ends
// in a return, a break/continue/goto, or a block that does).
func endsWithJump(b *ast.BlockStmt) bool {
	if b == nil || len(b.List) == 0 {
		return false
	}
	switch x := b.List[len(b.List)-1].(type) {
	case *ast.ReturnStmt:
		return true
	case *ast.BranchStmt:
		return x.Tok == token.BREAK || x.Tok == token.CONTINUE || x.Tok == token.GOTO
	case *ast.BlockStmt:
		return endsWithJump(x)
	}
	return false
}

// hoistableCondCall: the call sits inside the condition of an if statement
// (not as the whole condition, which inlineAt handles) at a place that is
// always evaluated, before anything with an effect: on the way up to the
// condition it is only ever an operand of a comparison or arithmetic
// operator, or the left operand of && / ||, and what stands to its left has
// no effect.  The if must stand directly in a block and have no init.
func (p *Program) hoistableCondCall(cs *CallSite) (ast.Stmt, bool) {
	file := cs.In.File
	info := cs.In.Pkg.TypesInfo
	var cur ast.Node = cs.Call
	for {
		par := p.Parent(file, cur)
		switch x := par.(type) {
		case *ast.ParenExpr:
			cur = x
			continue
		case *ast.UnaryExpr:
			if x.Op == token.ARROW || x.Op == token.AND {
				return hoistFail()
			}
			cur = x
			continue
		case *ast.BinaryExpr:
			if x.Y == cur {
				if x.Op == token.LAND || x.Op == token.LOR || !simpleExpr(x.X) {
					return hoistFail()
				}
			}
			cur = x
			continue
		case *ast.CallExpr:
			// an argument: the function and the arguments before it are evaluated first
			if x.Fun == cur {
				return hoistFail()
			}
			if !accessPath(x.Fun) {
				if _, isLit := x.Fun.(*ast.FuncLit); isLit || !simpleExpr(x.Fun) {
					return hoistFail()
				}
			}
			for _, a := range x.Args {
				if a == cur {
					break
				}
				if !simpleExpr(a) {
					return hoistFail()
				}
			}
			cur = x
			continue
		case *ast.AssignStmt:
			for _, l := range x.Lhs {
				if id, isId := l.(*ast.Ident); isId && id.Name == "_" {
					continue
				}
				if !accessPath(l) {
					return hoistFail()
				}
			}
			for _, r := range x.Rhs {
				if r == cur {
					break
				}
				if !simpleExpr(r) {
					return hoistFail()
				}
			}
			if len(x.Rhs) == 1 && unparen(x.Rhs[0]) == ast.Expr(cs.Call) {
				return hoistFail() // the plain form, inlined as it is
			}
			return p.hoistTarget(file, x, cs)
		case *ast.ExprStmt:
			if unparen(x.X) == ast.Expr(cs.Call) {
				return hoistFail()
			}
			return p.hoistTarget(file, x, cs)
		case *ast.ReturnStmt:
			for _, r := range x.Results {
				if r == cur {
					break
				}
				if !simpleExpr(r) {
					return hoistFail()
				}
			}
			if len(x.Results) == 1 && unparen(x.Results[0]) == ast.Expr(cs.Call) {
				return hoistFail()
			}
			return p.hoistTarget(file, x, cs)
		case *ast.IfStmt:
			if x.Cond != cur || x.Init != nil {
				return hoistFail()
			}
			if unparen(x.Cond) == ast.Expr(cs.Call) {
				return hoistFail()
			}
			if u, ok := unparen(x.Cond).(*ast.UnaryExpr); ok && u.Op == token.NOT && unparen(u.X) == ast.Expr(cs.Call) {
				return hoistFail()
			}
			switch pp := p.Parent(file, x).(type) {
			case *ast.BlockStmt, *ast.CaseClause, *ast.CommClause:
				_ = pp
			default:
				return hoistFail()
			}
			// a single result
			if tv, ok := info.Types[cs.Call]; !ok || tv.Type == nil {
				return hoistFail()
			} else if _, isTuple := tv.Type.(*types.Tuple); isTuple {
				return hoistFail()
			}
			return x, true
		}
		return hoistFail()
	}
}

// hoistTarget: the statement stands directly in a block and the call has a single result.
func (p *Program) hoistTarget(file *ast.File, st ast.Stmt, cs *CallSite) (ast.Stmt, bool) {
	switch p.Parent(file, st).(type) {
	case *ast.BlockStmt, *ast.CaseClause, *ast.CommClause:
	default:
		return nil, false
	}
	tv, ok := cs.In.Pkg.TypesInfo.Types[cs.Call]
	if !ok || tv.Type == nil {
		return nil, false
	}
	if _, isTuple := tv.Type.(*types.Tuple); isTuple {
		return nil, false
	}
	return st, true
}

// bindsOutside: the block contains an unlabelled break or continue that
// refers to a statement enclosing the block.  Such a block cannot be copied
// into the `for { ... }` wrapper of an inlined body: the jump would bind to
// the wrapper.
func bindsOutside(b *ast.BlockStmt) bool {
	found := false
	var walk func(n ast.Node, inLoop, inBreakable bool)
	walk = func(n ast.Node, inLoop, inBreakable bool) {
		ast.Inspect(n, func(m ast.Node) bool {
			if m == nil || m == n {
				return true
			}
			switch x := m.(type) {
			case *ast.FuncLit:
				return false
			case *ast.ForStmt, *ast.RangeStmt:
				walk(x, true, true)
				return false
			case *ast.SwitchStmt, *ast.TypeSwitchStmt, *ast.SelectStmt:
				walk(x, inLoop, true)
				return false
			case *ast.BranchStmt:
				if x.Label != nil {
					return true
				}
				if x.Tok == token.BREAK && !inBreakable {
					found = true
				}
				if x.Tok == token.CONTINUE && !inLoop {
					found = true
				}
			}
			return true
		})
	}
	walk(b, false, false)
	return found
}

func hoistFail() (ast.Stmt, bool) {
	if os.Getenv("GALINT_DEBUG_HOIST") != "" {
		_, _, line, _ := runtime.Caller(1)
		fmt.Fprintf(os.Stderr, "normalise: not hoisted (normalise.go:%d)\n", line)
	}
	return nil, false
}

// terminating: the statement never completes normally (Go's "terminating
// statement", without goto and labelled statements): a return, a panic, an
// endless loop, an if/else whose branches terminate, a switch with a default
// whose clauses all terminate and contain no break.
func terminating(s ast.Stmt) bool {
	switch x := s.(type) {
	case *ast.ReturnStmt:
		return true
	case *ast.ExprStmt:
		if call, ok := x.X.(*ast.CallExpr); ok {
			if id, ok := call.Fun.(*ast.Ident); ok && id.Name == "panic" {
				return true
			}
		}
		return false
	case *ast.BlockStmt:
		return len(x.List) > 0 && terminating(x.List[len(x.List)-1])
	case *ast.IfStmt:
		if x.Else == nil {
			return false
		}
		return terminating(x.Body) && terminating(x.Else)
	case *ast.ForStmt:
		return endlessLoop(x)
	case *ast.SwitchStmt, *ast.TypeSwitchStmt:
		var body *ast.BlockStmt
		if sw, ok := x.(*ast.SwitchStmt); ok {
			body = sw.Body
		} else {
			body = x.(*ast.TypeSwitchStmt).Body
		}
		hasDefault := false
		for _, cl := range body.List {
			cc, ok := cl.(*ast.CaseClause)
			if !ok {
				return false
			}
			if cc.List == nil {
				hasDefault = true
			}
			if len(cc.Body) == 0 {
				return false
			}
			last := cc.Body[len(cc.Body)-1]
			if br, isBr := last.(*ast.BranchStmt); isBr && br.Tok == token.FALLTHROUGH {
				continue
			}
			if !terminating(last) {
				return false
			}
		}
		if !hasDefault {
			return false
		}
		// no break that refers to the switch
		brk := false
		ast.Inspect(body, func(n ast.Node) bool {
			switch y := n.(type) {
			case *ast.FuncLit, *ast.ForStmt, *ast.RangeStmt, *ast.SelectStmt:
				return false
			case *ast.SwitchStmt, *ast.TypeSwitchStmt:
				return n == ast.Node(body) || false
			case *ast.BranchStmt:
				if y.Tok == token.BREAK {
					brk = true
				}
			}
			return true
		})
		return !brk
	}
	return false
}
