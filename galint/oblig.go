package main

// Obligations, verdicts, evidence and known-findings plumbing.

import (
	"encoding/json"
	"fmt"
	"go/token"
	"os"
	"path/filepath"
	"sort"
	"strings"
	"time"
)

type Status int

const (
	Discharged Status = iota
	Violated
	Undecided
)

func (s Status) String() string {
	switch s {
	case Discharged:
		return "discharged"
	case Violated:
		return "violated"
	}
	return "undecided"
}

// Obligation is one instance of a rule on the analysed tree.
type Obligation struct {
	Rule   string `json:"rule"`
	Key    string `json:"key"` // stable: function + construct + role, never a line number
	Pos    string `json:"pos"`
	Status string `json:"status"`
	Detail string `json:"detail,omitempty"`
	st     Status
}

// RuleInfo documents a rule for the evidence file.
type RuleInfo struct {
	ID     string `json:"id"`
	Engine string `json:"engine"`
	Text   string `json:"text"`
	Min    int    `json:"min_instances"`
	Count  int    `json:"instances"`
	OK     int    `json:"discharged"`
}

// Ctx collects the obligations of one property check on one program.
type Ctx struct {
	Prop   string
	P      *Program
	obls   []*Obligation
	rules  map[string]*RuleInfo
	order  []string
	notes  []string
	seen   map[string]bool
	assume []string
}

func NewCtx(prop string, p *Program) *Ctx {
	return &Ctx{Prop: prop, P: p, rules: map[string]*RuleInfo{}, seen: map[string]bool{}}
}

// Rule declares a rule and the minimum number of instances confirmed by hand
// on the pinned tree.
func (c *Ctx) Rule(id, engine, text string, min int) {
	if _, ok := c.rules[id]; ok {
		return
	}
	c.rules[id] = &RuleInfo{ID: id, Engine: engine, Text: text, Min: min}
	c.order = append(c.order, id)
}

func (c *Ctx) Assume(s string) {
	for _, a := range c.assume {
		if a == s {
			return
		}
	}
	c.assume = append(c.assume, s)
}

func (c *Ctx) Note(format string, a ...any) { c.notes = append(c.notes, fmt.Sprintf(format, a...)) }

func (c *Ctx) add(rule, key string, pos token.Pos, st Status, detail string) {
	if _, ok := c.rules[rule]; !ok {
		panic("obligation for undeclared rule " + rule)
	}
	k := rule + "|" + key
	if c.seen[k] {
		// same construct reported twice: a failing verdict wins
		for _, o := range c.obls {
			if o.Rule == rule && o.Key == key {
				if o.st == Discharged && st != Discharged {
					o.st, o.Status, o.Detail = st, st.String(), detail
				}
				return
			}
		}
	}
	c.seen[k] = true
	ps := "-"
	if c.P != nil {
		ps = c.P.PosStr(pos)
	}
	c.obls = append(c.obls, &Obligation{Rule: rule, Key: key, Pos: ps, Status: st.String(), Detail: detail, st: st})
}

func (c *Ctx) OK(rule, key string, pos token.Pos, format string, a ...any) {
	c.add(rule, key, pos, Discharged, fmt.Sprintf(format, a...))
}
func (c *Ctx) Bad(rule, key string, pos token.Pos, format string, a ...any) {
	c.add(rule, key, pos, Violated, fmt.Sprintf(format, a...))
}
func (c *Ctx) Unknown(rule, key string, pos token.Pos, format string, a ...any) {
	c.add(rule, key, pos, Undecided, fmt.Sprintf(format, a...))
}

// Check records OK when cond holds and Bad otherwise.
func (c *Ctx) Check(cond bool, rule, key string, pos token.Pos, okDetail, badDetail string) {
	if cond {
		c.OK(rule, key, pos, "%s", okDetail)
	} else {
		c.Bad(rule, key, pos, "%s", badDetail)
	}
}

// finish enforces the minimum instance counts.
func (c *Ctx) finish() {
	for _, id := range c.order {
		r := c.rules[id]
		r.Count, r.OK = 0, 0
		for _, o := range c.obls {
			if o.Rule == id {
				r.Count++
				if o.st == Discharged {
					r.OK++
				}
			}
		}
	}
	for _, id := range c.order {
		r := c.rules[id]
		if r.Count < r.Min {
			c.obls = append(c.obls, &Obligation{
				Rule: id, Key: "instance-count", Pos: "-", Status: Undecided.String(), st: Undecided,
				Detail: fmt.Sprintf("rule matched %d instances, fewer than the %d confirmed by hand on the pinned tree: the rule's anchors no longer cover the code", r.Count, r.Min),
			})
			r.Count++
		}
	}
	sort.SliceStable(c.obls, func(i, j int) bool {
		if c.obls[i].Rule != c.obls[j].Rule {
			return ruleLess(c.obls[i].Rule, c.obls[j].Rule)
		}
		return c.obls[i].Key < c.obls[j].Key
	})
}

func ruleLess(a, b string) bool {
	pa, pb := strings.Split(strings.TrimPrefix(a, "R"), "."), strings.Split(strings.TrimPrefix(b, "R"), ".")
	for i := 0; i < len(pa) && i < len(pb); i++ {
		var x, y int
		fmt.Sscanf(pa[i], "%d", &x)
		fmt.Sscanf(pb[i], "%d", &y)
		if x != y {
			return x < y
		}
		if pa[i] != pb[i] {
			return pa[i] < pb[i]
		}
	}
	return len(pa) < len(pb)
}

// ---------- known findings ----------

type KnownFinding struct {
	Property string `json:"property"`
	Rule     string `json:"rule"`
	Key      string `json:"key"`
	Status   string `json:"status"` // "known" or "fixed"
	Commit   string `json:"commit,omitempty"`
	What     string `json:"what"`
}

func loadKnown(path string) ([]KnownFinding, error) {
	b, err := os.ReadFile(path)
	if err != nil {
		if os.IsNotExist(err) {
			return nil, nil
		}
		return nil, err
	}
	var v struct {
		Findings []KnownFinding `json:"findings"`
	}
	if err := json.Unmarshal(b, &v); err != nil {
		return nil, err
	}
	return v.Findings, nil
}

// ---------- evidence ----------

type Evidence struct {
	PropertyID  string         `json:"property_id"`
	Tier        string         `json:"tier"`
	Seed        int            `json:"seed"`
	Level       string         `json:"level"`
	Coverage    map[string]any `json:"coverage"`
	Assumptions []string       `json:"assumptions"`
	WallS       float64        `json:"wall_s"`
	Violations  int            `json:"violations"`
}

type runResult struct {
	cfg   BuildConfig
	ctx   *Ctx
	stats map[string]any
}

type propOutcome struct {
	violations []*Obligation // not suppressed
	known      []*Obligation
	knownWhat  map[*Obligation]string
}

// verdict partitions failing obligations into known findings and violations.
func verdict(prop string, obls []*Obligation, known []KnownFinding) propOutcome {
	out := propOutcome{knownWhat: map[*Obligation]string{}}
	for _, o := range obls {
		if o.st == Discharged {
			continue
		}
		matched := false
		for _, k := range known {
			if k.Property == prop && k.Rule == o.Rule && k.Key == o.Key && k.Status == "known" && o.st == Violated {
				out.known = append(out.known, o)
				out.knownWhat[o] = k.What
				matched = true
				break
			}
		}
		if !matched {
			out.violations = append(out.violations, o)
		}
	}
	return out
}

func writeJSON(path string, v any) error {
	b, err := json.MarshalIndent(v, "", " ")
	if err != nil {
		return err
	}
	if err := os.MkdirAll(filepath.Dir(path), 0o755); err != nil {
		return err
	}
	return os.WriteFile(path, append(b, '\n'), 0o644)
}

func elapsed(t0 time.Time) float64 {
	return float64(time.Since(t0).Milliseconds()) / 1000
}
