package main

import (
	"fmt"
	"go/ast"
	"go/token"
	"go/types"
	"strings"

	"golang.org/x/tools/go/ssa"
)

func init() {
	register(&Property{
		ID:        "C01",
		Title:     "Forwarded sequence numbers stay gap-free, unique and ordered under drops",
		Technique: "affine transfer-function summaries on SSA (packetmap.Drop / Map / direct / Reverse), must-facts (Drop only on the next in-order packet), CFG path rules and value provenance on rtpDownTrack.Write, who-may-call on the RTP write",
		Decides: "R1.1: a successful Drop changes the state by exactly delta-1, next=seqno+1, nextPid=pid; a refused Drop stores nothing. " +
			"R1.2: every store of Drop is dominated by seqno == m.next (an offset never changes retroactively). " +
			"R1.3: every successful return of Map/direct is exactly seqno + (the current delta | the delta of one interval), the identity only while delta == 0 and no interval was ever recorded (entries == nil), or after a reset; what Map returns for an in-order packet is what addMapping records ((seqno, delta), interval ending at seqno) and every such branch advances next to seqno+1; direct and Reverse use one cursor and apply an interval's delta only behind the membership test [F, F+count) with F = first (direct) or first+delta (Reverse, the image); Reverse returns seqno - delta; the interval created by the first Drop is the identity on [seqno-8192, seqno). " +
			"R1.4: in Write a successful Drop or a failed Map forwards nothing; the seqno handed to the rewriter is the map's result; the un-rewritten fast path is taken only when the mapped seqno equals the source seqno, the picture-id delta is zero and no marker is to be set; only rtpDownTrack.write calls the RTP track's Write, and only Write calls it.",
		NotDecided: []string{
			"correctness of addMapping's interval expansion and of the ring search under reordering, duplicates and wrap-around",
			"the 8192 re-synchronisation window and the state reached from a zero-valued map (start seqnos in 0xE000-0xFFFF: a value-level fact about next == 0)",
		},
		NeedSSA: true,
		Run:     runC01,
	})
}

func runC01(c *Ctx) {
	p := c.P
	c.Rule("R1.1", "E6", "transfer function of Drop", 4)
	c.Rule("R1.2", "E2", "stores of Drop only for the next in-order packet", 3)
	c.Rule("R1.3", "E6", "Map/direct return seqno + delta; Reverse is the affine inverse", 8)
	c.Rule("R1.4", "E3/E4", "composition in rtpDownTrack.Write; nothing bypasses the map", 7)
	dr := p.Func("packetmap", "Map", "Drop")
	mp := p.Func("packetmap", "Map", "Map")
	di := p.Func("packetmap", "Map", "direct")
	rv := p.Func("packetmap", "Map", "Reverse")
	wr := p.Func("rtpconn", "rtpDownTrack", "Write")
	if dr == nil || mp == nil || di == nil || rv == nil || wr == nil {
		c.Unknown("R1.1", "anchors", 0, "packetmap.Drop/Map/direct/Reverse or rtpDownTrack.Write not found")
		return
	}
	eng := p.Facts()

	pmDropRules(c, "R1.1", "R1.2")

	pmMappingRules(c, "R1.3")

	// ---- R1.4 : Write ----
	{
		ff := eng.Analyze(wr)
		info := wr.Pkg.TypesInfo
		var dropc, mapc, rpc *ast.CallExpr
		var writes []*ast.CallExpr
		ast.Inspect(wr.Body(), func(n ast.Node) bool {
			call, ok := n.(*ast.CallExpr)
			if !ok {
				return true
			}
			f := calleeOf(&CallSite{Call: call, In: wr})
			switch {
			case fnIs(f, "packetmap", "Map", "Drop"):
				dropc = call
			case fnIs(f, "packetmap", "Map", "Map"):
				mapc = call
			case fnIs(f, "codecs", "", "RewritePacket"):
				rpc = call
			case fnIs(f, "rtpconn", "rtpDownTrack", "write"):
				writes = append(writes, call)
			}
			return true
		})
		if dropc == nil || mapc == nil || rpc == nil || len(writes) != 2 {
			c.Bad("R1.4", "Write: Drop, Map, rewrite, write", wr.Pos(), "Write no longer has the Drop / Map / RewritePacket / write structure")
		} else {
			dropOK := mkFact(true, "true", &Term{K: 'r', Name: "res0", Pos: dropc.Lparen}, nil)
			mapFail := mkFact(false, "true", &Term{K: 'r', Name: "res0", Pos: mapc.Lparen}, nil)
			okA, okB := true, true
			// no path from a successful Drop reaches a write
			isDropNeg := func(f *Fact) bool {
				if f.Op != "true" || f.Pos {
					return false
				}
				if f.A.String() == dropOK.A.String() {
					return true
				}
				return false
			}
			if _, found := ff.PathSearch(dropc, 0, func(n ast.Node, st *State, flag int) (int, bool) {
				hit := false
				ast.Inspect(n, func(m ast.Node) bool {
					for _, w := range writes {
						if m == ast.Node(w) {
							hit = true
						}
					}
					return true
				})
				if hit {
					return 1, false
				}
				return flag, false
			}, isDropNeg, func(flag int) bool { return flag == 1 }); found {
				okA = false
				// `if cond && Drop(..) { return }`: Drop is the last conjunct of
				// an if whose body forwards nothing; on the false edge Drop was
				// either not called or refused
				for n := p.Parent(wr.File, dropc); n != nil; n = p.Parent(wr.File, n) {
					ifs, isIf := n.(*ast.IfStmt)
					if !isIf {
						if _, isStmt := n.(ast.Stmt); isStmt {
							break
						}
						continue
					}
					cj := conjuncts(ifs.Cond)
					if len(cj) > 0 && unparen(cj[len(cj)-1]) == ast.Expr(dropc) && ifs.Else == nil {
						noWrite := true
						ast.Inspect(ifs.Body, func(m ast.Node) bool {
							for _, w := range writes {
								if m == ast.Node(w) {
									noWrite = false
								}
							}
							return true
						})
						if _, endsRet := ifs.Body.List[len(ifs.Body.List)-1].(*ast.ReturnStmt); endsRet && noWrite {
							okA = true
						}
					}
					break
				}
			}
			for _, w := range writes {
				if reach, _ := ff.ReachableNotRefuting(w, factsConj(mapFail)); reach {
					okB = false
				}
				if !ff.DominatedByNode(w, mapc) {
					okB = false
				}
			}
			c.Check(okA, "R1.4", "a withheld packet is never forwarded", dropc.Pos(), "no write is reachable once Drop returned true", "a packet recorded as dropped can still be written to the receiver: its number was given away")
			c.Check(okB, "R1.4", "an unmappable packet is never forwarded", mapc.Pos(), "every write is dominated by Map(...) returning ok", "a packet is forwarded without a mapped sequence number")
			// seqno argument of the rewriter is result #1 of Map
			st, _ := ff.At(rpc)
			okSeq := false
			if t := ff.term(rpc.Args[3]); t != nil && st != nil && st.HasFact(mkFact(true, "eq", t, &Term{K: 'r', Name: "res1", Pos: mapc.Lparen})) {
				okSeq = true
			}
			c.Check(okSeq, "R1.4", "the rewritten seqno is the map's result", rpc.Pos(), "RewritePacket(..., newseqno, ...) with newseqno = result #1 of Map", "the number written into the packet is not the one the map handed out")
			// the rewrite must not touch the caller's buffer: the writer loop hands
			// the same bytes to the next receiver, which would then parse this
			// receiver's mapped number as the source number
			okOwn := false
			if se, ok := unparen(rpc.Args[1]).(*ast.SliceExpr); ok {
				if id, ok := unparen(se.X).(*ast.Ident); ok {
					obj := wr.Pkg.TypesInfo.Uses[id]
					isParam := false
					for _, po := range wr.params(wr.Pkg.TypesInfo) {
						if po != nil && po == obj {
							isParam = true
						}
					}
					okOwn = obj != nil && !isParam
				}
			}
			c.Check(okOwn, "R1.4", "the mapped number is written into a private copy", rpc.Pos(), "RewritePacket works on a local buffer, not on Write's parameter", "the packet is renumbered in the caller's buffer, which the writer loop passes on to the next receiver: that receiver maps an already mapped number")
			// the arguments of Drop and Map are the packet's own seqno
			okArgs := types.ExprString(dropc.Args[0]) == "flags.Seqno" && types.ExprString(mapc.Args[0]) == "flags.Seqno"
			c.Check(okArgs, "R1.4", "Drop and Map are asked about the packet's own seqno", mapc.Pos(), "flags.Seqno", "the map is consulted with another number than the packet's")
			// fast path
			fast := writes[0]
			for _, w := range writes {
				// the unrewritten path is the one that writes Write's own parameter
				if id, ok := unparen(w.Args[0]).(*ast.Ident); ok {
					for _, po := range wr.params(wr.Pkg.TypesInfo) {
						if po != nil && wr.Pkg.TypesInfo.Uses[id] == po {
							fast = w
						}
					}
				}
			}
			stF, _ := ff.At(fast)
			okFast := false
			if stF != nil {
				r1 := &Term{K: 'r', Name: "res1", Pos: mapc.Lparen}
				r2 := &Term{K: 'r', Name: "res2", Pos: mapc.Lparen}
				same, zero, nomark := false, false, false
				for _, f := range stF.Facts() {
					if f.Op == "eq" && f.Pos && f.B != nil {
						for _, pr := range [][2]*Term{{f.A, f.B}, {f.B, f.A}} {
							if (pr[0].String() == r1.String() || stF.EqualUnder(pr[0], r1)) && strings.HasSuffix(pretty(pr[1].String()), "flags.Seqno") {
								same = true
							}
							if (pr[0].String() == r2.String() || stF.EqualUnder(pr[0], r2)) && pr[1].Name == "0" {
								zero = true
							}
						}
					}
					if f.Op == "true" && !f.Pos && f.A.K == 'v' && f.A.Obj.Name() == "setMarker" {
						nomark = true
					}
				}
				okFast = same && zero && nomark
			}
			c.Check(okFast, "R1.4", "unrewritten fast path only for identical packets", fast.Pos(), "down.write(buf) under newseqno == flags.Seqno && piddelta == 0 && !setMarker", "a packet can be forwarded unrewritten although its mapped number differs")
		}
		_ = info
		// who may call the RTP write
		wfn := p.Func("rtpconn", "rtpDownTrack", "write")
		okWho := wfn != nil
		var who []string
		for _, cs := range p.CallSites() {
			f := calleeOf(cs)
			if f != nil && f.Name() == "Write" && recvNamed(f) == "TrackLocalStaticRTP" {
				who = append(who, cs.In.Name)
				if cs.In != wfn {
					okWho = false
				}
			}
			if wfn != nil && fnIs(f, "rtpconn", "rtpDownTrack", "write") && cs.In != wr {
				okWho = false
				who = append(who, "write called from "+cs.In.Name)
			}
		}
		c.Check(okWho && len(who) > 0, "R1.4", "nothing bypasses the seqno map", wr.Pos(), "TrackLocalStaticRTP.Write is called only from rtpDownTrack.write, itself only from rtpDownTrack.Write", "RTP is written to a receiver without going through the map: "+strings.Join(who, ", "))
	}
}

// returnVals resolves the results of a return through the result slots that
// go/ssa introduces in functions with defers: the value is the last store to
// the slot in the returning block.
func returnVals(r *ssa.Return) []ssa.Value {
	out := make([]ssa.Value, len(r.Results))
	for i, v := range r.Results {
		out[i] = v
		u, ok := v.(*ssa.UnOp)
		if !ok || u.Op != token.MUL {
			continue
		}
		al, ok := u.X.(*ssa.Alloc)
		if !ok {
			continue
		}
		for _, ins := range r.Block().Instrs {
			if ins == ssa.Instruction(u) {
				break
			}
			if st, ok := ins.(*ssa.Store); ok && st.Addr == ssa.Value(al) {
				out[i] = st.Val
			}
		}
		// `return x, index` with named results spilled for a defer re-stores each slot
		// with a load of itself: follow such loads to the store before them
		for depth := 0; depth < 6; depth++ {
			lu, ok := out[i].(*ssa.UnOp)
			if !ok || lu.Op != token.MUL {
				break
			}
			la, ok := lu.X.(*ssa.Alloc)
			if !ok {
				break
			}
			var prev ssa.Value
			for _, ins := range lu.Block().Instrs {
				if ins == ssa.Instruction(lu) {
					break
				}
				if st, ok := ins.(*ssa.Store); ok && st.Addr == ssa.Value(la) {
					prev = st.Val
				}
			}
			if prev == nil {
				// a single store in a dominating block
				var only *ssa.Store
				n := 0
				for _, ref := range *la.Referrers() {
					if st, ok := ref.(*ssa.Store); ok && st.Addr == ssa.Value(la) {
						n++
						only = st
					}
				}
				if n == 1 && only.Block().Dominates(lu.Block()) {
					prev = only.Val
				}
			}
			if prev == nil {
				break
			}
			out[i] = prev
		}
	}
	return out
}

// recvNamed returns the name of the receiver's named type ("" for functions).
func recvNamed(f *types.Func) string {
	sig, _ := f.Type().(*types.Signature)
	if sig == nil || sig.Recv() == nil {
		return ""
	}
	t := sig.Recv().Type()
	if pt, ok := t.(*types.Pointer); ok {
		t = pt.Elem()
	}
	if n, ok := t.(*types.Named); ok {
		return n.Obj().Name()
	}
	return ""
}

// sameBase reports whether two field addresses select fields of the same struct value.
func sameBase(a, b ssa.Value) bool {
	fa, ok1 := a.(*ssa.FieldAddr)
	fb, ok2 := b.(*ssa.FieldAddr)
	return ok1 && ok2 && fa.X == fb.X
}

// pmMappingRules decides the rules about the values packetmap hands out,
// records and reverses (shared by C01, rule R1.3, and C03, rule R3.2).
func pmMappingRules(c *Ctx, rule string) {
	p := c.P
	dr := p.Func("packetmap", "Map", "Drop")
	mp := p.Func("packetmap", "Map", "Map")
	di := p.Func("packetmap", "Map", "direct")
	rv := p.Func("packetmap", "Map", "Reverse")
	if dr == nil || mp == nil || di == nil || rv == nil {
		c.Unknown(rule, "anchors", 0, "packetmap.Drop/Map/direct/Reverse not found")
		return
	}
	fDelta := p.Field("packetmap", "Map", "delta")
	fNext := p.Field("packetmap", "Map", "next")
	eDelta := p.Field("packetmap", "entry", "delta")
	eFirst := p.Field("packetmap", "entry", "first")
	eCount := p.Field("packetmap", "entry", "count")
	// ---- R1.3 : Map / direct / Reverse ----
	{
		smp, sdi, srv := p.SSAFunc(mp.Obj), p.SSAFunc(di.Obj), p.SSAFunc(rv.Obj)
		strip := func(v ssa.Value) ssa.Value {
			for {
				switch x := v.(type) {
				case *ssa.Convert:
					v = x.X
				case *ssa.ChangeType:
					v = x.X
				default:
					return v
				}
			}
		}
		// onTrueEdgeOf reports whether block b is only reachable through the
		// true edge of a test "m.delta == 0"
		underDeltaZero := func(b *ssa.BasicBlock) bool {
			for x := b; x != nil; x = x.Idom() {
				if len(x.Preds) != 1 {
					continue
				}
				pr := x.Preds[0]
				iff, ok := pr.Instrs[len(pr.Instrs)-1].(*ssa.If)
				if !ok || pr.Succs[0] != x {
					continue
				}
				if bo, ok := iff.Cond.(*ssa.BinOp); ok && bo.Op == token.EQL && isLoadOfField(bo.X, fDelta) {
					if k, isC := bo.Y.(*ssa.Const); isC && k.Int64() == 0 {
						return true
					}
				}
			}
			return false
		}
		fEntries := p.Field("packetmap", "Map", "entries")
		underNoEntries := func(b *ssa.BasicBlock) bool {
			for x := b; x != nil; x = x.Idom() {
				if len(x.Preds) != 1 {
					continue
				}
				pr := x.Preds[0]
				iff, ok := pr.Instrs[len(pr.Instrs)-1].(*ssa.If)
				if !ok || pr.Succs[0] != x {
					continue
				}
				if bo, ok := iff.Cond.(*ssa.BinOp); ok && bo.Op == token.EQL && isLoadOfField(bo.X, fEntries) {
					if k, isC := bo.Y.(*ssa.Const); isC && k.Value == nil {
						return true
					}
				}
			}
			return false
		}
		afterReset := func(r *ssa.Return) bool {
			for _, ins := range r.Block().Instrs {
				if call, ok := ins.(*ssa.Call); ok && call.Call.StaticCallee() != nil && call.Call.StaticCallee().Name() == "reset" {
					return true
				}
			}
			return false
		}
		checkReturns := func(fn *ssa.Function, name string, inverse bool) {
			seqP := ssa.Value(fn.Params[1])
			var bad []string
			n := 0
			for _, b := range fn.Blocks {
				r, isR := b.Instrs[len(b.Instrs)-1].(*ssa.Return)
				if !isR || len(r.Results) != 3 || b == fn.Recover {
					continue
				}
				rv := returnVals(r)
				okv := rv[0]
				if k, isC := okv.(*ssa.Const); isC && k.Value != nil && k.Value.String() == "false" {
					continue
				}
				v := strip(rv[1])
				if ex, isEx := v.(*ssa.Extract); isEx {
					// tail call of direct(seqno)
					call, isCall := ex.Tuple.(*ssa.Call)
					if !isCall || call.Call.StaticCallee() != sdi || call.Call.Args[1] != seqP || ex.Index != 1 {
						bad = append(bad, p.PosStr(r.Pos())+" (not direct(seqno))")
					}
					if ex0, ok := okv.(*ssa.Extract); !ok || ex0.Tuple != ex.Tuple || ex0.Index != 0 {
						bad = append(bad, p.PosStr(r.Pos())+" (ok is not direct's)")
					}
					n++
					continue
				}
				n++
				switch {
				case v == seqP:
					// identity: only while no packet was ever dropped, or after a reset
					if !(underDeltaZero(b) && underNoEntries(b)) && !afterReset(r) {
						bad = append(bad, p.PosStr(r.Pos())+" (identity although the offset may be non-zero or intervals are recorded)")
					}
				default:
					bo, isB := v.(*ssa.BinOp)
					okForm := false
					if isB && !inverse && bo.Op == token.ADD {
						x, y := strip(bo.X), strip(bo.Y)
						okForm = (x == seqP && (isLoadOfField(y, fDelta) || isLoadOfField(y, eDelta))) || (y == seqP && (isLoadOfField(x, fDelta) || isLoadOfField(x, eDelta)))
					}
					if isB && inverse && bo.Op == token.SUB {
						okForm = strip(bo.X) == seqP && isLoadOfField(strip(bo.Y), eDelta)
					}
					if !okForm {
						bad = append(bad, p.PosStr(r.Pos()))
					}
				}
			}
			what := "seqno + delta (seqno itself only while delta == 0 or after a reset)"
			if inverse {
				what = "seqno - interval delta (seqno itself only while delta == 0)"
			}
			c.Check(len(bad) == 0 && n > 0, rule, name+": successful returns are "+what, fn.Pos(), fmt.Sprintf("%d successful returns analysed", n), "a mapping is not of the form "+what+" (returns at "+strings.Join(bad, ", ")+")")
		}
		checkReturns(smp, "Map", false)
		checkReturns(sdi, "direct", false)
		checkReturns(srv, "Reverse", true)
		// interval search: one cursor, membership test [F, F+count) with F =
		// first (direct) or first+delta (Reverse) guards the successful return
		checkSearch := func(fn *ssa.Function, name string, image bool) {
			seqP := ssa.Value(fn.Params[1])
			var cursor ssa.Value
			single := true
			fEnt := p.Field("packetmap", "Map", "entries")
			for _, b := range fn.Blocks {
				for _, ins := range b.Instrs {
					ia, ok := ins.(*ssa.IndexAddr)
					if !ok || !isLoadOfField(ia.X, fEnt) {
						continue
					}
					if cursor == nil {
						cursor = ia.Index
					} else if cursor != ia.Index {
						single = false
					}
				}
			}
			isF := func(v ssa.Value) bool {
				v = strip(v)
				if !image {
					return isLoadOfField(v, eFirst)
				}
				bo, ok := v.(*ssa.BinOp)
				return ok && bo.Op == token.ADD && ((isLoadOfField(bo.X, eFirst) && isLoadOfField(bo.Y, eDelta)) || (isLoadOfField(bo.Y, eFirst) && isLoadOfField(bo.X, eDelta)))
			}
			isFplusCount := func(v ssa.Value) bool {
				bo, ok := strip(v).(*ssa.BinOp)
				return ok && bo.Op == token.ADD && ((isF(bo.X) && isLoadOfField(bo.Y, eCount)) || (isF(bo.Y) && isLoadOfField(bo.X, eCount)))
			}
			// cmpTest: cond is compare(seqno, X) rel 0, normalised to the orientation seqno ? X
			cmpTest := func(cond ssa.Value) (ssa.Value, token.Token, bool) {
				bo, ok := cond.(*ssa.BinOp)
				if !ok {
					return nil, 0, false
				}
				call, ok := bo.X.(*ssa.Call)
				if !ok || call.Call.StaticCallee() == nil || call.Call.StaticCallee().Name() != "compare" {
					return nil, 0, false
				}
				if k, isC := bo.Y.(*ssa.Const); !isC || k.Int64() != 0 {
					return nil, 0, false
				}
				a0, a1 := call.Call.Args[0], call.Call.Args[1]
				if a0 == seqP {
					return a1, bo.Op, true
				}
				if a1 == seqP {
					flip := map[token.Token]token.Token{token.LSS: token.GTR, token.GTR: token.LSS, token.LEQ: token.GEQ, token.GEQ: token.LEQ, token.EQL: token.EQL, token.NEQ: token.NEQ}
					return a0, flip[bo.Op], true
				}
				return nil, 0, false
			}
			guarded := false
			for _, b := range fn.Blocks {
				r, isR := b.Instrs[len(b.Instrs)-1].(*ssa.Return)
				if !isR || b == fn.Recover {
					continue
				}
				rvv := returnVals(r)
				if k, isC := rvv[0].(*ssa.Const); !isC || k.Value.String() != "true" {
					continue
				}
				if bo, ok := strip(rvv[1]).(*ssa.BinOp); !ok || !(isLoadOfField(strip(bo.Y), eDelta) || isLoadOfField(strip(bo.X), eDelta)) {
					continue
				}
				// the successful interval return: reachable only through both
				// tests, whatever their orientation and polarity
				lower, upper := false, false
				for x := b; x != nil; x = x.Idom() {
					if len(x.Preds) != 1 {
						continue
					}
					pr := x.Preds[0]
					iff, ok := pr.Instrs[len(pr.Instrs)-1].(*ssa.If)
					if !ok {
						continue
					}
					xv, op, okc := cmpTest(iff.Cond)
					if !okc {
						continue
					}
					if pr.Succs[0] != x {
						op = negateOp(op)
					}
					if op == token.GEQ && isF(xv) {
						lower = true
					}
					if op == token.LSS && isFplusCount(xv) {
						upper = true
					}
				}
				if lower && upper {
					guarded = true
				}
			}
			what := "[first, first+count)"
			if image {
				what = "[first+delta, first+delta+count)"
			}
			c.Check(single && cursor != nil && guarded, rule, name+": the interval delta is applied only to members of "+what, fn.Pos(), "one cursor; the successful return is reachable only through seqno >= F and seqno < F+count (mod 2^16)", "the interval whose delta is applied is not the one whose membership test "+what+" succeeded")
		}
		checkSearch(sdi, "direct", false)
		checkSearch(srv, "Reverse", true)
		// in-order branch of Map stores next = seqno + 1
		okNext := true
		nst := 0
		for _, st := range storesToField(smp, fNext) {
			nst++
			cs, ok := coeffOf(st.Val, func(v ssa.Value) bool { return v == ssa.Value(smp.Params[1]) }, 0)
			bo, isB := st.Val.(*ssa.BinOp)
			if !ok || cs != 1 || !isB || bo.Op != token.ADD {
				okNext = false
				continue
			}
			if k, isC := bo.Y.(*ssa.Const); !isC || k.Int64() != 1 {
				okNext = false
			}
		}
		// every branch that hands out a number for a new packet (records a
		// mapping, or resets) advances next in the same block
		need, have := 1, 0
		storesNext := func(ins ssa.Instruction) bool {
			st, ok := ins.(*ssa.Store)
			if !ok {
				return false
			}
			fa, ok := st.Addr.(*ssa.FieldAddr)
			return ok && fieldOf(fa) == fNext
		}
		for _, b := range smp.Blocks {
			for i, ins := range b.Instrs {
				call, ok := ins.(*ssa.Call)
				if !ok || call.Call.StaticCallee() == nil {
					continue
				}
				if n := call.Call.StaticCallee().Name(); n != "addMapping" && n != "reset" {
					continue
				}
				need++
				// every path from here to a return stores next
				seen := map[*ssa.BasicBlock]bool{}
				var escapes func(bb *ssa.BasicBlock, from int) bool
				escapes = func(bb *ssa.BasicBlock, from int) bool {
					for j := from; j < len(bb.Instrs); j++ {
						if storesNext(bb.Instrs[j]) {
							return false
						}
						if _, isRet := bb.Instrs[j].(*ssa.Return); isRet {
							return true
						}
					}
					for _, s := range bb.Succs {
						if seen[s] {
							continue
						}
						seen[s] = true
						if escapes(s, 0) {
							return true
						}
					}
					return false
				}
				if escapes(b, i+1) {
					okNext = false
				} else {
					have++
				}
			}
		}
		// the branch for "nothing ever dropped": a store under the in-order test
		for _, st := range storesToField(smp, fNext) {
			if underDeltaZero(st.Block()) {
				have++
				break
			}
		}
		c.Check(okNext && have >= need && need >= 3, rule, "Map: every in-order packet advances next to seqno + 1", mp.Pos(), fmt.Sprintf("%d stores next = seqno + 1, %d branches that need one", nst, need), "a branch of Map hands out a number for a new packet without advancing next to seqno+1 (or advances it to something else)")
		// the mapping recorded for an in-order packet is the one returned
		am := p.Func("packetmap", "", "addMapping")
		if am == nil {
			am = p.Func("packetmap", "Map", "addMapping")
		}
		inlinedAM := false
		if am == nil {
			// the recording code lives in Map itself (inlined): same rules on Map's own body
			am, inlinedAM = mp, true
		}
		{
			sam := p.SSAFunc(am.Obj)
			var seqA, deltaA ssa.Value
			for _, q := range sam.Params {
				switch q.Name() {
				case "seqno":
					seqA = q
				case "delta":
					deltaA = q
				}
			}
			if seqA == nil && len(sam.Params) > 1 {
				seqA = sam.Params[1]
			}
			okRec, nrec := true, 0
			for _, st := range storesToField(sam, eDelta) {
				nrec++
				if !(deltaA != nil && st.Val == deltaA) && !(inlinedAM && isLoadOfField(st.Val, fDelta)) {
					okRec = false
				}
			}
			firsts := storesToField(sam, eFirst)
			for _, st := range storesToField(sam, eCount) {
				nrec++
				// (seqno - F) + 1, F the first of the same interval
				bo, isB := st.Val.(*ssa.BinOp)
				if !isB || bo.Op != token.ADD {
					okRec = false
					continue
				}
				if k, isC := bo.Y.(*ssa.Const); !isC || k.Int64() != 1 {
					okRec = false
					continue
				}
				sub, isS := bo.X.(*ssa.BinOp)
				if !isS || sub.Op != token.SUB || sub.X != seqA {
					okRec = false
					continue
				}
				okF := isLoadOfField(sub.Y, eFirst)
				for _, fs := range firsts {
					if fs.Val == sub.Y && sameBase(fs.Addr, st.Addr) {
						okF = true
					}
				}
				if !okF {
					okRec = false
				}
			}
			c.Check(okRec && nrec >= 3, rule, "addMapping records (seqno, delta) with the interval ending at seqno", am.Pos(), fmt.Sprintf("%d stores: entry.delta = delta, entry.count = seqno - first + 1", nrec), "the interval recorded for a forwarded packet does not end at that packet or carries another delta than the one returned")
			okCall := false
			for _, b := range smp.Blocks {
				for _, ins := range b.Instrs {
					call, ok := ins.(*ssa.Call)
					if !ok || call.Call.StaticCallee() != sam {
						continue
					}
					okCall = len(call.Call.Args) >= 3 && call.Call.Args[1] == ssa.Value(smp.Params[1]) && isLoadOfField(call.Call.Args[2], fDelta)
					// and the value returned after it is seqno + the same delta
				}
			}
			if inlinedAM {
				okCall = okRec // the delta recorded is m.delta itself, the one returned
			}
			c.Check(okCall, rule, "Map records the mapping it returns", mp.Pos(), "addMapping(m, seqno, m.delta, ...) precedes return seqno + m.delta", "the mapping recorded for retransmissions differs from the number handed out")
		}
		// the interval created by the first Drop is the identity on the past
		{
			sdr := p.SSAFunc(dr.Obj)
			okInit, ninit := true, 0
			var firstK, countK int64 = -1, -2
			for _, st := range storesToField(sdr, eDelta) {
				ninit++
				if k, ok := st.Val.(*ssa.Const); !ok || k.Int64() != 0 {
					okInit = false
				}
			}
			for _, st := range storesToField(sdr, eFirst) {
				ninit++
				cs, ok := coeffOf(st.Val, func(v ssa.Value) bool { return v == ssa.Value(sdr.Params[1]) }, 0)
				bo, isB := st.Val.(*ssa.BinOp)
				if !ok || cs != 1 || !isB || bo.Op != token.SUB {
					okInit = false
					continue
				}
				if k, isC := bo.Y.(*ssa.Const); isC {
					firstK = k.Int64()
				}
			}
			for _, st := range storesToField(sdr, eCount) {
				ninit++
				if k, ok := st.Val.(*ssa.Const); ok {
					countK = k.Int64()
				}
			}
			if len(storesToField(sdr, eDelta)) == 0 {
				ninit++ // the zero value
			}
			c.Check(okInit && ninit == 3 && firstK == countK, rule, "the first Drop creates the identity interval ending just before seqno", dr.Pos(), fmt.Sprintf("entry{first: seqno-%d, count: %d, delta: 0}", firstK, countK), "the interval created by the first drop does not map the already forwarded packets to themselves up to seqno-1")
		}
	}
}

// pmDropRules decides the transfer function of Drop and that it only acts on
// the next in-order packet (C01 R1.1/R1.2; C03 uses the same facts: a packet
// withheld out of order would end up inside a later interval).
func pmDropRules(c *Ctx, r1, r2 string) {
	p := c.P
	dr := p.Func("packetmap", "Map", "Drop")
	if dr == nil {
		c.Unknown(r1, "anchor Drop", 0, "packetmap.(*Map).Drop not found")
		return
	}
	fDelta := p.Field("packetmap", "Map", "delta")
	fNext := p.Field("packetmap", "Map", "next")
	fNextPid := p.Field("packetmap", "Map", "nextPid")
	eng := p.Facts()
	// ---- R1.1 / R1.2 : Drop ----
	{
		sdr := p.SSAFunc(dr.Obj)
		seqP, pidP := ssa.Value(sdr.Params[1]), ssa.Value(sdr.Params[2])
		// delta' = delta - 1
		okDelta := false
		for _, st := range storesToField(sdr, fDelta) {
			cOld, ok := coeffOf(st.Val, func(v ssa.Value) bool { return isLoadOfField(v, fDelta) }, 0)
			if bo, isB := st.Val.(*ssa.BinOp); ok && cOld == 1 && isB {
				if k, isC := bo.Y.(*ssa.Const); isC && bo.Op == token.SUB && k.Int64() == 1 {
					okDelta = true
				}
				if k, isC := bo.Y.(*ssa.Const); isC && bo.Op == token.ADD && k.Int64() == -1 {
					okDelta = true
				}
			}
		}
		c.Check(okDelta && len(storesToField(sdr, fDelta)) == 1, r1, "Drop: delta decreases by exactly one", dr.Pos(), "single store delta = delta - 1", "a withheld packet does not shift later numbers by exactly one")
		okNext := false
		for _, st := range storesToField(sdr, fNext) {
			cs, ok := coeffOf(st.Val, func(v ssa.Value) bool { return v == seqP }, 0)
			if bo, isB := st.Val.(*ssa.BinOp); ok && cs == 1 && isB && bo.Op == token.ADD {
				if k, isC := bo.Y.(*ssa.Const); isC && k.Int64() == 1 {
					okNext = true
				}
			}
		}
		c.Check(okNext && len(storesToField(sdr, fNext)) == 1, r1, "Drop: next = seqno + 1", dr.Pos(), "single store next = seqno + 1", "after a drop the next expected packet is not seqno+1")
		okPid := false
		for _, st := range storesToField(sdr, fNextPid) {
			if st.Val == pidP {
				okPid = true
			}
		}
		c.Check(okPid, r1, "Drop: nextPid = pid", dr.Pos(), "nextPid is set to the withheld packet's picture id", "the picture id of the withheld frame is not remembered")
		// return false => no store reaches it; return true => all stores dominate it
		ff := eng.Analyze(dr)
		info := dr.Pkg.TypesInfo
		var stores []ast.Node
		ast.Inspect(dr.Body(), func(n ast.Node) bool {
			switch x := n.(type) {
			case *ast.AssignStmt:
				for _, l := range x.Lhs {
					if sel, ok := unparen(l).(*ast.SelectorExpr); ok && info.Selections[sel] != nil {
						stores = append(stores, x)
					}
				}
			case *ast.IncDecStmt:
				if sel, ok := unparen(x.X).(*ast.SelectorExpr); ok && info.Selections[sel] != nil {
					stores = append(stores, x)
				}
			}
			return true
		})
		okFalse := true
		for _, ret := range ff.Returns() {
			if tv := info.Types[ret.Results[0]]; tv.Value != nil && tv.Value.String() == "false" {
				for _, s := range stores {
					if ff.ReachableFrom(s, ret) {
						okFalse = false
					}
				}
			}
		}
		c.Check(okFalse && len(stores) >= 4, r1, "Drop: a refusal changes nothing", dr.Pos(), fmt.Sprintf("no return false is reachable from any of the %d stores", len(stores)), "Drop can modify the map and then refuse the drop")
		// R1.2
		recv := dr.params(info)[0]
		seq := dr.params(info)[1]
		want := mkFact(true, "eq", TField(TVar(recv), fNext), TVar(seq))
		k := newKeyer()
		for _, s := range stores {
			st, _ := ff.At(s)
			ok := st != nil && st.HasFact(want)
			if !ok && st != nil {
				// the fact about m.next is killed by the store to m.next itself: accept if it held at the first store
				ok = false
				if reach, _ := ff.ReachableNotRefuting(s, factsConj(mkFact(false, "eq", TField(TVar(recv), fNext), TVar(seq)))); !reach {
					ok = true
				}
			}
			lhs := ""
			switch x := s.(type) {
			case *ast.AssignStmt:
				lhs = types.ExprString(x.Lhs[0])
			case *ast.IncDecStmt:
				lhs = types.ExprString(x.X)
			}
			c.Check(ok, r2, k.key("Drop: store to", lhs), s.Pos(), "unreachable unless seqno == m.next", "the map is modified for a packet that is not the next in-order one: offsets of already-forwarded packets change retroactively")
		}
	}
}
