package main

import (
	"fmt"
	"go/ast"
	"go/token"
	"go/types"
	"math/big"
	"strings"

	"golang.org/x/tools/go/cfg"
	"golang.org/x/tools/go/ssa"
)

func init() {
	register(&Property{
		ID:        "C02",
		Title:     "Forwarding rewrites only seqno, marker and VP8 picture id; ids stay consecutive",
		Technique: "write-set extraction with must-facts (codecs.RewritePacket), affine coefficient analysis on SSA across the producer -> carrier -> consumer chain of each delta (sibling agreement of packetmap, rtpconn and codecs), value provenance (copy before rewrite)",
		Decides: "R2.1: RewritePacket stores only to header bytes 1, 2, 3 and to the VP8 picture-id byte(s) reached through the X and I descriptor bits; byte 1 is only ever OR-ed with the marker bit, under setMarker. " +
			"R2.2: the polarity of each delta along its chain is negative ('forwarded = source - withheld'): Drop adds +1 per withheld frame to the picture-id delta and -1 per withheld packet to the seqno delta, the map returns them unchanged, and the product of the coefficients with which Write passes them on and the rewriter applies them must make the forwarded number decrease. " +
			"R2.3: the buffer handed to the rewriter is a pooled copy of exactly the bytes received (never the caller's buffer, which aliases the cached packet), and the rewritten slice written out has the same length. " +
			"R2.5: the octet that carries the M (15-bit) flag of the picture id is written with values in [128,255] where the flag was set and [0,127] where it was clear (interval proof); the single accumulation of the picture-id shift in Drop precedes every successful return. " +
			"R2.4: the marker is set only on a frame's last packet of the selected spatial layer when it was not already set. " +
			"R2.6: codecs.PacketFlags marks a packet as the start of a frame (the only point where the layer selection, and with it the withholding, may change: C04) only where the payload descriptor says so (VP8: S bit and partition index 0; VP9: B bit), so a frame is withheld or forwarded whole and its packets share one picture-id shift.",
		NotDecided: []string{
			"that timestamp and payload equal the publisher's beyond the rewriter's write-set (pion's own header handling is trusted)",
			"that all packets of one frame carry one id over histories; picture-id arithmetic modulo 7/15 bits beyond the sign",
		},
		NeedSSA: true,
		Run:     runC02,
	})
}

func runC02(c *Ctx) {
	defer runC02Bits(c)
	p := c.P
	c.Rule("R2.1", "E2/E4", "write-set of codecs.RewritePacket", 6)
	c.Rule("R2.2", "E6", "delta polarity along producer -> carrier -> consumer", 2)
	c.Rule("R2.3", "E4", "pooled copy before rewriting; same length out", 3)
	c.Rule("R2.4", "E2", "marker only at the end of a frame of the selected spatial layer", 1)
	c.Rule("R2.6", "E2", "frames are withheld whole: a packet starts a frame only where its payload descriptor says so (same decision as R4.7)", 4)
	defer runFrameStartFlags(c, "R2.6")
	rp := p.Func("codecs", "", "RewritePacket")
	wr := p.Func("rtpconn", "rtpDownTrack", "Write")
	dr := p.Func("packetmap", "Map", "Drop")
	mp := p.Func("packetmap", "Map", "Map")
	di := p.Func("packetmap", "Map", "direct")
	if rp == nil || wr == nil || dr == nil || mp == nil || di == nil {
		c.Unknown("R2.1", "anchors", 0, "RewritePacket / Write / Drop / Map / direct not all found")
		return
	}
	eng := p.Facts()

	// ---- R2.1 ----
	{
		ff := eng.Analyze(rp)
		info := rp.Pkg.TypesInfo
		params := rp.params(info) // codec, data, setMarker, seqno, delta
		data := params[1]
		k := newKeyer()
		nstores := 0
		ast.Inspect(rp.Body(), func(n ast.Node) bool {
			as, ok := n.(*ast.AssignStmt)
			if !ok {
				return true
			}
			for _, l := range as.Lhs {
				ix, ok := unparen(l).(*ast.IndexExpr)
				if !ok {
					continue
				}
				if id, ok := unparen(ix.X).(*ast.Ident); !ok || info.ObjectOf(id) != data {
					continue
				}
				nstores++
				st, _ := ff.At(as)
				key := k.key("store to data[" + types.ExprString(ix.Index) + "]")
				if tv := info.Types[ix.Index]; tv.Value != nil {
					switch tv.Value.String() {
					case "1":
						okM := as.Tok == token.OR_ASSIGN && st != nil && st.HasFact(mkFact(true, "true", TVar(params[2]), nil))
						if okM {
							if v := info.Types[as.Rhs[0]]; v.Value == nil || v.Value.String() != "128" {
								okM = false
							}
						}
						c.Check(okM, "R2.1", key, as.Pos(), "data[1] |= 0x80 under setMarker: the marker is only ever set", "byte 1 (marker/payload type) is written other than by OR-ing the marker bit under setMarker")
					case "2", "3":
						c.OK("R2.1", key, as.Pos(), "sequence number byte")
					default:
						c.Bad("R2.1", key, as.Pos(), "the rewriter stores to header byte %s, which is none of marker, seqno: timestamp/SSRC/CSRC would be altered", tv.Value.String())
					}
					continue
				}
				// variable index: only the VP8 picture id (after the X and I bits)
				okPid := false
				if st != nil {
					vp8 := false
					for _, f := range st.Facts() {
						if f.Op == "true" && f.Pos && f.A.K == 'k' && f.A.Name == "strings.EqualFold" && strings.Contains(strings.ToLower(f.key), "video/vp8") {
							vp8 = true
						}
					}
					// every path to the store passes at least two tests of a
					// descriptor bit (data[..] & 0x80) on the bit-set side: X and I
					okPid = vp8 && ff.minBitTests(as, data) >= 2
				}
				c.Check(okPid, "R2.1", key, as.Pos(), "picture-id byte: reached only for VP8 with the X and I descriptor bits set", "a payload byte other than the VP8 picture id can be rewritten (store not dominated by codec == VP8, X and I)")
			}
			return true
		})
		if nstores < 5 {
			c.Bad("R2.1", "stores of the rewriter", rp.Pos(), "%s", fmt.Sprintf("only %d stores into the packet found", nstores))
		}
	}

	// ---- R2.2 ----
	{
		fPidDelta := p.Field("packetmap", "Map", "pidDelta")
		fDelta := p.Field("packetmap", "Map", "delta")
		ePidDelta := p.Field("packetmap", "entry", "pidDelta")
		eDelta := p.Field("packetmap", "entry", "delta")
		sdr, smp, sdi, swr, srp := p.SSAFunc(dr.Obj), p.SSAFunc(mp.Obj), p.SSAFunc(di.Obj), p.SSAFunc(wr.Obj), p.SSAFunc(rp.Obj)
		if fPidDelta == nil || fDelta == nil || sdr == nil || smp == nil || sdi == nil || swr == nil || srp == nil {
			c.Unknown("R2.2", "anchors", 0, "packetmap fields or SSA bodies not found")
		} else {
			// (1) producer: Drop
			prodPid, okP := 0, false
			for _, st := range storesToField(sdr, fPidDelta) {
				cPid, ok1 := coeffOf(st.Val, func(v ssa.Value) bool { return v == ssa.Value(sdr.Params[2]) }, 0)
				cOld, ok2 := coeffOf(st.Val, func(v ssa.Value) bool { return isLoadOfField(v, fPidDelta) }, 0)
				if ok1 && ok2 && cOld == 1 {
					prodPid, okP = cPid, true
				}
			}
			prodSeq, okS := 0, false
			for _, st := range storesToField(sdr, fDelta) {
				cOld, ok := coeffOf(st.Val, func(v ssa.Value) bool { return isLoadOfField(v, fDelta) }, 0)
				if ok && cOld == 1 {
					// constant step: delta_old + k
					if bo, isB := st.Val.(*ssa.BinOp); isB {
						if k, isC := bo.Y.(*ssa.Const); isC {
							n, _ := constInt(k)
							if bo.Op == token.SUB {
								n = -n
							}
							prodSeq, okS = n, true
						}
					}
				}
			}
			// (2) carrier: Map / direct return the stored delta unchanged
			carrier := func(idx int, mf, ef *types.Var) (int, bool) {
				c, ok, seen := 0, true, false
				for _, fn := range []*ssa.Function{smp, sdi} {
					for _, b := range fn.Blocks {
						r, isR := b.Instrs[len(b.Instrs)-1].(*ssa.Return)
						if !isR || idx >= len(r.Results) {
							continue
						}
						v := unspill(r.Results[idx])
						if k, isC := v.(*ssa.Const); isC && k.Value != nil && k.Int64() == 0 {
							continue
						}
						if call, isCall := v.(*ssa.Extract); isCall {
							_ = call
							continue // result of direct(), analysed on its own
						}
						cm, ok1 := coeffOf(v, func(x ssa.Value) bool { return isLoadOfField(x, mf) || isLoadOfField(x, ef) }, 0)
						if !ok1 || (seen && cm != c) {
							ok = false
						}
						if cm != 0 {
							c, seen = cm, true
						}
					}
				}
				return c, ok && seen
			}
			carPid, okCP := carrier(2, fPidDelta, ePidDelta)
			carSeq, okCS := carrier(1, fDelta, eDelta)
			// (3) Write: arguments of RewritePacket wrt the results of Map
			var rpCall *ssa.Call
			for _, b := range swr.Blocks {
				for _, ins := range b.Instrs {
					if call, ok := ins.(*ssa.Call); ok && call.Call.StaticCallee() == srp {
						rpCall = call
					}
				}
			}
			passPid, passSeq, okW := 0, 0, false
			if rpCall != nil && len(rpCall.Call.Args) == 5 {
				isMapRes := func(i int) affSym {
					return func(v ssa.Value) bool {
						ex, ok := v.(*ssa.Extract)
						if !ok || ex.Index != i {
							return false
						}
						call, ok := ex.Tuple.(*ssa.Call)
						return ok && call.Call.StaticCallee() == smp
					}
				}
				var o1, o2 bool
				passSeq, o1 = coeffOf(rpCall.Call.Args[3], isMapRes(1), 0)
				passPid, o2 = coeffOf(rpCall.Call.Args[4], isMapRes(2), 0)
				okW = o1 && o2
			}
			// (4) consumer: RewritePacket stores wrt its seqno / delta parameters
			consume := func(param *ssa.Parameter, wantIdx func(ix ssa.Value) bool) (int, bool) {
				c, ok, seen := 0, true, false
				for _, b := range srp.Blocks {
					for _, ins := range b.Instrs {
						st, isSt := ins.(*ssa.Store)
						if !isSt {
							continue
						}
						ia, isIA := st.Addr.(*ssa.IndexAddr)
						if !isIA || ia.X != ssa.Value(srp.Params[1]) {
							continue
						}
						cc, ok1 := coeffOf(st.Val, func(v ssa.Value) bool { return v == ssa.Value(param) }, 0)
						if cc == 0 && ok1 {
							continue
						}
						if !ok1 || (seen && cc != c) {
							ok = false
						}
						c, seen = cc, true
					}
				}
				return c, ok && seen
			}
			conSeq, okC1 := consume(srp.Params[3], nil)
			conPid, okC2 := consume(srp.Params[4], nil)
			okAll := okP && okCP && okW && okC2
			prod := prodPid * carPid * passPid * conPid
			c.Check(okAll && prod == -1, "R2.2", "picture-id delta polarity", wr.Pos(),
				fmt.Sprintf("Drop %+d per withheld frame x map %+d x Write %+d x rewriter %+d = %+d: the forwarded id is the source id minus the withheld frames", prodPid, carPid, passPid, conPid, prod),
				fmt.Sprintf("Drop accumulates %+d per withheld frame, the map returns it with %+d, Write passes it with %+d and the rewriter applies it with %+d: product %+d instead of -1 (analysable: %v) - after withholding one frame the next forwarded picture id jumps forward instead of staying consecutive", prodPid, carPid, passPid, conPid, prod, okAll))
			okAllS := okS && okCS && okW && okC1
			prodS := prodSeq * carSeq * passSeq * conSeq
			c.Check(okAllS && prodS == -1, "R2.2", "sequence-number delta polarity", wr.Pos(),
				fmt.Sprintf("Drop %+d per withheld packet x map %+d x Write %+d x rewriter %+d = %+d", prodSeq, carSeq, passSeq, conSeq, prodS),
				fmt.Sprintf("seqno chain: Drop %+d, map %+d, Write %+d, rewriter %+d: product %+d instead of -1 (analysable: %v) - withheld packets open gaps or collide", prodSeq, carSeq, passSeq, conSeq, prodS, okAllS))
		}
	}

	// ---- R2.3 / R2.4 ----
	{
		ff := eng.Analyze(wr)
		info := wr.Pkg.TypesInfo
		params := wr.params(info) // down, buf
		buf := params[1]
		var rpc, wrc *ast.CallExpr
		ast.Inspect(wr.Body(), func(n ast.Node) bool {
			call, ok := n.(*ast.CallExpr)
			if !ok {
				return true
			}
			f := calleeOf(&CallSite{Call: call, In: wr})
			if fnIs(f, "codecs", "", "RewritePacket") {
				rpc = call
			}
			if fnIs(f, "rtpconn", "rtpDownTrack", "write") {
				// the write of the rewritten bytes is the one that does not
				// pass Write's own parameter on
				isParam := false
				if id, ok := unparen(call.Args[0]).(*ast.Ident); ok && info.ObjectOf(id) == buf {
					isParam = true
				}
				if !isParam {
					wrc = call
				}
			}
			return true
		})
		if rpc != nil && wrc != nil && !ff.ReachableFrom(rpc, wrc) {
			wrc = nil
		}
		if rpc == nil || wrc == nil {
			c.Bad("R2.3", "rewrite then write", wr.Pos(), "Write no longer calls RewritePacket followed by down.write")
		} else {
			// RewritePacket(codec, buf2[:n], ...) with buf2 from the pool, n = copy(buf2, buf)
			sl, okSl := unparen(rpc.Args[1]).(*ast.SliceExpr)
			okPool, okLen, okSame := false, false, false
			if okSl && sl.Low == nil && sl.High != nil {
				if id, ok := unparen(sl.X).(*ast.Ident); ok && info.ObjectOf(id) != buf {
					// buf2 := ibuf2.([]byte); ibuf2 := pool.Get()
					obj := info.ObjectOf(id)
					ast.Inspect(wr.Body(), func(n ast.Node) bool {
						as, ok := n.(*ast.AssignStmt)
						if !ok || len(as.Lhs) != 1 {
							return true
						}
						if lid, ok := as.Lhs[0].(*ast.Ident); ok && info.ObjectOf(lid) == obj {
							if ta, ok := unparen(as.Rhs[0]).(*ast.TypeAssertExpr); ok {
								if call := defCall(wr, ff, ta.X); call != nil {
									if f := calleeOf(&CallSite{Call: call, In: wr}); f != nil && f.Pkg() != nil && f.Pkg().Path() == "sync" && f.Name() == "Get" {
										okPool = true
									}
								}
							}
						}
						return true
					})
					// n := copy(buf2, buf)
					if call := defCall(wr, ff, sl.High); call != nil && isBuiltin(info, call, "copy") && len(call.Args) == 2 {
						a0, ok0 := unparen(call.Args[0]).(*ast.Ident)
						a1, ok1 := unparen(call.Args[1]).(*ast.Ident)
						if ok0 && ok1 && info.ObjectOf(a0) == obj && info.ObjectOf(a1) == buf {
							okLen = true
						}
					}
					// write gets the same slice
					if types.ExprString(wrc.Args[0]) == types.ExprString(rpc.Args[1]) {
						okSame = true
					}
				}
			}
			c.Check(okPool, "R2.3", "the rewriter works on a pooled copy", rpc.Pos(), "the buffer given to RewritePacket comes from packetBufPool.Get(), not from the caller", "the caller's buffer (which aliases the writer's copy of the cached packet) is rewritten in place: other receivers and retransmissions see the rewritten bytes")
			c.Check(okLen, "R2.3", "the copy has exactly the received length", rpc.Pos(), "n = copy(buf2, buf); RewritePacket(codec, buf2[:n], ...)", "the rewritten slice is not exactly the received bytes")
			c.Check(okSame, "R2.3", "the rewritten slice is what is written out", wrc.Pos(), "down.write(buf2[:n]) with the same slice", "a different slice (other length) is written out")
		}
		// setMarker: the value handed to the rewriter as "set the marker", wherever it is
		// computed, is true only with flags.Sid == <selection>.sid, flags.End and !flags.Marker
		okMarker := false
		var markerCalls []*ast.CallExpr
		ast.Inspect(wr.Body(), func(n ast.Node) bool {
			if call, ok := n.(*ast.CallExpr); ok && len(call.Args) == 5 && fnIs(calleeOf(&CallSite{Call: call, In: wr}), "codecs", "", "RewritePacket") {
				markerCalls = append(markerCalls, call)
			}
			return true
		})
		for _, mc := range markerCalls {
			okMarker = true
			arg := unparen(mc.Args[2])
			at := ast.Node(mc)
			var rhs ast.Expr = arg
			if id, ok := arg.(*ast.Ident); ok {
				// a local: its single definition
				obj := info.ObjectOf(id)
				ndef := 0
				ast.Inspect(wr.Body(), func(n ast.Node) bool {
					if as, ok := n.(*ast.AssignStmt); ok && len(as.Lhs) == len(as.Rhs) {
						for i, l := range as.Lhs {
							if lid, ok := l.(*ast.Ident); ok && info.ObjectOf(lid) == obj {
								ndef++
								rhs, at = as.Rhs[i], as
							}
						}
					}
					return true
				})
				if ndef != 1 {
					okMarker = false
					continue
				}
			}
			st, _ := ff.At(at)
			if st == nil {
				okMarker = false
				continue
			}
			st = ff.assume(st, rhs, true)
			end, notMarked, sameSid := false, false, false
			for _, f := range st.Facts() {
				if f.A == nil {
					continue
				}
				isFlagField := func(t *Term, name string) bool {
					return t != nil && t.K == 'f' && t.Obj != nil && t.Obj.Name() == name && t.Obj.Pkg() != nil && t.Obj.Pkg().Name() == "codecs"
				}
				if f.Op == "true" && f.Pos && isFlagField(f.A, "End") {
					end = true
				}
				if f.Op == "true" && !f.Pos && isFlagField(f.A, "Marker") {
					notMarked = true
				}
				if f.Op == "eq" && f.Pos && f.B != nil {
					for _, pr := range [][2]*Term{{f.A, f.B}, {f.B, f.A}} {
						if isFlagField(pr[0], "Sid") && pr[1].K == 'f' && pr[1].Obj != nil && pr[1].Obj.Name() == "sid" && pr[1].Obj.Pkg() == wr.Pkg.Types {
							sameSid = true
						}
					}
				}
			}
			if !(end && notMarked && sameSid) {
				okMarker = false
			}
		}
		c.Check(okMarker, "R2.4", "marker only at the end of a frame of the selected spatial layer", wr.Pos(), "setMarker = flags.Sid == layer.sid && flags.End && !flags.Marker", "the marker can be set on a packet that is not the last of a frame of the forwarded spatial layer")
	}
}

// R2.5: the rewriter keeps the descriptor bit that says how long the picture
// id is (M), and Drop counts every withheld frame.
func runC02Bits(c *Ctx) {
	p := c.P
	c.Rule("R2.5", "E6", "the M bit of the picture-id octet is preserved (interval proof); every successful Drop accumulates the picture-id shift", 2)
	rp := p.Func("codecs", "", "RewritePacket")
	dr := p.Func("packetmap", "Map", "Drop")
	if rp == nil || dr == nil {
		c.Unknown("R2.5", "anchors", 0, "RewritePacket / Drop not found")
		return
	}
	fn := p.SSAFunc(rp.Obj)
	fi := p.Intervals().Analyze(fn)
	var dataP ssa.Value
	for _, q := range fn.Params {
		if q.Name() == "data" {
			dataP = q
		}
	}
	// the M test: (data[offset] & 0x80) != 0 whose true edge leads to the 2-byte form
	trueMeansSet := true
	isMTest := func(cond ssa.Value) (ssa.Value, bool) {
		bo, ok := cond.(*ssa.BinOp)
		if !ok || (bo.Op != token.NEQ && bo.Op != token.EQL) {
			return nil, false
		}
		trueMeansSet = bo.Op == token.NEQ
		and, ok := bo.X.(*ssa.BinOp)
		if !ok || and.Op != token.AND {
			return nil, false
		}
		if k, ok := and.Y.(*ssa.Const); !ok || k.Int64() != 0x80 {
			return nil, false
		}
		ld, ok := and.X.(*ssa.UnOp)
		if !ok || ld.Op != token.MUL {
			return nil, false
		}
		ia, ok := ld.X.(*ssa.IndexAddr)
		if !ok || ia.X != dataP {
			return nil, false
		}
		return ia.Index, true
	}
	n, bad := 0, ""
	for _, b := range fn.Blocks {
		for _, ins := range b.Instrs {
			st, ok := ins.(*ssa.Store)
			if !ok {
				continue
			}
			ia, ok := st.Addr.(*ssa.IndexAddr)
			if !ok || ia.X != dataP {
				continue
			}
			if _, isConst := ia.Index.(*ssa.Const); isConst {
				continue // fixed header bytes
			}
			// which side of the M test of this very octet?
			side := 0
			for x := b; x != nil && side == 0; x = x.Idom() {
				if len(x.Preds) != 1 {
					continue
				}
				pr := x.Preds[0]
				iff, ok := pr.Instrs[len(pr.Instrs)-1].(*ssa.If)
				if !ok {
					continue
				}
				if idx, isM := isMTest(iff.Cond); isM && idx == ia.Index {
					if (pr.Succs[0] == x) == trueMeansSet {
						side = 1
					} else {
						side = -1
					}
				}
			}
			if side == 0 {
				continue // the second octet of a 15-bit id, or not a picture-id octet
			}
			n++
			iv := fi.At(st.Val, b)
			okBit := !iv.empty() && ((side == 1 && iv.Lo.Cmp(big.NewInt(128)) >= 0 && iv.Hi.Cmp(big.NewInt(255)) <= 0) || (side == -1 && iv.Lo.Sign() >= 0 && iv.Hi.Cmp(big.NewInt(127)) <= 0))
			if !okBit {
				bad = fmt.Sprintf("%s (value in %s on the M=%v side)", p.PosStr(st.Pos()), iv, side == 1)
			}
		}
	}
	c.Check(n >= 2 && bad == "", "R2.5", "the rewritten picture-id octet keeps its M bit", rp.Pos(), fmt.Sprintf("%d stores: [128,255] where M was set, [0,127] where it was clear", n), "the octet that carries the M bit can be written with the bit changed at "+bad+": a 7-bit id is then parsed as a 15-bit id (payload shifted by one byte)")
	// Drop: the picture-id shift is accumulated on every successful path
	sdr := p.SSAFunc(dr.Obj)
	fPid := p.Field("packetmap", "Map", "pidDelta")
	sts := storesToField(sdr, fPid)
	okAll := len(sts) == 1
	if okAll {
		for _, b := range sdr.Blocks {
			r, isR := b.Instrs[len(b.Instrs)-1].(*ssa.Return)
			if !isR || b == sdr.Recover {
				continue
			}
			v := returnVals(r)[0]
			if k, isC := v.(*ssa.Const); isC && k.Value != nil && k.Value.String() == "true" {
				if !instrBefore(sts[0], r) {
					okAll = false
				}
			}
		}
	}
	c.Check(okAll, "R2.5", "every successful Drop accumulates the picture-id shift", dr.Pos(), "the single store to pidDelta precedes every return true", "a frame can be withheld without its picture id being counted (e.g. only when the id does not wrap): the receiver sees a hole in the picture ids")
}

// minBitTests: the minimum, over all paths from the entry to node n, of the
// number of conditional edges taken on the "bit set" side of a test
// (data[e] & 0x80) != 0 (written directly or through a boolean variable
// defined by such a test).
func (ff *FuncFacts) minBitTests(n ast.Node, data types.Object) int {
	info := ff.info()
	isBitExpr := func(e ast.Expr) (bool, bool) { // (is a test, true means set)
		be, ok := unparen(e).(*ast.BinaryExpr)
		if !ok || (be.Op != token.NEQ && be.Op != token.EQL) {
			return false, false
		}
		if tv := info.Types[be.Y]; tv.Value == nil || tv.Value.String() != "0" {
			return false, false
		}
		and, ok := unparen(be.X).(*ast.BinaryExpr)
		if !ok || and.Op != token.AND {
			return false, false
		}
		if tv := info.Types[and.Y]; tv.Value == nil || tv.Value.String() != "128" {
			return false, false
		}
		ix, ok := unparen(and.X).(*ast.IndexExpr)
		if !ok {
			return false, false
		}
		if id, ok := unparen(ix.X).(*ast.Ident); !ok || info.ObjectOf(id) != data {
			return false, false
		}
		return true, be.Op == token.NEQ
	}
	// boolean variables defined by a bit test
	bvar := map[types.Object]bool{} // value: true means "variable true = bit set"
	ast.Inspect(ff.fs.Body(), func(m ast.Node) bool {
		as, ok := m.(*ast.AssignStmt)
		if !ok || len(as.Lhs) != len(as.Rhs) {
			return true
		}
		for i, l := range as.Lhs {
			if id, ok := l.(*ast.Ident); ok {
				if is, set := isBitExpr(as.Rhs[i]); is {
					if o := info.ObjectOf(id); o != nil {
						bvar[o] = set
					}
				}
			}
		}
		return true
	})
	var classify func(e ast.Expr) (bool, bool)
	classify = func(e ast.Expr) (bool, bool) {
		e = unparen(e)
		if u, ok := e.(*ast.UnaryExpr); ok && u.Op == token.NOT {
			is, set := classify(u.X)
			return is, !set
		}
		if id, ok := e.(*ast.Ident); ok {
			if set, has := bvar[info.ObjectOf(id)]; has {
				return true, set
			}
			return false, false
		}
		return isBitExpr(e)
	}
	tb, _ := ff.blockOf(n)
	if tb == nil || len(ff.graph.Blocks) == 0 {
		return 0
	}
	const inf = 1 << 20
	dist := map[*cfg.Block]int{}
	for _, b := range ff.graph.Blocks {
		dist[b] = inf
	}
	dist[ff.graph.Blocks[0]] = 0
	for changed := true; changed; {
		changed = false
		for _, b := range ff.graph.Blocks {
			if !b.Live || dist[b] == inf {
				continue
			}
			cond := ff.condOf(b)
			for i, s := range b.Succs {
				w := 0
				if cond != nil && len(b.Succs) == 2 {
					if is, set := classify(cond); is && ((i == 0) == set) {
						w = 1
					}
				}
				if dist[b]+w < dist[s] {
					dist[s] = dist[b] + w
					changed = true
				}
			}
		}
	}
	if dist[tb] == inf {
		return 0
	}
	return dist[tb]
}
