package main

import (
	"go/ast"
	"go/types"

	"golang.org/x/tools/go/ssa"
)

func init() {
	register(&Property{
		ID:        "C03",
		Title:     "A NACK retransmits exactly the packet originally sent under that number",
		Technique: "must-fact dataflow and value provenance on gotNACK (Reverse -> GetPacket -> Write chain), SSA return-value rules on rtpUpTrack.GetPacket, the shared packetmap rules (Reverse is the affine inverse of the recorded mapping, applied only to members of the image interval), the shared cache lookup rules, fill-count discipline",
		Decides: "R3.1: in gotNACK the number looked up is the NACKed number itself, the source seqno fetched is result #1 of Reverse and only when Reverse succeeded, the fetch is from the down track's own publisher track, the bytes re-sent are exactly buf[:l] for the current non-zero l, and they are re-sent through rtpDownTrack.Write of the same track (so the recorded mapping is re-applied, C01 R1.4). " +
			"R3.2: the packetmap rules - what Map hands out is what addMapping records; direct and Reverse apply an interval's delta only to members of the interval (resp. of its image first+delta); Reverse returns seqno - delta; the interval created by the first Drop ends just before the dropped packet; Drop acts only on the next in-order packet, so no withheld number can fall inside a later interval. " +
			"R3.3: rtpUpTrack.GetPacket looks its own seqno up in its own cache into the caller's buffer and returns that lookup's count or 0. " +
			"R3.4: the cache lookup rules of C05 (R5.1): only the slot whose seqno compared equal is copied out.",
		NotDecided: []string{
			"that a withheld packet's number is in no interval after addMapping's expansion over missing values (value-level; the step conditions are R3.2)",
			"identity of the marker bit when the receiver's spatial layer changed between the original transmission and the retransmission (setMarker depends on the current layer)",
			"cache eviction (a miss sends nothing: R3.1 non-zero clause)",
		},
		NeedSSA: true,
		Run:     runC03,
	})
}

func runC03(c *Ctx) {
	p := c.P
	c.Rule("R3.1", "E2/E4", "gotNACK: Reverse(s) -> GetPacket(result #1, only if ok) -> Write(buf[:l]) on the same track", 6)
	c.Rule("R3.2", "E6", "packetmap: recorded mapping = handed-out mapping; Reverse is its inverse on the image interval; only the next in-order packet is withheld", 16)
	c.Rule("R3.3", "E6", "rtpUpTrack.GetPacket returns the count of the cache lookup for that seqno, or 0", 2)
	c.Rule("R3.4", "E2", "cache lookups copy out only the slot whose seqno compared equal", 6)
	pmMappingRules(c, "R3.2")
	pmDropRules(c, "R3.2", "R3.2")
	cacheLookupRules(c, "R3.4")

	// ---- R3.1 ----
	gn := p.Func("rtpconn", "", "gotNACK")
	if gn == nil {
		c.Unknown("R3.1", "anchors", 0, "rtpconn.gotNACK not found")
		return
	}
	var rev, getp, wr *CallSite
	for _, cs := range p.CallSites() {
		if cs.In.Root() != gn {
			continue
		}
		f := calleeOf(cs)
		if f == nil {
			if sel, ok := unparen(cs.Call.Fun).(*ast.SelectorExpr); ok {
				if s := cs.In.Pkg.TypesInfo.Selections[sel]; s != nil {
					f, _ = s.Obj().(*types.Func)
				}
			}
		}
		switch {
		case fnIs(f, "packetmap", "Map", "Reverse"):
			rev = cs
		case p.ifaceMethodIs(f, "conn", "UpTrack", "GetPacket") || fnIs(f, "rtpconn", "rtpUpTrack", "GetPacket"):
			getp = cs
		case fnIs(f, "rtpconn", "rtpDownTrack", "Write"):
			wr = cs
		}
	}
	if rev == nil || getp == nil || wr == nil || rev.In != getp.In || getp.In != wr.In {
		c.Bad("R3.1", "gotNACK: Reverse, GetPacket, Write", gn.Pos(), "gotNACK no longer resolves the number with Reverse, fetches with GetPacket and re-sends through rtpDownTrack.Write in one function")
		return
	}
	fs := rev.In
	info := fs.Pkg.TypesInfo
	ff := p.Facts().Analyze(fs)
	// the number reversed is the NACKed one: the callback's parameter
	okArg := false
	if id, ok := unparen(rev.Call.Args[0]).(*ast.Ident); ok {
		for _, po := range fs.params(info) {
			if po != nil && info.Uses[id] == po {
				okArg = true
			}
		}
	}
	c.Check(okArg && fs.Lit != nil, "R3.1", "Reverse is asked about the NACKed number", rev.Call.Pos(), "Reverse(s) with s the number delivered by NackPair.Range", "the number reversed is not the one the receiver asked for")
	// fetch: result #1 of Reverse, under ok
	okSeq := argIsResult(ff, getp.Call, getp.Call.Args[0], rev.Call, 1)
	st, _ := ff.At(getp.Call)
	okOK := st != nil && st.HasFact(mkFact(true, "true", &Term{K: 'r', Name: "res0", Pos: rev.Call.Lparen}, nil))
	c.Check(okSeq, "R3.1", "the packet fetched is the one Reverse named", getp.Call.Pos(), "GetPacket(seqno, ...) with seqno = result #1 of Reverse", "the source packet fetched is not the one the map associates with the NACKed number: another packet is retransmitted")
	c.Check(okOK, "R3.1", "nothing is fetched when Reverse fails", getp.Call.Pos(), "GetPacket is reachable only with Reverse's ok", "a number that was never sent (or belongs to a withheld packet) is answered with some packet")
	// same track throughout
	rootIdent := func(e ast.Expr) types.Object {
		for {
			switch x := unparen(e).(type) {
			case *ast.SelectorExpr:
				e = x.X
			case *ast.Ident:
				return info.Uses[x]
			default:
				return nil
			}
		}
	}
	tObj := rootIdent(recvExpr(wr.Call))
	okTrack := tObj != nil && rootIdent(recvExpr(rev.Call)) == tObj && rootIdent(recvExpr(getp.Call)) == tObj
	if okTrack {
		// track.packetmap / track.remote
		if sel, ok := unparen(recvExpr(rev.Call)).(*ast.SelectorExpr); !ok || sel.Sel.Name != "packetmap" {
			okTrack = false
		}
		if sel, ok := unparen(recvExpr(getp.Call)).(*ast.SelectorExpr); !ok || sel.Sel.Name != "remote" {
			okTrack = false
		}
		if _, ok := unparen(recvExpr(wr.Call)).(*ast.Ident); !ok {
			okTrack = false
		}
	}
	c.Check(okTrack, "R3.1", "map, publisher track and writer belong to one down track", wr.Call.Pos(), "track.packetmap.Reverse, track.remote.GetPacket, track.Write", "the retransmission mixes the map of one track with the cache or writer of another")
	// fill discipline
	k := newKeyer()
	sites := fillSites(p)
	n := 0
	for _, s := range sites {
		if s.cs == getp || s.cs.Call == getp.Call {
			n++
			checkFillUses(c, "R3.1", k, s, sites)
		}
	}
	if n == 0 {
		c.Bad("R3.1", "fill site", getp.Call.Pos(), "the GetPacket call of gotNACK was not recognised as a buffer fill")
	}
	// the bytes re-sent are the fetched buffer
	okBuf := false
	if se, ok := unparen(wr.Call.Args[0]).(*ast.SliceExpr); ok {
		if id, ok := unparen(se.X).(*ast.Ident); ok {
			if bid, ok := unparen(getp.Call.Args[1]).(*ast.Ident); ok && info.Uses[id] == info.Uses[bid] {
				okBuf = ff.DominatedByNode(wr.Call, getp.Call)
			}
		}
	}
	c.Check(okBuf, "R3.1", "what is re-sent is what was fetched", wr.Call.Pos(), "track.Write(buf[:l]) of the buffer GetPacket filled", "the bytes handed to Write are not the fetched packet")

	// ---- R3.3 ----
	gp := p.Func("rtpconn", "rtpUpTrack", "GetPacket")
	if gp == nil {
		c.Unknown("R3.3", "anchors", 0, "rtpUpTrack.GetPacket not found")
		return
	}
	fn := p.SSAFunc(gp.Obj)
	fCache := p.Field("rtpconn", "rtpUpTrack", "cache")
	var look *ssa.Call
	for _, b := range fn.Blocks {
		for _, ins := range b.Instrs {
			if call, ok := ins.(*ssa.Call); ok {
				if f := call.Call.StaticCallee(); f != nil && f.Name() == "Get" && f.Pkg != nil && f.Pkg.Pkg.Name() == "packetcache" {
					look = call
				}
			}
		}
	}
	okLook := look != nil && isLoadOfField(look.Call.Args[0], fCache) && look.Call.Args[1] == ssa.Value(fn.Params[1]) && look.Call.Args[2] == ssa.Value(fn.Params[2])
	c.Check(okLook, "R3.3", "GetPacket looks its seqno up in its own cache into the caller's buffer", gp.Pos(), "track.cache.Get(seqno, result)", "GetPacket looks up another seqno, another cache or another buffer")
	okRet, nret := look != nil, 0
	for _, b := range fn.Blocks {
		r, isR := b.Instrs[len(b.Instrs)-1].(*ssa.Return)
		if !isR || b == fn.Recover {
			continue
		}
		nret++
		v := returnVals(r)[0]
		if v == ssa.Value(look) {
			continue
		}
		if k, ok := v.(*ssa.Const); ok && k.Int64() == 0 {
			continue
		}
		okRet = false
	}
	c.Check(okRet && nret > 0, "R3.3", "GetPacket returns the lookup's count or 0", gp.Pos(), "every return is the count of cache.Get or 0", "GetPacket reports a length that is not the length of the packet found")
}
