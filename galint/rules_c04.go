package main

import (
	"fmt"
	"go/ast"
	"go/token"
	"go/types"
	"math/big"
	"os"
	"strings"

	"golang.org/x/tools/go/ssa"
)

func init() {
	register(&Property{
		ID:        "C04",
		Title:     "Layers above the selection are withheld; switches occur only at legal points",
		Technique: "guard tables decided by must-fact dataflow at every store to the layer selection (Write, adjustLayer, replaceTracks), CFG path search with edge refutation for the withhold decision, who-writes rule for the selection fields, interval analysis on SSA for the loss-based ceiling",
		Decides: "R4.1: every store to the current spatial layer in Write is either 'wanted layer at the first packet of a keyframe' or 'follow a new top layer while at the top and not limited'. " +
			"R4.2: every store to the current temporal layer is 'wanted layer at the start of a keyframe', 'a lower wanted layer at the start of a frame', 'the packet's layer at a frame start that the codec marks as up-switch point and that is not above the wanted layer', or 'follow a new top layer while at the top'. " +
			"R4.3: the highest-seen layers only grow and only to the packet's own layer; adjustLayer moves a wanted layer by exactly one step inside [0, highest seen] (or to 0), at most one store per call, and touches nothing else; no other function stores the current or highest layers. " +
			"R4.4: no path of Write reaches the sequence-number map (and hence a write) with the packet's temporal or spatial layer above the current one without first asking the map to withhold it. " +
			"R4.5: replaceTracks installs the low-quality limit on every track and resets the wanted spatial layer to 0 with it; adjustLayer never stores a wanted spatial layer other than 0 on a limited track (so that, with the reset at installation and Write's not-limited guard, every stored selection with the limit has wantedSid 0); requestedTracks sets the limit only for a low-quality request on a publisher without simulcast. " +
			"R4.6 (proof): every value stored into the loss-based ceiling lies in [minLossRate, maxLossRate]. " +
			"R4.8: while the sequence-number map has recorded no drop, every call of Map either stores the expected number (next) or finds that an earlier packet already did (the started flag): a withhold attempt compares the packet with next, so a stream whose first number looks 'late' against the zero value must not leave it unset (F-T). " +
			"R4.7: codecs.PacketFlags marks a packet as the start of a frame only where the payload descriptor says so (VP8: S bit and partition index 0; VP9: B bit), and as a keyframe only at such a start.",
		NotDecided: []string{
			"that a drop attempt succeeds (only in-order packets can be withheld: C01 R1.2)",
			"lost updates between the writer goroutine and the RTCP listener on the packed layer word (each stored word is derived from one consistent snapshot)",
			"correctness of the tid/sid/up-sync flags and of the keyframe bit tests in codecs.PacketFlags (R4.7 covers only where a frame starts)",
		},
		NeedSSA: true,
		Run:     runC04,
	})
}

type guardAlt struct {
	name  string
	facts []*Fact
}

func runC04(c *Ctx) {
	p := c.P
	c.Rule("R4.1", "E2", "spatial layer switches only at the first packet of a keyframe (or follows a new top layer)", 2)
	c.Rule("R4.2", "E2", "temporal layer falls at frame starts, rises at keyframes or marked up-switch points (or follows a new top layer)", 3)
	c.Rule("R4.3", "E2/E4", "highest-seen layers only grow; wanted layers move one step within bounds; confined writers", 10)
	c.Rule("R4.4", "E3", "no packet above the current layers reaches the map without a withhold attempt", 2)
	c.Rule("R4.5", "E2", "low-quality limit installed on every track, honoured by adjustLayer, set only without simulcast", 4)
	c.Rule("R4.6", "E6", "loss-based ceiling within [minLossRate, maxLossRate] (interval proof)", 1)
	c.Rule("R4.7", "E2", "a packet starts a frame only where its payload descriptor says so; keyframes only at frame starts", 4)
	c.Rule("R4.8", "E3", "the first packet of a stream sets the map's expected number, whatever its sequence number", 1)
	runC04FirstPacket(c)
	runFrameStartFlags(c, "R4.7")
	wr := p.Func("rtpconn", "rtpDownTrack", "Write")
	al := p.Func("rtpconn", "rtpDownTrack", "adjustLayer")
	if wr == nil || al == nil {
		c.Unknown("R4.1", "anchors", 0, "rtpDownTrack.Write / adjustLayer not found")
		return
	}
	lf := func(n string) *types.Var { return p.Field("rtpconn", "layerInfo", n) }
	ff := func(n string) *types.Var { return p.Field("codecs", "Flags", n) }
	for _, n := range []string{"sid", "wantedSid", "maxSid", "tid", "wantedTid", "maxTid", "limitSid"} {
		if lf(n) == nil {
			c.Unknown("R4.1", "anchors", 0, "layerInfo.%s not found", n)
			return
		}
	}
	eng := p.Facts()

	// ---------- Write ----------
	{
		info := wr.Pkg.TypesInfo
		facts := eng.Analyze(wr)
		// the selection: the local first loaded with getLayerInfo(); the packet's
		// flags: the local of type codecs.Flags
		var layer, flags types.Object
		isLayerVar := func(o types.Object) bool {
			if o == nil {
				return false
			}
			nt, ok := o.Type().(*types.Named)
			return ok && nt.Obj().Name() == "layerInfo" && nt.Obj().Pkg() == wr.Pkg.Types
		}
		ast.Inspect(wr.Body(), func(n ast.Node) bool {
			as, ok := n.(*ast.AssignStmt)
			if !ok {
				return true
			}
			for i, l := range as.Lhs {
				id, isId := l.(*ast.Ident)
				if !isId || len(as.Rhs) != len(as.Lhs) {
					continue
				}
				o := info.ObjectOf(id)
				if call, isCall := unparen(as.Rhs[i]).(*ast.CallExpr); isCall && layer == nil && isLayerVar(o) && fnIs(calleeOf(&CallSite{Call: call, In: wr}), "rtpconn", "rtpDownTrack", "getLayerInfo") {
					layer = o
				}
			}
			if len(as.Lhs) >= 1 && flags == nil {
				if id, isId := as.Lhs[0].(*ast.Ident); isId {
					if o := info.ObjectOf(id); o != nil {
						if nt, isN := o.Type().(*types.Named); isN && nt.Obj().Name() == "Flags" && nt.Obj().Pkg() != nil && nt.Obj().Pkg().Name() == "codecs" {
							flags = o
						}
					}
				}
			}
			return true
		})
		if layer == nil || flags == nil {
			c.Unknown("R4.1", "locals", wr.Pos(), "Write no longer keeps the layer selection and the packet flags in locals")
			return
		}
		cur := layer // the selection variable a store is about (a copy of it inside inlined code)
		L := func(n string) *Term { return TField(TVar(cur), lf(n)) }
		F := func(n string) *Term { return TField(TVar(flags), ff(n)) }
		T := func(t *Term) *Fact { return mkFact(true, "true", t, nil) }
		mkTables := func() map[string]struct {
			rule string
			alts map[string][]guardAlt
			what string
		} {
			start, kf := T(F("Start")), T(F("Keyframe"))
			sidAlts := map[string][]guardAlt{
				"layer.wantedSid": {{"wanted layer at the first packet of a keyframe", []*Fact{start, kf}}},
				"flags.Sid":       {{"new top layer while at the top, not limited", []*Fact{mkFact(true, "lt", L("maxSid"), F("Sid")), mkFact(true, "eq", L("sid"), L("maxSid")), mkFact(false, "true", L("limitSid"), nil)}}},
			}
			tidAlts := map[string][]guardAlt{
				"layer.wantedTid": {
					{"wanted layer at the start of a keyframe", []*Fact{start, kf}},
					{"lower wanted layer at the start of a frame", []*Fact{start, mkFact(true, "lt", L("wantedTid"), L("tid"))}},
				},
				"flags.Tid": {
					{"up-switch point not above the wanted layer, at a frame start", []*Fact{start, T(F("TidUpSync")), mkFact(false, "lt", L("wantedTid"), F("Tid"))}},
					{"new top layer while at the top", []*Fact{mkFact(true, "lt", L("maxTid"), F("Tid")), mkFact(true, "eq", L("tid"), L("maxTid"))}},
				},
			}
			maxAlts := func(max, fl string) map[string][]guardAlt {
				return map[string][]guardAlt{"flags." + fl: {{"a layer higher than any seen so far", []*Fact{mkFact(true, "lt", L(max), F(fl))}}}}
			}
			wantedAlts := func(cur, max, fl string, lim bool) map[string][]guardAlt {
				fs := []*Fact{mkFact(true, "lt", L(max), F(fl)), mkFact(true, "eq", L(cur), L(max))}
				if lim {
					fs = append(fs, mkFact(false, "true", L("limitSid"), nil))
				}
				return map[string][]guardAlt{"flags." + fl: {{"new top layer while at the top", fs}}}
			}
			return map[string]struct {
				rule string
				alts map[string][]guardAlt
				what string
			}{
				"sid":       {"R4.1", sidAlts, "the spatial layer changes at a point where the receiver cannot decode the new layer"},
				"tid":       {"R4.2", tidAlts, "the temporal layer changes at a point the codec does not allow"},
				"maxSid":    {"R4.3", maxAlts("maxSid", "Sid"), "the highest spatial layer seen is set to something that was not seen or decreases"},
				"maxTid":    {"R4.3", maxAlts("maxTid", "Tid"), "the highest temporal layer seen is set to something that was not seen or decreases"},
				"wantedSid": {"R4.3", wantedAlts("sid", "maxSid", "Sid", true), "the wanted spatial layer is changed by the forwarding path outside the follow-the-top exception"},
				"wantedTid": {"R4.3", wantedAlts("tid", "maxTid", "Tid", false), "the wanted temporal layer is changed by the forwarding path outside the follow-the-top exception"},
			}
		}
		k := newKeyer()
		counts, kinds := map[string]int{}, map[string]int{}
		ast.Inspect(wr.Body(), func(n ast.Node) bool {
			as, ok := n.(*ast.AssignStmt)
			if !ok || len(as.Lhs) != 1 || len(as.Rhs) != 1 {
				return true
			}
			sel, ok := unparen(as.Lhs[0]).(*ast.SelectorExpr)
			if !ok {
				return true
			}
			s := info.Selections[sel]
			if s == nil {
				return true
			}
			id, ok := unparen(sel.X).(*ast.Ident)
			if !ok || !isLayerVar(info.Uses[id]) {
				return true
			}
			// the tables are about this variable (the selection itself, or the private
			// copy a helper worked on before it was handed back)
			cur = info.Uses[id]
			tables := mkTables()
			cur = layer
			fname := s.Obj().Name()
			tb, ok := tables[fname]
			// the value stored, named by role: a field of the same selection, or of the flags
			rhs := types.ExprString(as.Rhs[0])
			if rsel, isSel := unparen(as.Rhs[0]).(*ast.SelectorExpr); isSel {
				if rid, isId := unparen(rsel.X).(*ast.Ident); isId {
					switch {
					case info.Uses[rid] == info.Uses[id]:
						rhs = "layer." + rsel.Sel.Name
					case info.Uses[rid] == flags:
						rhs = "flags." + rsel.Sel.Name
					}
				}
			}
			key := k.key("Write: layer."+fname, "=", rhs)
			if !ok {
				c.Bad("R4.3", key, as.Pos(), "Write stores a field of the layer selection that it has no business changing")
				return true
			}
			counts[fname]++
			kinds[fname+"="+rhs]++
			alts := tb.alts[rhs]
			var altFacts [][]*Fact
			for i := range alts {
				altFacts = append(altFacts, alts[i].facts)
			}
			okAlt, used := facts.HoldsSomeAlt(as, altFacts)
			if okAlt {
				var names []string
				for _, i := range used {
					names = append(names, alts[i].name)
				}
				c.OK(tb.rule, key, as.Pos(), "%s", strings.Join(names, " | "))
			} else {
				var want []string
				for _, a := range alts {
					want = append(want, a.name)
				}
				if len(want) == 0 {
					want = []string{"no legal switch stores this value"}
				}
				c.Bad(tb.rule, key, as.Pos(), "%s (legal: %s)", tb.what, strings.Join(want, " | "))
			}
			return true
		})
		for _, kind := range []string{"sid=layer.wantedSid", "sid=flags.Sid", "tid=layer.wantedTid", "tid=flags.Tid"} {
			if kinds[kind] == 0 {
				c.Bad("R4.1", "switch sites found", wr.Pos(), "Write no longer has a store %s (%d stores of the spatial and %d of the temporal layer found): the selection is never moved to the wanted layer, or the rule does not see where it is", strings.Replace(kind, "=", " = ", 1), counts["sid"], counts["tid"])
			}
		}
		// every store is published: a setLayerInfo(layer) follows on every path before Drop/Map
		// ---- R4.4 ----
		var dropc, mapc *ast.CallExpr
		ast.Inspect(wr.Body(), func(n ast.Node) bool {
			if call, ok := n.(*ast.CallExpr); ok {
				f := calleeOf(&CallSite{Call: call, In: wr})
				if fnIs(f, "packetmap", "Map", "Drop") {
					dropc = call
				}
				if fnIs(f, "packetmap", "Map", "Map") {
					mapc = call
				}
			}
			return true
		})
		if dropc == nil || mapc == nil || len(wr.Body().List) == 0 {
			c.Bad("R4.4", "withhold decision", wr.Pos(), "Write no longer consults packetmap.Drop and packetmap.Map")
		} else {
			contains := func(n ast.Node, call *ast.CallExpr) bool { return n.Pos() <= call.Pos() && call.End() <= n.End() }
			// the variable that holds the selection when the withhold decision is taken: the
			// one first loaded, or - when helpers hand the selection on by value - a variable
			// of the same type reached from it through whole-value copies that is the most
			// recently assigned of them at the Drop call (no other copy was assigned or had a
			// field stored since: a stale copy does not qualify)
			chain := map[types.Object]bool{layer: true}
			wholeAssigns := func(visit func(lhs, rhs types.Object, at ast.Node)) {
				ast.Inspect(wr.Body(), func(n ast.Node) bool {
					as, ok := n.(*ast.AssignStmt)
					if !ok || len(as.Lhs) != len(as.Rhs) {
						return true
					}
					for i, l := range as.Lhs {
						lid, isL := l.(*ast.Ident)
						if !isL || !isLayerVar(info.ObjectOf(lid)) {
							continue
						}
						var ro types.Object
						if rid, isR := unparen(as.Rhs[i]).(*ast.Ident); isR {
							ro = info.ObjectOf(rid)
						}
						visit(info.ObjectOf(lid), ro, as)
					}
					return true
				})
			}
			for changed := true; changed; {
				changed = false
				wholeAssigns(func(lhs, rhs types.Object, _ ast.Node) {
					if rhs != nil && chain[rhs] && !chain[lhs] {
						chain[lhs] = true
						changed = true
					}
				})
			}
			selVar := layer
			if len(chain) > 1 {
				for x := range chain {
					x := x
					gen := func(n ast.Node) bool {
						as, ok := n.(*ast.AssignStmt)
						if !ok {
							return false
						}
						for _, l := range as.Lhs {
							if id, isId := l.(*ast.Ident); isId && info.ObjectOf(id) == x {
								return true
							}
						}
						return false
					}
					kill := func(n ast.Node) bool {
						killed := false
						ast.Inspect(n, func(m ast.Node) bool {
							as, ok := m.(*ast.AssignStmt)
							if !ok {
								return true
							}
							for _, l := range as.Lhs {
								switch y := unparen(l).(type) {
								case *ast.Ident:
									if o := info.ObjectOf(y); o != x && chain[o] {
										killed = true
									}
								case *ast.SelectorExpr:
									if id, isId := unparen(y.X).(*ast.Ident); isId {
										if o := info.ObjectOf(id); o != x && chain[o] {
											killed = true
										}
									}
								}
							}
							return true
						})
						return killed
					}
					if x != layer && facts.MustFlag(gen, kill)(dropc) {
						selVar = x
					}
				}
			}
			LS := func(n string) *Term { return TField(TVar(selVar), lf(n)) }
			for _, dim := range [][2]string{{"tid", "Tid"}, {"sid", "Sid"}} {
				notAbove := mkFact(false, "lt", LS(dim[0]), F(dim[1]))
				_, found := facts.PathSearch(wr.Body().List[0], 0, func(n ast.Node, st *State, flag int) (int, bool) {
					if contains(n, dropc) {
						return flag, true
					}
					if contains(n, mapc) {
						return 1, false
					}
					return flag, false
				}, func(f *Fact) bool { return f.key == notAbove.key }, func(flag int) bool { return flag == 1 })
				c.Check(!found, "R4.4", "packets above the current "+dim[0]+" are offered to Drop", dropc.Pos(), "every path to Map on which flags."+dim[1]+" > layer."+dim[0]+" may hold passes through Drop", "a packet above the receiver's current "+dim[0]+" can reach the sequence-number map and be forwarded without a withhold attempt")
			}
			// Drop is asked with the layers as they are after the switches: no store to layer.sid/tid between Drop and Map... and none after the decision
			okLate := true
			ast.Inspect(wr.Body(), func(n ast.Node) bool {
				if as, ok := n.(*ast.AssignStmt); ok && as.Pos() > dropc.Pos() {
					for _, l := range as.Lhs {
						if sel, ok := unparen(l).(*ast.SelectorExpr); ok {
							if id, ok := unparen(sel.X).(*ast.Ident); ok && (info.Uses[id] == layer || info.Uses[id] == selVar) {
								okLate = false
							}
						}
					}
				}
				return true
			})
			c.Check(okLate, "R4.4", "the selection is final when the withhold decision is taken", dropc.Pos(), "no store to the layer selection after the Drop decision", "the layer selection changes after the packet was tested against it")
		}
	}

	// ---------- adjustLayer ----------
	{
		info := al.Pkg.TypesInfo
		facts := eng.Analyze(al)
		k := newKeyer()
		nst, nWantedSid := 0, 0
		var offZero []string
		var setCalls []*ast.CallExpr
		ast.Inspect(al.Body(), func(n ast.Node) bool {
			if call, ok := n.(*ast.CallExpr); ok && fnIs(calleeOf(&CallSite{Call: call, In: al}), "rtpconn", "rtpDownTrack", "setLayerInfo") {
				setCalls = append(setCalls, call)
			}
			as, ok := n.(*ast.AssignStmt)
			if !ok || len(as.Lhs) != 1 || len(as.Rhs) != 1 {
				return true
			}
			sel, ok := unparen(as.Lhs[0]).(*ast.SelectorExpr)
			if !ok {
				return true
			}
			s := info.Selections[sel]
			if s == nil || s.Recv() == nil || !strings.HasSuffix(s.Recv().String(), "rtpconn.layerInfo") {
				return true
			}
			id, ok := unparen(sel.X).(*ast.Ident)
			if !ok {
				return true
			}
			lv := info.Uses[id]
			fname := s.Obj().Name()
			key := k.key("adjustLayer: "+fname, "=", types.ExprString(as.Rhs[0]))
			nst++
			L := func(n string) *Term { return TField(TVar(lv), lf(n)) }
			st, _ := facts.At(as)
			var cur, max string
			switch fname {
			case "wantedSid":
				cur, max = "sid", "maxSid"
				nWantedSid++
			case "wantedTid":
				cur, max = "tid", "maxTid"
			default:
				c.Bad("R4.3", key, as.Pos(), "adjustLayer stores %s: only the wanted layers may be changed by bandwidth feedback (the current layer switches in Write, at legal points)", fname)
				return true
			}
			rhs := unparen(as.Rhs[0])
			ok2, why := false, ""
			if tv := info.Types[rhs]; tv.Value != nil && tv.Value.String() == "0" {
				ok2, why = true, "lowest layer"
			} else if be, isB := rhs.(*ast.BinaryExpr); isB && types.ExprString(be.X) == id.Name+"."+cur {
				if tv := info.Types[be.Y]; tv.Value != nil && tv.Value.String() == "1" && st != nil {
					switch be.Op {
					case token.ADD:
						need := []*Fact{mkFact(true, "lt", L(cur), L(max))}
						if fname == "wantedSid" {
							need = append(need, mkFact(false, "true", L("limitSid"), nil))
						}
						ok2, _ = facts.HoldsSomeAlt(as, [][]*Fact{need})
						why = "one step up, below the highest layer seen" + map[bool]string{true: ", not limited", false: ""}[fname == "wantedSid"]
					case token.SUB:
						ok2, _ = facts.HoldsSomeAlt(as, [][]*Fact{{mkFact(true, "lt", TConst("0"), L(cur))}})
						why = "one step down, above 0"
					}
					if fname == "wantedSid" {
						if okLim, _ := facts.HoldsSomeAlt(as, [][]*Fact{{mkFact(false, "true", L("limitSid"), nil)}}); !okLim {
							offZero = append(offZero, p.PosStr(as.Pos()))
						}
					}
				}
			}
			if ok2 {
				c.OK("R4.3", key, as.Pos(), "%s", why)
			} else {
				c.Bad("R4.3", key, as.Pos(), "the wanted layer is moved by more than one step, beyond the highest layer seen, below 0, or up on a limited track")
			}
			return true
		})
		if nst < 4 {
			c.Bad("R4.3", "adjustLayer stores found", al.Pos(), "only %d stores to wanted layers found (one step up and down for each of the two dimensions expected)", nst)
		}
		// at most one published change per call
		okOne := len(al.Body().List) > 0
		if okOne {
			_, found := facts.PathSearch(al.Body().List[0], 0, func(n ast.Node, st *State, flag int) (int, bool) {
				for _, sc := range setCalls {
					if n.Pos() <= sc.Pos() && sc.End() <= n.End() {
						flag++
					}
				}
				return flag, false
			}, nil, func(flag int) bool { return flag > 1 })
			okOne = !found
		}
		c.Check(okOne && len(setCalls) >= 1, "R4.3", "adjustLayer: one step per call", al.Pos(), fmt.Sprintf("%d setLayerInfo sites, at most one on any path", len(setCalls)), "a single feedback event can move the selection by more than one step")
		// R4.5 (ii): bandwidth feedback never moves a limited track off spatial layer 0
		// (the limit is installed together with wantedSid = 0: R4.5 (i); Write follows a new top layer only when not limited: R4.3)
		c.Check(len(offZero) == 0 && nWantedSid > 0, "R4.5", "adjustLayer keeps a limited track at spatial layer 0", al.Pos(), fmt.Sprintf("%d stores to wantedSid: each stores 0 or is reachable only when the track is not limited", nWantedSid), "a track limited to low quality can be moved to a spatial layer other than 0 by bandwidth feedback (at "+strings.Join(offZero, ", ")+")")
	}

	// ---------- who writes the selection ----------
	{
		okWho := true
		var who []string
		for _, fs := range p.Sources() {
			if shortPkg(fs.Pkg.PkgPath) != "rtpconn" {
				continue
			}
			info := fs.Pkg.TypesInfo
			ast.Inspect(fs.Body(), func(n ast.Node) bool {
				if _, isLit := n.(*ast.FuncLit); isLit && n != ast.Node(fs.Lit) {
					return false
				}
				as, ok := n.(*ast.AssignStmt)
				if !ok {
					return true
				}
				for _, l := range as.Lhs {
					sel, ok := unparen(l).(*ast.SelectorExpr)
					if !ok {
						continue
					}
					s := info.Selections[sel]
					if s == nil {
						continue
					}
					switch s.Obj() {
					case types.Object(lf("sid")), types.Object(lf("tid")), types.Object(lf("maxSid")), types.Object(lf("maxTid")):
						who = appendUniqueStr(who, fs.Name)
						if fs != wr {
							okWho = false
						}
					case types.Object(lf("wantedSid")), types.Object(lf("wantedTid")), types.Object(lf("limitSid")):
						root := fs.Root()
						if fs != wr && fs != al && !strings.HasSuffix(root.Name, "replaceTracks") {
							okWho = false
							who = appendUniqueStr(who, fs.Name)
						}
					}
				}
				return true
			})
		}
		c.Check(okWho && len(who) > 0, "R4.3", "current and highest layers are stored only by Write", wr.Pos(), "writers: "+strings.Join(who, ", ")+"; wanted layers and the limit only by Write, adjustLayer and replaceTracks", "the layer selection is changed outside the functions that obey the switch rules: "+strings.Join(who, ", "))
		// composite literals of layerInfo only in getLayerInfo
		okLit := true
		for _, fs := range p.Sources() {
			if shortPkg(fs.Pkg.PkgPath) != "rtpconn" || fs.Lit != nil {
				continue
			}
			ast.Inspect(fs.Body(), func(n ast.Node) bool {
				if cl, ok := n.(*ast.CompositeLit); ok {
					if t := fs.Pkg.TypesInfo.TypeOf(cl); t != nil && strings.HasSuffix(t.String(), "rtpconn.layerInfo") && !strings.HasSuffix(fs.Name, "getLayerInfo") {
						okLit = false
					}
				}
				return true
			})
		}
		c.Check(okLit, "R4.3", "a selection is only ever built by decoding the stored word", wr.Pos(), "layerInfo literals only in getLayerInfo", "a layer selection is fabricated instead of being derived from the stored one")
	}

	// ---------- replaceTracks / requestedTracks ----------
	{
		rt := p.Func("rtpconn", "", "replaceTracks")
		rq := p.Func("rtpconn", "", "requestedTracks")
		if rt == nil || rq == nil {
			c.Unknown("R4.5", "anchors", 0, "replaceTracks / requestedTracks not found")
		} else {
			info := rt.Pkg.TypesInfo
			var limParam types.Object
			for _, po := range rt.params(info) {
				if po != nil && po.Name() == "limitSid" {
					limParam = po
				}
			}
			okInst, okReset, okAll := false, false, false
			for _, fs := range p.Sources() {
				if fs.Root() != rt {
					continue
				}
				facts := eng.Analyze(fs)
				ast.Inspect(fs.Body(), func(n ast.Node) bool {
					switch x := n.(type) {
					case *ast.AssignStmt:
						if len(x.Lhs) != 1 {
							return true
						}
						l := types.ExprString(x.Lhs[0])
						if strings.HasSuffix(l, ".limitSid") {
							if id, ok := unparen(x.Rhs[0]).(*ast.Ident); ok && info.Uses[id] == limParam {
								okInst = true
							}
						}
						if strings.HasSuffix(l, ".wantedSid") && types.ExprString(x.Rhs[0]) == "0" {
							st, _ := facts.At(x)
							if st != nil && limParam != nil && st.HasFact(mkFact(true, "true", TVar(limParam), nil)) {
								okReset = true
							}
						}
					case *ast.RangeStmt:
						if strings.HasSuffix(types.ExprString(x.X), "conn.tracks") {
							ast.Inspect(x.Body, func(m ast.Node) bool {
								if call, ok := m.(*ast.CallExpr); ok && fnIs(calleeOf(&CallSite{Call: call, In: fs}), "rtpconn", "rtpDownTrack", "setLayerInfo") {
									okAll = true
								}
								return true
							})
						}
					}
					return true
				})
			}
			// the installation runs on every exit: it is deferred before the first return that follows the track computation, or is unconditional
			okDefer := false
			ast.Inspect(rt.Body(), func(n ast.Node) bool {
				if d, ok := n.(*ast.DeferStmt); ok {
					if fl, ok := d.Call.Fun.(*ast.FuncLit); ok {
						found := false
						ast.Inspect(fl.Body, func(m ast.Node) bool {
							if as, ok := m.(*ast.AssignStmt); ok && len(as.Lhs) == 1 && strings.HasSuffix(types.ExprString(as.Lhs[0]), ".limitSid") {
								found = true
							}
							return true
						})
						if found {
							okDefer = true
						}
					}
				}
				return true
			})
			c.Check(okInst && okAll && okDefer, "R4.5", "replaceTracks installs the limit on every track of the connection", rt.Pos(), "deferred: for every track, layer.limitSid = limitSid; setLayerInfo(layer)", "the low-quality limit requested by the receiver is not installed on every track")
			c.Check(okReset, "R4.5", "installing the limit resets the wanted spatial layer", rt.Pos(), "limitSid => wantedSid = 0", "a limited track keeps a wanted spatial layer above 0: it is not steered to the lowest layer at the next keyframe")
			// requestedTracks: limit only for video-low without simulcast
			okLim, nLim := limitRequestOK(p, rq)
			c.Check(okLim && nLim == 1, "R4.5", "the limit is requested only for video-low without simulcast", rq.Pos(), "limitSid becomes true only under videoLow && !video && count < 2", "the spatial limit is set for requests other than low quality from a non-simulcast publisher (or never)")
		}
	}

	// ---------- R4.6 ----------
	{
		fMax := p.Field("rtpconn", "rtpDownTrack", "maxBitrate")
		pkg := p.Pkg("rtpconn")
		lo, hi := int64(-1), int64(-1)
		if o, ok := pkg.Types.Scope().Lookup("minLossRate").(*types.Const); ok {
			lo, _ = constantInt64(o)
		}
		if o, ok := pkg.Types.Scope().Lookup("maxLossRate").(*types.Const); ok {
			hi, _ = constantInt64(o)
		}
		ia := p.Intervals()
		nset := 0
		for _, fs := range p.Sources() {
			if shortPkg(fs.Pkg.PkgPath) != "rtpconn" {
				continue
			}
			for _, fn := range p.ssaOfSrc(fs) {
				fi := ia.Analyze(fn)
				for _, b := range fn.Blocks {
					for _, ins := range b.Instrs {
						call, ok := ins.(*ssa.Call)
						if !ok || call.Call.StaticCallee() == nil || call.Call.StaticCallee().Name() != "Set" || len(call.Call.Args) != 3 {
							continue
						}
						if fa, ok := call.Call.Args[0].(*ssa.FieldAddr); !(ok && fieldOf(fa) == fMax) && !isLoadOfField(call.Call.Args[0], fMax) {
							continue
						}
						nset++
						iv := fi.At(call.Call.Args[1], b)
						ok2 := lo > 0 && hi > lo && !iv.empty() && iv.Lo.Cmp(big.NewInt(lo)) >= 0 && iv.Hi.Cmp(big.NewInt(hi)) <= 0
						c.Check(ok2, "R4.6", "maxBitrate.Set in "+fs.Name, call.Pos(), fmt.Sprintf("value in %s within [%d, %d]", iv, lo, hi), fmt.Sprintf("the loss-based ceiling can be set to a value in %s, outside [%d, %d]", iv, lo, hi))
					}
				}
			}
		}
		if nset == 0 {
			c.Bad("R4.6", "ceiling stores found", 0, "no store of the loss-based ceiling found")
		}
		// nothing else writes the bitrate cell behind maxBitrate
		fb := p.Field("rtpconn", "bitrate", "bitrate")
		okCell := true
		for _, fs := range p.Sources() {
			if shortPkg(fs.Pkg.PkgPath) != "rtpconn" || strings.HasSuffix(fs.Name, "(*bitrate).Set") || strings.HasSuffix(fs.Name, "(*bitrate).Get") {
				continue
			}
			ast.Inspect(fs.Body(), func(n ast.Node) bool {
				if sel, ok := n.(*ast.SelectorExpr); ok {
					if s := fs.Pkg.TypesInfo.Selections[sel]; s != nil && s.Obj() == types.Object(fb) {
						okCell = false
					}
				}
				return true
			})
		}
		c.Check(okCell, "R4.6", "the ceiling cell is written only through bitrate.Set", 0, "bitrate.bitrate referenced only in Set/Get", "the ceiling is stored behind Set's back")
	}
}

// limitRequestOK: in requestedTracks the local limitSid becomes true only on
// the video-low path (videoLow && !video) and only when fewer than two video
// tracks were counted; n is the number of assignments that can make it true.
func limitRequestOK(p *Program, rq *FuncSrc) (ok bool, n int) {
	info := rq.Pkg.TypesInfo
	ff := p.Facts().Analyze(rq)
	// by role: the limit is what requestedTracks returns second; the flags are the
	// locals set under the request strings
	flags, okF := requestFlags(p, rq)
	lims := map[types.Object]bool{}
	if rq.Decl != nil && rq.Decl.Type.Results != nil {
		k := 0
		for _, fld := range rq.Decl.Type.Results.List {
			for _, nm := range fld.Names {
				if k == 1 {
					lims[info.Defs[nm]] = true
				}
				k++
			}
		}
	}
	ast.Inspect(rq.Body(), func(m ast.Node) bool {
		if _, isLit := m.(*ast.FuncLit); isLit {
			return false
		}
		if rs, isR := m.(*ast.ReturnStmt); isR && len(rs.Results) == 2 {
			if id, isId := unparen(rs.Results[1]).(*ast.Ident); isId {
				if v, isV := info.Uses[id].(*types.Var); isV {
					lims[v] = true
				}
			}
		}
		return true
	})
	if !okF || len(lims) == 0 {
		return false, 0
	}
	vl, vid := flags["video-low"], flags["video"]
	ok = true
	ast.Inspect(rq.Body(), func(m ast.Node) bool {
		if _, isLit := m.(*ast.FuncLit); isLit {
			return false
		}
		as, isAs := m.(*ast.AssignStmt)
		if !isAs {
			return true
		}
		for i, l := range as.Lhs {
			id, isId := l.(*ast.Ident)
			if !isId || !lims[info.ObjectOf(id)] {
				continue
			}
			if len(as.Rhs) != len(as.Lhs) {
				ok = false
				continue
			}
			rhs := unparen(as.Rhs[i])
			tv := info.Types[rhs]
			if tv.Value != nil && tv.Value.String() == "false" {
				continue
			}
			n++
			st, _ := ff.At(as)
			if st != nil && tv.Value == nil {
				// limitSid = <condition>: it becomes true exactly where the condition holds
				st = ff.assume(st, rhs, true)
			}
			if st == nil || !flagFact(st, vl, true) || !flagFact(st, vid, false) {
				ok = false
				continue
			}
			few := false
			for _, f := range st.Facts() {
				if f.Op == "lt" && f.Pos && f.A.K == 'v' && f.B != nil && f.B.Name == "2" {
					few = true
				}
			}
			if !few {
				ok = false
			}
		}
		return true
	})
	return ok, n
}

// R4.7: the layer switches of R4.1/R4.2 are legal only because flags.Start is
// the first packet of a frame.  Every store to Flags.Start / Flags.Keyframe in
// PacketFlags is decided by assuming the stored expression true: for a VP8
// descriptor that must give S != 0 and partition index 0, for VP9 the B bit.
func runFrameStartFlags(c *Ctx, rule string) {
	p := c.P
	pf := p.Func("codecs", "", "PacketFlags")
	if pf == nil {
		c.Unknown(rule, "anchors", 0, "codecs.PacketFlags not found")
		return
	}
	info := pf.Pkg.TypesInfo
	ff := p.Facts().Analyze(pf)
	startF, keyF := p.Field("codecs", "Flags", "Start"), p.Field("codecs", "Flags", "Keyframe")
	if startF == nil || keyF == nil {
		c.Unknown(rule, "anchors", 0, "Flags.Start / Flags.Keyframe not found")
		return
	}
	// the descriptor locals, by type
	descr := map[string]types.Object{}
	ast.Inspect(pf.Body(), func(n ast.Node) bool {
		if id, ok := n.(*ast.Ident); ok {
			if v, ok := info.Defs[id].(*types.Var); ok {
				if nt, ok := v.Type().(*types.Named); ok && (nt.Obj().Name() == "VP8Packet" || nt.Obj().Name() == "VP9Packet") {
					descr[nt.Obj().Name()] = v
				}
			}
		}
		return true
	})
	fieldOf := func(v types.Object, name string) *types.Var {
		st, ok := v.Type().Underlying().(*types.Struct)
		if !ok {
			return nil
		}
		for i := 0; i < st.NumFields(); i++ {
			if st.Field(i).Name() == name {
				return st.Field(i)
			}
		}
		return nil
	}
	// what "frame start" means per descriptor
	startFacts := func(st *State) (string, bool) {
		if v := descr["VP8Packet"]; v != nil {
			s, pid := fieldOf(v, "S"), fieldOf(v, "PID")
			if s != nil && pid != nil {
				okS, okP := false, false
				for _, f := range st.Facts() {
					if f.Op != "eq" || f.A == nil || f.B == nil {
						continue
					}
					for _, pr := range [][2]*Term{{f.A, f.B}, {f.B, f.A}} {
						fl, cst := pr[0], pr[1]
						if fl.K != 'f' || len(fl.Args) != 1 || fl.Args[0].K != 'v' || fl.Args[0].Obj != v || cst.K != 'c' {
							continue
						}
						// S != 0 (or S == 1: a one-bit field), PID == 0
						if fl.Obj == s.Origin() && ((cst.Name == "0" && !f.Pos) || (cst.Name == "1" && f.Pos)) {
							okS = true
						}
						if fl.Obj == pid.Origin() && cst.Name == "0" && f.Pos {
							okP = true
						}
					}
				}
				if okS && okP {
					return "VP8", true
				}
			}
		}
		if v := descr["VP9Packet"]; v != nil {
			if b := fieldOf(v, "B"); b != nil {
				if st.HasFact(mkFact(true, "true", TField(TVar(v), b), nil)) {
					return "VP9", true
				}
			}
		}
		return "", false
	}
	nStart, nKey := 0, 0
	ast.Inspect(pf.Body(), func(n ast.Node) bool {
		as, ok := n.(*ast.AssignStmt)
		if !ok || len(as.Lhs) != len(as.Rhs) {
			return true
		}
		for i, l := range as.Lhs {
			se, ok := unparen(l).(*ast.SelectorExpr)
			if !ok {
				continue
			}
			fld, _ := info.Uses[se.Sel].(*types.Var)
			if fld == nil || (fld.Origin() != startF && fld.Origin() != keyF) {
				continue
			}
			rhs := unparen(as.Rhs[i])
			if tv := info.Types[rhs]; tv.Value != nil && tv.Value.String() == "false" {
				continue
			}
			st, _ := ff.At(as)
			if st != nil {
				st = ff.assume(st, rhs, true)
			}
			which, okSt := "", false
			if st != nil {
				which, okSt = startFacts(st)
			}
			if !okSt && os.Getenv("GALINT_DEBUG_R47") != "" {
				fmt.Fprintln(os.Stderr, "R4.7 state:", st)
			}
			name := "Start"
			if fld.Origin() == keyF {
				name = "Keyframe"
				nKey++
			} else {
				nStart++
			}
			c.Check(okSt, rule, fmt.Sprintf("PacketFlags: %s set #%d", name, map[bool]int{true: nKey, false: nStart}[name == "Keyframe"]), as.Pos(),
				"true only at the first packet of a frame ("+which+" descriptor)", "flags."+name+" can be true on a packet that does not start a frame (VP8: S bit and partition index 0; VP9: B bit): layer switches and drops would cut frames in the middle")
		}
		return true
	})
	if nStart < 2 || nKey < 2 {
		c.Bad(rule, "PacketFlags sets Start and Keyframe for VP8 and VP9", pf.Pos(), fmt.Sprintf("%d stores to Start, %d to Keyframe found (expected at least 2 each)", nStart, nKey))
	}
}

// R4.8 (F-T): Drop withholds only the packet whose number equals m.next.  In
// the state without recorded drops Map must therefore have set next from the
// first packet: every path through Map that stays in that state stores next,
// or arrives with "started" found true before anything stored it.
func runC04FirstPacket(c *Ctx) {
	p := c.P
	mp := p.Func("packetmap", "Map", "Map")
	fNext := p.Field("packetmap", "Map", "next")
	fDelta, fEntries := p.Field("packetmap", "Map", "delta"), p.Field("packetmap", "Map", "entries")
	if mp == nil || fNext == nil || fDelta == nil || fEntries == nil {
		c.Unknown("R4.8", "anchors", 0, "packetmap.Map.Map / next / delta / entries not found")
		return
	}
	// the record of "a packet was seen": some boolean field of the map (by role, not by name)
	var flagsF []*types.Var
	if tn := p.TypeName("packetmap", "Map"); tn != nil {
		if st, ok := tn.Type().Underlying().(*types.Struct); ok {
			for i := 0; i < st.NumFields(); i++ {
				if bt, ok := st.Field(i).Type().Underlying().(*types.Basic); ok && bt.Kind() == types.Bool {
					flagsF = append(flagsF, st.Field(i))
				}
			}
		}
	}
	if len(flagsF) == 0 {
		c.Bad("R4.8", "Map: the first packet sets next", mp.Pos(), "the map has no record of whether a packet was seen (no boolean field): a first sequence number that compares as late against the zero value of next leaves next unset, and Drop then refuses every packet until the numbers wrap")
		return
	}
	info := mp.Pkg.TypesInfo
	ff := p.Facts().Analyze(mp)
	if len(mp.Body().List) == 0 {
		c.Unknown("R4.8", "anchors", 0, "empty body")
		return
	}
	storesField := func(n ast.Node, fld *types.Var) bool {
		hit := false
		ast.Inspect(n, func(m ast.Node) bool {
			if as, ok := m.(*ast.AssignStmt); ok {
				for _, l := range as.Lhs {
					if se, ok := unparen(l).(*ast.SelectorExpr); ok {
						if sel := info.Selections[se]; sel != nil && sel.Obj() == types.Object(fld) {
							hit = true
						}
					}
				}
			}
			// a call that stores it (advance helpers of the vocabulary)
			if call, ok := m.(*ast.CallExpr); ok {
				if src := p.SrcOfFunc(calleeOf(&CallSite{Call: call, In: mp})); src != nil && src.Decl != nil && src.Pkg == mp.Pkg && src != mp {
					ast.Inspect(src.Body(), func(k ast.Node) bool {
						if as, ok := k.(*ast.AssignStmt); ok {
							for _, l := range as.Lhs {
								if se, ok := unparen(l).(*ast.SelectorExpr); ok {
									if sel := src.Pkg.TypesInfo.Selections[se]; sel != nil && sel.Obj() == types.Object(fld) {
										// reset() zeroes next: that is not "setting it from the packet"
										if tv := src.Pkg.TypesInfo.Types[as.Rhs[0]]; tv.Value == nil {
											hit = true
										}
									}
								}
							}
						}
						return true
					})
				}
			}
			return true
		})
		return hit
	}
	from := ast.Node(mp.Body().List[0])
	var pos token.Pos
	found := true
	for _, fStarted := range flagsF {
		ps, fnd := ff.PathSearchPSX(from, 0, func(n ast.Node, _ *State, flag int) (int, bool) {
			if as, ok := n.(*ast.AssignStmt); ok && storesField(as, fNext) {
				if tv := info.Types[as.Rhs[0]]; tv.Value == nil {
					return flag, true
				}
			} else if storesField(n, fNext) {
				if _, isAs := n.(*ast.AssignStmt); !isAs {
					return flag, true
				}
			}
			if storesField(n, fStarted) {
				flag = 1
			}
			return flag, false
		}, nil, func(flag int, st *State) bool {
			for _, f := range st.Facts() {
				if f.A == nil {
					continue
				}
				// found started (before it was stored on this path)
				if flag == 0 && f.Op == "true" && f.Pos && f.A.K == 'f' && f.A.Obj == types.Object(fStarted) {
					return false
				}
				// not the state without drops
				if f.Op == "eq" && !f.Pos && f.B != nil {
					for _, pr := range [][2]*Term{{f.A, f.B}, {f.B, f.A}} {
						if pr[0].K == 'f' && pr[0].Obj == types.Object(fDelta) && pr[1].K == 'c' && pr[1].Name == "0" {
							return false
						}
						if pr[0].K == 'f' && pr[0].Obj == types.Object(fEntries) && pr[1].K == 'n' {
							return false
						}
					}
				}
			}
			return true
		})
		if !fnd {
			found = false
			break
		}
		pos = ps
	}
	at := mp.Pos()
	if found && pos.IsValid() {
		at = pos
	}
	c.Check(!found, "R4.8", "Map: the first packet sets next", at, "every path of Map in the state without drops stores next or found started set",
		"a call of Map in the state without recorded drops can return without setting next although no earlier packet did: with a first sequence number in 57344..65534 next stays at its zero value and Drop refuses every packet until the numbers wrap (layers above the selection are forwarded)")
}
