package main

import (
	"fmt"
	"go/ast"
	"go/token"
	"go/types"
	"math/big"
	"strings"

	"golang.org/x/tools/go/ssa"
)

func init() {
	register(&Property{
		ID:        "C05",
		Title:     "The packet cache returns a stored packet byte-exactly or nothing",
		Technique: "must-fact dataflow on the lookups (copy-out only from the slot compared equal), SSA single-cursor and value-identity rules on Store, interval analysis with capacity bounds (stored length <= slot size), writer/reader agreement on the length+marker packing, guarded-by lock analysis on the ring, escape rule for slot bytes, fill-count discipline at every consumer",
		Decides: "R5.1: in get/GetAt every copy out of a slot is dominated by slot.seqno == seqno for the same slot expression, is bounded by that slot's own length(), and the timestamp/marker returned with it are the same slot's; Get passes its own arguments to get and returns its count or 0. " +
			"R5.2: Store writes seqno, bytes, length+marker and timestamp through one cursor (the tail read once), with the parameters' values; the tail advances to (i+1) % len(entries) and the index returned is the cursor; len(buf) <= BufSize at every call; the marker bit used by Store is the one tested by marker() and masked out by length(), and BufSize fits in the length bits. " +
			"R5.3: every access to entries/tail (and the rest of the Cache state) holds Cache.mu; slot bytes are only ever touched as the source or destination of a copy inside the package; no function hands out an entry by reference. " +
			"R5.4: each consumer uses exactly buf[:n] with n the current returned count and nothing when n == 0; what the reader stores is the prefix it read (or re-marshalled), keyed by the same packet's own seqno/timestamp/marker; writers are told (seqno, index-returned-by-Store) and fetch with exactly that pair. R5.5: the lookups (Get, GetAt) read no field of the cache but the ring and its lock: the ring is filled per stored packet, not per sequence number, so a lookup that consults the loss statistics (last, expected, the bitmap) to decide that a packet cannot be there misses packets that are.",
		NotDecided: []string{
			"that resize preserves the newest entries and ring order (the three copy ranges are value-level arithmetic on tail/capacity)",
			"retrievability of the last <capacity> packets over store histories (a liveness-like statement about eviction order)",
			"which of two entries stored under the same seqno (65536 apart) a lookup returns",
		},
		NeedSSA: true,
		Run:     runC05,
	})
}

func runC05(c *Ctx) {
	p := c.P
	c.Rule("R5.1", "E2", "lookups copy out only from the slot whose seqno compared equal, bounded by that slot's length; the scan passes over every other slot", 6)
	c.Rule("R5.2", "E6", "Store writes one slot through one cursor with the parameters' values; packing agrees; stored length <= slot size", 8)
	c.Rule("R5.3", "E5", "ring accessed only under Cache.mu; slot bytes never escape by reference", 10)
	c.Rule("R5.4", "E2", "consumers use exactly the returned count; stored bytes are the bytes read, keyed by the packet's own fields; writers fetch by the pair Store returned", 8)
	cacheLookupRules(c, "R5.1")
	c.Rule("R5.5", "E4", "whether a lookup finds a packet depends on the ring alone", 2)
	cacheLookupReads(c, "R5.5")
	cacheStoreRules(c, "R5.2")

	// ---- R5.3 ----
	la := NewLockAnalysis(p)
	var fields []*types.Var
	for _, n := range []string{"entries", "tail", "last", "cycle", "lastValid", "expected", "totalExpected", "received", "totalReceived", "keyframe", "keyframeValid", "bitmap"} {
		fields = append(fields, p.Field("packetcache", "Cache", n))
	}
	checkGuardedFields(c, "R5.3", la, fields, p.Field("packetcache", "Cache", "mu"), nil)
	cacheEscapeRules(c, "R5.3")
	if g := p.Func("packetcache", "", "get"); g != nil {
		cl := la.byVar[p.Field("packetcache", "Cache", "mu")]
		fn := p.SSAFunc(g.Obj)
		c.Check(cl != nil && la.entry[fn].has(cl.ID), "R5.3", "get is entered with Cache.mu held", g.Pos(), "every caller of get holds Cache.mu (entry lockset)", "the slice of slots is searched without the cache lock by some caller")
	}

	// ---- R5.4 ----
	k := newKeyer()
	sites := fillSites(p)
	n := 0
	for _, s := range sites {
		if shortPkg(s.cs.In.Pkg.PkgPath) != "rtpconn" {
			continue
		}
		root := s.cs.In.Root().Name
		if !(strings.HasSuffix(root, "sendSequence") || strings.HasSuffix(root, "rtpWriterLoop") || strings.HasSuffix(root, "readLoop")) {
			continue
		}
		n++
		checkFillUses(c, "R5.4", k, s, sites)
	}
	if n < 4 {
		c.Bad("R5.4", "consumers found", 0, "only %d of the 4 buffer-filling calls of the forwarding path were found", n)
	}
	readerStoreRules(c, "R5.4")
}

// cacheLookupRules: R5.1 (also used by C03 as R3.4).
func cacheLookupRules(c *Ctx, rule string) {
	p := c.P
	pk := p.Pkg("packetcache")
	if pk == nil {
		c.Unknown(rule, "anchors", 0, "package packetcache not found")
		return
	}
	fBuf := p.Field("packetcache", "entry", "buf")
	fSeq := p.Field("packetcache", "entry", "seqno")
	eng := p.Facts()
	k := newKeyer()
	ncopy := 0
	for _, fs := range p.Sources() {
		if fs.Pkg != pk {
			continue
		}
		info := fs.Pkg.TypesInfo
		var copies []*ast.CallExpr
		ast.Inspect(fs.Body(), func(n ast.Node) bool {
			call, ok := n.(*ast.CallExpr)
			if !ok || len(call.Args) != 2 {
				return true
			}
			if id, ok := unparen(call.Fun).(*ast.Ident); !ok || id.Name != "copy" {
				return true
			} else if _, isB := info.Uses[id].(*types.Builtin); !isB {
				return true
			}
			if slotBufBase(info, call.Args[1], fBuf) != nil {
				copies = append(copies, call)
			}
			return true
		})
		if len(copies) == 0 {
			continue
		}
		ff := eng.Analyze(fs)
		params := fs.params(info)
		for _, call := range copies {
			ncopy++
			base := slotBufBase(info, call.Args[1], fBuf)
			sB := types.ExprString(base)
			key := k.key("copy out of", sB, "in", fs.Name)
			// destination: <param>[:base.length()]
			okDst := false
			if se, ok := unparen(call.Args[0]).(*ast.SliceExpr); ok && se.Low == nil && se.High != nil && !se.Slice3 {
				if hc, ok := unparen(se.High).(*ast.CallExpr); ok && len(hc.Args) == 0 {
					if sel, ok := unparen(hc.Fun).(*ast.SelectorExpr); ok && sel.Sel.Name == "length" && types.ExprString(stripAddr(sel.X)) == sB {
						if f, _ := info.Uses[sel.Sel].(*types.Func); fnIs(f, "packetcache", "entry", "length") {
							if id, ok := unparen(se.X).(*ast.Ident); ok {
								for _, po := range params {
									if po != nil && info.Uses[id] == po {
										okDst = true
									}
								}
							}
						}
					}
				}
			}
			// guard: base.seqno == <uint16 parameter>
			st, _ := ff.At(call)
			bt := ff.term(base)
			okGuard := false
			if st != nil && bt != nil {
				wantT := TField(bt, fSeq)
				want := wantT.String()
				for _, f := range st.Facts() {
					if f.Op != "eq" || !f.Pos || f.B == nil {
						continue
					}
					for _, pr := range [][2]*Term{{f.A, f.B}, {f.B, f.A}} {
						if (pr[0].String() == want || (pr[0].K == 'f' && pr[0].Obj == types.Object(fSeq) && st.EqualUnder(pr[0], wantT))) && pr[1].K == 'v' {
							for _, po := range params {
								if po != nil && pr[1].Obj == po {
									okGuard = true
								}
							}
						}
					}
				}
			}
			// what is returned along with the bytes belongs to the same slot
			okSame := true
			for _, ret := range ff.Returns() {
				if !ff.ReachableFrom(call, ret) && !(ret.Pos() <= call.Pos() && call.End() <= ret.End()) {
					continue
				}
				for _, r := range ret.Results {
					ast.Inspect(r, func(n ast.Node) bool {
						sel, ok := n.(*ast.SelectorExpr)
						if !ok {
							return true
						}
						if s := info.Selections[sel]; s != nil {
							if rt := s.Recv(); rt != nil && strings.HasSuffix(strings.TrimPrefix(rt.String(), "*"), "packetcache.entry") {
								if types.ExprString(stripAddr(sel.X)) != sB {
									okSame = false
								}
							}
						}
						return true
					})
				}
			}
			switch {
			case !okGuard:
				c.Bad(rule, key, call.Pos(), "bytes are copied out of %s without %s.seqno having been compared equal to the requested seqno on every path: a lookup can return another packet's bytes", sB, sB)
			case !okDst:
				c.Bad(rule, key, call.Pos(), "the copy out of %s is not bounded by %s.length(): a truncated or padded packet is returned", sB, sB)
			case !okSame:
				c.Bad(rule, key, call.Pos(), "the timestamp/marker returned with the bytes of %s come from another slot", sB)
			default:
				c.OK(rule, key, call.Pos(), "dominated by %s.seqno == seqno; destination result[:%s.length()]; metadata of the same slot", sB, sB)
			}
		}
	}
	if ncopy < 2 {
		c.Bad(rule, "lookups found", 0, "only %d copy-out sites found in packetcache (get and GetAt expected)", ncopy)
	}
	// the scan of get passes over every slot that does not hold the packet:
	// it ends early only with the hit
	// (when the scan has been folded into Cache.Get, that is the function the rules below are about)
	lookupFn := p.Func("packetcache", "", "get")
	if lookupFn == nil {
		lookupFn = p.Func("packetcache", "Cache", "Get")
	}
	if g := lookupFn; g != nil {
		ff := eng.Analyze(g)
		params := g.params(g.Pkg.TypesInfo)
		okScan, nloops, why := true, 0, ""
		ast.Inspect(g.Body(), func(n ast.Node) bool {
			rs := asScanLoop(g.Pkg.TypesInfo, n)
			if rs == nil {
				if fr, isFor := n.(*ast.ForStmt); isFor {
					if p.isInlineWrapper(g.File, fr) {
						return true
					}
					nloops++
					okScan, why = false, "the loop at "+p.PosStr(fr.Pos())+", which does not visit every slot"
				}
				return true
			}
			nloops++
			ast.Inspect(rs.Body, func(m ast.Node) bool {
				switch x := m.(type) {
				case *ast.FuncLit:
					return false
				case *ast.BranchStmt, *ast.ReturnStmt:
					if br, isBr := x.(*ast.BranchStmt); isBr && br.Tok == token.CONTINUE {
						return true
					}
					// the scan is left: a hit, unreachable unless an edge established slot.seqno == seqno
					isHitFact := func(f *Fact) bool {
						if f.Op != "eq" || !f.Pos || f.B == nil {
							return false
						}
						for _, pr := range [][2]*Term{{f.A, f.B}, {f.B, f.A}} {
							if pr[0].K == 'f' && pr[0].Obj == types.Object(fSeq) && pr[1].K == 'v' {
								for _, po := range params {
									if po != nil && pr[1].Obj == po {
										return true
									}
								}
							}
						}
						return false
					}
					// a break is not a node of the control-flow graph: the statement before it in
					// its block stands for it, or - first in an if body - the condition taken true
					var target ast.Node = x
					condFacts := false
					if br, isBr := x.(*ast.BranchStmt); isBr {
						target = nil
						if blk, isBlk := p.Parent(g.File, br).(*ast.BlockStmt); isBlk {
							for i, s := range blk.List {
								if s == ast.Stmt(br) && i > 0 {
									target = blk.List[i-1]
								}
							}
							if target == nil {
								if ifs, isIf := p.Parent(g.File, blk).(*ast.IfStmt); isIf && ifs.Body == blk {
									target = ifs.Cond
									if learnt := ff.assume(emptyState, ifs.Cond, true); learnt != nil {
										for _, f := range learnt.Facts() {
											if isHitFact(f) {
												condFacts = true
											}
										}
									}
								}
							}
						}
						if target == nil {
							okScan, why = false, "a jump at "+p.PosStr(x.Pos())+" whose place in the control flow is not understood"
							return true
						}
					}
					hit := condFacts || !ff.ReachableAvoiding(target, func(f *Fact, st *State) bool {
						if f.Op != "eq" || !f.Pos || f.B == nil {
							return false
						}
						for _, pr := range [][2]*Term{{f.A, f.B}, {f.B, f.A}} {
							if pr[0].K == 'f' && pr[0].Obj == types.Object(fSeq) && pr[1].K == 'v' {
								for _, po := range params {
									if po != nil && pr[1].Obj == po {
										return true
									}
								}
							}
						}
						return false
					})
					if !hit {
						okScan, why = false, "a jump at "+p.PosStr(x.Pos())+" that is not the hit"
					}
				}
				return true
			})
			return true
		})
		c.Check(okScan && nloops == 1, rule, "get scans every slot", g.Pos(), "the loop over the slots is left early only by returning the slot whose seqno compared equal", "the scan of the cache stops at "+why+": packets stored behind an unused or foreign slot are not found although they are cached")
	}
	// the count returned by the copy-out is what the lookups return
	for _, name := range []string{"get", "GetAt"} {
		var fs *FuncSrc
		if name == "get" {
			fs = lookupFn
		} else {
			fs = p.Func("packetcache", "Cache", "GetAt")
		}
		if fs == nil {
			c.Unknown(rule, "count of "+name, 0, "function not found")
			continue
		}
		fn := p.SSAFunc(fs.Obj)
		ok, nret := true, 0
		for _, b := range fn.Blocks {
			r, isR := b.Instrs[len(b.Instrs)-1].(*ssa.Return)
			if !isR || b == fn.Recover {
				continue
			}
			v := returnVals(r)[0]
			if !countValue(v, 0) {
				ok = false
			}
			nret++
		}
		c.Check(ok && nret > 0, rule, "count returned by "+name, fs.Pos(), fmt.Sprintf("%d returns: the count is the copy's result, the slot's length() (size query) or 0", nret), "a lookup reports a count that is neither the number of bytes copied, the slot's length, nor 0")
	}
	// Get: passes its own arguments on and returns get's count or 0
	if g := p.Func("packetcache", "Cache", "Get"); g != nil {
		fn := p.SSAFunc(g.Obj)
		fEntries := p.Field("packetcache", "Cache", "entries")
		var getCall *ssa.Call
		for _, b := range fn.Blocks {
			for _, ins := range b.Instrs {
				if call, ok := ins.(*ssa.Call); ok && call.Call.StaticCallee() != nil && call.Call.StaticCallee().Name() == "get" {
					getCall = call
				}
			}
		}
		ok := getCall != nil && getCall.Call.Args[0] == ssa.Value(fn.Params[1]) && isLoadOfField(getCall.Call.Args[1], fEntries) && getCall.Call.Args[2] == ssa.Value(fn.Params[2])
		if getCall == nil && lookupFn == g {
			// Get scans itself: the loop is over its own ring (seqno and buffer are its
			// parameters: scan and copy-out rules above)
			info := g.Pkg.TypesInfo
			nown, nother := 0, 0
			ast.Inspect(g.Body(), func(n ast.Node) bool {
				if l := asScanLoop(info, n); l != nil {
					if sel, isSel := unparen(l.X).(*ast.SelectorExpr); isSel && info.Uses[sel.Sel] == types.Object(fEntries) {
						if id, isId := unparen(sel.X).(*ast.Ident); isId && g.Decl != nil && g.Decl.Recv != nil && len(g.Decl.Recv.List[0].Names) == 1 && info.Uses[id] == info.Defs[g.Decl.Recv.List[0].Names[0]] {
							nown++
							return true
						}
					}
					nother++
				}
				return true
			})
			c.Check(nown == 1 && nother == 0, rule, "Get delegates to get", g.Pos(), "Get scans its own ring for its own seqno into the caller's buffer", "Get does not look up its own seqno in its own ring into the caller's buffer")
		} else if ok {
			for _, b := range fn.Blocks {
				r, isR := b.Instrs[len(b.Instrs)-1].(*ssa.Return)
				if !isR || b == fn.Recover {
					continue
				}
				v := returnVals(r)[0]
				if k, isC := v.(*ssa.Const); isC && k.Int64() == 0 {
					continue
				}
				if ex, isEx := v.(*ssa.Extract); isEx && ex.Tuple == ssa.Value(getCall) && ex.Index == 0 {
					continue
				}
				ok = false
			}
		}
		if getCall != nil || lookupFn != g {
			c.Check(ok, rule, "Get delegates to get", g.Pos(), "get(seqno, cache.entries, result); returns its count or 0", "Get does not look up its own seqno in its own ring into the caller's buffer, or returns something else than that lookup's count")
		}
	} else {
		c.Unknown(rule, "Get delegates to get", 0, "packetcache.(*Cache).Get not found")
	}
}

// countValue: v is the converted result of copy, a call of (*entry).length, 0, or a phi of those.
func countValue(v ssa.Value, depth int) bool {
	if depth > 6 {
		return false
	}
	switch x := v.(type) {
	case *ssa.Const:
		return x.Value != nil && x.Int64() == 0
	case *ssa.Convert:
		return countValue(x.X, depth+1)
	case *ssa.Call:
		if b, ok := x.Call.Value.(*ssa.Builtin); ok && b.Name() == "copy" {
			return true
		}
		if f := x.Call.StaticCallee(); f != nil && f.Name() == "length" {
			return true
		}
	case *ssa.Phi:
		for _, e := range x.Edges {
			if e != v && !countValue(e, depth+1) {
				return false
			}
		}
		return true
	}
	return false
}

// slotBufBase: if e is <base>.buf[:] with buf the slot byte array, returns base.
func slotBufBase(info *types.Info, e ast.Expr, fBuf *types.Var) ast.Expr {
	se, ok := unparen(e).(*ast.SliceExpr)
	if !ok || se.Low != nil || se.High != nil {
		return nil
	}
	sel, ok := unparen(se.X).(*ast.SelectorExpr)
	if !ok {
		return nil
	}
	if s := info.Selections[sel]; s == nil || s.Obj() != types.Object(fBuf) {
		return nil
	}
	return stripAddr(sel.X)
}

// stripAddr: (&(x)) designates the same slot as x when a field or method is selected from it.
func stripAddr(e ast.Expr) ast.Expr {
	for {
		e = unparen(e)
		if u, ok := e.(*ast.UnaryExpr); ok && u.Op == token.AND {
			e = u.X
			continue
		}
		return e
	}
}

func cacheStoreRules(c *Ctx, rule string) {
	p := c.P
	st := p.Func("packetcache", "Cache", "Store")
	if st == nil {
		c.Unknown(rule, "anchors", 0, "packetcache.(*Cache).Store not found")
		return
	}
	fn := p.SSAFunc(st.Obj)
	fEntries := p.Field("packetcache", "Cache", "entries")
	fTail := p.Field("packetcache", "Cache", "tail")
	eSeq := p.Field("packetcache", "entry", "seqno")
	eLam := p.Field("packetcache", "entry", "lengthAndMarker")
	eTs := p.Field("packetcache", "entry", "timestamp")
	eBuf := p.Field("packetcache", "entry", "buf")
	par := map[string]ssa.Value{}
	for _, q := range fn.Params {
		par[q.Name()] = q
	}
	// one cursor: every slot access indexes with the tail as it was on entry
	// (a load of cache.tail that precedes the store advancing it)
	var cursor ssa.Value
	single := true
	tailStores := storesToField(fn, fTail)
	// a local (a named result spilled because of the deferred unlock) that is assigned
	// once, before its use, stands for the value assigned
	unspill := func(v ssa.Value) ssa.Value {
		for k := 0; k < 3; k++ {
			u, ok := v.(*ssa.UnOp)
			if !ok || u.Op != token.MUL {
				return v
			}
			al, ok := u.X.(*ssa.Alloc)
			if !ok {
				return v
			}
			var stores []*ssa.Store
			okRefs := true
			for _, r := range *al.Referrers() {
				switch x := r.(type) {
				case *ssa.Store:
					if x.Addr == ssa.Value(al) {
						// `return ..., index` of a named result stores the local into itself
						if ld, isLd := x.Val.(*ssa.UnOp); isLd && ld.Op == token.MUL && ld.X == ssa.Value(al) {
							continue
						}
						stores = append(stores, x)
					} else {
						okRefs = false
					}
				case *ssa.UnOp, *ssa.DebugRef:
				default:
					okRefs = false
				}
			}
			if !okRefs || len(stores) != 1 || !instrBefore(stores[0], u) {
				return v
			}
			v = stores[0].Val
		}
		return v
	}
	isCursor := func(v ssa.Value) bool {
		if v == cursor {
			return true
		}
		v = unspill(v)
		if v == cursor {
			return true
		}
		if !isLoadOfField(v, fTail) {
			return false
		}
		ld, _ := v.(ssa.Instruction)
		for _, s := range tailStores {
			if ld == nil || !instrBefore(ld, s) {
				return false
			}
		}
		return true
	}
	slotOf := func(addr ssa.Value) bool { // addr is &entries[cursor].f
		fa, ok := addr.(*ssa.FieldAddr)
		if !ok {
			return false
		}
		ia, ok := fa.X.(*ssa.IndexAddr)
		return ok && isLoadOfField(ia.X, fEntries) && isCursor(ia.Index)
	}
	for _, b := range fn.Blocks {
		for _, ins := range b.Instrs {
			ia, ok := ins.(*ssa.IndexAddr)
			if !ok || !isLoadOfField(ia.X, fEntries) {
				continue
			}
			if cursor == nil && isLoadOfField(unspill(ia.Index), fTail) {
				cursor = unspill(ia.Index)
			}
			if !isCursor(ia.Index) {
				single = false
			}
		}
	}
	c.Check(single && cursor != nil && len(tailStores) == 1, rule, "Store: one cursor, the tail", st.Pos(), "every slot access of Store indexes entries with cache.tail as read before it is advanced", "Store writes the parts of one packet through different indices, or not at the tail")
	if cursor == nil {
		return
	}
	chk := func(f *types.Var, name string, want func(v ssa.Value) bool, okText, badText string) {
		sts := storesToField(fn, f)
		ok := len(sts) == 1 && slotOf(sts[0].Addr) && want(sts[0].Val)
		c.Check(ok, rule, "Store: "+name, st.Pos(), okText, badText)
	}
	chk(eSeq, "slot.seqno = seqno", func(v ssa.Value) bool { return v == par["seqno"] }, "the slot is keyed by the seqno parameter", "the slot is keyed by something else than the seqno it was stored under")
	chk(eTs, "slot.timestamp = timestamp", func(v ssa.Value) bool { return v == par["timestamp"] }, "timestamp parameter stored", "another timestamp is stored")
	// bytes
	okCopy := false
	for _, b := range fn.Blocks {
		for _, ins := range b.Instrs {
			call, ok := ins.(*ssa.Call)
			if !ok {
				continue
			}
			if bi, ok := call.Call.Value.(*ssa.Builtin); !ok || bi.Name() != "copy" {
				continue
			}
			sl, ok := call.Call.Args[0].(*ssa.Slice)
			if !ok || sl.Low != nil || sl.High != nil {
				continue
			}
			if fa, ok := sl.X.(*ssa.FieldAddr); ok && fieldOf(fa) == eBuf && slotOf(fa) && call.Call.Args[1] == par["buf"] {
				okCopy = true
			}
		}
	}
	c.Check(okCopy, rule, "Store: slot.buf <- buf", st.Pos(), "copy(slot.buf[:], buf) from the start of both", "the packet bytes are not copied from the start of buf to the start of the slot")
	// length and marker
	var orMask int64 = -1
	isLen := func(v ssa.Value) bool {
		cv, ok := v.(*ssa.Convert)
		if !ok {
			return false
		}
		call, ok := cv.X.(*ssa.Call)
		if !ok {
			return false
		}
		bi, ok := call.Call.Value.(*ssa.Builtin)
		return ok && bi.Name() == "len" && call.Call.Args[0] == par["buf"]
	}
	var lamForm func(v ssa.Value, d int) bool
	lamForm = func(v ssa.Value, d int) bool {
		if d > 4 {
			return false
		}
		if isLen(v) {
			return true
		}
		switch x := v.(type) {
		case *ssa.BinOp:
			if x.Op == token.OR && isLen(x.X) {
				if k, ok := x.Y.(*ssa.Const); ok {
					orMask = k.Int64()
					return true
				}
			}
		case *ssa.Phi:
			for _, e := range x.Edges {
				if !lamForm(e, d+1) {
					return false
				}
			}
			return true
		}
		return false
	}
	chk(eLam, "slot.lengthAndMarker = len(buf) [| marker bit]", func(v ssa.Value) bool { return lamForm(v, 0) }, "len(buf), with the marker bit or-ed in", "the recorded length is not len(buf)")
	// packing agreement
	maskOf := func(name string) (int64, bool) {
		fs := p.Func("packetcache", "entry", name)
		if fs == nil {
			return 0, false
		}
		for _, b := range p.SSAFunc(fs.Obj).Blocks {
			for _, ins := range b.Instrs {
				if bo, ok := ins.(*ssa.BinOp); ok && bo.Op == token.AND && isLoadOfField(bo.X, eLam) {
					if k, ok := bo.Y.(*ssa.Const); ok {
						return k.Int64(), true
					}
				}
			}
		}
		return 0, false
	}
	lm, ok1 := maskOf("length")
	mm, ok2 := maskOf("marker")
	bufSize := int64(-1)
	if o, ok := p.Pkg("packetcache").Types.Scope().Lookup("BufSize").(*types.Const); ok {
		if v, exact := constantInt64(o); exact {
			bufSize = v
		}
	}
	okPack := ok1 && ok2 && orMask == mm && lm&mm == 0 && lm|mm == 0xFFFF && bufSize > 0 && bufSize <= lm
	c.Check(okPack, rule, "length/marker packing agrees", st.Pos(), fmt.Sprintf("Store ors %#x, marker() tests %#x, length() masks %#x, BufSize %d fits", orMask, mm, lm, bufSize), fmt.Sprintf("writer and readers disagree on the packing of length and marker (Store ors %#x, marker() tests %#x, length() masks %#x, BufSize %d)", orMask, mm, lm, bufSize))
	// slot array size is BufSize
	okArr := false
	if at, ok := eBuf.Type().Underlying().(*types.Array); ok && at.Len() == bufSize {
		okArr = true
	}
	// len(buf) <= BufSize at every call
	ia := p.Intervals()
	bp, _ := par["buf"].(*ssa.Parameter)
	li := Itv{}
	if bp != nil {
		li = ia.paramLenItv(bp)
	}
	okLen := okArr && !li.empty() && li.Hi.Cmp(big.NewInt(bufSize)) <= 0
	c.Check(okLen, rule, "stored length <= slot size at every call", st.Pos(), fmt.Sprintf("len(buf) in %s over all call sites; slot size %d", li, bufSize), fmt.Sprintf("a caller may store more than %d bytes (len(buf) in %s): the copy truncates but the recorded length does not", bufSize, li))
	// tail advance and returned index
	okTail := false
	for _, s := range storesToField(fn, fTail) {
		bo, ok := s.Val.(*ssa.BinOp)
		if !ok || bo.Op != token.REM {
			continue
		}
		add, ok := bo.X.(*ssa.BinOp)
		if !ok || add.Op != token.ADD || !isCursor(add.X) {
			continue
		}
		if k, ok := add.Y.(*ssa.Const); !ok || k.Int64() != 1 {
			continue
		}
		if cv, ok := bo.Y.(*ssa.Convert); ok {
			if call, ok := cv.X.(*ssa.Call); ok {
				if bi, ok := call.Call.Value.(*ssa.Builtin); ok && bi.Name() == "len" && isLoadOfField(call.Call.Args[0], fEntries) {
					okTail = true
				}
			}
		}
	}
	c.Check(okTail && len(storesToField(fn, fTail)) == 1, rule, "Store: tail = (i+1) % len(entries)", st.Pos(), "the ring advances by one slot modulo its capacity", "the tail does not advance by exactly one slot modulo the capacity: the newest packets are overwritten or slots skipped")
	okRet := true
	nret := 0
	for _, b := range fn.Blocks {
		r, isR := b.Instrs[len(b.Instrs)-1].(*ssa.Return)
		if !isR || b == fn.Recover {
			continue
		}
		nret++
		if !isCursor(returnVals(r)[1]) {
			okRet = false
		}
	}
	c.Check(okRet && nret > 0, rule, "Store returns the slot it wrote", st.Pos(), "result #1 is the cursor", "the index returned is not the slot written: GetAt(seqno, index) misses or hits another slot")
}

func cacheEscapeRules(c *Ctx, rule string) {
	p := c.P
	fBuf := p.Field("packetcache", "entry", "buf")
	tn := p.TypeName("packetcache", "entry")
	if fBuf == nil || tn == nil {
		c.Unknown(rule, "escape anchors", 0, "packetcache.entry no longer resolves")
		return
	}
	nuse, bad := 0, 0
	for _, fs := range p.Sources() {
		if fs.Lit != nil {
			continue // literals are visited with their declaration
		}
		info := fs.Pkg.TypesInfo
		var stack []ast.Node
		ast.Inspect(fs.Body(), func(n ast.Node) bool {
			if n == nil {
				stack = stack[:len(stack)-1]
				return true
			}
			stack = append(stack, n)
			sel, ok := n.(*ast.SelectorExpr)
			if !ok {
				return true
			}
			if s := info.Selections[sel]; s == nil || s.Obj() != types.Object(fBuf) {
				return true
			}
			nuse++
			okUse := false
			if len(stack) >= 3 {
				if se, ok := stack[len(stack)-2].(*ast.SliceExpr); ok && se.X == ast.Expr(sel) {
					if call, ok := stack[len(stack)-3].(*ast.CallExpr); ok {
						if id, ok := unparen(call.Fun).(*ast.Ident); ok && id.Name == "copy" {
							if _, isB := info.Uses[id].(*types.Builtin); isB {
								okUse = true
							}
						}
					}
				}
			}
			if !okUse {
				bad++
				c.Bad(rule, "slot bytes referenced in "+fs.Name, sel.Pos(), "slot bytes are referenced other than as an operand of copy: a reference to shared slot storage can outlive the lock and observe a later packet")
			}
			return true
		})
		// no result of a type built from entry
		if fs.Obj != nil {
			sig := fs.Obj.Type().(*types.Signature)
			for i := 0; i < sig.Results().Len(); i++ {
				if mentionsNamed(sig.Results().At(i).Type(), tn, 0) {
					bad++
					c.Bad(rule, "entry returned by "+fs.Name, fs.Pos(), "a function returns a value of a type built from packetcache.entry: slots can be referenced outside the lock")
				}
			}
		}
	}
	if bad == 0 {
		c.Check(nuse >= 3, rule, "slot bytes only as copy operands", tn.Pos(), fmt.Sprintf("%d references to entry.buf, all operands of copy; no function returns entry storage", nuse), "fewer references to entry.buf than Store/get/GetAt need")
	}
}

func mentionsNamed(t types.Type, tn *types.TypeName, d int) bool {
	if d > 5 {
		return false
	}
	switch x := t.(type) {
	case *types.Named:
		return x.Obj() == tn
	case *types.Pointer:
		return mentionsNamed(x.Elem(), tn, d+1)
	case *types.Slice:
		return mentionsNamed(x.Elem(), tn, d+1)
	case *types.Array:
		return mentionsNamed(x.Elem(), tn, d+1)
	case *types.Map:
		return mentionsNamed(x.Elem(), tn, d+1) || mentionsNamed(x.Key(), tn, d+1)
	case *types.Chan:
		return mentionsNamed(x.Elem(), tn, d+1)
	}
	return false
}

// readerStoreRules: what readLoop stores and announces, and how writers fetch.
func readerStoreRules(c *Ctx, rule string) {
	p := c.P
	rl := p.Func("rtpconn", "", "readLoop")
	wl := p.Func("rtpconn", "", "rtpWriterLoop")
	pw := p.Func("rtpconn", "rtpWriterPool", "write")
	if rl == nil || wl == nil || pw == nil {
		c.Unknown(rule, "reader anchors", 0, "readLoop / rtpWriterLoop / rtpWriterPool.write not found")
		return
	}
	info := rl.Pkg.TypesInfo
	ff := p.Facts().Analyze(rl)
	var storeC, unmC, announce *ast.CallExpr
	ast.Inspect(rl.Body(), func(n ast.Node) bool {
		call, ok := n.(*ast.CallExpr)
		if !ok {
			return true
		}
		f := calleeOf(&CallSite{Call: call, In: rl})
		switch {
		case fnIs(f, "packetcache", "Cache", "Store"):
			storeC = call
		case extMethodIs(f, "github.com/pion/rtp", "Packet", "Unmarshal"):
			unmC = call
		case fnIs(f, "rtpconn", "rtpWriterPool", "write"):
			announce = call
		}
		return true
	})
	if storeC == nil || unmC == nil || announce == nil {
		c.Bad(rule, "readLoop: parse, store, announce", rl.Pos(), "readLoop no longer parses the packet, stores it and announces it to the writers")
		return
	}
	pktObj := func(e ast.Expr) types.Object {
		sel, ok := unparen(e).(*ast.SelectorExpr)
		if !ok {
			return nil
		}
		if id, ok := unparen(sel.X).(*ast.Ident); ok {
			return info.Uses[id]
		}
		return nil
	}
	var pkt types.Object
	if id, ok := unparen(recvExpr(unmC)).(*ast.Ident); ok {
		pkt = info.Uses[id]
	}
	fieldName := func(e ast.Expr) string {
		if sel, ok := unparen(e).(*ast.SelectorExpr); ok {
			return sel.Sel.Name
		}
		return ""
	}
	stStore, _ := ff.At(storeC)
	// the argument is packet.<name>, or a local that holds it at the call
	var isPktFieldAt func(stStore *State, e ast.Expr, name string) bool
	isPktField := func(e ast.Expr, name string) bool { return isPktFieldAt(stStore, e, name) }
	isPktFieldAt = func(stStore *State, e ast.Expr, name string) bool {
		if pktObj(e) == pkt && fieldName(e) == name {
			return true
		}
		t := ff.term(e)
		if t == nil || stStore == nil {
			return false
		}
		isIt := func(u *Term) bool {
			if u == nil || u.K != 'f' || u.Obj == nil || u.Obj.Name() != name {
				return false
			}
			for u.K == 'f' && len(u.Args) == 1 {
				u = u.Args[0]
			}
			return u.K == 'v' && u.Obj == pkt
		}
		for _, f := range stStore.Facts() {
			if f.Op != "eq" || !f.Pos || f.B == nil {
				continue
			}
			if (f.A.String() == t.String() && isIt(f.B)) || (f.B.String() == t.String() && isIt(f.A)) {
				return true
			}
		}
		return false
	}
	okKey := pkt != nil && len(storeC.Args) == 5 &&
		isPktField(storeC.Args[0], "SequenceNumber") &&
		isPktField(storeC.Args[1], "Timestamp") &&
		isPktField(storeC.Args[3], "Marker") &&
		ff.DominatedByNode(storeC, unmC)
	c.Check(okKey, rule, "readLoop: stored under the packet's own seqno, timestamp, marker", storeC.Pos(), "Store(packet.SequenceNumber, packet.Timestamp, _, packet.Marker, buf[:bytes]) after packet.Unmarshal(buf[:bytes])", "the packet is stored under a seqno/timestamp/marker that is not parsed from the stored bytes")
	stAnn, _ := ff.At(announce)
	okSeq := len(announce.Args) >= 2 && isPktFieldAt(stAnn, announce.Args[0], "SequenceNumber")
	if !okSeq && len(announce.Args) >= 2 && okKey {
		// the very local the packet was stored under (a local defined once)
		if a, b := ff.term(announce.Args[0]), ff.term(storeC.Args[0]); a != nil && b != nil && a.K == 'v' && a.String() == b.String() {
			ndef := 0
			ast.Inspect(rl.Body(), func(n ast.Node) bool {
				switch x := n.(type) {
				case *ast.AssignStmt:
					for _, l := range x.Lhs {
						if id, isId := unparen(l).(*ast.Ident); isId && info.ObjectOf(id) == a.Obj {
							ndef++
						}
					}
				case *ast.IncDecStmt:
					if id, isId := unparen(x.X).(*ast.Ident); isId && info.ObjectOf(id) == a.Obj {
						ndef += 2
					}
				case *ast.UnaryExpr:
					if id, isId := unparen(x.X).(*ast.Ident); isId && x.Op == token.AND && info.ObjectOf(id) == a.Obj {
						ndef += 2
					}
				}
				return true
			})
			okSeq = ndef == 1
		}
	}
	okAnn := okSeq && argIsResult(ff, announce, announce.Args[1], storeC, 1)
	c.Check(okAnn, rule, "readLoop: writers are told (seqno, index returned by Store)", announce.Pos(), "writers.write(packet.SequenceNumber, index, ...) with index = result #1 of Store", "writers are told another slot or seqno than the one just stored")
	// rtpWriterPool.write builds the pair in order
	pfn := p.SSAFunc(pw.Obj)
	fSeq := p.Field("rtpconn", "packetIndex", "seqno")
	fIdx := p.Field("rtpconn", "packetIndex", "index")
	okPair := fSeq != nil && fIdx != nil
	if okPair {
		ss, is := storesToField(pfn, fSeq), storesToField(pfn, fIdx)
		okPair = len(ss) == 1 && len(is) == 1 && ss[0].Val == ssa.Value(pfn.Params[1]) && is[0].Val == ssa.Value(pfn.Params[2])
	}
	c.Check(okPair, rule, "rtpWriterPool.write: packetIndex{seqno, index}", pw.Pos(), "the pair sent to writers is (seqno, index) as received", "the pair sent to the writers swaps or replaces seqno and index")
	// rtpWriterLoop: GetAt(pi.seqno, pi.index, buf)
	winfo := wl.Pkg.TypesInfo
	okFetch := false
	ast.Inspect(wl.Body(), func(n ast.Node) bool {
		call, ok := n.(*ast.CallExpr)
		if !ok {
			return true
		}
		if f := calleeOf(&CallSite{Call: call, In: wl}); fnIs(f, "packetcache", "Cache", "GetAt") && len(call.Args) == 3 {
			a0, ok0 := unparen(call.Args[0]).(*ast.SelectorExpr)
			a1, ok1 := unparen(call.Args[1]).(*ast.SelectorExpr)
			if ok0 && ok1 {
				s0, s1 := winfo.Selections[a0], winfo.Selections[a1]
				if s0 != nil && s1 != nil && s0.Obj() == types.Object(fSeq) && s1.Obj() == types.Object(fIdx) && types.ExprString(a0.X) == types.ExprString(a1.X) {
					okFetch = true
				}
			}
		}
		return true
	})
	c.Check(okFetch, rule, "rtpWriterLoop: GetAt(pi.seqno, pi.index, buf)", wl.Pos(), "fetch by the announced pair", "the writer fetches with another seqno or index than announced: a recycled slot is not detected")
}

// instrBefore reports whether instruction a is executed before b on every
// path reaching b (same block and earlier, or in a strictly dominating block).
func instrBefore(a, b ssa.Instruction) bool {
	if a.Block() == b.Block() {
		for _, ins := range a.Block().Instrs {
			if ins == a {
				return true
			}
			if ins == b {
				return false
			}
		}
		return false
	}
	return a.Block().Dominates(b.Block())
}

// R5.5: "the most recently stored packets, up to capacity, are retrievable"
// is a statement about the ring.  Get and GetAt may read entries (and take the
// lock) and nothing else of the Cache.
func cacheLookupReads(c *Ctx, rule string) {
	p := c.P
	tn := p.TypeName("packetcache", "Cache")
	if tn == nil {
		c.Unknown(rule, "anchors", 0, "packetcache.Cache not found")
		return
	}
	allowed := map[string]bool{"mu": true, "entries": true}
	for _, name := range []string{"Get", "GetAt"} {
		fs := p.Func("packetcache", "Cache", name)
		if fs == nil {
			c.Unknown(rule, "anchors", 0, "Cache.%s not found", name)
			continue
		}
		info := fs.Pkg.TypesInfo
		var other []string
		var at token.Pos
		ast.Inspect(fs.Body(), func(n ast.Node) bool {
			se, ok := n.(*ast.SelectorExpr)
			if !ok {
				return true
			}
			sel := info.Selections[se]
			if sel == nil || sel.Kind() != types.FieldVal {
				return true
			}
			rt := sel.Recv()
			if pt, isP := rt.(*types.Pointer); isP {
				rt = pt.Elem()
			}
			if !types.Identical(rt, tn.Type()) {
				return true
			}
			if !allowed[se.Sel.Name] {
				other = appendUniqueStr(other, se.Sel.Name)
				if !at.IsValid() {
					at = se.Pos()
				}
			}
			return true
		})
		pos := fs.Pos()
		if at.IsValid() {
			pos = at
		}
		c.Check(len(other) == 0, rule, "Cache."+name+" consults the ring only", pos, "reads entries under mu and nothing else of the cache",
			"the lookup also reads "+strings.Join(other, ", ")+": whether a stored packet is found then depends on the loss statistics, which follow sequence numbers while the ring follows stores (a packet stored just before a gap, or before a backward jump, is reported absent)")
	}
}
