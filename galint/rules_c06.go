package main

import (
	"fmt"
	"go/ast"
	"go/token"
	"go/types"
	"math/big"
	"strings"

	"golang.org/x/tools/go/ssa"
)

func init() {
	register(&Property{
		ID:        "C06",
		Title:     "Loss accounting and NACK generation never blame a packet that arrived",
		Technique: "SSA structural rules on the counters (every increment of received is guarded by received < expected or paired with an increment of expected by >= 1), window-coherence rule on the loss bitmap (every shift of the bits is paired with the same advance of the base), must-fact dataflow on the NACK request chains (readLoop, nackWriter, sendNACKs), interval analysis (requests strictly before the newest packet; loss fraction in 0..255), guarded-by lock analysis on the bitmap",
		Decides: "R6.1: received <= expected is inductive: every store to Cache.received is a reset to 0 together with expected, or +1 either under received < expected or in a block that also adds a value >= 1 to expected; expected only grows (by 1, by the forward jump seqno-last under compare(last, seqno) < 0 evaluated before last is overwritten, or by a positive n in Expect) or is reset; the totals absorb both counters in the same step; GetStats reads the snapshot before it resets. " +
			"R6.2: the loss fraction is in [0,255] at the conversion to uint8 (interval proof); both subtractions that compute lost packets execute only when expected > received. " +
			"R6.3: the loss window stays coherent: in bitmap.set/get every right shift of the window bits (field or local copy) is paired in the same block with an advance of the window base by the same amount; a reset sets base = seqno with bit 0; the bit set for an arriving packet is 1 << (seqno - base) with the base as it is after the shifts; the bitmap is touched only under Cache.mu. " +
			"R6.4: readLoop asks for holes strictly before the newest packet (interval: the offset is >= 1), sends exactly what BitmapGet reported and only when it reported something, and accounts for it with Expect(1 + popcount); nackWriter keeps a buffered request only if the cache still does not hold the packet; sendNACKs feeds ToBitmap's remainder back until it is empty and ToBitmap encodes bit (s - first - 1) while consuming exactly one number per bit. " +
			"R6.5: the extended highest seqno: last is stored only on a reset (no valid last, or more than 256 behind) or under compare(last, seqno) < 0, with the parameter's value; cycle is incremented only there, under seqno < last evaluated before last is overwritten.",
		NotDecided: []string{
			"the bit arithmetic of bitmap.get (which of the shifted-out bits are zero) and the 17/32-bit window sizes over histories",
			"liveness: that a packet missing from a steadily arriving stream is eventually requested",
			"uint32 wrap of the counters after 2^32 packets",
		},
		NeedSSA: true,
		Run:     runC06,
	})
}

func runC06(c *Ctx) {
	p := c.P
	c.Rule("R6.1", "E6", "received <= expected is inductive over every store to the counters", 8)
	c.Rule("R6.2", "E6/E2", "loss fraction in [0,255]; lost = expected - received only under expected > received", 3)
	c.Rule("R6.3", "E6/E5", "window coherence of the loss bitmap; bitmap under Cache.mu", 8)
	c.Rule("R6.4", "E2/E6", "NACK requests: strictly before the newest, exactly what the bitmap reported, dropped when the packet arrived, remainder fed back", 8)
	c.Rule("R6.5", "E6", "extended highest seqno: last/cycle discipline; restart threshold", 4)
	pk := p.Pkg("packetcache")
	if pk == nil {
		c.Unknown("R6.1", "anchors", 0, "package packetcache not found")
		return
	}
	cf := func(n string) *types.Var { return p.Field("packetcache", "Cache", n) }
	fRecv, fExp, fTR, fTE, fLast, fCycle := cf("received"), cf("expected"), cf("totalReceived"), cf("totalExpected"), cf("last"), cf("cycle")
	for _, f := range []*types.Var{fRecv, fExp, fTR, fTE, fLast, fCycle} {
		if f == nil {
			c.Unknown("R6.1", "anchors", 0, "a Cache counter field no longer resolves")
			return
		}
	}
	strip := func(v ssa.Value) ssa.Value {
		for {
			switch x := v.(type) {
			case *ssa.Convert:
				v = x.X
			case *ssa.ChangeType:
				v = x.X
			default:
				return v
			}
		}
	}
	isConst := func(v ssa.Value, n int64) bool {
		k, ok := v.(*ssa.Const)
		return ok && k.Value != nil && k.Int64() == n
	}
	// incOf: v == load(f) + X ; returns X
	incOf := func(v ssa.Value, f *types.Var) (ssa.Value, bool) {
		bo, ok := v.(*ssa.BinOp)
		if !ok || bo.Op != token.ADD {
			return nil, false
		}
		if isLoadOfField(bo.X, f) {
			return bo.Y, true
		}
		if isLoadOfField(bo.Y, f) {
			return bo.X, true
		}
		return nil, false
	}
	// onEdge: block b is only reachable through the edge (pol) of a test matching cond
	onEdge := func(b *ssa.BasicBlock, match func(cond ssa.Value, pol bool) bool) bool {
		for x := b; x != nil; x = x.Idom() {
			if len(x.Preds) != 1 {
				continue
			}
			pr := x.Preds[0]
			iff, ok := pr.Instrs[len(pr.Instrs)-1].(*ssa.If)
			if !ok {
				continue
			}
			if match(iff.Cond, pr.Succs[0] == x) {
				return true
			}
		}
		return false
	}
	cmpLastSeqnoLT0 := func(seqP ssa.Value) func(ssa.Value, bool) bool {
		return func(cond ssa.Value, pol bool) bool {
			bo, ok := cond.(*ssa.BinOp)
			if !ok || !pol || bo.Op != token.LSS || !isConst(bo.Y, 0) {
				return false
			}
			call, ok := bo.X.(*ssa.Call)
			return ok && call.Call.StaticCallee() != nil && call.Call.StaticCallee().Name() == "compare" && isLoadOfField(call.Call.Args[0], fLast) && call.Call.Args[1] == seqP
		}
	}

	// ---------- R6.1 / R6.5 : counters ----------
	k := newKeyer()
	nRecv, nExp := 0, 0
	for _, fs := range p.Sources() {
		if fs.Pkg != pk {
			continue
		}
		for _, fn := range p.ssaOfSrc(fs) {
			var seqP ssa.Value
			for _, q := range fn.Params {
				if q.Name() == "seqno" {
					seqP = q
				}
			}
			lastStores := storesToField(fn, fLast)
			// expected increments of this function, by block
			expInc := map[*ssa.BasicBlock]ssa.Value{}
			for _, st := range storesToField(fn, fExp) {
				if _, isAlloc := st.Addr.(*ssa.FieldAddr).X.(*ssa.Alloc); isAlloc {
					continue
				}
				nExp++
				key := k.key("store expected in", fs.Name)
				if isConst(st.Val, 0) {
					// reset: together with received, after the totals absorbed both
					okR := false
					for _, s2 := range storesToField(fn, fRecv) {
						if s2.Block() == st.Block() && isConst(s2.Val, 0) {
							okR = true
						}
					}
					okT := false
					for _, s2 := range storesToField(fn, fTE) {
						if x, ok := incOf(s2.Val, fTE); ok && isLoadOfField(x, fExp) && instrBefore(s2, st) {
							okT = true
						}
					}
					c.Check(okR && okT, "R6.1", key, st.Pos(), "reset together with received, after totalExpected absorbed it", "expected is reset without received, or without being added to the total first")
					continue
				}
				x, ok := incOf(st.Val, fExp)
				okInc, why := false, ""
				switch {
				case !ok:
				case isConst(x, 1):
					okInc, why = true, "+1"
				default:
					sx := strip(x)
					if sub, isSub := sx.(*ssa.BinOp); isSub && sub.Op == token.SUB && seqP != nil && sub.X == seqP && isLoadOfField(sub.Y, fLast) {
						// forward jump: under compare(last, seqno) < 0, last not yet overwritten
						fresh := true
						ld, _ := sub.Y.(ssa.Instruction)
						for _, ls := range lastStores {
							if ld == nil || instrBefore(ls, ld) {
								fresh = false
							}
						}
						if fresh && onEdge(st.Block(), cmpLastSeqnoLT0(seqP)) {
							okInc, why = true, "+ (seqno - last) under compare(last, seqno) < 0, hence >= 1"
						}
					} else if par, isPar := sx.(*ssa.Parameter); isPar {
						// Expect(n): n > 0
						ia := p.Intervals().Analyze(fn)
						iv := ia.At(sx, st.Block())
						if !iv.empty() && iv.Lo.Sign() > 0 {
							okInc, why = true, fmt.Sprintf("+ %s in %s", par.Name(), iv)
						}
					}
				}
				if okInc {
					expInc[st.Block()] = x
					c.OK("R6.1", key, st.Pos(), "expected %s", why)
				} else {
					c.Bad("R6.1", key, st.Pos(), "expected is changed by something that is not a reset, +1, a forward jump seqno-last (> 0) or a positive Expect: received can exceed expected")
				}
			}
			for _, st := range storesToField(fn, fRecv) {
				if _, isAlloc := st.Addr.(*ssa.FieldAddr).X.(*ssa.Alloc); isAlloc {
					continue
				}
				nRecv++
				key := k.key("store received in", fs.Name)
				if isConst(st.Val, 0) {
					okT := false
					for _, s2 := range storesToField(fn, fTR) {
						if x, ok := incOf(s2.Val, fTR); ok && isLoadOfField(x, fRecv) && instrBefore(s2, st) {
							okT = true
						}
					}
					c.Check(okT, "R6.1", key, st.Pos(), "reset after totalReceived absorbed it", "received is reset without being added to the total first")
					continue
				}
				x, ok := incOf(st.Val, fRecv)
				if !ok || !isConst(x, 1) {
					c.Bad("R6.1", key, st.Pos(), "received changes by something else than +1 or a reset")
					continue
				}
				guarded := onEdge(st.Block(), func(cond ssa.Value, pol bool) bool {
					bo, ok := cond.(*ssa.BinOp)
					return ok && pol && bo.Op == token.LSS && isLoadOfField(bo.X, fRecv) && isLoadOfField(bo.Y, fExp)
				})
				_, paired := expInc[st.Block()]
				switch {
				case guarded:
					c.OK("R6.1", key, st.Pos(), "+1 under received < expected")
				case paired:
					c.OK("R6.1", key, st.Pos(), "+1 in a block that also adds >= 1 to expected")
				default:
					c.Bad("R6.1", key, st.Pos(), "received is incremented without expected growing and without the test received < expected: a late or duplicate packet makes received exceed expected")
				}
			}
			// R6.5
			for _, st := range lastStores {
				if _, isAlloc := st.Addr.(*ssa.FieldAddr).X.(*ssa.Alloc); isAlloc {
					continue
				}
				key := k.key("store last in", fs.Name)
				okV := seqP != nil && st.Val == seqP
				reset := onEdge(st.Block(), func(cond ssa.Value, pol bool) bool {
					// !lastValid (false edge of lastValid) or seqnoInvalid(seqno, last) true
					if u, ok := cond.(*ssa.UnOp); ok && u.Op == token.MUL && !pol {
						if fa, ok := u.X.(*ssa.FieldAddr); ok && fieldOf(fa) == cf("lastValid") {
							return true
						}
					}
					if call, ok := cond.(*ssa.Call); ok && pol && call.Call.StaticCallee() != nil && call.Call.StaticCallee().Name() == "seqnoInvalid" {
						return call.Call.Args[0] == seqP && isLoadOfField(call.Call.Args[1], fLast)
					}
					return false
				}) || len(st.Block().Preds) == 2 && func() bool {
					// the reset block is the join of "!lastValid" and "seqnoInvalid": both predecessors' tests lead here
					n := 0
					for _, pr := range st.Block().Preds {
						iff, ok := pr.Instrs[len(pr.Instrs)-1].(*ssa.If)
						if !ok {
							continue
						}
						pol := pr.Succs[0] == st.Block()
						if u, ok := iff.Cond.(*ssa.UnOp); ok && u.Op == token.MUL && !pol {
							if fa, ok := u.X.(*ssa.FieldAddr); ok && fieldOf(fa) == cf("lastValid") {
								n++
							}
						}
						if call, ok := iff.Cond.(*ssa.Call); ok && pol && call.Call.StaticCallee() != nil && call.Call.StaticCallee().Name() == "seqnoInvalid" && call.Call.Args[0] == seqP && isLoadOfField(call.Call.Args[1], fLast) {
							n++
						}
					}
					return n == 2
				}()
				fwd := seqP != nil && onEdge(st.Block(), cmpLastSeqnoLT0(seqP))
				c.Check(okV && (reset || fwd), "R6.5", key, st.Pos(), map[bool]string{true: "last = seqno on a reset (no valid last, or more than 256 behind)", false: "last = seqno under compare(last, seqno) < 0"}[reset], "the highest seqno is moved by a packet that is neither newer nor a restart: the extended highest sequence number decreases")
			}
			for _, st := range storesToField(fn, fCycle) {
				if _, isAlloc := st.Addr.(*ssa.FieldAddr).X.(*ssa.Alloc); isAlloc {
					continue
				}
				key := k.key("store cycle in", fs.Name)
				x, ok := incOf(st.Val, fCycle)
				okC := ok && isConst(x, 1) && seqP != nil && onEdge(st.Block(), cmpLastSeqnoLT0(seqP)) && onEdge(st.Block(), func(cond ssa.Value, pol bool) bool {
					bo, ok := cond.(*ssa.BinOp)
					if !ok || !pol || bo.Op != token.LSS || bo.X != seqP || !isLoadOfField(bo.Y, fLast) {
						return false
					}
					ld, _ := bo.Y.(ssa.Instruction)
					for _, ls := range lastStores {
						if ld == nil || instrBefore(ls, ld) {
							return false
						}
					}
					return true
				})
				c.Check(okC, "R6.5", key, st.Pos(), "cycle+1 for a newer packet that is numerically smaller than the old last (wrap)", "the cycle count changes other than by one wrap of a newer packet")
			}
		}
	}
	if nRecv < 4 || nExp < 4 {
		c.Bad("R6.1", "counter stores found", 0, "%d stores to received and %d to expected found (4 and 4 confirmed by hand)", nRecv, nExp)
	}
	// a reset (which lets the extended highest seqno go backwards) happens
	// only for a packet MORE than 256 behind: the constant of the property
	if si := p.Func("packetcache", "", "seqnoInvalid"); si != nil {
		fn := p.SSAFunc(si.Obj)
		okThr, ntrue := true, 0
		for _, b := range fn.Blocks {
			r, isR := b.Instrs[len(b.Instrs)-1].(*ssa.Return)
			if !isR || len(r.Results) != 1 {
				continue
			}
			k, isC := r.Results[0].(*ssa.Const)
			if isC && k.Value != nil && k.Value.String() == "false" {
				continue
			}
			ntrue++
			// reference - seqno > 256 (or >= 257)
			isThr := func(cond ssa.Value) bool {
				bo, ok := cond.(*ssa.BinOp)
				if !ok {
					return false
				}
				sub, ok := bo.X.(*ssa.BinOp)
				if !ok || sub.Op != token.SUB || sub.X != ssa.Value(fn.Params[1]) || sub.Y != ssa.Value(fn.Params[0]) {
					return false
				}
				return (bo.Op == token.GTR && isConst(bo.Y, 256)) || (bo.Op == token.GEQ && isConst(bo.Y, 257))
			}
			thrEdge := func(cond ssa.Value, pol bool) bool { return pol && isThr(cond) }
			// the value returned is true only when the threshold test is: the constant
			// true behind the test, the test itself, or a phi of such values and false
			var okVal func(v ssa.Value, at *ssa.BasicBlock, depth int) bool
			okVal = func(v ssa.Value, at *ssa.BasicBlock, depth int) bool {
				if depth > 6 {
					return false
				}
				switch x := v.(type) {
				case *ssa.Const:
					if x.Value != nil && x.Value.String() == "false" {
						return true
					}
					return onEdge(at, thrEdge)
				case *ssa.BinOp:
					return isThr(x)
				case *ssa.Phi:
					for i, e := range x.Edges {
						if !okVal(e, x.Block().Preds[i], depth+1) {
							return false
						}
					}
					return true
				}
				return false
			}
			if !okVal(r.Results[0], b, 0) {
				okThr = false
			}
		}
		c.Check(okThr && ntrue > 0, "R6.5", "a packet is 'too old' only when more than 256 behind", si.Pos(), "seqnoInvalid answers true only under reference - seqno > 256", "the tracker restarts for a packet that is within the tolerated reordering window of 256: the extended highest sequence number jumps backwards and received packets are requested again")
	} else {
		c.Unknown("R6.5", "seqnoInvalid", 0, "packetcache.seqnoInvalid not found")
	}
	// GetStats: snapshot before reset; ESeqno
	if gs := p.Func("packetcache", "Cache", "GetStats"); gs != nil {
		fn := p.SSAFunc(gs.Obj)
		sf := func(n string) *types.Var { return p.Field("packetcache", "Stats", n) }
		okSnap := true
		want := map[*types.Var]func(v ssa.Value) bool{
			sf("Received"): func(v ssa.Value) bool { return isLoadOfField(v, fRecv) },
			sf("Expected"): func(v ssa.Value) bool { return isLoadOfField(v, fExp) },
			sf("TotalReceived"): func(v ssa.Value) bool {
				x, ok := incOf(v, fTR)
				return ok && isLoadOfField(x, fRecv)
			},
			sf("TotalExpected"): func(v ssa.Value) bool {
				x, ok := incOf(v, fTE)
				return ok && isLoadOfField(x, fExp)
			},
			sf("ESeqno"): func(v ssa.Value) bool {
				bo, ok := v.(*ssa.BinOp)
				if !ok || bo.Op != token.OR {
					return false
				}
				sh, ok := bo.X.(*ssa.BinOp)
				return ok && sh.Op == token.SHL && isLoadOfField(strip(sh.X), fCycle) && isConst(sh.Y, 16) && isLoadOfField(strip(bo.Y), fLast)
			},
		}
		seen := 0
		var resets []ssa.Instruction
		for _, f := range []*types.Var{fRecv, fExp} {
			for _, st := range storesToField(fn, f) {
				resets = append(resets, st)
			}
		}
		for f, chk := range want {
			if f == nil {
				okSnap = false
				continue
			}
			for _, st := range storesToField(fn, f) {
				seen++
				if !chk(st.Val) {
					okSnap = false
				}
				for _, r := range resets {
					if !instrBefore(st, r) {
						okSnap = false
					}
				}
			}
		}
		c.Check(okSnap && seen == 5, "R6.1", "GetStats reports the counters as they are, before resetting them", gs.Pos(), "Received/Expected, totals + current, ESeqno = cycle<<16 | last; the snapshot precedes the reset", "the reported statistics are not the counters of one consistent state (or are read after the reset)")
	} else {
		c.Unknown("R6.1", "GetStats", 0, "packetcache.(*Cache).GetStats not found")
	}

	// ---------- R6.2 : the report ----------
	if su := p.Func("rtpconn", "", "sendUpRTCP"); su != nil {
		fn := p.SSAFunc(su.Obj)
		fi := p.Intervals().Analyze(fn)
		fFL := p.Field("github.com/pion/rtcp", "ReceptionReport", "FractionLost")
		nF := 0
		for _, b := range fn.Blocks {
			for _, ins := range b.Instrs {
				st, ok := ins.(*ssa.Store)
				if !ok {
					continue
				}
				fa, ok := st.Addr.(*ssa.FieldAddr)
				if !ok {
					continue
				}
				f := fieldOf(fa)
				if f == nil || f.Name() != "FractionLost" || (fFL != nil && f != fFL) {
					continue
				}
				nF++
				// the stored byte is a constant or the conversion of a value within 0..255,
				// on every way of computing it
				var bad, good []string
				seenV := map[ssa.Value]bool{}
				var walk func(v ssa.Value)
				walk = func(v ssa.Value) {
					if seenV[v] {
						return
					}
					seenV[v] = true
					switch x := v.(type) {
					case *ssa.Phi:
						for _, e := range x.Edges {
							walk(e)
						}
					case *ssa.Const:
						if x.Value == nil || x.Int64() < 0 || x.Int64() > 255 {
							bad = append(bad, "constant "+x.String())
						} else {
							good = append(good, x.Value.String())
						}
					case *ssa.Convert:
						iv := fi.At(x.X, x.Block())
						if iv.empty() || iv.Lo.Sign() < 0 || iv.Hi.Cmp(big.NewInt(255)) > 0 {
							bad = append(bad, iv.String())
						} else {
							good = append(good, iv.String())
						}
					default:
						bad = append(bad, "a value that is not a bounded conversion ("+v.String()+")")
					}
				}
				walk(st.Val)
				c.Check(len(bad) == 0 && len(good) > 0, "R6.2", "loss fraction fits in 0..255", st.Pos(), fmt.Sprintf("value in %s at the conversion to uint8", strings.Join(good, ", ")), fmt.Sprintf("the loss fraction can be %s at the conversion to uint8: it is reported modulo 256", strings.Join(bad, ", ")))
			}
		}
		if nF == 0 {
			c.Bad("R6.2", "loss fraction fits in 0..255", su.Pos(), "sendUpRTCP no longer fills ReceptionReport.FractionLost")
		}
		// guarded subtractions
		info := su.Pkg.TypesInfo
		facts := p.Facts().Analyze(su)
		nsub := 0
		ast.Inspect(su.Body(), func(n ast.Node) bool {
			as, ok := n.(*ast.AssignStmt)
			if !ok || len(as.Rhs) != 1 {
				return true
			}
			be, ok := unparen(as.Rhs[0]).(*ast.BinaryExpr)
			if !ok || be.Op != token.SUB {
				return true
			}
			xs, ys := types.ExprString(be.X), types.ExprString(be.Y)
			if !(strings.HasSuffix(xs, "Expected") && strings.HasSuffix(ys, "Received")) {
				return true
			}
			nsub++
			st, _ := facts.At(as)
			xt, yt := facts.term(be.X), facts.term(be.Y)
			ok2 := st != nil && xt != nil && yt != nil && st.HasFact(mkFact(true, "lt", yt, xt))
			c.Check(ok2, "R6.2", "lost = "+xs+" - "+ys+" only when positive", as.Pos(), xs+" > "+ys+" on every path", "the number of lost packets is computed as an unsigned difference that can wrap: a huge loss is reported when more packets than expected arrived")
			_ = info
			return true
		})
		if nsub < 2 {
			c.Bad("R6.2", "lost computations found", su.Pos(), "only %d of the 2 lost-packet subtractions found", nsub)
		}
	} else {
		c.Unknown("R6.2", "anchors", 0, "rtpconn.sendUpRTCP not found")
	}

	// ---------- R6.3 : window coherence ----------
	bf := func(n string) *types.Var { return p.Field("packetcache", "bitmap", n) }
	bFirst, bBits, bValid := bf("first"), bf("bitmap"), bf("valid")
	for _, name := range []string{"set", "get"} {
		fs := p.Func("packetcache", "bitmap", name)
		if fs == nil || bFirst == nil || bBits == nil {
			c.Unknown("R6.3", "bitmap."+name, 0, "packetcache.(*bitmap).%s not found", name)
			continue
		}
		fn := p.SSAFunc(fs.Obj)
		// values that are "a window base": loads of bitmap.first (any), and uint16 adds on a base
		okPair, nsh := true, 0
		var bad []string
		for _, b := range fn.Blocks {
			var shifts, adds []ssa.Value
			for _, ins := range b.Instrs {
				bo, ok := ins.(*ssa.BinOp)
				if !ok {
					continue
				}
				if bo.Op == token.SHR && types.Identical(bo.Type().Underlying(), types.Typ[types.Uint32]) {
					// the final ">> 1" that converts a window into the RTCP form (bits for base+1..) is not a window shift
					if isConst(bo.Y, 1) {
						onlyRet := true
						for _, r := range *bo.Referrers() {
							if cv, ok := r.(*ssa.Convert); ok {
								for _, r2 := range *cv.Referrers() {
									if _, isRet := r2.(*ssa.Return); !isRet {
										if _, isSt := r2.(*ssa.Store); !isSt {
											onlyRet = false
										}
									}
								}
							} else {
								onlyRet = false
							}
						}
						if onlyRet {
							continue
						}
					}
					shifts = append(shifts, strip(bo.Y))
					nsh++
				}
				if bo.Op == token.ADD && types.Identical(bo.Type().Underlying(), types.Typ[types.Uint16]) {
					if isLoadOfField(bo.X, bFirst) {
						adds = append(adds, strip(bo.Y))
					} else if isLoadOfField(bo.Y, bFirst) {
						adds = append(adds, strip(bo.X))
					}
				}
			}
			// multiset equality
			used := make([]bool, len(adds))
			for _, s := range shifts {
				found := false
				for i, a := range adds {
					if !used[i] && a == s {
						used[i], found = true, true
						break
					}
				}
				if !found {
					okPair = false
					bad = append(bad, fmt.Sprintf("block %d: shift by %s without the same advance of the base", b.Index, s.Name()))
				}
			}
			for i, a := range adds {
				if !used[i] {
					okPair = false
					bad = append(bad, fmt.Sprintf("block %d: base advanced by %s without the same shift", b.Index, a.Name()))
				}
			}
		}
		c.Check(okPair && nsh >= 2, "R6.3", "bitmap."+name+": every shift of the window is paired with the same advance of its base", fs.Pos(), fmt.Sprintf("%d shifts, each with base += the same amount in the same block", nsh), "bit i no longer stands for seqno base+i: received packets are reported missing (or holes are hidden): "+strings.Join(bad, "; "))
		if name == "set" {
			var seqP ssa.Value
			for _, q := range fn.Params {
				if q.Name() == "seqno" {
					seqP = q
				}
			}
			// reset: first = seqno, bitmap = 1, valid = true in one block
			okReset := false
			for _, st := range storesToField(fn, bFirst) {
				if st.Val != seqP {
					continue
				}
				one, val := false, false
				for _, s2 := range storesToField(fn, bBits) {
					if s2.Block() == st.Block() && isConst(s2.Val, 1) {
						one = true
					}
				}
				for _, s2 := range storesToField(fn, bValid) {
					if s2.Block() == st.Block() {
						if kk, ok := s2.Val.(*ssa.Const); ok && kk.Value != nil && kk.Value.String() == "true" {
							val = true
						}
					}
				}
				okReset = one && val
			}
			c.Check(okReset, "R6.3", "bitmap.set: a reset starts the window at the arriving packet with bit 0 set", fs.Pos(), "first = seqno; bitmap = 1; valid = true", "after a reset the arriving packet itself is reported missing, or the window is based elsewhere")
			// the bit: bits |= 1 << (seqno - first), first loaded after the shifts
			okBit := false
			for _, st := range storesToField(fn, bBits) {
				or, ok := st.Val.(*ssa.BinOp)
				if !ok || or.Op != token.OR || !isLoadOfField(or.X, bBits) {
					continue
				}
				shl, ok := strip(or.Y).(*ssa.BinOp)
				if !ok || shl.Op != token.SHL || !isConst(shl.X, 1) {
					continue
				}
				sub, ok := strip(shl.Y).(*ssa.BinOp)
				if !ok || sub.Op != token.SUB || sub.X != seqP || !isLoadOfField(sub.Y, bFirst) {
					continue
				}
				ld, _ := sub.Y.(ssa.Instruction)
				okBit = ld != nil
				for _, fsb := range storesToField(fn, bFirst) {
					if fsb.Block() == st.Block() && ld != nil && !instrBefore(fsb, ld) {
						okBit = false
					}
					// stores to first in blocks that can run after the load
					if fsb.Block() != st.Block() && ld != nil && ld.Block().Dominates(fsb.Block()) && fsb.Val != seqP {
						okBit = false
					}
				}
			}
			c.Check(okBit, "R6.3", "bitmap.set: the arriving packet sets bit seqno - base", fs.Pos(), "bits |= 1 << (seqno - first) with first as it is after the shifts", "the bit set for an arriving packet is not the one that stands for it: it will be reported missing")
		}
	}
	la := NewLockAnalysis(p)
	checkGuardedFields(c, "R6.3", la, []*types.Var{bFirst, bBits, bValid}, cf("mu"), nil)

	// ---------- R6.4 : requests ----------
	checkNackRequests(c, "R6.4")
}

func checkNackRequests(c *Ctx, rule string) {
	p := c.P
	rl := p.Func("rtpconn", "", "readLoop")
	nw := p.Func("rtpconn", "", "nackWriter")
	sn := p.Func("rtpconn", "rtpUpTrack", "sendNACK")
	sns := p.Func("rtpconn", "rtpUpTrack", "sendNACKs")
	tb := p.Func("packetcache", "", "ToBitmap")
	if rl == nil || nw == nil || sn == nil || sns == nil || tb == nil {
		c.Unknown(rule, "anchors", 0, "readLoop / nackWriter / sendNACK / sendNACKs / ToBitmap not found")
		return
	}
	eng := p.Facts()
	// readLoop
	{
		facts := eng.Analyze(rl)
		var bg, snc *ast.CallExpr
		ast.Inspect(rl.Body(), func(n ast.Node) bool {
			if call, ok := n.(*ast.CallExpr); ok {
				f := calleeOf(&CallSite{Call: call, In: rl})
				if fnIs(f, "packetcache", "Cache", "BitmapGet") {
					bg = call
				}
				if fnIs(f, "rtpconn", "rtpUpTrack", "sendNACK") {
					snc = call
				}
			}
			return true
		})
		if bg == nil || snc == nil {
			c.Bad(rule, "readLoop: BitmapGet -> sendNACK", rl.Pos(), "readLoop no longer turns BitmapGet results into NACKs")
		} else {
			// next = packet.SequenceNumber - off, off >= 1
			okNext := false
			var ivs string
			sf := p.SSAFunc(rl.Obj)
			fi := p.Intervals().Analyze(sf)
			for _, b := range sf.Blocks {
				for _, ins := range b.Instrs {
					call, ok := ins.(*ssa.Call)
					if !ok || call.Call.StaticCallee() == nil || call.Call.StaticCallee().Name() != "BitmapGet" {
						continue
					}
					sub, ok := call.Call.Args[1].(*ssa.BinOp)
					if !ok || sub.Op != token.SUB {
						continue
					}
					iv := fi.At(sub.Y, b)
					ivs = iv.String()
					// the minuend is the packet's seqno
					isSeq := false
					if u, ok := sub.X.(*ssa.UnOp); ok && u.Op == token.MUL {
						if fa, ok := u.X.(*ssa.FieldAddr); ok {
							if f := fieldOf(fa); f != nil && f.Name() == "SequenceNumber" {
								isSeq = true
							}
						}
					}
					if isSeq && !iv.empty() && iv.Lo.Cmp(big.NewInt(1)) >= 0 && iv.Hi.Cmp(big.NewInt(0x7fff)) <= 0 {
						okNext = true
					}
				}
			}
			c.Check(okNext, rule, "readLoop: holes are looked for strictly before the newest packet", bg.Pos(), "BitmapGet(packet.SequenceNumber - k) with k in "+ivs, "the loss window is queried up to (or beyond) the packet that just arrived: packets that are merely in flight are requested (k in "+ivs+")")
			st, _ := facts.At(snc)
			okArgs := len(snc.Args) == 2 && argIsResult(facts, snc, snc.Args[0], bg, 1) && argIsResult(facts, snc, snc.Args[1], bg, 2)
			okFound := st != nil && st.HasFact(mkFact(true, "true", &Term{K: 'r', Name: "res0", Pos: bg.Lparen}, nil))
			c.Check(okArgs, rule, "readLoop: the NACK is what the bitmap reported", snc.Pos(), "sendNACK(first, bitmap) with results #1 and #2 of BitmapGet", "the retransmission request names other packets than the holes found in the loss window")
			c.Check(okFound, rule, "readLoop: no NACK without a hole", snc.Pos(), "sendNACK only under BitmapGet's found", "a retransmission request is sent although the window has no hole: a received packet is blamed")
		}
	}
	// sendNACK: Expect(1 + popcount(bitmap)) under success; pair {first, bitmap}
	{
		info := sn.Pkg.TypesInfo
		facts := eng.Analyze(sn)
		params := sn.params(info)
		okPair, okExp := false, false
		ast.Inspect(sn.Body(), func(n ast.Node) bool {
			switch x := n.(type) {
			case *ast.CompositeLit:
				if len(x.Elts) == 2 && strings.HasSuffix(types.ExprString(x.Type), "NackPair") == false {
					// element of []rtcp.NackPair{{first, PacketBitmap(bitmap)}}
					if id, ok := unparen(x.Elts[0]).(*ast.Ident); ok && len(params) >= 3 && info.Uses[id] == params[1] {
						if call, ok := unparen(x.Elts[1]).(*ast.CallExpr); ok && len(call.Args) == 1 {
							if id2, ok := unparen(call.Args[0]).(*ast.Ident); ok && info.Uses[id2] == params[2] {
								okPair = true
							}
						}
					}
				}
			case *ast.CallExpr:
				if fnIs(calleeOf(&CallSite{Call: x, In: sn}), "packetcache", "Cache", "Expect") {
					be, ok := unparen(x.Args[0]).(*ast.BinaryExpr)
					if ok && be.Op == token.ADD && types.ExprString(be.X) == "1" {
						if call, ok := unparen(be.Y).(*ast.CallExpr); ok && strings.HasSuffix(types.ExprString(call.Fun), "OnesCount16") && len(call.Args) == 1 {
							if id, ok := unparen(call.Args[0]).(*ast.Ident); ok && len(params) >= 3 && info.Uses[id] == params[2] {
								st, _ := facts.At(x)
								if st != nil {
									for _, f := range st.Facts() {
										if f.Op == "eq" && f.Pos && (f.A.K == 'n' || (f.B != nil && f.B.K == 'n')) && strings.Contains(pretty(f.key), "err") {
											okExp = true
										}
									}
								}
							}
						}
					}
				}
			}
			return true
		})
		c.Check(okPair, rule, "sendNACK: the pair sent is (first, bitmap)", sn.Pos(), "NackPair{first, PacketBitmap(bitmap)}", "the NACK sent does not name the packets it was asked to request")
		c.Check(okExp, rule, "sendNACK: requested packets are accounted as expected", sn.Pos(), "Expect(1 + popcount(bitmap)) after a successful send", "retransmissions are requested without raising expected by their number: when they arrive received catches up with expected and real loss is under-reported")
	}
	// nackWriter: an entry survives only if the cache does not hold it
	{
		info := nw.Pkg.TypesInfo
		facts := eng.Analyze(nw)
		var getc *ast.CallExpr
		var inc *ast.IncDecStmt
		ast.Inspect(nw.Body(), func(n ast.Node) bool {
			switch x := n.(type) {
			case *ast.CallExpr:
				if fnIs(calleeOf(&CallSite{Call: x, In: nw}), "packetcache", "Cache", "Get") {
					getc = x
				}
			case *ast.IncDecStmt:
				if x.Tok == token.INC {
					inc = x
				}
			}
			return true
		})
		// the point at which an entry is kept: `i++` of the in-place deletion loop
		// (the entry asked about is list[i]), or `kept = append(kept, e)` of the
		// copying filter (the entry asked about is e); filtered is the list the
		// kept entries end up in
		var keep ast.Node
		var filtered ast.Expr
		if getc != nil {
			if ix, ok := unparen(getc.Args[0]).(*ast.IndexExpr); ok && inc != nil && types.ExprString(ix.Index) == types.ExprString(inc.X) {
				keep, filtered = inc, ix.X
			} else {
				asked := types.ExprString(unparen(getc.Args[0]))
				ast.Inspect(nw.Body(), func(n ast.Node) bool {
					as, ok := n.(*ast.AssignStmt)
					if !ok || len(as.Lhs) != 1 || len(as.Rhs) != 1 {
						return true
					}
					call, ok := unparen(as.Rhs[0]).(*ast.CallExpr)
					if !ok || len(call.Args) != 2 || call.Ellipsis.IsValid() {
						return true
					}
					if id, isId := unparen(call.Fun).(*ast.Ident); !isId || id.Name != "append" || info.Uses[id] != types.Universe.Lookup("append") {
						return true
					}
					if types.ExprString(as.Lhs[0]) == types.ExprString(call.Args[0]) && types.ExprString(unparen(call.Args[1])) == asked {
						if keep != nil {
							keep, filtered = nil, nil // more than one: not the idiom
							return false
						}
						keep, filtered = as, as.Lhs[0]
					}
					return true
				})
			}
		}
		okKeep := false
		// third idiom: list = slices.DeleteFunc(list, func(e) bool {...}) - an entry is kept
		// where the function returns false, which it may do only if Get(e, nil) > 0 is false
		if keep == nil && getc != nil {
			ast.Inspect(nw.Body(), func(n ast.Node) bool {
				as, ok := n.(*ast.AssignStmt)
				if !ok || len(as.Lhs) != 1 || len(as.Rhs) != 1 {
					return true
				}
				call, ok := unparen(as.Rhs[0]).(*ast.CallExpr)
				if !ok || len(call.Args) != 2 {
					return true
				}
				if f := calleeOf(&CallSite{Call: call, In: nw}); f == nil || f.Pkg() == nil || f.Pkg().Path() != "slices" || f.Name() != "DeleteFunc" {
					return true
				}
				lit, ok := unparen(call.Args[1]).(*ast.FuncLit)
				if !ok || !(lit.Pos() <= getc.Pos() && getc.End() <= lit.End()) || len(lit.Type.Params.List) != 1 || len(lit.Type.Params.List[0].Names) != 1 {
					return true
				}
				// Get is asked about the element
				pobj := info.ObjectOf(lit.Type.Params.List[0].Names[0])
				if id, isId := unparen(getc.Args[0]).(*ast.Ident); !isId || info.ObjectOf(id) != pobj {
					return true
				}
				src := p.SrcOfLit(lit)
				if src == nil {
					return true
				}
				lf := eng.Analyze(src)
				res := &Term{K: 'r', Name: "res0", Pos: getc.Lparen}
				gt := lf.term(getc)
				okAll, nret := true, 0
				for _, ret := range lf.Returns() {
					if len(ret.Results) != 1 {
						okAll = false
						continue
					}
					nret++
					r := unparen(ret.Results[0])
					if tv := info.Types[r]; tv.Value != nil {
						if tv.Value.String() == "true" {
							continue // dropped
						}
						// kept: Get returned 0 on every path here
						st, _ := lf.At(ret)
						held := false
						if st != nil {
							for _, f := range st.Facts() {
								if f.Op == "lt" && !f.Pos && f.A.Name == "0" && f.B != nil && (st.EqualUnder(f.B, res) || (gt != nil && f.B.String() == gt.String())) {
									held = true
								}
							}
						}
						if !held {
							okAll = false
						}
						continue
					}
					// return Get(e, nil) > 0: kept exactly when it is not
					be, isB := r.(*ast.BinaryExpr)
					if !(isB && ((be.Op == token.GTR && unparen(be.X) == ast.Expr(getc) && isZeroConst(info, be.Y)) || (be.Op == token.NEQ && unparen(be.X) == ast.Expr(getc) && isZeroConst(info, be.Y)) || (be.Op == token.LSS && unparen(be.Y) == ast.Expr(getc) && isZeroConst(info, be.X)))) {
						okAll = false
					}
				}
				if okAll && nret > 0 && types.ExprString(as.Lhs[0]) == types.ExprString(call.Args[0]) {
					okKeep = true
					filtered = as.Lhs[0]
				}
				return true
			})
		}
		if keep != nil {
			st, _ := facts.At(keep)
			res := &Term{K: 'r', Name: "res0", Pos: getc.Lparen}
			if st != nil {
				if st.HasFact(mkFact(false, "lt", TConst("0"), res)) || st.HasFact(mkFact(true, "eq", TConst("0"), res)) {
					okKeep = true
				}
				gt := facts.term(getc)
				for _, f := range st.Facts() {
					if f.Op == "lt" && !f.Pos && f.A.Name == "0" && f.B != nil && (st.EqualUnder(f.B, res) || (gt != nil && f.B.String() == gt.String())) {
						okKeep = true
					}
				}
			}
		}
		c.Check(okKeep, rule, "nackWriter: a buffered request survives only if the packet is still missing", nw.Pos(), "an entry is kept only when cache.Get(entry, nil) returned 0", "a buffered request is forwarded upstream although the packet has arrived in the meantime")
		// what is sent is the filtered slice
		okSend := false
		ast.Inspect(nw.Body(), func(n ast.Node) bool {
			if call, ok := n.(*ast.CallExpr); ok && fnIs(calleeOf(&CallSite{Call: call, In: nw}), "rtpconn", "rtpUpTrack", "sendNACKs") && filtered != nil && call.Pos() > getc.Pos() {
				if types.ExprString(call.Args[0]) == types.ExprString(filtered) {
					okSend = true
				} else if st, _ := facts.At(call); st != nil {
					if a, b := facts.term(call.Args[0]), facts.term(filtered); a != nil && b != nil && st.EqualUnder(a, b) {
						okSend = true
					}
				}
			}
			return true
		})
		c.Check(okSend, rule, "nackWriter: the filtered list is what is sent", nw.Pos(), "sendNACKs(nacks) after the filter loop", "the list sent upstream is not the filtered one")
	}
	// sendNACKs: remainder fed back
	{
		okLoop := false
		ast.Inspect(sns.Body(), func(n ast.Node) bool {
			fr, ok := n.(*ast.ForStmt)
			if !ok || fr.Cond == nil {
				return true
			}
			cond := types.ExprString(fr.Cond)
			ast.Inspect(fr.Body, func(m ast.Node) bool {
				as, ok := m.(*ast.AssignStmt)
				if !ok || len(as.Lhs) != 3 || len(as.Rhs) != 1 {
					return true
				}
				call, ok := unparen(as.Rhs[0]).(*ast.CallExpr)
				if !ok || !fnIs(calleeOf(&CallSite{Call: call, In: sns}), "packetcache", "", "ToBitmap") {
					return true
				}
				v := types.ExprString(as.Lhs[2])
				if types.ExprString(call.Args[0]) == v && cond == "len("+v+") > 0" {
					okLoop = true
				}
				return true
			})
			return true
		})
		c.Check(okLoop, rule, "sendNACKs: ToBitmap's remainder is fed back until it is empty", sns.Pos(), "for len(seqnos) > 0 { f, b, seqnos = ToBitmap(seqnos) }", "numbers that do not fit the first pair are dropped instead of being packed into further pairs")
	}
	// ToBitmap
	{
		fn := p.SSAFunc(tb.Obj)
		// bit index: remain[0] - first - 1 ; guard < 16 ; remain = remain[1:]
		okBit, okAdv := false, false
		for _, b := range fn.Blocks {
			for _, ins := range b.Instrs {
				switch x := ins.(type) {
				case *ssa.BinOp:
					if x.Op == token.SHL {
						if k, ok := x.X.(*ssa.Const); ok && k.Int64() == 1 {
							// amount = (elem - first) - 1
							amt := x.Y
							if cv, ok := amt.(*ssa.Convert); ok {
								amt = cv.X
							}
							if s1, ok := amt.(*ssa.BinOp); ok && s1.Op == token.SUB {
								if k1, ok := s1.Y.(*ssa.Const); ok && k1.Int64() == 1 {
									if s2, ok := s1.X.(*ssa.BinOp); ok && s2.Op == token.SUB {
										okBit = true
									}
								}
							}
						}
					}
				case *ssa.Slice:
					if k, ok := x.Low.(*ssa.Const); ok && k.Int64() == 1 && x.High == nil {
						okAdv = true
					}
					// or an index that advances by one per bit and the tail seqnos[n:] at the end
					if ph, ok := x.Low.(*ssa.Phi); ok && x.High == nil {
						for _, e := range ph.Edges {
							if add, ok := e.(*ssa.BinOp); ok && add.Op == token.ADD && add.X == ssa.Value(ph) {
								if k, ok := add.Y.(*ssa.Const); ok && k.Int64() == 1 {
									okAdv = true
								}
							}
						}
					}
				}
			}
		}
		c.Check(okBit && okAdv, rule, "ToBitmap: bit (s - first - 1), one number consumed per bit", tb.Pos(), "bitmap |= 1 << (remain[0]-first-1); remain = remain[1:]", "the packing of sorted numbers into a NACK pair loses or misplaces numbers")
	}
}

func isZeroConst(info *types.Info, e ast.Expr) bool {
	tv, ok := info.Types[e]
	return ok && tv.Value != nil && tv.Value.String() == "0"
}
