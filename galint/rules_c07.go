package main

import (
	"fmt"
	"go/ast"
	"go/token"
	"go/types"
	"strings"
)

func init() {
	register(&Property{
		ID:        "C07",
		Title:     "Subscribers are offered exactly what they requested; teardown reaches everyone",
		Technique: "must-facts (group-identity guards), call-result provenance (offer labelling), CFG must-call rules (teardown fan-out), frozen call-site table for the push argument",
		Decides: "R7.1: a pushed stream is acted on only by a client whose current group is the group the push was made for (web, recording and WHIP clients). " +
			"R7.2: an offer is labelled with the publisher's true id and username (the results of the up connection's User(), which reads the owning client), its label and the down connection's own id. " +
			"R7.3: deleting an up connection with push set tells every other member (close = PushConn with a nil connection) on every path; every call site passes push as recorded in the frozen table; leaving deletes every up and down connection before DelClient; a WHIP session closing fans the close out too. " +
			"R7.4: when nothing of a stream is requested the subscriber is sent a close for it; a failed negotiation closes the down connection with the error; closes act on the client's own connections. " +
			"R7.8: the parser of a per-stream request keeps an explicit empty list ('nothing from this stream', answered with a close) apart from an absent one ('use the default request'): whatever toStringArray returns without an error for a list that was present is a non-nil slice. " +
			"R7.7: the delayed announcement scheduled by pushConn is skipped only when the stream's pushed flag was found set (an announcement happened since it was scheduled): it alone may still carry the 'replaces' id of a stream that was itself replaced, or closed, before its first announcement. " +
			"R7.6: replaceTracks reports 'unchanged' only when there is nothing to add and nothing to remove, and applies every difference; pushDownConn closes the downstream it replaces on every exit unless a successful offer announced the replacement; a stream marked closed accepts no new subscriber, and delUpConn marks it before announcing the close. " +
			"R7.5: the requested kinds select the first audio track, the first video track for 'video', the last for 'video-low' (and limit the spatial layer when there is no separate low-quality track).",
		NotDecided: []string{
			"the iff over all histories (the 200 ms delayed push against closes, replace chains, renegotiation state)",
			"that clients that have not joined receive nothing (follows from the membership lists: C10/C14)",
		},
		Run: runC07,
	})
}

func runC07(c *Ctx) {
	defer runC07Pairing(c)
	p := c.P
	eng := p.Facts()
	c.Rule("R7.1", "E2", "pushes are honoured only for the client's current group", 4)
	c.Rule("R7.2", "E4", "offer labelling comes from the publisher's connection", 5)
	c.Rule("R7.3", "E3", "teardown fan-out on every path; frozen push arguments; leave deletes every connection", 8)
	c.Rule("R7.4", "E2", "nothing requested => close; failed negotiation => close with the error", 3)
	c.Rule("R7.5", "E2", "track selection by requested kind", 4)

	grp := p.Field("rtpconn", "webClient", "group")
	ha := p.Func("rtpconn", "", "handleAction")
	if grp == nil || ha == nil {
		c.Unknown("R7.1", "anchors", 0, "webClient.group / handleAction not found")
		return
	}
	// ---- R7.1 ----
	{
		ff := eng.Analyze(ha)
		own := p.paramOfType(ha, "rtpconn", "webClient")
		cg := TField(TVar(own), grp)
		fPG := p.Field("rtpconn", "pushConnAction", "group")
		fRG := p.Field("rtpconn", "requestConnsAction", "group")
		for _, cs := range p.CallSites() {
			if cs.In != ha {
				continue
			}
			f := calleeOf(cs)
			st, _ := ff.At(cs.Call)
			if st == nil {
				continue
			}
			groupEq := func(field *types.Var) bool {
				if !st.HasFact(mkFact(false, "eq", cg, TNil())) {
					return false
				}
				for _, fa := range st.Facts() {
					if fa.Op == "eq" && fa.Pos && fa.B != nil {
						for _, pr := range [][2]*Term{{fa.A, fa.B}, {fa.B, fa.A}} {
							if pr[0].K == 'f' && pr[0].Obj == types.Object(field) && (pr[1].String() == cg.String() || st.EqualUnder(pr[1], cg)) {
								return true
							}
						}
					}
				}
				return false
			}
			switch {
			case fnIs(f, "rtpconn", "", "pushDownConn"):
				c.Check(fPG != nil && groupEq(fPG), "R7.1", "web client: pushed stream only for the current group", cs.Call.Pos(),
					"pushDownConn is dominated by c.group != nil && c.group == a.group", "a stream pushed for another group (or after leaving) is offered to this client")
			case p.ifaceMethodIs(f, "group", "Client", "PushConn"):
				types_ := (&c14env{p: p}).caseTypes(ha, cs.Call)
				if strings.Contains(strings.Join(types_, ","), "requestConnsAction") {
					c.Check(fRG != nil && groupEq(fRG), "R7.1", "web client: streams are pushed only to requesters of the current group", cs.Call.Pos(),
						"the PushConn fan-out is dominated by c.group != nil && a.group == c.group", "a request from another group gets this client's streams")
				}
			}
		}
	}
	for _, spec := range [][3]string{{"diskwriter", "Client", "PushConn"}, {"rtpconn", "WhipClient", "RequestConns"}} {
		fs := p.Func(spec[0], spec[1], spec[2])
		if fs == nil {
			c.Unknown("R7.1", spec[1]+"."+spec[2], 0, "not found")
			continue
		}
		ff := eng.Analyze(fs)
		info := fs.Pkg.TypesInfo
		gf := p.Field(spec[0], spec[1], "group")
		var gparam types.Object
		for _, po := range fs.params(info) {
			if po != nil && strings.HasSuffix(po.Type().String(), "group.Group") {
				gparam = po
			}
		}
		recv := fs.params(info)[0]
		// every effect (any call other than the guard itself) is unreachable while g != own group
		ok := gf != nil && gparam != nil
		if ok {
			want := mkFact(false, "eq", TField(TVar(recv), gf), TVar(gparam))
			ast.Inspect(fs.Body(), func(n ast.Node) bool {
				call, isCall := n.(*ast.CallExpr)
				if !isCall {
					return true
				}
				if reach, _ := ff.ReachableNotRefuting(call, factsConj(want)); reach {
					ok = false
				}
				return true
			})
		}
		c.Check(ok, "R7.1", spec[0]+"."+spec[1]+"."+spec[2]+": only for its own group", fs.Pos(), "no call is reachable while the group argument differs from the client's own group", "the client acts on pushes/requests made for another group")
	}

	// ---- R7.2 ----
	if ng := p.Func("rtpconn", "", "negotiate"); ng != nil {
		ff := eng.Analyze(ng)
		info := ng.Pkg.TypesInfo
		e14 := &c14env{c: c, p: p, eng: eng}
		var offer *ast.CompositeLit
		ast.Inspect(ng.Body(), func(n ast.Node) bool {
			if cl, ok := n.(*ast.CompositeLit); ok {
				for _, el := range cl.Elts {
					if kv, ok := el.(*ast.KeyValueExpr); ok {
						if id, ok := kv.Key.(*ast.Ident); ok && id.Name == "Type" {
							if s, isC := constString(info, kv.Value); isC && s == "offer" {
								offer = cl
							}
						}
					}
				}
			}
			return true
		})
		if offer == nil {
			c.Bad("R7.2", "offer message", ng.Pos(), "negotiate no longer builds an offer message")
		} else {
			st, _ := ff.At(offer)
			downP := p.paramOfType(ng, "rtpconn", "rtpDownConnection")
			for _, el := range offer.Elts {
				kv := el.(*ast.KeyValueExpr)
				name := kv.Key.(*ast.Ident).Name
				val := kv.Value
				if u, ok := unparen(val).(*ast.UnaryExpr); ok {
					val = u.X
				}
				isRemoteCall := func(call *ast.CallExpr, meth string) bool {
					if call == nil {
						return false
					}
					sel, ok := unparen(call.Fun).(*ast.SelectorExpr)
					if !ok || sel.Sel.Name != meth {
						return false
					}
					return types.ExprString(sel.X) == downP.Name()+".remote"
				}
				switch name {
				case "Source", "Username":
					// result #0 / #1 of down.remote.User()
					t := ff.term(val)
					ok := false
					idx := map[string]string{"Source": "res0", "Username": "res1"}[name]
					if t != nil && st != nil {
						for _, fa := range st.Facts() {
							if fa.Op == "eq" && fa.Pos && fa.B != nil {
								for _, pr := range [][2]*Term{{fa.A, fa.B}, {fa.B, fa.A}} {
									if pr[0].String() == t.String() && pr[1].K == 'r' && pr[1].Name == idx {
										if cs := p.callAt[pr[1].Pos]; cs != nil && isRemoteCall(cs.Call, "User") {
											ok = true
										}
									}
								}
							}
						}
					}
					c.Check(ok, "R7.2", "offer."+name+" is the publisher's", kv.Pos(), idx+" of down.remote.User()", "the offer's "+name+" is not taken from the publishing connection's User()")
				case "Label":
					c.Check(isRemoteCall(e14.provCall(ff, st, val), "Label"), "R7.2", "offer.Label is the stream's", kv.Pos(), "down.remote.Label()", "the offer's label is not the publisher's label")
				case "Id":
					c.Check(types.ExprString(val) == downP.Name()+".id", "R7.2", "offer.Id is the down connection's", kv.Pos(), "down.id", "the offer carries another id")
				}
			}
		}
	}
	if uu := p.Func("rtpconn", "rtpUpConnection", "User"); uu != nil {
		ok := false
		for _, ret := range eng.Analyze(uu).Returns() {
			if len(ret.Results) == 2 && strings.HasSuffix(types.ExprString(ret.Results[0]), ".client.Id()") && strings.HasSuffix(types.ExprString(ret.Results[1]), ".client.Username()") {
				ok = true
			}
		}
		c.Check(ok, "R7.2", "User() reads the owning client", uu.Pos(), "returns up.client.Id(), up.client.Username()", "User() no longer returns the owning client's id and username")
	}

	// ---- R7.3 ----
	if du := p.Func("rtpconn", "", "delUpConn"); du != nil {
		ff := eng.Analyze(du)
		info := du.Pkg.TypesInfo
		params := du.params(info) // c, id, userId, push
		var del *ast.CallExpr
		var push *ast.CallExpr
		var loop *ast.RangeStmt
		ast.Inspect(du.Body(), func(n ast.Node) bool {
			switch x := n.(type) {
			case *ast.CallExpr:
				if isBuiltin(info, x, "delete") {
					del = x
				}
				if p.ifaceMethodIs(calleeOf(&CallSite{Call: x, In: du}), "group", "Client", "PushConn") {
					push = x
				}
			case *ast.RangeStmt:
				if call, ok := unparen(x.X).(*ast.CallExpr); ok && fnIs(calleeOf(&CallSite{Call: call, In: du}), "group", "Group", "GetClients") {
					loop = x
				}
			}
			return true
		})
		if del == nil || push == nil || loop == nil || len(params) != 4 {
			c.Bad("R7.3", "delUpConn: fan-out", du.Pos(), "delete / loop over g.GetClients / PushConn not all present")
		} else {
			// the close: PushConn(g, id, nil, nil, _) with id the deleted id, recipients all others
			okArgs := len(push.Args) == 5 && isNilIdent(info, push.Args[2]) && isNilIdent(info, push.Args[3])
			if okArgs {
				if t := ff.term(push.Args[1]); t == nil || t.String() != TVar(params[1]).String() {
					okArgs = false
				}
			}
			gc := unparen(loop.X).(*ast.CallExpr)
			okRcpt := len(gc.Args) == 1
			if okRcpt {
				if t := ff.term(gc.Args[0]); t == nil || t.String() != TVar(params[0]).String() {
					okRcpt = false
				}
			}
			// on every path from the delete with push && g != nil the loop header is reached
			gobj := du.localVar("g")
			skip := false
			if gobj != nil {
				visit := func(n ast.Node, st *State, trace []*ast.CallExpr) bool { return false }
				atExit := func(st *State, trace []*ast.CallExpr, last ast.Node) {
					deleted, fanned := false, false
					for _, call := range trace {
						if call == del {
							deleted = true
						}
						if call == gc {
							fanned = true
						}
					}
					if deleted && !fanned && st.HasFact(mkFact(true, "true", TVar(params[3]), nil)) && st.HasFact(mkFact(false, "eq", TVar(gobj), TNil())) {
						skip = true
					}
					// with push set, a path that did not establish g == nil must fan out
					if deleted && !fanned && !st.HasFact(mkFact(false, "true", TVar(params[3]), nil)) && !st.HasFact(mkFact(true, "eq", TVar(gobj), TNil())) {
						skip = true
					}
				}
				if !ff.ExplorePaths(visit, atExit, 5000) {
					skip = true
				}
			}
			nbranch := 0
			ast.Inspect(loop.Body, func(n ast.Node) bool {
				switch n.(type) {
				case *ast.BranchStmt, *ast.ReturnStmt:
					nbranch++
				}
				return true
			})
			c.Check(okArgs && okRcpt && !skip && nbranch == 0 && gobj != nil, "R7.3", "delUpConn: every other member is sent the close", push.Pos(),
				"after the removal, when push && g != nil, every client of g.GetClients(c) gets PushConn(g, id, nil, nil, replace)",
				fmt.Sprintf("the close fan-out is incomplete (args ok=%v recipients ok=%v skippable=%v breaks=%d)", okArgs, okRcpt, skip, nbranch))
		}
		// frozen table of the push argument per call site
		table := map[string]string{
			"rtpconn.handleClientMessage case close": "true",
			"rtpconn.handleClientMessage case offer": "true",
			"rtpconn.leaveGroup":                     "true",
			"rtpconn.handleAction":                   "true",
			"rtpconn.gotOffer":                       "false",
		}
		why := map[string]string{
			"rtpconn.gotOffer": "the replacing connection's own push carries `replace`, which closes the old one downstream",
		}
		k := newKeyer()
		for _, cs := range p.CallSites() {
			if !fnIs(calleeOf(cs), "rtpconn", "", "delUpConn") || len(cs.Call.Args) != 4 {
				continue
			}
			site := cs.In.Name
			if cases := p.enclosingCase(cs.In, cs.Call, "m.Type"); len(cases) > 0 {
				site += " case " + strings.Join(cases, ",")
			}
			want, known := table[site]
			tv := cs.In.Pkg.TypesInfo.Types[cs.Call.Args[3]]
			got := "?"
			if tv.Value != nil {
				got = tv.Value.String()
			}
			key := k.key("delUpConn push argument at", site)
			if !known {
				c.Bad("R7.3", key, cs.Call.Pos(), "a new call site of delUpConn (push=%s) that is not in the confirmed table: decide whether subscribers are told", got)
				continue
			}
			extra := ""
			if w := why[site]; w != "" {
				extra = " (" + w + ")"
			}
			c.Check(got == want, "R7.3", key, cs.Call.Pos(), "push="+got+extra, "push="+got+" where the confirmed value is "+want+": subscribers are not told that the stream ended")
		}
	}
	if lg := p.Func("rtpconn", "", "leaveGroup"); lg != nil {
		ff := eng.Analyze(lg)
		info := lg.Pkg.TypesInfo
		var dc *ast.CallExpr
		loops := map[string]bool{}
		ast.Inspect(lg.Body(), func(n ast.Node) bool {
			switch x := n.(type) {
			case *ast.CallExpr:
				if fnIs(calleeOf(&CallSite{Call: x, In: lg}), "group", "", "DelClient") {
					dc = x
				}
			case *ast.RangeStmt:
				field := ""
				if sel, ok := unparen(x.X).(*ast.SelectorExpr); ok {
					field = sel.Sel.Name
				}
				ast.Inspect(x.Body, func(m ast.Node) bool {
					if call, ok := m.(*ast.CallExpr); ok {
						f := calleeOf(&CallSite{Call: call, In: lg})
						if field == "up" && fnIs(f, "rtpconn", "", "delUpConn") {
							loops["up"] = true
						}
						if field == "down" && fnIs(f, "rtpconn", "", "delDownConn") {
							loops["down"] = true
						}
					}
					return true
				})
				if dc != nil {
					loops["late"] = true // a loop after DelClient
				}
			}
			return true
		})
		_ = ff
		_ = info
		c.Check(dc != nil && loops["up"] && loops["down"] && !loops["late"], "R7.3", "leaving deletes every up and down connection first", lg.Pos(),
			"loops over c.up (delUpConn) and c.down (delDownConn) precede group.DelClient(c)", "a leaving client keeps connections, or deletes them only after it left the member list (the closes then reach nobody)")
	}
	if wc := p.Func("rtpconn", "WhipClient", "Close"); wc != nil {
		ok := false
		ast.Inspect(wc.Body(), func(n ast.Node) bool {
			if rs, isR := n.(*ast.RangeStmt); isR {
				if call, isC := unparen(rs.X).(*ast.CallExpr); isC && fnIs(calleeOf(&CallSite{Call: call, In: wc}), "group", "Group", "GetClients") {
					ast.Inspect(rs.Body, func(m ast.Node) bool {
						if pc, isP := m.(*ast.CallExpr); isP && p.ifaceMethodIs(calleeOf(&CallSite{Call: pc, In: wc}), "group", "Client", "PushConn") && len(pc.Args) == 5 && isNilIdent(wc.Pkg.TypesInfo, pc.Args[2]) {
							ok = true
						}
						return true
					})
				}
			}
			return true
		})
		c.Check(ok, "R7.3", "WHIP session end is fanned out", wc.Pos(), "Close pushes a nil connection to every other member", "subscribers of a WHIP stream are not told when it ends")
	}

	// ---- R7.4 ----
	if pd := p.Func("rtpconn", "", "pushDownConn"); pd != nil {
		ff := eng.Analyze(pd)
		info := pd.Pkg.TypesInfo
		params := pd.params(info) // c, id, up, tracks, replace
		okEmpty, okFail := false, false
		// the tracks wanted: result #0 of requestedTracks
		var wanted types.Object
		ast.Inspect(pd.Body(), func(n ast.Node) bool {
			if as, ok := n.(*ast.AssignStmt); ok && len(as.Rhs) == 1 && len(as.Lhs) == 2 {
				if call, ok := unparen(as.Rhs[0]).(*ast.CallExpr); ok && fnIs(calleeOf(&CallSite{Call: call, In: pd}), "rtpconn", "", "requestedTracks") {
					if id, ok := as.Lhs[0].(*ast.Ident); ok {
						wanted = info.ObjectOf(id)
					}
				}
			}
			return true
		})
		for _, cs := range p.CallSites() {
			if cs.In != pd || !fnIs(calleeOf(cs), "rtpconn", "", "closeDownConn") || len(cs.Call.Args) != 3 {
				continue
			}
			st, _ := ff.At(cs.Call)
			if st == nil {
				continue
			}
			// receiver client is the function's own
			if t := ff.term(cs.Call.Args[0]); t == nil || t.String() != TVar(params[0]).String() {
				continue
			}
			if wanted != nil && ff.Entails(st, mkFact(true, "eq", TCall("len", nil, TVar(wanted)), TConst("0"))) {
				if t := ff.term(cs.Call.Args[1]); t != nil && t.String() == TVar(params[1]).String() {
					okEmpty = true
				}
			}
			for _, fa := range st.Facts() {
				if fa.Op == "eq" && !fa.Pos && fa.B != nil && (fa.A.K == 'n' || fa.B.K == 'n') {
					other := fa.B
					if fa.B.K == 'n' {
						other = fa.A
					}
					if other.K == 'r' {
						if site := p.callAt[other.Pos]; site != nil && fnIs(calleeOf(site), "rtpconn", "", "negotiate") {
							// the message is that error's text
							if ec, isCall := unparen(cs.Call.Args[2]).(*ast.CallExpr); isCall && len(ec.Args) == 0 {
								if se, isSel := unparen(ec.Fun).(*ast.SelectorExpr); isSel && se.Sel.Name == "Error" {
									if et := ff.term(se.X); et != nil && st.EqualUnder(et, other) {
										okFail = true
									}
								}
							}
						}
					}
				}
			}
		}
		c.Check(okEmpty, "R7.4", "nothing requested => the subscriber is sent a close", pd.Pos(), "closeDownConn(c, id, \"\") under len(requested) == 0", "a stream the subscriber does not want (any more) is left open on its side")
		c.Check(okFail, "R7.4", "failed negotiation => close with the error", pd.Pos(), "closeDownConn(c, down.id, err.Error()) under negotiate's error", "a failed negotiation leaves a half-open down connection")
	}
	if cd := p.Func("rtpconn", "", "closeDownConn"); cd != nil {
		ok := false
		params := cd.params(cd.Pkg.TypesInfo)
		ast.Inspect(cd.Body(), func(n ast.Node) bool {
			if call, isC := n.(*ast.CallExpr); isC && fnIs(calleeOf(&CallSite{Call: call, In: cd}), "rtpconn", "", "delDownConn") && len(call.Args) == 2 {
				if id, isId := unparen(call.Args[0]).(*ast.Ident); isId && cd.Pkg.TypesInfo.ObjectOf(id) == params[0] {
					ok = true
				}
			}
			return true
		})
		c.Check(ok, "R7.4", "a close affects only the client's own downstream", cd.Pos(), "closeDownConn deletes from its own client's down map", "a close can delete another client's connection")
	}

	// ---- R7.5 ----
	if rt := p.Func("rtpconn", "", "requestedTracks"); rt != nil {
		ff := eng.Analyze(rt)
		info := rt.Pkg.TypesInfo
		flags, okFlags := requestFlags(p, rt)
		audio, video, low := flags["audio"], flags["video"], flags["video-low"]
		seen := map[string]bool{}
		// the track list: the parameter of requestedTracks that is a slice of up tracks
		var tracksObj types.Object
		for _, po := range rt.params(info) {
			if po == nil {
				continue
			}
			if sl, ok := po.Type().Underlying().(*types.Slice); ok {
				if nt, ok := sl.Elem().(*types.Named); ok && nt.Obj().Name() == "UpTrack" {
					tracksObj = po
				}
			}
		}
		// a selection is a loop over the track list that skips tracks of another kind,
		// remembers the track and stops at the first one or runs to the last one; it is
		// either written out under its flag or sits in a local function called with the
		// kind and the first/last choice
		type selection struct {
			loop  *ast.RangeStmt
			kind  ast.Expr // K of `v.Kind() != K`
			stop  ast.Expr // C of `if C { break }` (nil: never stops)
			inLit *ast.FuncLit
			index *ast.CallExpr // slices.IndexFunc(tracks, func(v) bool { return v.Kind() == K }): the first match
		}
		var sels []selection
		var walkSel func(n ast.Node, lit *ast.FuncLit)
		walkSel = func(root ast.Node, lit *ast.FuncLit) {
			ast.Inspect(root, func(n ast.Node) bool {
				if fl, ok := n.(*ast.FuncLit); ok && n != root {
					walkSel(fl.Body, fl)
					return false
				}
				// i := slices.IndexFunc(tracks, func(v T) bool { return v.Kind() == K }), the
				// index used only as `i < 0` / `i >= 0` / `i == -1` and `tracks[i]`
				if call, isCall := n.(*ast.CallExpr); isCall && len(call.Args) == 2 && lit == nil {
					if f := calleeOf(&CallSite{Call: call, In: rt}); f != nil && f.Pkg() != nil && f.Pkg().Path() == "slices" && f.Name() == "IndexFunc" {
						if id, isId := unparen(call.Args[0]).(*ast.Ident); isId && info.Uses[id] == tracksObj && tracksObj != nil {
							okForm := false
							var kind ast.Expr
							if pl, isLit := unparen(call.Args[1]).(*ast.FuncLit); isLit && len(pl.Body.List) == 1 && len(pl.Type.Params.List) == 1 && len(pl.Type.Params.List[0].Names) == 1 {
								if ret, isRet := pl.Body.List[0].(*ast.ReturnStmt); isRet && len(ret.Results) == 1 {
									pobj := info.Defs[pl.Type.Params.List[0].Names[0]]
									if be, isB := unparen(ret.Results[0]).(*ast.BinaryExpr); isB && be.Op == token.EQL {
										if kc, isC := unparen(be.X).(*ast.CallExpr); isC && len(kc.Args) == 0 {
											if se, isS := unparen(kc.Fun).(*ast.SelectorExpr); isS && se.Sel.Name == "Kind" {
												if rid, isR := unparen(se.X).(*ast.Ident); isR && info.Uses[rid] == pobj {
													okForm, kind = true, be.Y
												}
											}
										}
									}
								}
							}
							// the uses of the index
							var iobj types.Object
							if as, isAs := p.Parent(rt.File, call).(*ast.AssignStmt); isAs && len(as.Lhs) == 1 && len(as.Rhs) == 1 {
								if iid, isI := as.Lhs[0].(*ast.Ident); isI {
									iobj = info.ObjectOf(iid)
								}
							}
							if iobj == nil {
								okForm = false
							} else {
								ast.Inspect(rt.Body(), func(m ast.Node) bool {
									uid, isU := m.(*ast.Ident)
									if !isU || info.Uses[uid] != iobj {
										return true
									}
									switch par := p.Parent(rt.File, uid).(type) {
									case *ast.IndexExpr:
										if bid, isB := unparen(par.X).(*ast.Ident); !isB || info.Uses[bid] != tracksObj || par.Index != ast.Expr(uid) {
											okForm = false
										}
									case *ast.BinaryExpr:
										tv := info.Types[par.Y]
										if par.X != ast.Expr(uid) || tv.Value == nil || !((par.Op == token.LSS || par.Op == token.GEQ) && tv.Value.String() == "0" || (par.Op == token.EQL || par.Op == token.NEQ) && tv.Value.String() == "-1") {
											okForm = false
										}
									default:
										okForm = false
									}
									return true
								})
							}
							if okForm {
								sels = append(sels, selection{kind: kind, index: call})
							} else {
								seen["other:IndexFunc at "+p.PosStr(call.Pos())] = true
							}
							return false
						}
					}
				}
				rs, ok := n.(*ast.RangeStmt)
				if !ok {
					return true
				}
				if id, ok := unparen(rs.X).(*ast.Ident); !ok || info.Uses[id] != tracksObj || tracksObj == nil {
					return true
				}
				val, _ := rs.Value.(*ast.Ident)
				if val == nil {
					return true
				}
				vobj := info.ObjectOf(val)
				sel := selection{loop: rs, inLit: lit}
				okShape := true
				remembered := false
				// v.Kind() <op> K
				kindTest := func(e ast.Expr, op token.Token) ast.Expr {
					be, isB := unparen(e).(*ast.BinaryExpr)
					if !isB || be.Op != op {
						return nil
					}
					call, isC := unparen(be.X).(*ast.CallExpr)
					if !isC || len(call.Args) != 0 {
						return nil
					}
					se, isS := unparen(call.Fun).(*ast.SelectorExpr)
					if !isS || se.Sel.Name != "Kind" {
						return nil
					}
					if id, isId := unparen(se.X).(*ast.Ident); !isId || info.Uses[id] != vobj {
						return nil
					}
					return be.Y
				}
				var visit func(list []ast.Stmt, top bool)
				visit = func(list []ast.Stmt, top bool) {
					for i, st := range list {
						switch x := st.(type) {
						case *ast.IfStmt:
							if x.Init != nil || x.Else != nil {
								okShape = false
								continue
							}
							// positive form: if v.Kind() == K { track = v; count++; if C { break } }
							// as the last statement of the loop body
							if k := kindTest(x.Cond, token.EQL); k != nil && top && i == len(list)-1 && !remembered && sel.kind == nil {
								sel.kind = k
								visit(x.Body.List, false)
								continue
							}
							if len(x.Body.List) != 1 {
								okShape = false
								continue
							}
							br, isBr := x.Body.List[0].(*ast.BranchStmt)
							if !isBr || br.Label != nil {
								okShape = false
								continue
							}
							switch br.Tok {
							case token.CONTINUE:
								// v.Kind() != K, before the track is remembered
								k := kindTest(x.Cond, token.NEQ)
								if k == nil || remembered || sel.kind != nil || !top {
									okShape = false
									continue
								}
								sel.kind = k
							case token.BREAK:
								if !remembered || sel.stop != nil {
									okShape = false
									continue
								}
								sel.stop = x.Cond
							default:
								okShape = false
							}
						case *ast.AssignStmt:
							// track = v
							if len(x.Lhs) == 1 && len(x.Rhs) == 1 {
								if id, isId := unparen(x.Rhs[0]).(*ast.Ident); isId && info.Uses[id] == vobj && sel.kind != nil {
									remembered = true
									continue
								}
							}
							okShape = false
						case *ast.IncDecStmt:
							// count++
						default:
							okShape = false
						}
					}
				}
				visit(rs.Body.List, true)
				if okShape && remembered && sel.kind != nil {
					sels = append(sels, sel)
				} else {
					seen["other:loop at "+p.PosStr(rs.Pos())] = true
				}
				return false
			})
		}
		walkSel(rt.Body(), nil)
		// classify one selection given the values of the enclosing literal's parameters
		classify := func(sel selection, bind map[types.Object]ast.Expr, at ast.Node) {
			resolve := func(e ast.Expr) ast.Expr {
				e = unparen(e)
				if id, ok := e.(*ast.Ident); ok {
					if b, ok := bind[info.Uses[id]]; ok {
						return unparen(b)
					}
				}
				return e
			}
			kind := types.ExprString(resolve(sel.kind))
			// first: the loop stops at the first match
			first, known := false, true
			if sel.index != nil {
				first = true
			}
			if sel.stop != nil {
				e := unparen(sel.stop)
				neg := false
				for {
					if u, ok := e.(*ast.UnaryExpr); ok && u.Op == token.NOT {
						neg, e = !neg, unparen(u.X)
						continue
					}
					break
				}
				if tv, ok := info.Types[resolve(e)]; ok && tv.Value != nil && (tv.Value.String() == "true" || tv.Value.String() == "false") {
					first = (tv.Value.String() == "true") != neg
				} else {
					known = false
				}
			}
			st, _ := ff.At(at)
			if st == nil || len(audio) == 0 || len(video) == 0 || len(low) == 0 || !known {
				seen["other:"+kind+" at "+p.PosStr(at.Pos())] = true
				return
			}
			switch {
			case strings.HasSuffix(kind, "RTPCodecTypeAudio") && first && flagFact(st, audio, true):
				seen["audio"] = true
			case strings.HasSuffix(kind, "RTPCodecTypeVideo") && first && flagFact(st, video, true):
				seen["video"] = true
			case strings.HasSuffix(kind, "RTPCodecTypeVideo") && !first && flagFact(st, video, false) && flagFact(st, low, true):
				seen["video-low"] = true
			default:
				seen[fmt.Sprintf("other:%s,first=%v at %s", kind, first, p.PosStr(at.Pos()))] = true
			}
		}
		for _, sel := range sels {
			if sel.index != nil {
				classify(sel, nil, sel.index)
				continue
			}
			if sel.inLit == nil {
				classify(sel, nil, sel.loop.X)
				continue
			}
			// the literal is bound to a local and called with constants
			var litObj types.Object
			ast.Inspect(rt.Body(), func(n ast.Node) bool {
				if as, ok := n.(*ast.AssignStmt); ok && len(as.Rhs) == 1 && len(as.Lhs) == 1 && unparen(as.Rhs[0]) == ast.Expr(sel.inLit) {
					if id, ok := as.Lhs[0].(*ast.Ident); ok {
						litObj = info.ObjectOf(id)
					}
				}
				return true
			})
			ncalls := 0
			var lparams []types.Object
			for _, fld := range sel.inLit.Type.Params.List {
				for _, nm := range fld.Names {
					lparams = append(lparams, info.Defs[nm])
				}
			}
			ast.Inspect(rt.Body(), func(n ast.Node) bool {
				switch x := n.(type) {
				case *ast.CallExpr:
					if id, ok := unparen(x.Fun).(*ast.Ident); ok && litObj != nil && info.Uses[id] == litObj && len(x.Args) == len(lparams) {
						ncalls++
						bind := map[types.Object]ast.Expr{}
						for i, po := range lparams {
							bind[po] = x.Args[i]
						}
						classify(sel, bind, x)
					}
				case *ast.Ident:
					// any other use of the literal's name (passed on, reassigned) is not understood
					if litObj != nil && info.Uses[x] == litObj {
						if call, ok := p.Parent(rt.File, x).(*ast.CallExpr); !ok || unparen(call.Fun) != ast.Expr(x) {
							seen["other:use of the selection function at "+p.PosStr(x.Pos())] = true
						}
					}
				}
				return true
			})
			if ncalls == 0 {
				seen["other:selection function never called"] = true
			}
		}
		var other []string
		for k := range seen {
			if strings.HasPrefix(k, "other:") {
				other = append(other, k)
			}
		}
		c.Check(seen["audio"] && seen["video"] && seen["video-low"] && len(other) == 0, "R7.5", "kinds select the first audio, first video, last video for video-low", rt.Pos(),
			"first audio track under audio; first video track under video; last video track under !video && videoLow", fmt.Sprintf("the selection table changed: %v", seen))
		// the flags are set by the matching strings: a flag (or a local it is copied
		// from) becomes true only where the request element compared equal to its string
		c.Check(okFlags, "R7.5", "request strings map to their kinds", rt.Pos(), "\"audio\", \"video\", \"video-low\" set exactly their flag", "a request string selects another kind")
		// limitSid only on the video-low path with fewer than two video tracks
		okLimit, nset := limitRequestOK(p, rt)
		c.Check(okLimit && nset == 1, "R7.5", "low quality from a non-simulcast publisher limits the spatial layer", rt.Pos(), "limitSid becomes true only under videoLow && !video && count < 2", "limitSid is set under other conditions (or never)")
		// replaceTracks stores limitSid into every track and forces wantedSid 0
		if rp := p.Func("rtpconn", "", "replaceTracks"); rp != nil {
			okStore, okForce := false, false
			for _, lit := range p.Sources() {
				if lit.Lit == nil || lit.Root() != rp {
					continue
				}
				ast.Inspect(lit.Body(), func(n ast.Node) bool {
					as, ok := n.(*ast.AssignStmt)
					if !ok || len(as.Lhs) != 1 {
						return true
					}
					l := types.ExprString(as.Lhs[0])
					if strings.HasSuffix(l, ".limitSid") && types.ExprString(as.Rhs[0]) == "limitSid" {
						okStore = true
					}
					if strings.HasSuffix(l, ".wantedSid") && types.ExprString(as.Rhs[0]) == "0" {
						if st, _ := p.Facts().Analyze(lit).At(as); st != nil {
							for _, fa := range st.Facts() {
								if fa.Op == "true" && fa.Pos && fa.A.K == 'v' && fa.A.Obj.Name() == "limitSid" {
									okForce = true
								}
							}
						}
					}
					return true
				})
			}
			c.Check(okStore && okForce, "R7.5", "replaceTracks applies the spatial limit to every track", rp.Pos(), "layer.limitSid = limitSid; wantedSid = 0 under limitSid", "the low-quality limit is not applied to the tracks")
		}
	}
}

// R7.6: the hand-shakes that keep "offered" and "closed" paired.
func runC07Pairing(c *Ctx) {
	p := c.P
	defer runC07Delayed(c)
	defer runC07EmptyRequest(c)
	c.Rule("R7.6", "E2/E3", "a narrowed request is applied; a replaced downstream is always closed; a closed stream accepts no new subscriber", 6)
	eng := p.Facts()
	// (a) replaceTracks says "unchanged" only when there is nothing to add and nothing to delete
	if rp := p.Func("rtpconn", "", "replaceTracks"); rp != nil {
		info := rp.Pkg.TypesInfo
		ff := eng.Analyze(rp)
		add, del := rp.localVar("add"), rp.localVar("del")
		nret, bad := 0, ""
		for _, ret := range ff.Returns() {
			if len(ret.Results) != 2 || !isNilIdent(info, ret.Results[1]) {
				continue
			}
			tv := info.Types[ret.Results[0]]
			if tv.Value == nil || tv.Value.String() != "false" {
				continue
			}
			nret++
			st, _ := ff.At(ret)
			empty := func(v types.Object) bool {
				if st == nil || v == nil {
					return false
				}
				for _, f := range st.Facts() {
					if f.Op == "eq" && f.Pos && f.B != nil {
						for _, pr := range [][2]*Term{{f.A, f.B}, {f.B, f.A}} {
							if pr[0].Name == "0" && pr[1].K == 'k' && pr[1].Name == "len" && len(pr[1].Args) == 1 && pr[1].Args[0].K == 'v' && pr[1].Args[0].Obj == v {
								return true
							}
						}
					}
				}
				return false
			}
			if !empty(add) || !empty(del) {
				bad = p.PosStr(ret.Pos())
			}
		}
		c.Check(nret > 0 && bad == "", "R7.6", "replaceTracks: 'unchanged' only when nothing is added and nothing removed", rp.Pos(), "return false, nil only under len(add) == 0 && len(del) == 0", "replaceTracks reports that nothing changed (at "+bad+") although tracks are to be added or removed: a narrowed or widened request is silently not applied and not renegotiated")
		// every del / add element is processed before "changed" is reported
		okProc := true
		for _, pr := range [][2]string{{"del", "delDownTrackUnlocked"}, {"add", "addDownTrackUnlocked"}} {
			found := false
			ast.Inspect(rp.Body(), func(n ast.Node) bool {
				rs, ok := n.(*ast.RangeStmt)
				if !ok {
					return true
				}
				if id, ok := unparen(rs.X).(*ast.Ident); ok && info.Uses[id] == rp.localVar(pr[0]) {
					ast.Inspect(rs.Body, func(m ast.Node) bool {
						if call, ok := m.(*ast.CallExpr); ok && fnIs(calleeOf(&CallSite{Call: call, In: rp}), "rtpconn", "", pr[1]) {
							if vid, ok := rs.Value.(*ast.Ident); ok && len(call.Args) == 2 && types.ExprString(call.Args[1]) == vid.Name {
								found = true
							}
						}
						return true
					})
				}
				return true
			})
			if !found {
				okProc = false
			}
		}
		c.Check(okProc, "R7.6", "replaceTracks: every track to remove is removed, every track to add is added", rp.Pos(), "range del -> delDownTrackUnlocked, range add -> addDownTrackUnlocked", "the computed differences are not all applied")
	} else {
		c.Unknown("R7.6", "anchor replaceTracks", 0, "not found")
	}
	// (b) pushDownConn: the replaced downstream is closed on every exit
	if pd := p.Func("rtpconn", "", "pushDownConn"); pd != nil {
		info := pd.Pkg.TypesInfo
		ff := eng.Analyze(pd)
		var repl types.Object
		for _, po := range pd.params(info) {
			if po != nil && po.Name() == "replace" {
				repl = po
			}
		}
		var dfr *ast.DeferStmt
		ast.Inspect(pd.Body(), func(n ast.Node) bool {
			d, ok := n.(*ast.DeferStmt)
			if !ok {
				return true
			}
			fl, ok := d.Call.Fun.(*ast.FuncLit)
			if !ok {
				return true
			}
			closes := false
			ast.Inspect(fl.Body, func(m ast.Node) bool {
				if call, ok := m.(*ast.CallExpr); ok && fnIs(calleeOf(&CallSite{Call: call, In: pd}), "rtpconn", "", "closeDownConn") && len(call.Args) == 3 {
					if id, ok := unparen(call.Args[1]).(*ast.Ident); ok && info.Uses[id] == repl {
						closes = true
					}
				}
				return true
			})
			if closes {
				dfr = d
			}
			return true
		})
		okDefer := dfr != nil && repl != nil
		early := ""
		if okDefer {
			for _, ret := range ff.Returns() {
				if !ff.DominatedByNode(ret, dfr) {
					okDefer = false
					early = p.PosStr(ret.Pos())
				}
			}
		}
		c.Check(okDefer, "R7.6", "pushDownConn: the replaced downstream is closed on every exit", pd.Pos(), "defer closeDownConn(c, replace, \"\") (unless replace was consumed) is registered before any return", "pushDownConn can return (at "+early+") without closing the downstream it replaces: the subscriber keeps a stream that has ended")
		// replace is cleared only after a negotiation that carried it succeeded
		okClear, nclr := true, 0
		ast.Inspect(pd.Body(), func(n ast.Node) bool {
			if _, isLit := n.(*ast.FuncLit); isLit {
				return false
			}
			as, ok := n.(*ast.AssignStmt)
			if !ok || len(as.Lhs) != 1 {
				return true
			}
			id, ok := as.Lhs[0].(*ast.Ident)
			if !ok || info.Uses[id] != repl {
				return true
			}
			nclr++
			var neg *ast.CallExpr
			ast.Inspect(pd.Body(), func(m ast.Node) bool {
				if call, ok := m.(*ast.CallExpr); ok && fnIs(calleeOf(&CallSite{Call: call, In: pd}), "rtpconn", "", "negotiate") && len(call.Args) == 4 {
					if rid, ok := unparen(call.Args[3]).(*ast.Ident); ok && info.Uses[rid] == repl {
						neg = call
					}
				}
				return true
			})
			st, _ := ff.At(as)
			// (a must-fact about the result of that call site: on every path here the call was made and returned nil)
			if neg == nil || st == nil || !st.HasFact(mkFact(true, "eq", TNil(), &Term{K: 'r', Name: "res0", Pos: neg.Lparen})) {
				okClear = false
			}
			return true
		})
		// or: the deferred close is switched off by a flag (`if replace != "" && !offered`);
		// the flag becomes true only where that negotiation succeeded
		if nclr == 0 && dfr != nil {
			flags := map[types.Object]bool{}
			fl := dfr.Call.Fun.(*ast.FuncLit)
			ast.Inspect(fl.Body, func(m ast.Node) bool {
				ifs, ok := m.(*ast.IfStmt)
				if !ok {
					return true
				}
				ast.Inspect(ifs.Cond, func(k ast.Node) bool {
					if u, ok := k.(*ast.UnaryExpr); ok && u.Op == token.NOT {
						if id, ok := unparen(u.X).(*ast.Ident); ok {
							if v, ok := info.Uses[id].(*types.Var); ok && !v.IsField() {
								if bt, ok := v.Type().Underlying().(*types.Basic); ok && bt.Kind() == types.Bool {
									flags[v] = true
								}
							}
						}
					}
					return true
				})
				return true
			})
			var neg *ast.CallExpr
			ast.Inspect(pd.Body(), func(m ast.Node) bool {
				if call, ok := m.(*ast.CallExpr); ok && fnIs(calleeOf(&CallSite{Call: call, In: pd}), "rtpconn", "", "negotiate") && len(call.Args) == 4 {
					if rid, ok := unparen(call.Args[3]).(*ast.Ident); ok && info.Uses[rid] == repl {
						neg = call
					}
				}
				return true
			})
			okClear = len(flags) > 0
			ast.Inspect(pd.Body(), func(n ast.Node) bool {
				if _, isLit := n.(*ast.FuncLit); isLit {
					return false
				}
				as, ok := n.(*ast.AssignStmt)
				if !ok {
					return true
				}
				for i, l := range as.Lhs {
					id, ok := l.(*ast.Ident)
					if !ok || !flags[info.ObjectOf(id)] {
						continue
					}
					if len(as.Rhs) != len(as.Lhs) {
						okClear = false
						continue
					}
					rhs := unparen(as.Rhs[i])
					if tv := info.Types[rhs]; tv.Value != nil && tv.Value.String() == "false" {
						continue
					}
					nclr = 1
					st, _ := ff.At(as)
					if st != nil {
						st = ff.assume(st, rhs, true)
					}
					if neg == nil || st == nil || !st.HasFact(mkFact(true, "eq", TNil(), &Term{K: 'r', Name: "res0", Pos: neg.Lparen})) {
						okClear = false
					}
				}
				return true
			})
		}
		c.Check(okClear && nclr == 1, "R7.6", "pushDownConn: the replacement is consumed only by a successful offer that names it", pd.Pos(), "replace = \"\" only after negotiate(..., replace) returned nil", "the replaced id is forgotten without having been announced as replaced: neither a replace nor a close reaches the subscriber")
	} else {
		c.Unknown("R7.6", "anchor pushDownConn", 0, "not found")
	}
	// (c) a closed up connection accepts no new local; the close marks it first
	al := p.Func("rtpconn", "rtpUpConnection", "AddLocal")
	du := p.Func("rtpconn", "", "delUpConn")
	fClosed := p.Field("rtpconn", "rtpUpConnection", "closed")
	fLocal := p.Field("rtpconn", "rtpUpConnection", "local")
	if al == nil || du == nil || fClosed == nil || fLocal == nil {
		c.Unknown("R7.6", "anchor AddLocal/delUpConn", 0, "not found")
		return
	}
	{
		info := al.Pkg.TypesInfo
		ff := eng.Analyze(al)
		recv := al.params(info)[0]
		ok, n := true, 0
		ast.Inspect(al.Body(), func(nd ast.Node) bool {
			as, isAs := nd.(*ast.AssignStmt)
			if !isAs || len(as.Lhs) != 1 {
				return true
			}
			sel, isSel := unparen(as.Lhs[0]).(*ast.SelectorExpr)
			if !isSel {
				return true
			}
			if s := info.Selections[sel]; s == nil || s.Obj() != types.Object(fLocal) {
				return true
			}
			n++
			st, _ := ff.At(as)
			if st == nil || !st.HasFact(mkFact(false, "true", TField(TVar(recv), fClosed), nil)) {
				ok = false
			}
			return true
		})
		c.Check(ok && n > 0, "R7.6", "AddLocal: a closed stream accepts no new subscriber", al.Pos(), "up.local grows only under !up.closed (same critical section)", "a downstream can attach to a stream that has already been closed (the delayed push racing the close): the subscriber is offered a dead stream and never sent a close for it")
	}
	{
		info := du.Pkg.TypesInfo
		ff := eng.Analyze(du)
		var mark ast.Node
		var push *ast.CallExpr
		ast.Inspect(du.Body(), func(nd ast.Node) bool {
			switch x := nd.(type) {
			case *ast.AssignStmt:
				if len(x.Lhs) == 1 {
					if sel, ok := unparen(x.Lhs[0]).(*ast.SelectorExpr); ok {
						if s := info.Selections[sel]; s != nil && s.Obj() == types.Object(fClosed) {
							if tv := info.Types[x.Rhs[0]]; tv.Value != nil && tv.Value.String() == "true" {
								mark = x
							}
						}
					}
				}
			case *ast.CallExpr:
				if sel, ok := unparen(x.Fun).(*ast.SelectorExpr); ok && sel.Sel.Name == "PushConn" {
					push = x
				}
			}
			return true
		})
		okOrder := mark != nil && push != nil && ff.DominatedByNode(push, mark)
		c.Check(okOrder, "R7.6", "delUpConn marks the stream closed before announcing the close", du.Pos(), "conn.closed = true dominates the PushConn(nil) fan-out", "the close is announced before the stream refuses new subscribers: a push in flight can attach after the close was sent")
	}
}

// requestFlags identifies the flags of requestedTracks by role: for each request
// string, the boolean locals that become true where the element of the request
// list compared equal to that string, and the locals copied from them.  ok is
// false when a flag is also set somewhere else, copied from something that is
// not understood, shared between two strings, or missing.
func requestFlags(p *Program, rt *FuncSrc) (flags map[string]map[types.Object]bool, ok bool) {
	info := rt.Pkg.TypesInfo
	ff := p.Facts().Analyze(rt)
	var reqObj types.Object
	for _, po := range rt.params(info) {
		if po == nil {
			continue
		}
		if sl, isSl := po.Type().Underlying().(*types.Slice); isSl {
			if bt, isB := sl.Elem().Underlying().(*types.Basic); isB && bt.Kind() == types.String {
				reqObj = po
			}
		}
	}
	elemVars := map[types.Object]bool{} // value variables of loops over the request
	ast.Inspect(rt.Body(), func(n ast.Node) bool {
		if rs, isR := n.(*ast.RangeStmt); isR {
			if id, isId := unparen(rs.X).(*ast.Ident); isId && reqObj != nil && info.Uses[id] == reqObj {
				if v, isV := rs.Value.(*ast.Ident); isV {
					elemVars[info.ObjectOf(v)] = true
				}
			}
		}
		return true
	})
	wants := []string{"audio", "video", "video-low"}
	under := func(at ast.Node) string {
		st, _ := ff.At(at)
		if st == nil {
			return ""
		}
		for _, f := range st.Facts() {
			if f.Op != "eq" || !f.Pos || f.B == nil {
				continue
			}
			for _, pr := range [][2]*Term{{f.A, f.B}, {f.B, f.A}} {
				if pr[0].K == 'v' && elemVars[pr[0].Obj] && pr[1].K == 'c' {
					for _, w := range wants {
						if pr[1].Name == fmt.Sprintf("%q", w) {
							return w
						}
					}
				}
			}
		}
		return ""
	}
	type asg struct {
		lhs types.Object
		rhs ast.Expr // nil: a value that is not understood (result of a call, ...)
		at  ast.Node
	}
	var asgs []asg
	boolVar := func(e ast.Expr) types.Object {
		id, isId := unparen(e).(*ast.Ident)
		if !isId {
			return nil
		}
		v, isV := info.ObjectOf(id).(*types.Var)
		if !isV || v.IsField() {
			return nil
		}
		if bt, isB := v.Type().Underlying().(*types.Basic); !isB || bt.Kind() != types.Bool {
			return nil
		}
		return v
	}
	ast.Inspect(rt.Body(), func(n ast.Node) bool {
		switch x := n.(type) {
		case *ast.AssignStmt:
			for i, l := range x.Lhs {
				v := boolVar(l)
				if v == nil {
					continue
				}
				if len(x.Rhs) != len(x.Lhs) {
					asgs = append(asgs, asg{v, nil, x})
				} else {
					asgs = append(asgs, asg{v, unparen(x.Rhs[i]), x})
				}
			}
		case *ast.ValueSpec:
			for i, nm := range x.Names {
				v := boolVar(nm)
				if v == nil || len(x.Values) == 0 {
					continue
				}
				if len(x.Values) != len(x.Names) {
					asgs = append(asgs, asg{v, nil, x})
				} else {
					asgs = append(asgs, asg{v, unparen(x.Values[i]), x})
				}
			}
		case *ast.UnaryExpr:
			if x.Op == token.AND {
				if v := boolVar(x.X); v != nil {
					asgs = append(asgs, asg{v, nil, x}) // address taken: written elsewhere
				}
			}
		}
		return true
	})
	isConst := func(e ast.Expr, val string) bool {
		if e == nil {
			return false
		}
		tv := info.Types[e]
		return tv.Value != nil && tv.Value.String() == val
	}
	flags = map[string]map[types.Object]bool{}
	for _, w := range wants {
		flags[w] = map[types.Object]bool{}
	}
	for _, a := range asgs {
		if isConst(a.rhs, "true") {
			if w := under(a.at); w != "" {
				flags[w][a.lhs] = true
			}
		}
	}
	// copies
	for changed := true; changed; {
		changed = false
		for _, a := range asgs {
			src := types.Object(nil)
			if a.rhs != nil {
				src = boolVar(a.rhs)
			}
			if src == nil {
				continue
			}
			for _, w := range wants {
				if flags[w][src] && !flags[w][a.lhs] {
					flags[w][a.lhs] = true
					changed = true
				}
			}
		}
	}
	ok = true
	owner := map[types.Object]string{}
	for _, w := range wants {
		if len(flags[w]) == 0 {
			ok = false
		}
		for v := range flags[w] {
			if o, dup := owner[v]; dup && o != w {
				ok = false
			}
			owner[v] = w
		}
	}
	for _, a := range asgs {
		w, isFlag := owner[a.lhs]
		if !isFlag {
			continue
		}
		switch {
		case isConst(a.rhs, "false"):
		case isConst(a.rhs, "true"):
			if under(a.at) != w {
				ok = false
			}
		case a.rhs != nil && boolVar(a.rhs) != nil && flags[w][boolVar(a.rhs)]:
		default:
			ok = false
		}
	}
	return flags, ok
}

// flagFact: some local of the flag set is known to be true (false).
func flagFact(st *State, set map[types.Object]bool, val bool) bool {
	if st == nil {
		return false
	}
	for v := range set {
		if st.HasFact(mkFact(val, "true", TVar(v), nil)) {
			return true
		}
	}
	return false
}

// R7.7: pushConn clears up.pushed and starts a goroutine that, 200 ms later,
// announces the stream unless somebody else did in the meantime.  Every path
// of that goroutine which ends without calling pushConnNow must have found the
// pushed flag set - tested on the field before it is stored again, or on a
// local that is a plain copy of it.
func runC07Delayed(c *Ctx) {
	p := c.P
	c.Rule("R7.7", "E3", "the delayed announcement is skipped only when the stream was announced in the meantime", 1)
	pc := p.Func("rtpconn", "", "pushConn")
	fPushed := p.Field("rtpconn", "rtpUpConnection", "pushed")
	if pc == nil || fPushed == nil {
		c.Unknown("R7.7", "anchors", 0, "pushConn / rtpUpConnection.pushed not found")
		return
	}
	var lit *ast.FuncLit
	nlit := 0
	ast.Inspect(pc.Body(), func(n ast.Node) bool {
		if gs, ok := n.(*ast.GoStmt); ok {
			if fl, ok := unparen(gs.Call.Fun).(*ast.FuncLit); ok {
				lit = fl
				nlit++
			}
		}
		return true
	})
	if nlit != 1 || len(lit.Body.List) == 0 {
		c.Bad("R7.7", "pushConn: delayed announcement", pc.Pos(), fmt.Sprintf("%d goroutine literals in pushConn (expected one)", nlit))
		return
	}
	ls := p.SrcOfLit(lit)
	if ls == nil {
		c.Unknown("R7.7", "anchors", 0, "literal not indexed")
		return
	}
	info := ls.Pkg.TypesInfo
	ff := p.Facts().Analyze(ls)
	isPushedSel := func(e ast.Expr) bool {
		se, ok := unparen(e).(*ast.SelectorExpr)
		if !ok {
			return false
		}
		sel := info.Selections[se]
		return sel != nil && sel.Obj() == types.Object(fPushed)
	}
	// locals that are plain copies of the flag (one definition each)
	ndef := map[types.Object]int{}
	copyOf := map[types.Object]bool{}
	ast.Inspect(lit.Body, func(n ast.Node) bool {
		as, ok := n.(*ast.AssignStmt)
		if !ok {
			return true
		}
		for i, l := range as.Lhs {
			id, ok := unparen(l).(*ast.Ident)
			if !ok {
				continue
			}
			o := info.ObjectOf(id)
			ndef[o]++
			if len(as.Rhs) == len(as.Lhs) && isPushedSel(as.Rhs[i]) {
				copyOf[o] = true
			}
		}
		return true
	})
	for o := range copyOf {
		if ndef[o] != 1 {
			delete(copyOf, o)
		}
	}
	// copies of copies (c := previous), each defined once
	for changed := true; changed; {
		changed = false
		ast.Inspect(lit.Body, func(n ast.Node) bool {
			as, ok := n.(*ast.AssignStmt)
			if !ok || len(as.Lhs) != len(as.Rhs) {
				return true
			}
			for i, l := range as.Lhs {
				lid, okL := unparen(l).(*ast.Ident)
				rid, okR := unparen(as.Rhs[i]).(*ast.Ident)
				if okL && okR && copyOf[info.ObjectOf(rid)] && !copyOf[info.ObjectOf(lid)] && ndef[info.ObjectOf(lid)] == 1 {
					copyOf[info.ObjectOf(lid)] = true
					changed = true
				}
			}
			return true
		})
	}
	ncall := 0
	containsCall := func(n ast.Node) bool {
		hit := false
		ast.Inspect(n, func(m ast.Node) bool {
			if call, ok := m.(*ast.CallExpr); ok && fnIs(calleeOf(&CallSite{Call: call, In: ls}), "rtpconn", "", "pushConnNow") {
				hit = true
			}
			return true
		})
		return hit
	}
	ast.Inspect(lit.Body, func(n ast.Node) bool {
		if call, ok := n.(*ast.CallExpr); ok && fnIs(calleeOf(&CallSite{Call: call, In: ls}), "rtpconn", "", "pushConnNow") {
			ncall++
		}
		return true
	})
	storesFlag := func(n ast.Node) bool {
		hit := false
		ast.Inspect(n, func(m ast.Node) bool {
			if as, ok := m.(*ast.AssignStmt); ok {
				for _, l := range as.Lhs {
					if isPushedSel(l) {
						hit = true
					}
				}
			}
			return true
		})
		return hit
	}
	// the first simple statement of the goroutine (inlined bodies are wrapped in blocks and loops)
	var first ast.Stmt = lit.Body.List[0]
	for k := 0; k < 8; k++ {
		switch x := first.(type) {
		case *ast.BlockStmt:
			if len(x.List) > 0 {
				first = x.List[0]
				continue
			}
		case *ast.LabeledStmt:
			first = x.Stmt
			continue
		case *ast.ForStmt:
			if x.Init == nil && x.Cond == nil && x.Post == nil && len(x.Body.List) > 0 {
				first = x.Body.List[0]
				continue
			}
		}
		break
	}
	from := ast.Node(first)
	pos, found := ff.PathSearchPSX(from, 0, func(n ast.Node, _ *State, flag int) (int, bool) {
		if containsCall(n) {
			return flag, true
		}
		if storesFlag(n) {
			flag = 1
		}
		return flag, false
	}, nil, func(flag int, st *State) bool {
		for _, f := range st.Facts() {
			if f.Op != "true" || !f.Pos || f.A == nil {
				continue
			}
			if f.A.K == 'v' && copyOf[f.A.Obj] {
				return false
			}
			if flag == 0 && f.A.K == 'f' && f.A.Obj == types.Object(fPushed) {
				return false
			}
		}
		return true
	})
	if containsCall(from) || storesFlag(from) {
		found, pos = true, from.Pos() // the first statement is expected to be the delay
	}
	at := pc.Pos()
	if found && pos.IsValid() {
		at = pos
	}
	c.Check(!found && ncall > 0, "R7.7", "pushConn: delayed announcement", at, "every path of the delayed goroutine that does not announce found up.pushed set",
		"the delayed announcement can be skipped although nobody announced the stream since it was scheduled: a 'replaces' id it carries (of a stream that was silently replaced before its first announcement) never reaches the subscribers, who keep the replaced stream open")
}

// R7.8: pushDownConn falls back to the client-wide request only when the
// stream's own request is nil.  requestStream(id, []) must therefore be stored
// as an empty, non-nil list.
func runC07EmptyRequest(c *Ctx) {
	p := c.P
	c.Rule("R7.8", "E2", "an explicit empty request stays distinguishable from no request", 1)
	ts := p.Func("rtpconn", "", "toStringArray")
	if ts == nil {
		c.Unknown("R7.8", "anchors", 0, "rtpconn.toStringArray not found")
		return
	}
	info := ts.Pkg.TypesInfo
	ff := p.Facts().Analyze(ts)
	params := ts.params(info)
	nok, bad := 0, token.NoPos
	for _, ret := range ff.Returns() {
		if len(ret.Results) != 2 || !isNilIdent(info, ret.Results[1]) {
			continue
		}
		st, _ := ff.At(ret)
		if st == nil {
			continue
		}
		// the returns for an absent list: the argument (or the asserted slice) is nil
		absent := false
		for _, f := range st.Facts() {
			if f.Op == "eq" && f.Pos && f.B != nil && (f.A.K == 'n' || f.B.K == 'n') {
				other := f.A
				if f.A.K == 'n' {
					other = f.B
				}
				if other.K == 'v' && len(params) > 0 && (other.Obj == params[0] || other.Obj.Pos() > ts.Pos()) && !isNilIdent(info, ret.Results[0]) == false {
					absent = true
				}
			}
		}
		// `case nil:` of a type switch over the argument is the absent list too
		if isNilIdent(info, ret.Results[0]) && !absent {
			for cur := p.Parent(ts.File, ret); cur != nil; cur = p.Parent(ts.File, cur) {
				if cc, isCC := cur.(*ast.CaseClause); isCC {
					if _, isTS := p.Parent(ts.File, p.Parent(ts.File, cc)).(*ast.TypeSwitchStmt); isTS {
						for _, x := range cc.List {
							if isNilIdent(info, x) {
								absent = true
							}
						}
					}
				}
			}
		}
		if isNilIdent(info, ret.Results[0]) && absent {
			continue
		}
		t := ff.term(ret.Results[0])
		if t != nil && (st.HasFact(mkFact(false, "eq", t, TNil())) || st.HasFact(mkFact(false, "eq", TNil(), t))) {
			nok++
		} else {
			bad = ret.Pos()
		}
	}
	pos := ts.Pos()
	if bad.IsValid() {
		pos = bad
	}
	c.Check(nok > 0 && !bad.IsValid(), "R7.8", "toStringArray: a list that is present yields a non-nil slice", pos, "the successful return for a present list returns the result of make",
		"toStringArray can return a nil slice for a list that was present (an empty one): requestStream(id, []) is then stored as 'no request', the subscriber falls back to its default request and is never sent the close it asked for")
}
