package main

import (
	"fmt"
	"go/ast"
	"go/token"
	"go/types"
	"sort"
	"strings"
)

func init() {
	register(&Property{
		ID:        "C08",
		Title:     "Password login needs the right password and yields exactly the configured rights",
		Technique: "path-sensitive CFG exploration (entry shadows wildcard), case-table extraction and sibling agreement (password tool vs. server), must-facts (derived permissions), ownership rule on permission slices",
		Decides: "R8.1: getPasswordPermission succeeds only after a successful Match with a nil error on the user's own entry, or - only when the user has no entry - on the wildcard user; once an entry is found the wildcard is never consulted. " +
			"R8.2: Password.Match: the empty type never matches, plain compares through ConstantTimeCompare only, wildcard matches, unknown types are errors. " +
			"R8.3: 'record' is added only for operators of groups that allow recording, 'token' only for presenters of unrestricted-token groups. " +
			"R8.4: every password type and hash name the administration tool writes is a case of the server's Match, both sides use the same KDF entry points, and Match takes key length and iteration count from the stored record. " +
			"R8.5: a web client's permission slice is never an alias of shared storage (role table, description, stored token): every store is nil, a fresh copy, or derived from the field itself. " +
			"R8.6: a failed credential check leaves the client outside the member map.",
		NotDecided: []string{
			"that a hash produced by the tool verifies for that password and no other (cryptographic round trip)",
			"malformed hex / bcrypt input beyond 'returns an error'",
		},
		Run: runC08,
	})
}

func runC08(c *Ctx) {
	c.Rule("R8.1", "E3", "an entry shadows the wildcard; success only after Match == true with a nil error", 3)
	c.Rule("R8.2", "E2", "Password.Match case table and file codec", 8)
	c.Rule("R8.3", "E2", "record/token are derived only under their conditions", 2)
	c.Rule("R8.4", "sibling", "password tool and server agree on types, hash names, KDF entry points and the bytes hashed; no empty derived key", 6)
	c.Rule("R8.5", "E4", "webClient.permissions is never an alias of shared storage", 8)
	c.Rule("R8.6", "E3", "no insertion after a failed credential check", 1)
	c08Shadow(c)
	c08Match(c)
	c08Derived(c)
	c08Sibling(c)
	c08Ownership(c)
	c08Refused(c)
}

func c08Shadow(c *Ctx) {
	p := c.P
	fs := p.Func("group", "Description", "getPasswordPermission")
	if fs == nil {
		c.Unknown("R8.1", "anchor getPasswordPermission", 0, "not found")
		return
	}
	ff := p.Facts().Analyze(fs)
	info := fs.Pkg.TypesInfo
	fWild := p.Field("group", "Description", "WildcardUser")
	fUsers := p.Field("group", "Description", "Users")
	mentions := func(t *Term, f *types.Var) bool {
		hit := false
		if t != nil {
			t.walk(func(x *Term) {
				if x.K == 'f' && x.Obj == types.Object(f) {
					hit = true
				}
			})
		}
		return hit
	}
	// mentionsUnder: t mentions the field, or is rooted at a local that the
	// path state equates with a term mentioning it (wildcard := desc.WildcardUser)
	mentionsUnder := func(st *State, t *Term, f *types.Var) bool {
		if mentions(t, f) {
			return true
		}
		if t == nil || st == nil {
			return false
		}
		vars := map[types.Object]bool{}
		t.walk(func(x *Term) {
			if x.K == 'v' && x.Obj != nil {
				vars[x.Obj] = true
			}
		})
		for _, fa := range st.Facts() {
			if fa.Op != "eq" || !fa.Pos || fa.B == nil {
				continue
			}
			for _, pr := range [][2]*Term{{fa.A, fa.B}, {fa.B, fa.A}} {
				if pr[0].K == 'v' && vars[pr[0].Obj] && mentions(pr[1], f) {
					return true
				}
			}
		}
		return false
	}
	type matchSite struct {
		call     *ast.CallExpr
		wildcard bool
	}
	classify := func(st *State, call *ast.CallExpr) (matchSite, bool) {
		if !fnIs(calleeOf(&CallSite{Call: call, In: fs}), "group", "Password", "Match") {
			return matchSite{}, false
		}
		rt := ff.term(recvExpr(call))
		return matchSite{call, mentionsUnder(st, rt, fWild)}, true
	}
	// the lookup desc.Users[name]
	var lookupFound types.Object
	ast.Inspect(fs.Body(), func(n ast.Node) bool {
		as, ok := n.(*ast.AssignStmt)
		if !ok || len(as.Lhs) != 2 || len(as.Rhs) != 1 {
			return true
		}
		if ix, ok := unparen(as.Rhs[0]).(*ast.IndexExpr); ok {
			if t := ff.term(ix.X); t != nil && t.K == 'f' && t.Obj == types.Object(fUsers) {
				if id, ok := as.Lhs[1].(*ast.Ident); ok {
					lookupFound = info.ObjectOf(id)
				}
			}
		}
		return true
	})
	if lookupFound == nil || fWild == nil {
		c.Bad("R8.1", "user entry lookup", fs.Pos(), "getPasswordPermission no longer looks the username up in desc.Users")
		return
	}
	var shadowViol, successViol []string
	nsucc := 0
	atExit := func(st *State, trace []*ast.CallExpr, last ast.Node) {
		ret, ok := last.(*ast.ReturnStmt)
		if !ok || len(ret.Results) != 2 {
			return
		}
		found := st.HasFact(mkFact(true, "true", TVar(lookupFound), nil))
		var lastMatch *matchSite
		for _, call := range trace {
			if ms, ok := classify(st, call); ok {
				m := ms
				lastMatch = &m
				if found && ms.wildcard {
					shadowViol = appendUniqueStr(shadowViol, p.PosStr(call.Pos()))
				}
			}
		}
		if !isNilIdent(info, ret.Results[1]) {
			return
		}
		nsucc++
		okSucc := false
		if lastMatch != nil {
			res0 := &Term{K: 'r', Name: "res0", Pos: lastMatch.call.Lparen}
			res1 := &Term{K: 'r', Name: "res1", Pos: lastMatch.call.Lparen}
			matched := st.HasFact(mkFact(true, "true", res0, nil))
			if lastMatch.wildcard {
				// the wildcard's error may be discarded, but the user must have no entry
				okSucc = matched && !found
			} else {
				okSucc = matched && st.HasFact(mkFact(true, "eq", TNil(), res1)) && found
			}
			// the permissions returned are those of the matched entry
			if okSucc {
				rt := ff.term(ret.Results[0])
				if lastMatch.wildcard != mentionsUnder(st, rt, fWild) {
					okSucc = false
				}
			}
		}
		if !okSucc {
			successViol = appendUniqueStr(successViol, p.PosStr(ret.Pos()))
		}
	}
	if !ff.ExplorePaths(nil, atExit, 5000) {
		c.Unknown("R8.1", "paths of getPasswordPermission", fs.Pos(), "path budget exhausted")
		return
	}
	c.Check(len(shadowViol) == 0, "R8.1", "an entry shadows the wildcard user", fs.Pos(),
		"no path on which desc.Users[name] was found calls Match on the wildcard user", "with a user entry present the wildcard password is still tried (at "+strings.Join(shadowViol, ", ")+"): a wrong password for a named user can log in through the wildcard")
	c.Check(len(successViol) == 0 && nsucc >= 2, "R8.1", "success only after a matching password", fs.Pos(),
		fmt.Sprintf("all %d successful returns follow Match == true (nil error for a named entry) and return that entry's permissions", nsucc),
		"a successful return is reachable without a matching password for the entry whose permissions are returned (at "+strings.Join(successViol, ", ")+")")
	// the refusals are errors
	nerr := 0
	for _, ret := range ff.Returns() {
		if len(ret.Results) == 2 && !isNilIdent(info, ret.Results[1]) {
			nerr++
		}
	}
	c.Check(nerr >= 3, "R8.1", "mismatch and unknown user are refused with an error", fs.Pos(), fmt.Sprintf("%d error returns", nerr), "refusal paths are missing")
}

func c08Match(c *Ctx) {
	p := c.P
	fs := p.Func("group", "Password", "Match")
	if fs == nil {
		c.Unknown("R8.2", "anchor Password.Match", 0, "not found")
		return
	}
	info := fs.Pkg.TypesInfo
	var sw *ast.SwitchStmt
	ast.Inspect(fs.Body(), func(n ast.Node) bool {
		if s, ok := n.(*ast.SwitchStmt); ok && sw == nil && s.Tag != nil && strings.HasSuffix(types.ExprString(s.Tag), ".Type") {
			sw = s
		}
		return true
	})
	if sw == nil {
		c.Bad("R8.2", "switch on the password type", fs.Pos(), "Match no longer switches on p.Type")
		return
	}
	clauses := map[string]*ast.CaseClause{}
	for _, s := range sw.Body.List {
		cc := s.(*ast.CaseClause)
		if cc.List == nil {
			clauses["default"] = cc
		}
		for _, e := range cc.List {
			if v, ok := constString(info, e); ok {
				clauses[v] = cc
			}
		}
	}
	retConst := func(cc *ast.CaseClause, want string, errNil bool) bool {
		ok, n := true, 0
		ast.Inspect(cc, func(nd ast.Node) bool {
			if r, isR := nd.(*ast.ReturnStmt); isR && len(r.Results) == 2 {
				n++
				tv := info.Types[r.Results[0]]
				if tv.Value == nil || tv.Value.String() != want {
					ok = false
				}
				if errNil != isNilIdent(info, r.Results[1]) {
					ok = false
				}
			}
			return true
		})
		return ok && n > 0
	}
	if cc := clauses[""]; cc != nil {
		c.Check(retConst(cc, "false", true), "R8.2", "an entry with no password never matches", cc.Pos(), "case \"\" returns false, nil", "an empty password type can match")
	} else {
		c.Bad("R8.2", "an entry with no password never matches", sw.Pos(), "no case \"\" in Match: an entry without password falls into another branch")
	}
	if cc := clauses["wildcard"]; cc != nil {
		c.Check(retConst(cc, "true", true), "R8.2", "wildcard matches any password", cc.Pos(), "case \"wildcard\" returns true, nil", "the wildcard type no longer matches unconditionally")
	} else {
		c.Bad("R8.2", "wildcard matches any password", sw.Pos(), "no case \"wildcard\"")
	}
	if cc := clauses["default"]; cc != nil {
		c.Check(retConst(cc, "false", false), "R8.2", "unknown types are errors", cc.Pos(), "default returns false with an error", "an unknown password type can match or is silently accepted")
	} else {
		// no default: every case must leave the function, and what follows the switch
		// (reached exactly for the types no case names) returns false with an error
		okAfter := false
		if blk, isBlk := p.Parent(fs.File, sw).(*ast.BlockStmt); isBlk {
			for i, s := range blk.List {
				if s != ast.Stmt(sw) || i+1 >= len(blk.List) {
					continue
				}
				if r, isR := blk.List[i+1].(*ast.ReturnStmt); isR && len(r.Results) == 2 {
					if tv := info.Types[r.Results[0]]; tv.Value != nil && tv.Value.String() == "false" && !isNilIdent(info, r.Results[1]) {
						okAfter = true
					}
				}
			}
		}
		allLeave := true
		for _, s := range sw.Body.List {
			if cc, isCC := s.(*ast.CaseClause); isCC {
				if len(cc.Body) == 0 {
					allLeave = false
					continue
				}
				last := cc.Body[len(cc.Body)-1]
				if _, isR := last.(*ast.ReturnStmt); !isR {
					if bs, isB := last.(*ast.BlockStmt); !isB || !endsWithJump(bs) {
						// an inlined tail call leaves through the returns inside its block
						leaves := false
						if bs, isB := last.(*ast.BlockStmt); isB {
							ast.Inspect(bs, func(m ast.Node) bool {
								if _, isRet := m.(*ast.ReturnStmt); isRet {
									leaves = true
								}
								return true
							})
						}
						if !leaves {
							allLeave = false
						}
					}
				}
			}
		}
		c.Check(okAfter, "R8.2", "unknown types are errors", sw.Pos(), "no default: the statement after the switch returns false with an error", "an unknown password type can match or is silently accepted")
		_ = allLeave
	}
	// "no password" must not turn into "the empty password" in the file codec
	{
		um := p.Func("group", "Password", "UnmarshalJSON")
		mj := p.Func("group", "Password", "MarshalJSON")
		fKey := p.Field("group", "Password", "Key")
		if um == nil || mj == nil || fKey == nil {
			c.Unknown("R8.2", "password codec", 0, "Password.UnmarshalJSON/MarshalJSON not found")
		} else {
			// the short (string) form is decoded only from something that is not JSON null
			uff := p.Facts().Analyze(um)
			okNull, nlit := true, 0
			ast.Inspect(um.Body(), func(nd ast.Node) bool {
				cl, ok := nd.(*ast.CompositeLit)
				if !ok {
					return true
				}
				plain := false
				for _, e := range cl.Elts {
					if kv, ok := e.(*ast.KeyValueExpr); ok && types.ExprString(kv.Key) == "Type" {
						if v, ok := constString(um.Pkg.TypesInfo, kv.Value); ok && v == "plain" {
							plain = true
						}
					}
				}
				if !plain {
					return true
				}
				nlit++
				var st *State
				for n2 := ast.Node(cl); n2 != nil && st == nil; n2 = p.Parent(um.File, n2) {
					st, _ = uff.At(n2)
				}
				found := false
				if st != nil {
					for _, f := range st.Facts() {
						if f.Op == "eq" && !f.Pos && f.B != nil && (f.A.Name == "\"null\"" || f.B.Name == "\"null\"") {
							found = true
						}
					}
				}
				if !found {
					okNull = false
				}
				return true
			})
			c.Check(okNull && nlit > 0, "R8.2", "JSON null is no password, not the empty plain password", um.Pos(), "the plain short form is decoded only when the input is not null", "a password written as null (or a keyless record after one rewrite of the file) is decoded as the plain password \"\": the entry accepts the empty password")
			// the short form is written only for a record that has a key
			mff := p.Facts().Analyze(mj)
			recv := mj.params(mj.Pkg.TypesInfo)[0]
			okKey, nm := true, 0
			ast.Inspect(mj.Body(), func(nd ast.Node) bool {
				call, ok := nd.(*ast.CallExpr)
				if !ok || len(call.Args) != 1 {
					return true
				}
				sel, ok := unparen(call.Args[0]).(*ast.SelectorExpr)
				if !ok {
					return true
				}
				if sl := mj.Pkg.TypesInfo.Selections[sel]; sl == nil || sl.Obj() != types.Object(fKey) {
					return true
				}
				nm++
				st, _ := mff.At(call)
				if st == nil || !st.HasFact(mkFact(false, "eq", TNil(), TField(TVar(recv), fKey))) {
					okKey = false
				}
				return true
			})
			c.Check(okKey && nm > 0, "R8.2", "the short form is written only for a record that has a key", mj.Pos(), "json.Marshal(p.Key) under p.Key != nil", "a plain record without a key is written as null, which reads back as the empty password")
		}
	}
	// an error never comes with a positive answer
	{
		bad, nret := "", 0
		var checkRets func(f *FuncSrc, depth int)
		checkRets = func(f *FuncSrc, depth int) {
			info := f.Pkg.TypesInfo
			ast.Inspect(f.Body(), func(nd ast.Node) bool {
				if _, isLit := nd.(*ast.FuncLit); isLit {
					return false
				}
				ret, ok := nd.(*ast.ReturnStmt)
				if !ok {
					return true
				}
				if len(ret.Results) == 1 && depth < 3 {
					// return helper(pw): the helper's own returns are checked
					if call, isCall := unparen(ret.Results[0]).(*ast.CallExpr); isCall {
						if h := p.SrcOfFunc(calleeOf(&CallSite{Call: call, In: f})); h != nil && h.Decl != nil {
							checkRets(h, depth+1)
							return true
						}
					}
				}
				if len(ret.Results) != 2 {
					return true
				}
				nret++
				a, b := unparen(ret.Results[0]), unparen(ret.Results[1])
				if isNilIdent(info, b) {
					return true
				}
				if tv := info.Types[a]; tv.Value != nil && tv.Value.String() == "false" {
					return true
				}
				if be, ok := a.(*ast.BinaryExpr); ok && be.Op == token.EQL && isNilIdent(info, be.Y) && types.ExprString(be.X) == types.ExprString(b) {
					return true
				}
				// results held in variables (an inlined helper): the state at the return says
				// that the error is nil, that the answer is false, or that a non-nil error
				// implies a false answer
				rf := p.Facts().Analyze(f)
				if at, bt := rf.term(a), rf.term(b); at != nil && bt != nil {
					noMatch := mkFact(false, "true", at, nil)
					isErr := mkFact(false, "eq", bt, TNil())
					okState := func(st *State) bool {
						if st == nil {
							return false
						}
						if st.HasFact(complement(isErr)) || st.HasFact(noMatch) || st.Has(mkImp(isErr, noMatch).key) {
							return true
						}
						// a match implies that the error is nil (ok := err == nil; return ok, err)
						for _, g := range st.Facts() {
							if g.Op == "imp" && g.Cond != nil && g.Then != nil && g.Cond.key == complement(noMatch).key &&
								g.Then.Op == "eq" && g.Then.Pos && g.Then.B != nil {
								for _, pr := range [][2]*Term{{g.Then.A, g.Then.B}, {g.Then.B, g.Then.A}} {
									if pr[0].K == 'n' && st.EqualUnder(pr[1], bt) {
										return true
									}
								}
							}
						}
						return false
					}
					st, _ := rf.At(ret)
					if okState(st) {
						return true
					}
					// way by way into the return
					for _, d := range []int{2, 4} {
						states := rf.AtSplit(ret, d)
						all := len(states) > 0
						for _, s2 := range states {
							if !okState(s2) {
								all = false
							}
						}
						if all {
							return true
						}
					}
				}
				bad = p.PosStr(ret.Pos())
				return true
			})
		}
		checkRets(fs, 0)
		c.Check(bad == "" && nret > 5, "R8.2", "an error never comes with a match", fs.Pos(), fmt.Sprintf("%d returns: (x, nil), (false, err) or (err == nil, err)", nret), "Match can report a match together with an error (at "+bad+"): callers that only look at the boolean accept any password for a malformed record")
	}
	if cc := clauses["plain"]; cc != nil {
		// compares only through ConstantTimeCompare: no == / bytes.Equal on the key in this clause
		okCT, badCmp := false, false
		ast.Inspect(cc, func(nd ast.Node) bool {
			switch x := nd.(type) {
			case *ast.CallExpr:
				f := calleeOf(&CallSite{Call: x, In: fs})
				if fnIs(f, "group", "", "ConstantTimeCompare") {
					okCT = true
				}
				if f != nil && f.Pkg() != nil && (f.Pkg().Path() == "bytes" || f.Pkg().Path() == "strings") && (f.Name() == "Equal" || f.Name() == "Compare" || f.Name() == "EqualFold") {
					badCmp = true
				}
			case *ast.BinaryExpr:
				if (x.Op.String() == "==" || x.Op.String() == "!=") && !isNilIdent(info, x.X) && !isNilIdent(info, x.Y) {
					if bt, ok := info.TypeOf(x.X).Underlying().(*types.Basic); ok && bt.Info()&types.IsString != 0 {
						badCmp = true
					}
				}
			}
			return true
		})
		c.Check(okCT && !badCmp, "R8.2", "plain passwords are compared in constant time", cc.Pos(), "only ConstantTimeCompare touches the key", "a plain password is compared with == / Equal (timing side channel) or not through ConstantTimeCompare")
	} else {
		c.Bad("R8.2", "plain passwords are compared in constant time", sw.Pos(), "no case \"plain\"")
	}
	// ConstantTimeCompare itself: length equality and subtle.ConstantTimeCompare
	if ct := p.Func("group", "", "ConstantTimeCompare"); ct != nil {
		okSubtle, okLen := false, false
		ast.Inspect(ct.Body(), func(nd ast.Node) bool {
			if call, ok := nd.(*ast.CallExpr); ok {
				if f := calleeOf(&CallSite{Call: call, In: ct}); f != nil && f.Pkg() != nil && f.Pkg().Path() == "crypto/subtle" && f.Name() == "ConstantTimeCompare" {
					okSubtle = true
				}
			}
			if be, ok := nd.(*ast.BinaryExpr); ok && be.Op.String() == "==" && strings.Contains(types.ExprString(be), "len(a) == len(b)") {
				okLen = true
			}
			return true
		})
		c.Check(okSubtle && okLen, "R8.2", "ConstantTimeCompare requires equal length and equal bytes", ct.Pos(), "subtle.ConstantTimeCompare plus len(a) == len(b)", "ConstantTimeCompare accepts a prefix or no longer uses crypto/subtle")
	}
}

func c08Derived(c *Ctx) {
	p := c.P
	fs := p.Func("group", "Permissions", "Permissions")
	if fs == nil {
		c.Unknown("R8.3", "anchor Permissions.Permissions", 0, "not found")
		return
	}
	ff := p.Facts().Analyze(fs)
	info := fs.Pkg.TypesInfo
	// flags set under `case "x":` of the switch over the role's permissions
	flagOf := map[types.Object]string{}
	ast.Inspect(fs.Body(), func(n ast.Node) bool {
		as, ok := n.(*ast.AssignStmt)
		if !ok || len(as.Lhs) != 1 || len(as.Rhs) != 1 {
			return true
		}
		id, ok := as.Lhs[0].(*ast.Ident)
		if !ok {
			return true
		}
		if call, isCall := unparen(as.Rhs[0]).(*ast.CallExpr); isCall && len(call.Args) == 2 {
			// flag := slices.Contains(<the role's list>, "x")
			if f := calleeOf(&CallSite{Call: call, In: fs}); f != nil && f.Pkg() != nil && f.Pkg().Path() == "slices" && f.Name() == "Contains" {
				o := info.ObjectOf(id)
				if v, isC := constString(info, call.Args[1]); isC && as.Tok == token.DEFINE {
					if _, seen := flagOf[o]; !seen {
						if _, isId := unparen(call.Args[0]).(*ast.Ident); isId {
							flagOf[o] = v
							return true
						}
					}
				}
				flagOf[o] = "?"
			}
			return true
		}
		if tv := info.Types[as.Rhs[0]]; tv.Value == nil || tv.Value.String() != "true" {
			if o := info.ObjectOf(id); flagOf[o] != "" {
				if tv.Value == nil || tv.Value.String() != "false" {
					flagOf[o] = "?" // a flag that is also assigned something else
				}
			}
			return true
		}
		cases := p.enclosingCase(fs, as, "p")
		o := info.ObjectOf(id)
		if len(cases) == 1 {
			if prev, seen := flagOf[o]; seen && prev != cases[0] {
				flagOf[o] = "?"
			} else {
				flagOf[o] = cases[0]
			}
		} else {
			flagOf[o] = "?"
		}
		return true
	})
	check := func(added, needFlag, needField string) {
		found := false
		ast.Inspect(fs.Body(), func(n ast.Node) bool {
			as, ok := n.(*ast.AssignStmt)
			if !ok || len(as.Rhs) != 1 {
				return true
			}
			call, ok := unparen(as.Rhs[0]).(*ast.CallExpr)
			if !ok || !isBuiltin(info, call, "append") {
				return true
			}
			hasConst := false
			ast.Inspect(call, func(m ast.Node) bool {
				if e, isE := m.(ast.Expr); isE {
					if v, isC := constString(info, e); isC && v == added {
						hasConst = true
					}
				}
				return true
			})
			if !hasConst {
				return true
			}
			found = true
			st, _ := ff.At(as)
			var miss []string
			okFlag, okField, okDesc := false, false, false
			if st != nil {
				for _, f := range st.Facts() {
					if f.Op == "true" && f.Pos && f.A.K == 'v' && flagOf[f.A.Obj] == needFlag {
						okFlag = true
					}
					// or the test itself: slices.Contains(<the role's list>, "op")
					if a, is := isContains(f, needFlag); is && f.Pos && a.K == 'v' {
						okFlag = true
					}
					if f.Op == "true" && f.Pos && f.A.K == 'f' && f.A.Obj.Name() == needField {
						okField = true
					}
					if f.Op == "eq" && !f.Pos && f.B != nil && ((f.A.K == 'n' && f.B.K == 'v' && f.B.Obj.Name() == "desc") || (f.B.K == 'n' && f.A.K == 'v' && f.A.Obj.Name() == "desc")) {
						okDesc = true
					}
				}
			}
			if !okFlag {
				miss = append(miss, "the role holds '"+needFlag+"'")
			}
			if !okField {
				miss = append(miss, "desc."+needField)
			}
			if !okDesc {
				miss = append(miss, "desc != nil")
			}
			// fresh slice: append([]string{...}, perms...) does not edit the role table
			fresh := false
			if len(call.Args) > 0 {
				if _, isLit := unparen(call.Args[0]).(*ast.CompositeLit); isLit {
					fresh = true
				}
			}
			if !fresh {
				miss = append(miss, "the result is a fresh slice (the shared role table must not be appended to)")
			}
			c.Check(len(miss) == 0, "R8.3", "'"+added+"' is derived only under its condition", as.Pos(),
				"added under desc != nil, desc."+needField+" and a role holding '"+needFlag+"', into a fresh slice", "'"+added+"' can be granted without: "+strings.Join(miss, "; "))
			return true
		})
		if !found {
			c.Bad("R8.3", "'"+added+"' is derived only under its condition", fs.Pos(), "%s", "'"+added+"' is never derived: operators cannot record / presenters cannot make tokens")
		}
	}
	check("record", "op", "AllowRecording")
	check("token", "present", "UnrestrictedTokens")
}

func c08Sibling(c *Ctx) {
	p := c.P
	mk := p.Func("galenectl", "", "makePassword")
	mt := p.Func("group", "Password", "Match")
	if mk == nil || mt == nil {
		c.Unknown("R8.4", "anchors", 0, "galenectl.makePassword / Password.Match not found")
		return
	}
	// constants the tool writes into Type / Hash
	written := map[string][]string{}
	minfo := mk.Pkg.TypesInfo
	ast.Inspect(mk.Body(), func(n ast.Node) bool {
		kv, ok := n.(*ast.KeyValueExpr)
		if !ok {
			return true
		}
		id, ok := kv.Key.(*ast.Ident)
		if !ok || (id.Name != "Type" && id.Name != "Hash") {
			return true
		}
		if v, ok := constString(minfo, kv.Value); ok {
			written[id.Name] = appendUniqueStr(written[id.Name], v)
		}
		return true
	})
	// cases of Match
	sinfo := mt.Pkg.TypesInfo
	cases := map[string][]string{}
	mtRoot := mt
	for _, mt := range p.bodyClosure(mtRoot) {
		ast.Inspect(mt.Body(), func(n ast.Node) bool {
			// the value compared as a guard: p.Hash != "sha-256" / p.Hash == "sha-256"
			if be, isB := n.(*ast.BinaryExpr); isB && (be.Op == token.EQL || be.Op == token.NEQ) {
				for _, pr := range [][2]ast.Expr{{be.X, be.Y}, {be.Y, be.X}} {
					if sel, isSel := unparen(pr[0]).(*ast.SelectorExpr); isSel && (sel.Sel.Name == "Type" || sel.Sel.Name == "Hash") {
						if v, isC := constString(sinfo, pr[1]); isC {
							cases[sel.Sel.Name] = appendUniqueStr(cases[sel.Sel.Name], v)
						}
					}
				}
			}
			sw, ok := n.(*ast.SwitchStmt)
			if !ok || sw.Tag == nil {
				return true
			}
			tag := types.ExprString(sw.Tag)
			field := ""
			if strings.HasSuffix(tag, ".Type") {
				field = "Type"
			} else if strings.HasSuffix(tag, ".Hash") {
				field = "Hash"
			}
			if field == "" {
				return true
			}
			for _, s := range sw.Body.List {
				for _, e := range s.(*ast.CaseClause).List {
					if v, ok := constString(sinfo, e); ok {
						cases[field] = appendUniqueStr(cases[field], v)
					}
				}
			}
			return true
		})
	}
	for _, field := range []string{"Type", "Hash"} {
		var missing []string
		for _, w := range written[field] {
			found := false
			for _, cs := range cases[field] {
				if cs == w {
					found = true
				}
			}
			if !found {
				missing = append(missing, w)
			}
		}
		sort.Strings(written[field])
		c.Check(len(written[field]) > 0 && len(missing) == 0, "R8.4", "every password "+strings.ToLower(field)+" the tool writes is understood by the server", mk.Pos(),
			fmt.Sprintf("tool writes %v; server cases %v", written[field], cases[field]), fmt.Sprintf("the tool writes %s value(s) %v that Match does not handle (or none at all): hashes produced by galenectl never verify", field, missing))
	}
	// KDF entry points
	calls := func(fs *FuncSrc) map[string]bool {
		out := map[string]bool{}
		ast.Inspect(fs.Body(), func(n ast.Node) bool {
			switch x := n.(type) {
			case *ast.CallExpr:
				if f := calleeOf(&CallSite{Call: x, In: fs}); f != nil && f.Pkg() != nil {
					out[f.Pkg().Path()+"."+f.Name()] = true
				}
			case *ast.SelectorExpr:
				if f, ok := fs.Pkg.TypesInfo.Uses[x.Sel].(*types.Func); ok && f.Pkg() != nil {
					out["ref:"+f.Pkg().Path()+"."+f.Name()] = true
				}
			}
			return true
		})
		return out
	}
	tc, sc := calls(mk), map[string]bool{}
	for _, h := range p.bodyClosure(mt) {
		for k, v := range calls(h) {
			if v {
				sc[k] = true
			}
		}
	}
	okKDF := tc["golang.org/x/crypto/pbkdf2.Key"] && sc["golang.org/x/crypto/pbkdf2.Key"] &&
		tc["ref:crypto/sha256.New"] && sc["ref:crypto/sha256.New"] &&
		tc["golang.org/x/crypto/bcrypt.GenerateFromPassword"] && sc["golang.org/x/crypto/bcrypt.CompareHashAndPassword"]
	c.Check(okKDF, "R8.4", "both sides use the same KDF entry points", mt.Pos(), "pbkdf2.Key with sha256.New on both sides; bcrypt.GenerateFromPassword / CompareHashAndPassword", "the tool and the server no longer derive keys with the same functions")
	// Match takes iterations and key length from the record
	okParams := false
	for _, mt := range p.bodyClosure(mtRoot) {
		ast.Inspect(mt.Body(), func(n ast.Node) bool {
			call, ok := n.(*ast.CallExpr)
			if !ok || len(call.Args) != 5 {
				return true
			}
			if f := calleeOf(&CallSite{Call: call, In: mt}); f == nil || f.Name() != "Key" || f.Pkg().Path() != "golang.org/x/crypto/pbkdf2" {
				return true
			}
			a2, a3 := types.ExprString(call.Args[2]), types.ExprString(call.Args[3])
			okParams = strings.HasSuffix(a2, ".Iterations") && strings.HasPrefix(a3, "len(")
			return true
		})
	}
	c.Check(okParams, "R8.4", "Match derives iteration count and key length from the stored record", mt.Pos(), "pbkdf2.Key(pw, salt, p.Iterations, len(key), h)", "iteration count or key length are not taken from the record: passwords hashed with other parameters never verify")

	// both sides feed the whole password to the KDF: []byte(pw) of the parameter itself
	wholePw := func(fs *FuncSrc) (int, string) {
		info := fs.Pkg.TypesInfo
		// the password is the first string parameter (receiver excluded)
		var pwObj types.Object
		for _, po := range fs.params(info) {
			if po == nil || pwObj != nil {
				continue
			}
			if b, ok := po.Type().(*types.Basic); ok && b.Kind() == types.String {
				pwObj = po
			}
		}
		n, bad := 0, ""
		ast.Inspect(fs.Body(), func(nd ast.Node) bool {
			call, ok := nd.(*ast.CallExpr)
			if !ok {
				return true
			}
			f := calleeOf(&CallSite{Call: call, In: fs})
			if f == nil || f.Pkg() == nil {
				return true
			}
			idx := -1
			switch {
			case f.Pkg().Path() == "golang.org/x/crypto/pbkdf2" && f.Name() == "Key":
				idx = 0
			case f.Pkg().Path() == "golang.org/x/crypto/bcrypt" && f.Name() == "GenerateFromPassword":
				idx = 0
			case f.Pkg().Path() == "golang.org/x/crypto/bcrypt" && f.Name() == "CompareHashAndPassword":
				idx = 1
			case fnIs(f, "group", "", "ConstantTimeCompare"):
				idx = -2
			}
			if idx == -1 {
				return true
			}
			n++
			okArg := false
			if idx == -2 {
				if id, ok := unparen(call.Args[0]).(*ast.Ident); ok && info.Uses[id] == pwObj {
					okArg = true
				}
			} else if conv, ok := unparen(call.Args[idx]).(*ast.CallExpr); ok && len(conv.Args) == 1 {
				if tv, isT := info.Types[conv.Fun]; isT && tv.IsType() {
					if id, ok := unparen(conv.Args[0]).(*ast.Ident); ok && info.Uses[id] == pwObj && pwObj != nil {
						okArg = true
					}
				}
			}
			if !okArg {
				bad = p.PosStr(call.Pos())
			}
			return true
		})
		return n, bad
	}
	n1, b1 := wholePw(mk)
	n2, b2 := 0, ""
	for _, h := range p.bodyClosure(mt) {
		nn, bb := wholePw(h)
		n2 += nn
		b2 += bb
	}
	c.Check(n1 >= 2 && n2 >= 3 && b1 == "" && b2 == "", "R8.4", "tool and server hash the whole password", mk.Pos(), fmt.Sprintf("%d + %d KDF/compare calls all take []byte(pw) of the password parameter itself", n1, n2), "the bytes hashed or compared are not the whole password given (at "+b1+b2+"): a stored hash verifies for other passwords than the one it was made from")

	// a derived key of length 0 equals every other derived key of length 0
	okLenSrv := false
	for _, mt := range p.bodyClosure(mtRoot) {
		ff := p.Facts().Analyze(mt)
		ast.Inspect(mt.Body(), func(nd ast.Node) bool {
			call, ok := nd.(*ast.CallExpr)
			if !ok || len(call.Args) != 2 {
				return true
			}
			if f := calleeOf(&CallSite{Call: call, In: mt}); f == nil || f.Pkg() == nil || f.Pkg().Path() != "bytes" || f.Name() != "Equal" {
				return true
			}
			st, _ := ff.At(call)
			kt := ff.term(call.Args[0])
			if st != nil && kt != nil {
				l := TCall("len", nil, kt)
				if st.HasFact(mkFact(false, "eq", TConst("0"), l)) || st.HasFact(mkFact(true, "lt", TConst("0"), l)) || impliesFact(stateIneqs(st), mkFact(true, "lt", TConst("0"), l), ff.nonNeg()) {
					okLenSrv = true
				}
			}
			return true
		})
	}
	c.Check(okLenSrv, "R8.4", "Match never compares an empty derived key", mt.Pos(), "bytes.Equal(key, theirKey) only under len(key) > 0", "a pbkdf2 record with an empty key (which the tool writes for -key 0) compares equal to the empty key derived from ANY password: the entry accepts every password")
}

func c08Ownership(c *Ctx) {
	p := c.P
	perms := p.Field("rtpconn", "webClient", "permissions")
	if perms == nil {
		c.Unknown("R8.5", "anchor webClient.permissions", 0, "not found")
		return
	}
	k := newKeyer()
	n := 0
	for _, fs := range p.Sources() {
		if shortPkg(fs.Pkg.PkgPath) != "rtpconn" {
			continue
		}
		info := fs.Pkg.TypesInfo
		ast.Inspect(fs.Body(), func(nd ast.Node) bool {
			if lit, ok := nd.(*ast.FuncLit); ok && lit != fs.Lit {
				return false
			}
			as, ok := nd.(*ast.AssignStmt)
			if !ok {
				return true
			}
			for i, l := range as.Lhs {
				sel, ok := unparen(l).(*ast.SelectorExpr)
				if !ok || info.Selections[sel] == nil || info.Selections[sel].Obj() != types.Object(perms) || i >= len(as.Rhs) {
					continue
				}
				n++
				rhs := unparen(as.Rhs[i])
				ok2, why := false, "stores a slice that may alias shared storage (role table, group description, stored token)"
				switch {
				case isNilIdent(info, rhs):
					ok2, why = true, "nil"
				default:
					if call, isCall := rhs.(*ast.CallExpr); isCall {
						f := calleeOf(&CallSite{Call: call, In: fs})
						switch {
						case f != nil && f.Pkg() != nil && f.Pkg().Path() == "slices" && f.Name() == "Clone":
							ok2, why = true, "fresh copy (slices.Clone)"
						case isBuiltin(info, call, "append") && len(call.Args) > 0:
							if cv, isConv := unparen(call.Args[0]).(*ast.CallExpr); isConv && len(cv.Args) == 1 && isNilIdent(info, cv.Args[0]) {
								ok2, why = true, "fresh copy (append to nil)"
							}
							if _, isLit := unparen(call.Args[0]).(*ast.CompositeLit); isLit {
								ok2, why = true, "fresh slice literal"
							}
						case f != nil && fnInModulePkg(f):
							// derived from the field itself: a module helper taking c.permissions
							for _, a := range call.Args {
								if s2, isSel := unparen(a).(*ast.SelectorExpr); isSel && info.Selections[s2] != nil && info.Selections[s2].Obj() == types.Object(perms) {
									ok2, why = true, "derived from the client's own slice by "+f.Name()
								}
							}
						}
					}
				}
				key := k.key("store to webClient.permissions in", fs.Name)
				if ok2 {
					c.OK("R8.5", key, as.Pos(), "%s", why)
				} else {
					c.Bad("R8.5", key, as.Pos(), "%s: in-place edits (remove) by one client's moderation then rewrite everybody's rights", why)
				}
			}
			return true
		})
	}
	if n == 0 {
		c.Bad("R8.5", "stores to webClient.permissions", perms.Pos(), "no store found")
	}
}

func fnInModulePkg(f *types.Func) bool { return f.Pkg() != nil && inModule(f.Pkg()) }

func c08Refused(c *Ctx) {
	p := c.P
	ac := p.Func("group", "", "AddClient")
	if ac == nil {
		c.Unknown("R8.6", "anchor AddClient", 0, "not found")
		return
	}
	ff := p.Facts().Analyze(ac)
	fClients := p.Field("group", "Group", "clients")
	var insertion *ast.AssignStmt
	var gp *ast.CallExpr
	ast.Inspect(ac.Body(), func(n ast.Node) bool {
		switch x := n.(type) {
		case *ast.AssignStmt:
			if len(x.Lhs) == 1 {
				if ix, ok := unparen(x.Lhs[0]).(*ast.IndexExpr); ok {
					if t := ff.term(ix.X); t != nil && t.K == 'f' && t.Obj == types.Object(fClients) {
						insertion = x
					}
				}
			}
		case *ast.CallExpr:
			if fnIs(calleeOf(&CallSite{Call: x, In: ac}), "group", "Description", "GetPermission") {
				gp = x
			}
		}
		return true
	})
	if insertion == nil || gp == nil {
		c.Bad("R8.6", "credential check precedes the insertion", ac.Pos(), "AddClient no longer calls GetPermission or no longer inserts")
		return
	}
	errRes := &Term{K: 'r', Name: "res2", Pos: gp.Lparen}
	reach, path := ff.ReachableNotRefuting(insertion, factsConj(mkFact(false, "eq", TNil(), errRes), mkFact(false, "true", TCall("slices.Contains", nil, TConst("?"), TConst("?")), nil)))
	// system clients do not authenticate: only paths through GetPermission matter
	st, _ := ff.At(insertion)
	_ = st
	if reach {
		// is the GetPermission call on that path at all? (system clients skip it)
		onPath := false
		for _, s := range path {
			if strings.HasPrefix(s, p.PosStr(gp.Pos())[:strings.LastIndex(p.PosStr(gp.Pos()), ":")]) {
				onPath = true
			}
		}
		_ = onPath
	}
	// direct formulation: the insertion is unreachable from the error edge of GetPermission
	bad := false
	for _, ret := range ff.Returns() {
		_ = ret
	}
	okEdge := true
	if ok, _ := ff.ReachableNotRefuting(insertion, func(f *Fact) bool {
		return f.key == mkFact(false, "eq", TNil(), errRes).key
	}); ok {
		// reachable without refuting "err != nil": acceptable only if GetPermission is not executed on that path (system client)
		okEdge = false
		visit := func(n ast.Node, st *State, trace []*ast.CallExpr) bool {
			if !containsNode(n, insertion) {
				return false
			}
			called := false
			for _, call := range trace {
				if call == gp {
					called = true
				}
			}
			if called && !st.HasFact(mkFact(true, "eq", TNil(), errRes)) {
				bad = true
			}
			return true
		}
		if ff.ExplorePaths(visit, nil, 20000) {
			okEdge = !bad
		}
	}
	c.Check(okEdge, "R8.6", "no insertion after a failed credential check", insertion.Pos(),
		"every path that calls GetPermission reaches the insertion only with a nil error", "a client whose credentials were refused can still be inserted into g.clients")
}
