package main

import (
	"fmt"
	"go/ast"
	"go/token"
	"go/types"
	"os"
	"sort"
	"strings"
)

func init() {
	register(&Property{
		ID:        "C09",
		Title:     "A token authorises only its own group scope, validity window and permissions",
		Technique: "path-sensitive CFG exploration (validity window, audience), must-facts (component boundary, username override), call-argument and case-table extraction (JWT key selection)",
		Decides: "R9.1: every prefix test on group paths in package token tests a prefix that ends in '/', so a scope covers whole path components only; the non-subgroup case is an equality. " +
			"R9.2: Stateful.Check succeeds only when the token matches the group, has an expiry that is not past, and is not before its not-before time; it returns the token's own username and permissions. " +
			"R9.3: signed tokens are parsed with a required expiry; the key function rejects a missing algorithm, hands the header's alg and kid to ParseKeys and returns only its keys; ParseKeys skips keys declared for another algorithm; ParseKey admits only the fixed (kty, alg) pairs; JWT.Check succeeds only for an audience on this host (when configured) that matches the group. " +
			"R9.4: in GetPermission the client-chosen username is used only when the token carries none and no configured user has that name; permissions are exactly those returned by the token's Check; the username is validated. " +
			"R9.5: the global admin token is checked against the root scope, which only a root token covering subgroups matches. " +
			"R9.7: every line of the token file is decoded into a fresh value (the variable handed to Decode is declared inside the reading loop, or set to the zero value there): encoding/json leaves fields that are absent from the input as they were, and every optional field of a token is written with omitempty, so a reused variable would hand the previous token's subgroup scope, username, expiry and not-before time to the next one. " +
			"R9.6: the copy of a token that the store keeps and hands out (Stateful.Clone) takes every field from the same field of the original, so the scope, window, permissions and username checked are the ones written in the token.",
		NotDecided: []string{
			"URL parsing, signature verification and leeway arithmetic (golang-jwt)",
			"that prefix matching equals component-wise matching for all strings (R9.1 is the necessary '/' boundary only)",
		},
		Run: runC09,
	})
}

func runC09(c *Ctx) {
	c.Rule("R9.1", "E2", "prefix tests on group paths use a prefix ending in '/'", 3)
	c.Rule("R9.2", "E3", "Stateful.Check validity window and scope", 2)
	c.Rule("R9.3", "E4", "JWT parsing: required expiry, key selection by declared algorithm, audience", 7)
	c.Rule("R9.4", "E2", "GetPermission: username override and permissions from the token", 3)
	c.Rule("R9.5", "E4", "global admin token is checked against the root scope", 2)
	c09Prefix(c)
	c09Stateful(c)
	c09JWT(c)
	c09GetPermission(c)
	c09Global(c)
	c.Rule("R9.6", "E4", "Stateful.Clone copies every field from itself", 9)
	c09Clone(c)
	c.Rule("R9.7", "E4", "each stored token is decoded into a fresh value", 1)
	c09FreshDecode(c)
}

// R9.7: json.Decoder.Decode(&t) in a loop needs t fresh per iteration.
func c09FreshDecode(c *Ctx) {
	p := c.P
	ld := p.Func("token", "state", "load")
	if ld == nil {
		c.Unknown("R9.7", "anchors", 0, "token.(*state).load not found")
		return
	}
	info := ld.Pkg.TypesInfo
	n := 0
	ast.Inspect(ld.Body(), func(nd ast.Node) bool {
		call, ok := nd.(*ast.CallExpr)
		if !ok || len(call.Args) != 1 {
			return true
		}
		f := calleeOf(&CallSite{Call: call, In: ld})
		if f == nil || f.Name() != "Decode" || f.Pkg() == nil || f.Pkg().Path() != "encoding/json" {
			return true
		}
		n++
		u, ok := unparen(call.Args[0]).(*ast.UnaryExpr)
		var obj types.Object
		if ok && u.Op == token.AND {
			if id, ok := unparen(u.X).(*ast.Ident); ok {
				obj = info.ObjectOf(id)
			}
		} else if id, isId := unparen(call.Args[0]).(*ast.Ident); isId {
			// a pointer local: fresh if every definition of it is a new allocation (&T{} / new(T))
			po := info.ObjectOf(id)
			allNew, ndef := true, 0
			ast.Inspect(ld.Body(), func(m ast.Node) bool {
				as, isAs := m.(*ast.AssignStmt)
				if !isAs || len(as.Lhs) != len(as.Rhs) {
					return true
				}
				for i, l := range as.Lhs {
					if lid, isL := l.(*ast.Ident); isL && info.ObjectOf(lid) == po {
						ndef++
						r := unparen(as.Rhs[i])
						isNew := false
						if ue, isU := r.(*ast.UnaryExpr); isU && ue.Op == token.AND {
							if cl, isCL := unparen(ue.X).(*ast.CompositeLit); isCL && len(cl.Elts) == 0 {
								isNew = true
							}
						}
						if ce, isC := r.(*ast.CallExpr); isC {
							if fid, isF := ce.Fun.(*ast.Ident); isF && fid.Name == "new" {
								if _, isB := info.Uses[fid].(*types.Builtin); isB {
									isNew = true
								}
							}
						}
						if !isNew {
							allNew = false
						}
					}
				}
				return true
			})
			if allNew && ndef > 0 {
				obj = po
			}
		}
		// the innermost loop around the call
		var loop ast.Node
		var body *ast.BlockStmt
		for cur := p.Parent(ld.File, call); cur != nil; cur = p.Parent(ld.File, cur) {
			if fs, ok := cur.(*ast.ForStmt); ok {
				loop, body = fs, fs.Body
				break
			}
			if rs, ok := cur.(*ast.RangeStmt); ok {
				loop, body = rs, rs.Body
				break
			}
			if _, ok := cur.(*ast.FuncLit); ok {
				break
			}
		}
		fresh := false
		switch {
		case loop == nil:
			fresh = true // decoded once
		case obj == nil:
			fresh = false
		case obj.Pos() >= body.Pos() && obj.Pos() < body.End():
			fresh = true
		default:
			// declared outside: reset to the zero value in the loop before the call
			ast.Inspect(body, func(m ast.Node) bool {
				as, ok := m.(*ast.AssignStmt)
				if !ok || len(as.Lhs) != 1 || len(as.Rhs) != 1 || as.End() > call.Pos() {
					return true
				}
				if id, ok := as.Lhs[0].(*ast.Ident); ok && info.ObjectOf(id) == obj {
					if cl, ok := unparen(as.Rhs[0]).(*ast.CompositeLit); ok && len(cl.Elts) == 0 {
						fresh = true
					}
				}
				return true
			})
		}
		c.Check(fresh, "R9.7", "load decodes each line into a fresh value", call.Pos(), "the variable given to Decode is declared (or zeroed) inside the loop",
			"the variable given to Decode outlives an iteration of the reading loop: fields absent from a line (all optional ones are omitempty) keep the previous token's values - scope over subgroups, username, expiry, not-before")
		return true
	})
	if n == 0 {
		c.Bad("R9.7", "load decodes each line into a fresh value", ld.Pos(), "no json Decode call found in load")
	}
}

// R9.6: the store keeps token.Clone() and Parse returns a Clone: the window,
// scope, username and permissions that Check tests are the clone's.  Every
// field of the clone must come from the same field of the receiver (directly,
// through a copying call, or through a whole-struct copy `c := *token`).
func c09Clone(c *Ctx) {
	p := c.P
	cl := p.Func("token", "Stateful", "Clone")
	if cl == nil || cl.Decl == nil || cl.Decl.Recv == nil || len(cl.Decl.Recv.List) == 0 || len(cl.Decl.Recv.List[0].Names) == 0 {
		c.Unknown("R9.6", "anchors", 0, "token.(*Stateful).Clone not found")
		return
	}
	info := cl.Pkg.TypesInfo
	recv := info.Defs[cl.Decl.Recv.List[0].Names[0]]
	tn, _ := cl.Pkg.Types.Scope().Lookup("Stateful").(*types.TypeName)
	if recv == nil || tn == nil {
		c.Unknown("R9.6", "anchors", 0, "receiver / type Stateful not found")
		return
	}
	st, _ := tn.Type().Underlying().(*types.Struct)
	if st == nil {
		c.Unknown("R9.6", "anchors", 0, "Stateful is not a struct")
		return
	}
	// the fields of the receiver an expression reads
	reads := func(e ast.Expr) map[string]bool {
		out := map[string]bool{}
		ast.Inspect(e, func(n ast.Node) bool {
			if se, ok := n.(*ast.SelectorExpr); ok {
				x := unparen(se.X)
				if star, isStar := x.(*ast.StarExpr); isStar {
					x = unparen(star.X)
				}
				if id, ok := x.(*ast.Ident); ok && info.Uses[id] == recv {
					if sel := info.Selections[se]; sel != nil && sel.Kind() == types.FieldVal {
						out[se.Sel.Name] = true
					}
				}
			}
			return true
		})
		return out
	}
	src := map[string]ast.Expr{} // field -> the expression it is given
	whole := false               // a whole-struct copy of the receiver initialises the clone
	dup := map[string]bool{}
	ast.Inspect(cl.Body(), func(n ast.Node) bool {
		switch x := n.(type) {
		case *ast.CompositeLit:
			if t := info.TypeOf(x); t != nil && types.Identical(t, tn.Type()) {
				for _, el := range x.Elts {
					kv, ok := el.(*ast.KeyValueExpr)
					if !ok {
						dup["(positional literal)"] = true
						continue
					}
					if k, ok := kv.Key.(*ast.Ident); ok {
						if src[k.Name] != nil {
							dup[k.Name] = true
						}
						src[k.Name] = kv.Value
					}
				}
			}
		case *ast.AssignStmt:
			for i, l := range x.Lhs {
				if len(x.Rhs) != len(x.Lhs) {
					continue
				}
				// c := *token
				if star, ok := unparen(x.Rhs[i]).(*ast.StarExpr); ok {
					if id, ok := unparen(star.X).(*ast.Ident); ok && info.Uses[id] == recv {
						whole = true
						continue
					}
				}
				// c.F = E on a value of type Stateful that is not the receiver
				if se, ok := unparen(l).(*ast.SelectorExpr); ok {
					if sel := info.Selections[se]; sel != nil && sel.Kind() == types.FieldVal {
						bt := sel.Recv()
						if pt, isP := bt.(*types.Pointer); isP {
							bt = pt.Elem()
						}
						if id, isId := unparen(se.X).(*ast.Ident); isId && info.Uses[id] != recv && types.Identical(bt, tn.Type()) {
							src[se.Sel.Name] = x.Rhs[i]
						}
					}
				}
			}
		}
		return true
	})
	for i := 0; i < st.NumFields(); i++ {
		f := st.Field(i).Name()
		e := src[f]
		ok, detail := true, ""
		switch {
		case dup[f]:
			ok, detail = false, "given twice"
		case e == nil && whole:
			// copied with the whole struct
		case e == nil:
			ok, detail = false, "not copied"
		default:
			r := reads(e)
			if !r[f] || len(r) != 1 {
				var from []string
				for k := range r {
					from = append(from, k)
				}
				sort.Strings(from)
				ok, detail = false, fmt.Sprintf("taken from %v", from)
			}
		}
		c.Check(ok, "R9.6", "Clone: "+f, cl.Pos(), "copied from the same field of the original", "the stored copy of a token has its "+f+" "+detail+": the token that is checked is not the token that was written")
	}
	if len(dup) > 0 && dup["(positional literal)"] {
		c.Bad("R9.6", "Clone: literal form", cl.Pos(), "positional composite literal: the field correspondence is not visible")
	}
}

func endsWithSlash(info *types.Info, e ast.Expr) bool {
	e = unparen(e)
	if s, ok := constString(info, e); ok {
		return strings.HasSuffix(s, "/")
	}
	if be, ok := e.(*ast.BinaryExpr); ok && be.Op == token.ADD {
		return endsWithSlash(info, be.Y)
	}
	return false
}

// endsWithSlashAt: the expression ends in '/' as written, or is a local that
// the state at the node equates with a concatenation ending in '/'.
func endsWithSlashAt(ff *FuncFacts, st *State, e ast.Expr) bool {
	if endsWithSlash(ff.info(), e) {
		return true
	}
	t := ff.term(e)
	if t == nil || st == nil || t.K != 'v' {
		return false
	}
	var termEnds func(u *Term) bool
	termEnds = func(u *Term) bool {
		if u == nil {
			return false
		}
		if u.K == 'c' && strings.HasPrefix(u.Name, "\"") {
			return strings.HasSuffix(u.Name, "/\"")
		}
		if u.K == 'o' && u.Name == "+" && len(u.Args) == 2 {
			return termEnds(u.Args[1])
		}
		return false
	}
	for _, f := range st.Facts() {
		if f.Op != "eq" || !f.Pos || f.B == nil {
			continue
		}
		if (f.A.String() == t.String() && termEnds(f.B)) || (f.B.String() == t.String() && termEnds(f.A)) {
			return true
		}
	}
	return false
}

func c09Prefix(c *Ctx) {
	p := c.P
	pk := p.Pkg("token")
	if pk == nil {
		c.Unknown("R9.1", "anchor package token", 0, "not found")
		return
	}
	k := newKeyer()
	for _, fs := range p.Sources() {
		if fs.Pkg != pk {
			continue
		}
		info := fs.Pkg.TypesInfo
		var ff *FuncFacts
		ast.Inspect(fs.Body(), func(n ast.Node) bool {
			call, ok := n.(*ast.CallExpr)
			if !ok || len(call.Args) != 2 {
				return true
			}
			f := calleeOf(&CallSite{Call: call, In: fs})
			if f == nil || f.Pkg() == nil || f.Pkg().Path() != "strings" || f.Name() != "HasPrefix" {
				return true
			}
			key := k.key("HasPrefix in", fs.Name)
			if endsWithSlash(info, call.Args[1]) {
				c.OK("R9.1", key, call.Pos(), "the prefix %s ends in '/'", types.ExprString(call.Args[1]))
				return true
			}
			if ff == nil {
				ff = p.Facts().Analyze(fs)
			}
			st, _ := ff.At(call)
			pt := ff.term(call.Args[1])
			ok2 := false
			if st != nil && pt != nil {
				for _, fa := range st.Facts() {
					if fa.Op == "true" && fa.Pos && fa.A.K == 'k' && fa.A.Name == "strings.HasSuffix" && len(fa.A.Args) == 2 && fa.A.Args[0].String() == pt.String() && fa.A.Args[1].Name == `"/"` {
						ok2 = true
					}
				}
			}
			c.Check(ok2, "R9.1", key, call.Pos(), "the prefix is dominated by strings.HasSuffix(prefix, \"/\")",
				"the tested prefix "+types.ExprString(call.Args[1])+" does not necessarily end in '/': scope 'a' would cover group 'ab'")
			return true
		})
	}
	// non-subgroup cases are equalities
	if mg := p.Func("token", "", "matchGroup"); mg != nil {
		ff := p.Facts().Analyze(mg)
		okEq := false
		for _, ret := range ff.Returns() {
			st, _ := ff.At(ret)
			if st == nil || len(ret.Results) != 1 {
				continue
			}
			nosub := false
			for _, f := range st.Facts() {
				if f.Op == "true" && !f.Pos && f.A.K == 'v' && f.A.Obj.Name() == "includeSubgroups" {
					nosub = true
				}
			}
			if nosub {
				if be, ok := unparen(ret.Results[0]).(*ast.BinaryExpr); ok && be.Op == token.EQL && (endsWithSlashAt(ff, st, be.Y) || endsWithSlashAt(ff, st, be.X)) {
					okEq = true
				}
			}
		}
		c.Check(okEq, "R9.1", "matchGroup: exact match without subgroups", mg.Pos(), "pth == \"/group/\"+group+\"/\"", "without include-subgroups the audience is no longer compared for equality")
	} else {
		c.Unknown("R9.1", "anchor matchGroup", 0, "not found")
	}
}

func c09Stateful(c *Ctx) {
	p := c.P
	fs := p.Func("token", "Stateful", "Check")
	mt := p.Func("token", "Stateful", "match")
	if fs == nil || mt == nil {
		c.Unknown("R9.2", "anchors", 0, "Stateful.Check/match not found")
		return
	}
	ff := p.Facts().Analyze(fs)
	info := fs.Pkg.TypesInfo
	fExp := p.Field("token", "Stateful", "Expires")
	fNB := p.Field("token", "Stateful", "NotBefore")
	fPerm := p.Field("token", "Stateful", "Permissions")
	fUser := p.Field("token", "Stateful", "Username")
	params := fs.params(info) // token, host, group
	tokT := TVar(params[0])
	var problems []string
	nsucc := 0
	// hasCall: the state holds (with polarity pos) `now<suffix>(*token.<field>)`, i.e. the
	// field is the argument - or the same test written from the other side,
	// `token.<field><mirror>(now)` with the field as the receiver
	hasCall := func(st *State, pos bool, suffix string, field *types.Var) bool {
		mirror := map[string]string{".After": ".Before", ".Before": ".After"}[suffix]
		mentions := func(a *Term) bool {
			hit := false
			a.walk(func(x *Term) {
				if x.K == 'f' && x.Obj == types.Object(field) {
					hit = true
				}
			})
			return hit
		}
		for _, f := range st.Facts() {
			if f.Op != "true" || f.Pos != pos || f.A.K != 'k' || len(f.A.Args) != 2 {
				continue
			}
			if strings.HasSuffix(f.A.Name, suffix) && mentions(f.A.Args[1]) && !mentions(f.A.Args[0]) {
				return true
			}
			if mirror != "" && strings.HasSuffix(f.A.Name, mirror) && mentions(f.A.Args[0]) && !mentions(f.A.Args[1]) {
				return true
			}
		}
		return false
	}
	atExit := func(st *State, trace []*ast.CallExpr, last ast.Node) {
		ret, ok := last.(*ast.ReturnStmt)
		if !ok || len(ret.Results) != 3 || !isNilIdent(info, ret.Results[2]) {
			return
		}
		nsucc++
		// scope
		okMatch := false
		for _, call := range trace {
			if fnIs(calleeOf(&CallSite{Call: call, In: fs}), "token", "Stateful", "match") && len(call.Args) == 1 {
				if t := ff.term(call.Args[0]); t != nil && t.String() == TVar(params[2]).String() && st.HasFact(mkFact(true, "true", &Term{K: 'r', Name: "res0", Pos: call.Lparen}, nil)) {
					okMatch = true
				}
			}
		}
		if !okMatch {
			problems = appendUniqueStr(problems, "success without token.match(group) == true")
		}
		if !st.HasFact(mkFact(false, "eq", TField(tokT, fExp), TNil())) {
			problems = appendUniqueStr(problems, "success for a token without expiry")
		}
		if !hasCall(st, false, ".After", fExp) {
			problems = appendUniqueStr(problems, "success without !now.After(*token.Expires)")
		}
		if !(st.HasFact(mkFact(true, "eq", TField(tokT, fNB), TNil())) || hasCall(st, false, ".Before", fNB)) {
			problems = appendUniqueStr(problems, "success without (NotBefore == nil || !now.Before(*token.NotBefore))")
		}
		if t := ff.term(ret.Results[1]); t == nil || t.String() != TField(tokT, fPerm).String() {
			problems = appendUniqueStr(problems, "the permissions returned are not the token's")
		}
	}
	if !ff.ExplorePaths(nil, atExit, 5000) {
		c.Unknown("R9.2", "Stateful.Check", fs.Pos(), "path budget exhausted")
	} else {
		c.Check(len(problems) == 0 && nsucc > 0, "R9.2", "Stateful.Check: scope, expiry, not-before, own permissions", fs.Pos(),
			fmt.Sprintf("all %d successful paths have match(group), Expires != nil and not past, not before NotBefore, and return token.Permissions", nsucc), strings.Join(problems, "; "))
	}
	// the username returned is the token's (or empty)
	okUser := false
	ast.Inspect(fs.Body(), func(n ast.Node) bool {
		as, ok := n.(*ast.AssignStmt)
		if !ok || len(as.Lhs) != 1 || len(as.Rhs) != 1 {
			return true
		}
		if t := ff.term(as.Rhs[0]); t != nil && t.String() == TDeref(TField(tokT, fUser)).String() {
			okUser = true
		}
		return true
	})
	c.Check(okUser, "R9.2", "Stateful.Check: username from the token", fs.Pos(), "user = *token.Username when set", "the username returned is not the token's")
	// match(): the root scope and whole components
	mff := p.Facts().Analyze(mt)
	minfo := mt.Pkg.TypesInfo
	mparams := mt.params(minfo)
	fGroup := p.Field("token", "Stateful", "Group")
	fSub := p.Field("token", "Stateful", "IncludeSubgroups")
	okRoot, okTrueGuard := false, true
	for _, ret := range mff.Returns() {
		st, _ := mff.At(ret)
		if st == nil || len(ret.Results) != 1 {
			continue
		}
		if st.HasFact(mkFact(true, "eq", TStr(""), TVar(mparams[1]))) {
			// group == "": IncludeSubgroups && Group == ""
			cj := conjuncts(ret.Results[0])
			hasSub, hasRoot := false, false
			for _, e := range cj {
				if t := mff.term(e); t != nil && t.String() == TField(TVar(mparams[0]), fSub).String() {
					hasSub = true
				}
				if a := mff.assume(emptyState, e, true); a.HasFact(mkFact(true, "eq", TStr(""), TField(TVar(mparams[0]), fGroup))) {
					hasRoot = true
				}
			}
			if hasSub && hasRoot && len(cj) == 2 {
				okRoot = true
			}
			continue
		}
		if tv := minfo.Types[ret.Results[0]]; tv.Value != nil && tv.Value.String() == "true" {
			// return true: equal group, or subgroups with the root token
			eq := st.HasFact(mkFact(true, "eq", TVar(mparams[1]), TField(TVar(mparams[0]), fGroup)))
			root := st.HasFact(mkFact(true, "true", TField(TVar(mparams[0]), fSub), nil)) && st.HasFact(mkFact(true, "eq", TStr(""), TField(TVar(mparams[0]), fGroup)))
			if !eq && !root {
				okTrueGuard = false
			}
		}
	}
	c.Check(okRoot && okTrueGuard, "R9.5", "Stateful.match: the root scope needs a root token covering subgroups", mt.Pos(),
		"match(\"\") == IncludeSubgroups && Group == \"\"; `return true` only for the same group or a root token with subgroups", "a non-root or non-hierarchical token can match the root scope (global administration)")
}

func c09JWT(c *Ctx) {
	p := c.P
	pj := p.Func("token", "", "parseJWT")
	pks := p.Func("token", "", "ParseKeys")
	pkf := p.Func("token", "", "ParseKey")
	jc := p.Func("token", "JWT", "Check")
	if pj == nil || pks == nil || pkf == nil || jc == nil {
		c.Unknown("R9.3", "anchors", 0, "parseJWT/ParseKeys/ParseKey/JWT.Check not all found")
		return
	}
	info := pj.Pkg.TypesInfo
	// jwt.Parse(..., WithExpirationRequired())
	okExp := false
	var keyFunc *ast.FuncLit
	var keySrc *FuncSrc // the key function: a literal, or a declared function / method value
	ast.Inspect(pj.Body(), func(n ast.Node) bool {
		call, ok := n.(*ast.CallExpr)
		if !ok {
			return true
		}
		f := calleeOf(&CallSite{Call: call, In: pj})
		if f == nil || f.Name() != "Parse" || f.Pkg() == nil || !strings.Contains(f.Pkg().Path(), "golang-jwt") {
			return true
		}
		for _, a := range call.Args {
			if oc, ok := unparen(a).(*ast.CallExpr); ok {
				if of := calleeOf(&CallSite{Call: oc, In: pj}); of != nil && of.Name() == "WithExpirationRequired" {
					okExp = true
				}
			}
			if lit, ok := unparen(a).(*ast.FuncLit); ok {
				keyFunc = lit
				keySrc = p.SrcOfLit(lit)
			}
			// keySet(keys).lookup / lookupKeys: a declared function of the module
			var fobj *types.Func
			switch x := unparen(a).(type) {
			case *ast.SelectorExpr:
				if sel := info.Selections[x]; sel != nil && sel.Kind() == types.MethodVal {
					fobj, _ = sel.Obj().(*types.Func)
				}
			case *ast.Ident:
				fobj, _ = info.Uses[x].(*types.Func)
				// a local bound once to a literal (keyfunc := func(t) ... { ... })
				if v, isV := info.Uses[x].(*types.Var); isV && !v.IsField() && keySrc == nil {
					var lits []*ast.FuncLit
					ndef := 0
					ast.Inspect(pj.Body(), func(m ast.Node) bool {
						if as, isAs := m.(*ast.AssignStmt); isAs && len(as.Lhs) == len(as.Rhs) {
							for i, l := range as.Lhs {
								if lid, isL := l.(*ast.Ident); isL && info.ObjectOf(lid) == types.Object(v) {
									ndef++
									if fl, isF := unparen(as.Rhs[i]).(*ast.FuncLit); isF {
										lits = append(lits, fl)
									}
								}
							}
						}
						return true
					})
					if ndef == 1 && len(lits) == 1 {
						keyFunc = lits[0]
						keySrc = p.SrcOfLit(lits[0])
					}
				}
			}
			if fobj != nil && keySrc == nil {
				if src := p.SrcOfFunc(fobj); src != nil && src.Decl != nil {
					if sig, _ := fobj.Type().(*types.Signature); sig != nil && sig.Params().Len() == 1 && sig.Results().Len() == 2 {
						keySrc = src
					}
				}
			}
		}
		return true
	})
	c.Check(okExp, "R9.3", "signed tokens must carry an expiry", pj.Pos(), "jwt.Parse(..., jwt.WithExpirationRequired())", "tokens without exp are accepted")
	_ = keyFunc
	if keySrc == nil {
		c.Bad("R9.3", "key function", pj.Pos(), "jwt.Parse is not given a key function of this module (a literal, a function or a method value)")
	} else {
		kfs := keySrc
		info := kfs.Pkg.TypesInfo
		kff := p.Facts().Analyze(kfs)
		// header alg/kid are handed to ParseKeys; empty alg rejected; returns only ParseKeys results
		var pk *ast.CallExpr
		ast.Inspect(kfs.Body(), func(n ast.Node) bool {
			if call, ok := n.(*ast.CallExpr); ok && fnIs(calleeOf(&CallSite{Call: call, In: kfs}), "token", "", "ParseKeys") && len(call.Args) == 3 {
				pk = call
			}
			return true
		})
		// the keys selected: result #0 of that call
		var ksObj types.Object
		ast.Inspect(kfs.Body(), func(n ast.Node) bool {
			if as, ok := n.(*ast.AssignStmt); ok && len(as.Rhs) == 1 && pk != nil && unparen(as.Rhs[0]) == ast.Expr(pk) && len(as.Lhs) >= 1 {
				if id, isId := as.Lhs[0].(*ast.Ident); isId {
					ksObj = info.ObjectOf(id)
				}
			}
			return true
		})
		okArgs, okAlg := false, false
		if pk != nil {
			st, _ := kff.At(pk)
			fromHeader := func(e ast.Expr, key string) bool {
				id, ok := unparen(e).(*ast.Ident)
				if !ok {
					return false
				}
				obj := info.ObjectOf(id)
				found := false
				ast.Inspect(kfs.Body(), func(n ast.Node) bool {
					as, ok := n.(*ast.AssignStmt)
					if !ok || len(as.Rhs) != 1 {
						return true
					}
					if lid, ok := as.Lhs[0].(*ast.Ident); ok && info.ObjectOf(lid) == obj {
						if ta, ok := unparen(as.Rhs[0]).(*ast.TypeAssertExpr); ok {
							if ix, ok := unparen(ta.X).(*ast.IndexExpr); ok {
								if s, isC := constString(info, ix.Index); isC && s == key && strings.HasSuffix(types.ExprString(ix.X), ".Header") {
									found = true
								}
							}
						}
					}
					return true
				})
				return found
			}
			okArgs = fromHeader(pk.Args[1], "alg") && fromHeader(pk.Args[2], "kid")
			if st != nil {
				if t := kff.term(pk.Args[1]); t != nil && st.HasFact(mkFact(false, "eq", TStr(""), t)) {
					okAlg = true
				}
			}
		}
		c.Check(okArgs, "R9.3", "key function selects keys by the header's alg and kid", kfs.Pos(), "ParseKeys(keys, t.Header[\"alg\"], t.Header[\"kid\"])", "keys are not selected by the algorithm and key id declared in the token header")
		c.Check(okAlg, "R9.3", "key function rejects a missing algorithm", kfs.Pos(), "alg == \"\" is refused before ParseKeys", "a token without alg selects every key (algorithm confusion)")
		// returns: only values derived from ks (result of ParseKeys) or nil
		okRet := true
		for _, ret := range kff.Returns() {
			if len(ret.Results) != 2 || isNilIdent(info, ret.Results[0]) {
				continue
			}
			usesKs := false
			ast.Inspect(ret.Results[0], func(m ast.Node) bool {
				if id, isId := m.(*ast.Ident); isId && ksObj != nil && info.Uses[id] == ksObj {
					usesKs = true
				}
				return true
			})
			if !usesKs {
				okRet = false
			}
		}
		c.Check(okRet && pk != nil, "R9.3", "key function returns only the selected keys", kfs.Pos(), "every non-nil key returned derives from ParseKeys", "a key not selected by ParseKeys can be returned")
	}
	// ParseKeys skips keys with a different alg
	{
		ff := p.Facts().Analyze(pks)
		kinfo := pks.Pkg.TypesInfo
		var pkc *ast.CallExpr
		ast.Inspect(pks.Body(), func(n ast.Node) bool {
			if call, ok := n.(*ast.CallExpr); ok && fnIs(calleeOf(&CallSite{Call: call, In: pks}), "token", "", "ParseKey") {
				pkc = call
			}
			return true
		})
		ok := false
		if pkc != nil {
			// the call must be unreachable while alg != "" && ky["alg"] != alg
			params := pks.params(kinfo)
			algT := TVar(params[1])
			reach, _ := ff.ReachableNotRefuting(pkc, func(f *Fact) bool {
				if f.Op != "eq" || f.Pos || f.B == nil {
					return false
				}
				// alg != ""  or  ky["alg"] != alg
				if (f.A.Name == `""` && f.B.String() == algT.String()) || (f.B.Name == `""` && f.A.String() == algT.String()) {
					return true
				}
				for _, pr := range [][2]*Term{{f.A, f.B}, {f.B, f.A}} {
					if pr[0].String() == algT.String() && pr[1].K == 'i' && pr[1].Args[1].Name == `"alg"` {
						return true
					}
				}
				return false
			})
			ok = !reach
		}
		c.Check(ok, "R9.3", "ParseKeys skips keys declared for another algorithm", pks.Pos(), "ParseKey is unreachable while alg != \"\" && key[\"alg\"] != alg", "a key declared for another algorithm can verify a token (algorithm confusion)")
	}
	// ParseKey: admitted (kty, alg) pairs
	{
		kinfo := pkf.Pkg.TypesInfo
		pairs := map[string][]string{}
		ast.Inspect(pkf.Body(), func(n ast.Node) bool {
			sw, ok := n.(*ast.SwitchStmt)
			if !ok || sw.Tag == nil || types.ExprString(sw.Tag) != "kty" {
				return true
			}
			for _, s := range sw.Body.List {
				cc := s.(*ast.CaseClause)
				for _, e := range cc.List {
					kty, _ := constString(kinfo, e)
					// algs: inner switch cases or `if alg != "X"` refusals
					ast.Inspect(cc, func(m ast.Node) bool {
						switch x := m.(type) {
						case *ast.SwitchStmt:
							if x.Tag != nil && types.ExprString(x.Tag) == "alg" {
								for _, s2 := range x.Body.List {
									for _, e2 := range s2.(*ast.CaseClause).List {
										if v, ok := constString(kinfo, e2); ok {
											pairs[kty] = appendUniqueStr(pairs[kty], v)
										}
									}
								}
							}
						case *ast.BinaryExpr:
							if x.Op == token.NEQ && types.ExprString(x.X) == "alg" {
								if v, ok := constString(kinfo, x.Y); ok {
									pairs[kty] = appendUniqueStr(pairs[kty], v)
								}
							}
						}
						return true
					})
				}
			}
			return false
		})
		want := map[string]string{"oct": "HS256,HS384,HS512", "EC": "ES256", "RSA": "RS256"}
		ok := len(pairs) == len(want)
		for k, v := range want {
			if strings.Join(pairs[k], ",") != v {
				ok = false
			}
		}
		c.Check(ok, "R9.3", "ParseKey admits only the fixed (kty, alg) pairs", pkf.Pos(), fmt.Sprintf("pairs: %v", pairs), fmt.Sprintf("the admitted (kty, alg) pairs changed: %v", pairs))
	}
	// JWT.Check: success only under an audience that matched
	{
		ff := p.Facts().Analyze(jc)
		jinfo := jc.Pkg.TypesInfo
		params := jc.params(jinfo)
		hostT := TVar(params[1])
		// the flag set true only under matchGroup(...)==true, and under (host == "" or EqualFold)
		var flag types.Object
		okFlag := true
		nset := 0
		ast.Inspect(jc.Body(), func(n ast.Node) bool {
			as, ok := n.(*ast.AssignStmt)
			if !ok || len(as.Lhs) != 1 || len(as.Rhs) != 1 {
				return true
			}
			if tv := jinfo.Types[as.Rhs[0]]; tv.Value == nil || tv.Value.String() != "true" {
				return true
			}
			id, ok := as.Lhs[0].(*ast.Ident)
			if !ok {
				return true
			}
			st, _ := ff.At(as)
			if st == nil {
				return true
			}
			mg := false
			for _, f := range st.Facts() {
				if f.Op == "true" && f.Pos && f.A.K == 'k' && strings.HasSuffix(f.A.Name, "matchGroup") && len(f.A.Args) == 3 && f.A.Args[1].String() == TVar(params[2]).String() {
					mg = true
				}
			}
			if !mg {
				return true
			}
			nset++
			flag = jinfo.ObjectOf(id)
			// host: unreachable while host != "" and !EqualFold(url.Host, host)
			reach, _ := ff.ReachableNotRefuting(as, func(f *Fact) bool {
				if f.Op == "eq" && !f.Pos && f.B != nil && ((f.A.Name == `""` && f.B.String() == hostT.String()) || (f.B.Name == `""` && f.A.String() == hostT.String())) {
					return true
				}
				return f.Op == "true" && !f.Pos && f.A.K == 'k' && f.A.Name == "strings.EqualFold"
			})
			if reach {
				okFlag = false
			}
			return true
		})
		okSucc := flag != nil
		if flag != nil {
			for _, ret := range ff.Returns() {
				if len(ret.Results) != 3 || !isNilIdent(jinfo, ret.Results[2]) {
					continue
				}
				st, _ := ff.At(ret)
				if st == nil || !st.HasFact(mkFact(true, "true", TVar(flag), nil)) {
					okSucc = false
				}
			}
			// the flag is reset to false before the loop
			reset := false
			ast.Inspect(jc.Body(), func(n ast.Node) bool {
				if as, ok := n.(*ast.AssignStmt); ok && len(as.Lhs) == 1 {
					if id, ok := as.Lhs[0].(*ast.Ident); ok && jinfo.ObjectOf(id) == flag {
						if tv := jinfo.Types[as.Rhs[0]]; tv.Value != nil && tv.Value.String() == "false" {
							reset = true
						}
					}
				}
				return true
			})
			if !reset {
				okSucc = false
			}
		}
		if flag == nil {
			// without a flag: every successful return carries "this matchGroup(url.Path, group, ...)
			// call returned true", and that call is reached only for an audience on this host
			hostCond := func(f *Fact) bool {
				if f.Op == "eq" && !f.Pos && f.B != nil && ((f.A.Name == `""` && f.B.String() == hostT.String()) || (f.B.Name == `""` && f.A.String() == hostT.String())) {
					return true
				}
				return f.Op == "true" && !f.Pos && f.A.K == 'k' && f.A.Name == "strings.EqualFold"
			}
			var mgCalls []*ast.CallExpr
			ast.Inspect(jc.Body(), func(n ast.Node) bool {
				if call, ok := n.(*ast.CallExpr); ok && len(call.Args) == 3 && fnIs(calleeOf(&CallSite{Call: call, In: jc}), "token", "", "matchGroup") {
					if t := ff.term(call.Args[1]); t != nil && t.String() == TVar(params[2]).String() {
						mgCalls = append(mgCalls, call)
					}
				}
				return true
			})
			// or delegated: a boolean function of this package that is handed the host and the
			// group and answers true only where an audience matched (audienceMatcher)
			var delegated []*ast.CallExpr
			if len(mgCalls) == 0 {
				ast.Inspect(jc.Body(), func(n ast.Node) bool {
					call, ok := n.(*ast.CallExpr)
					if !ok {
						return true
					}
					src := p.SrcOfFunc(calleeOf(&CallSite{Call: call, In: jc}))
					if src == nil || src.Decl == nil || src.Pkg != jc.Pkg || src == jc {
						return true
					}
					hp, gp := -1, -1
					for k, a := range call.Args {
						if t := ff.term(a); t != nil {
							if t.String() == hostT.String() {
								hp = k
							}
							if t.String() == TVar(params[2]).String() {
								gp = k
							}
						}
					}
					if hp >= 0 && gp >= 0 && audienceMatcher(p, src, hp, gp) {
						delegated = append(delegated, call)
					}
					return true
				})
			}
			// or the scan itself is slices.ContainsFunc(aud, literal) with the host and group
			// tests inside the literal (audienceLitOK)
			if len(mgCalls) == 0 || len(delegated) == 0 {
				var direct []*ast.CallExpr
				ast.Inspect(jc.Body(), func(n ast.Node) bool {
					if _, isLit := n.(*ast.FuncLit); isLit {
						return false
					}
					call, ok := n.(*ast.CallExpr)
					if !ok || len(call.Args) != 2 {
						return true
					}
					if f := calleeOf(&CallSite{Call: call, In: jc}); f == nil || f.Pkg() == nil || f.Pkg().Path() != "slices" || f.Name() != "ContainsFunc" {
						return true
					}
					lit, ok := unparen(call.Args[1]).(*ast.FuncLit)
					if !ok {
						return true
					}
					if ls := p.SrcOfLit(lit); ls != nil && audienceLitOK(p, ls, hostT, TVar(params[2]), hostCond) {
						direct = append(direct, call)
					}
					return false
				})
				if len(direct) > 0 {
					// the matchGroup calls inside the literal are not themselves tested at the returns of Check
					mgCalls = nil
					delegated = append(delegated, direct...)
				}
			}
			mgCalls = append(mgCalls, delegated...)
			okSucc, okFlag, nset = len(mgCalls) > 0, true, len(mgCalls)
			for _, mc := range mgCalls {
				isDel := false
				for _, d := range delegated {
					if d == mc {
						isDel = true
					}
				}
				if isDel {
					continue // the host test is inside the delegate (checked there)
				}
				if reach, _ := ff.ReachableNotRefuting(mc, hostCond); reach {
					okFlag = false
				}
			}
			nsucc := 0
			for _, ret := range ff.Returns() {
				if len(ret.Results) != 3 || !isNilIdent(jinfo, ret.Results[2]) {
					continue
				}
				nsucc++
				st, _ := ff.At(ret)
				matched := false
				for _, mc := range mgCalls {
					if st != nil && st.HasFact(mkFact(true, "true", &Term{K: 'r', Name: "res0", Pos: mc.Lparen}, nil)) {
						matched = true
					}
				}
				if !matched {
					okSucc = false
				}
			}
			if nsucc == 0 {
				okSucc = false
			}
		}
		c.Check(okSucc && okFlag && nset > 0, "R9.3", "JWT.Check: an audience on this host matches the group", jc.Pos(),
			"success needs the flag that is set only under matchGroup(url.Path, group, ...) and, with a canonical host, EqualFold(url.Host, host)", "a signed token is accepted without an audience naming this server and group")
	}
}

func c09GetPermission(c *Ctx) {
	p := c.P
	fs := p.Func("group", "Description", "GetPermission")
	if fs == nil {
		c.Unknown("R9.4", "anchor GetPermission", 0, "not found")
		return
	}
	ff := p.Facts().Analyze(fs)
	info := fs.Pkg.TypesInfo
	// the name and the permissions handed out: what the successful returns return
	var uname, perms types.Object
	for _, ret := range ff.Returns() {
		if len(ret.Results) == 3 && isNilIdent(info, ret.Results[2]) {
			if a, ok := unparen(ret.Results[0]).(*ast.Ident); ok && uname == nil {
				uname = info.Uses[a]
			}
			if b, ok := unparen(ret.Results[1]).(*ast.Ident); ok && perms == nil {
				perms = info.Uses[b]
			}
		}
	}
	fCredUser := p.Field("group", "ClientCredentials", "Username")
	fTok := p.Field("group", "ClientCredentials", "Token")
	if uname == nil || perms == nil || fCredUser == nil || fTok == nil {
		c.Unknown("R9.4", "anchors", fs.Pos(), "locals username/perms or credential fields not found")
		return
	}
	// every successful way through the token branch, path by path: the permissions
	// returned are result #1 of the token's Check for the group being joined; the
	// username returned is result #0 of that Check or, when that is empty and no
	// configured user has it, the name the client supplied
	var checks []*ast.CallExpr
	ast.Inspect(fs.Body(), func(n ast.Node) bool {
		if call, ok := n.(*ast.CallExpr); ok && len(call.Args) == 2 {
			if f := calleeOf(&CallSite{Call: call, In: fs}); f != nil && f.Name() == "Check" && f.Pkg() != nil && strings.HasSuffix(f.Pkg().Path(), "/token") {
				if t := ff.term(call.Args[1]); t != nil && t.K == 'v' && t.Obj.Name() == "groupname" {
					checks = append(checks, call)
				}
			}
		}
		return true
	})
	nTokenSucc, nClientName := 0, 0
	var badName, badPerms []string
	atExit := func(st *State, trace []*ast.CallExpr, last ast.Node) {
		ret, ok := last.(*ast.ReturnStmt)
		if !ok || len(ret.Results) != 3 || !isNilIdent(info, ret.Results[2]) || st == nil {
			return
		}
		inToken := false
		for _, f := range st.Facts() {
			if f.Op == "eq" && !f.Pos && f.B != nil && ((f.A.Name == `""` && f.B.K == 'f' && f.B.Obj == types.Object(fTok)) || (f.B.Name == `""` && f.A.K == 'f' && f.A.Obj == types.Object(fTok))) {
				inToken = true
			}
		}
		if !inToken {
			return // password branch: C08
		}
		nTokenSucc++
		var chk *ast.CallExpr
		for _, call := range trace {
			for _, k := range checks {
				if call == k {
					chk = call
				}
			}
		}
		ut, pt := ff.term(ret.Results[0]), ff.term(ret.Results[1])
		if chk == nil || ut == nil || pt == nil {
			badPerms = appendUniqueStr(badPerms, p.PosStr(ret.Pos()))
			return
		}
		res0 := &Term{K: 'r', Name: "res0", Pos: chk.Lparen}
		res1 := &Term{K: 'r', Name: "res1", Pos: chk.Lparen}
		if !st.EqualUnder(pt, res1) {
			badPerms = appendUniqueStr(badPerms, p.PosStr(ret.Pos()))
			if os.Getenv("GALINT_DEBUG_C09") != "" {
				fmt.Fprintf(os.Stderr, "C09 perms: %s vs %s in %v\n", pt, res1, st)
			}
		}
		if st.EqualUnder(ut, res0) {
			return
		}
		// the client's name
		isClient := false
		for _, f := range st.Facts() {
			if f.Op != "eq" || !f.Pos || f.B == nil {
				continue
			}
			for _, pr := range [][2]*Term{{f.A, f.B}, {f.B, f.A}} {
				if pr[0].String() == ut.String() && pr[1].K == 'd' && pr[1].Args[0].K == 'f' && pr[1].Args[0].Obj == types.Object(fCredUser) {
					isClient = true
				}
			}
		}
		empty := st.EqualUnder(res0, TStr(""))
		noUser := false
		for _, f := range st.Facts() {
			if f.Op == "true" && !f.Pos && f.A.K == 'k' && strings.HasSuffix(f.A.Name, "userExists") {
				noUser = true
			}
		}
		if isClient && empty && noUser {
			nClientName++
			return
		}
		badName = appendUniqueStr(badName, p.PosStr(ret.Pos()))
	}
	if !ff.ExplorePaths(nil, atExit, 20000) {
		c.Unknown("R9.4", "paths of GetPermission", fs.Pos(), "path budget exhausted")
		return
	}
	c.Check(len(badName) == 0 && nTokenSucc > 0 && nClientName > 0, "R9.4", "client-chosen username only when the token has none and no configured user has it", fs.Pos(),
		fmt.Sprintf("%d successful paths through the token branch: the username is the token's, or the client's under an empty token username and !desc.userExists(*creds.Username)", nTokenSucc), "a token bearer can override the token's username or take the name of a configured user (success at "+strings.Join(badName, ", ")+")")
	c.Check(len(badPerms) == 0 && nTokenSucc > 0 && len(checks) > 0, "R9.4", "token logins get exactly the token's username and permissions for this group", fs.Pos(),
		"on every successful path of the token branch the permissions returned are result #1 of tok.Check(host, groupname)", "the permissions of a token login are not exactly those returned by the token's Check for the group being joined (success at "+strings.Join(badPerms, ", ")+")")
	// perms are result #1 of tok.Check in the token branch, and the final return is dominated by validUsername
	okValid := true
	for _, ret := range ff.Returns() {
		if len(ret.Results) != 3 || !isNilIdent(info, ret.Results[2]) {
			continue
		}
		st, _ := ff.At(ret)
		if st == nil {
			continue
		}
		v := false
		for _, f := range st.Facts() {
			if f.Op == "true" && f.Pos && f.A.K == 'k' && strings.HasSuffix(f.A.Name, "validUsername") && len(f.A.Args) == 1 && f.A.Args[0].String() == TVar(uname).String() {
				v = true
			}
		}
		if !v {
			okValid = false
		}
	}
	c.Check(okValid, "R9.4", "the resulting username is validated", fs.Pos(), "every successful return is dominated by validUsername(username)", "an unvalidated username leaves GetPermission")
}

func c09Global(c *Ctx) {
	p := c.P
	fs := p.Func("webserver", "", "checkGlobalAdminToken")
	if fs == nil {
		c.Unknown("R9.5", "anchor checkGlobalAdminToken", 0, "not found")
		return
	}
	info := fs.Pkg.TypesInfo
	ok := false
	ast.Inspect(fs.Body(), func(n ast.Node) bool {
		call, isCall := n.(*ast.CallExpr)
		if !isCall || len(call.Args) != 2 {
			return true
		}
		if f := calleeOf(&CallSite{Call: call, In: fs}); f != nil && f.Name() == "Check" {
			if s, isC := constString(info, call.Args[1]); isC && s == "" {
				ok = true
			}
		}
		return true
	})
	okAdmin := false
	ff := p.Facts().Analyze(fs)
	for _, ret := range ff.Returns() {
		if len(ret.Results) == 2 && isNilIdent(info, ret.Results[1]) {
			if t := ff.term(ret.Results[0]); t != nil && t.K == 'k' && t.Name == "slices.Contains" && len(t.Args) == 2 && t.Args[1].Name == `"admin"` {
				okAdmin = true
			}
		}
	}
	c.Check(ok && okAdmin, "R9.5", "global admin token: root scope and the admin permission", fs.Pos(), "t.Check(host, \"\") then slices.Contains(perms, \"admin\")", "the global admin token is not checked against the root scope or not for the admin permission")
}

// audienceMatcher: the function (whose parameters hostIdx and groupIdx are the
// canonical host and the group) answers true only where, for some element it
// examines, matchGroup(<path>, group, ...) returned true and - with a host
// configured - the element's host compared equal to it.  Accepted shape: every
// return of the function is false or slices.ContainsFunc(xs, literal); every
// return of the literal is false, or the matchGroup call itself / true where
// that call returned true, unreachable while host != "" and the EqualFold
// test failed.
func audienceMatcher(p *Program, src *FuncSrc, hostIdx, groupIdx int) bool {
	info := src.Pkg.TypesInfo
	sparams := src.params(info)
	if src.Decl.Recv != nil {
		return false
	}
	if hostIdx >= len(sparams) || groupIdx >= len(sparams) || sparams[hostIdx] == nil || sparams[groupIdx] == nil {
		return false
	}
	hostT, groupT := TVar(sparams[hostIdx]), TVar(sparams[groupIdx])
	hostCond := func(f *Fact) bool {
		if f.Op == "eq" && !f.Pos && f.B != nil && ((f.A.Name == `""` && f.B.String() == hostT.String()) || (f.B.Name == `""` && f.A.String() == hostT.String())) {
			return true
		}
		return f.Op == "true" && !f.Pos && f.A.K == 'k' && f.A.Name == "strings.EqualFold"
	}
	okAll, nlit := true, 0
	sf := p.Facts().Analyze(src)
	for _, ret := range sf.Returns() {
		if len(ret.Results) != 1 {
			return false
		}
		r := unparen(ret.Results[0])
		if tv := info.Types[r]; tv.Value != nil && tv.Value.String() == "false" {
			continue
		}
		call, ok := r.(*ast.CallExpr)
		if !ok || len(call.Args) != 2 {
			return false
		}
		if f := calleeOf(&CallSite{Call: call, In: src}); f == nil || f.Pkg() == nil || f.Pkg().Path() != "slices" || f.Name() != "ContainsFunc" {
			return false
		}
		lit, ok := unparen(call.Args[1]).(*ast.FuncLit)
		if !ok {
			return false
		}
		ls := p.SrcOfLit(lit)
		if ls == nil {
			return false
		}
		nlit++
		if !audienceLitOK(p, ls, hostT, groupT, hostCond) {
			okAll = false
		}
	}
	return okAll && nlit > 0
}

func isMG2(m ast.Node, isMG func(ast.Expr) *ast.CallExpr) *ast.CallExpr {
	if e, ok := m.(ast.Expr); ok {
		return isMG(e)
	}
	return nil
}

// audienceLitOK: every return of the predicate literal handed to
// slices.ContainsFunc is false, or the matchGroup(<path>, group, ...) call
// itself / true where that call returned true, and is unreachable while
// host != "" and the EqualFold test failed.
func audienceLitOK(p *Program, ls *FuncSrc, hostT, groupT *Term, hostCond func(f *Fact) bool) bool {
	info := ls.Pkg.TypesInfo
	lf := p.Facts().Analyze(ls)
	isMG := func(e ast.Expr) *ast.CallExpr {
		mc, ok := unparen(e).(*ast.CallExpr)
		if !ok || len(mc.Args) != 3 || !fnIs(calleeOf(&CallSite{Call: mc, In: ls}), "token", "", "matchGroup") {
			return nil
		}
		if t := lf.term(mc.Args[1]); t == nil || t.String() != groupT.String() {
			return nil
		}
		return mc
	}
	okAll, nret := true, 0
	for _, lr := range lf.Returns() {
		if len(lr.Results) != 1 {
			return false
		}
		e := unparen(lr.Results[0])
		if tv := info.Types[e]; tv.Value != nil && tv.Value.String() == "false" {
			continue
		}
		nret++
		okRet := false
		if mc := isMG(e); mc != nil {
			okRet = true
		} else if tv := info.Types[e]; tv.Value != nil && tv.Value.String() == "true" {
			if st, _ := lf.At(lr); st != nil {
				ast.Inspect(ls.Body(), func(m ast.Node) bool {
					if mc := isMG2(m, isMG); mc != nil && st.HasFact(mkFact(true, "true", &Term{K: 'r', Name: "res0", Pos: mc.Lparen}, nil)) {
						okRet = true
					}
					return true
				})
			}
		}
		if !okRet {
			okAll = false
			continue
		}
		if reach, _ := lf.ReachableNotRefuting(lr, hostCond); reach {
			okAll = false
		}
	}
	return okAll && nret > 0
}
