package main

import (
	"fmt"
	"go/ast"
	"go/token"
	"go/types"
	"strings"

	"golang.org/x/tools/go/ssa"
)

func init() {
	register(&Property{
		ID:        "C10",
		Title:     "Admission rules (lock, capacity, time window, autolock/autokick) always hold",
		Technique: "CFG path rules with conjunction refutation, must-fact dataflow, and lock-region analysis on group.AddClient / DelClient / autoLockKick",
		Decides: "R10.1: in group.AddClient the insertion into g.clients cannot execute while a refusal condition holds for a non-operator, non-system client (group locked; before not-before; after expires; autokick without an operator; max-clients reached), nor for an empty or duplicate id: every path to the insertion takes an edge that refutes the condition. " +
			"R10.2: the admission reads, the insertion and the announcements happen in one critical section of Group.mu (no unlock in between), which is what bounds membership under racing joins. " +
			"R10.3: autoLockKick runs under Group.mu at every call site, and in DelClient in the same critical section as the removal and on every path after it. " +
			"R10.4: a rejected client is announced to no one: every Joined/PushClient call in AddClient is dominated by the insertion and no error return is reachable after it. " +
			"R10.5: autoLockKick locks only under autolock, with the group unlocked and no operator among the members; add() re-evaluates it after every description change.",
		NotDecided: []string{
			"the window between Add(group,nil) releasing the locks and AddClient re-taking g.mu (an orphan Group object is an instance-level fact)",
			"time comparisons exactly at the boundaries",
			"that the operator test uses the permissions of the matched credentials (C08)",
		},
		Assumptions: []string{"conditions are refuted syntactically: an edge refutes a conjunction when it establishes the complement of one conjunct or is the false edge of a test made only of conjuncts"},
		Run:         runC10,
	})
}

func runC10(c *Ctx) {
	p := c.P
	ac := p.Func("group", "", "AddClient")
	dc := p.Func("group", "", "DelClient")
	alk := p.Func("group", "", "autoLockKick")
	add := p.Func("group", "", "add")
	c.Rule("R10.1", "E3", "the insertion g.clients[id] = c is unreachable while a refusal condition holds", 8)
	c.Rule("R10.2", "E5", "admission tests, member snapshot, insertion and announcements share one critical section of Group.mu", 4)
	c.Rule("R10.3", "E5/E3", "autoLockKick always runs under Group.mu; in DelClient in the critical section of the removal, on every path", 3)
	c.Rule("R10.4", "E3", "announcements only after the insertion; no refusal after it", 4)
	c.Rule("R10.5", "E2", "autoLockKick locks exactly under autolock, unlocked, no operator present; add() calls it on every successful path", 4)
	if ac == nil || dc == nil || alk == nil || add == nil {
		c.Unknown("R10.1", "anchors", 0, "group.AddClient / DelClient / autoLockKick / add no longer resolve")
		return
	}
	eng := p.Facts()
	ff := eng.Analyze(ac)
	info := ac.Pkg.TypesInfo
	fClients := p.Field("group", "Group", "clients")
	fLocked := p.Field("group", "Group", "locked")
	fNB := p.Field("group", "Description", "NotBefore")
	fExp := p.Field("group", "Description", "Expires")
	fAK := p.Field("group", "Description", "Autokick")
	fAL := p.Field("group", "Description", "Autolock")
	fMax := p.Field("group", "Description", "MaxClients")
	if fClients == nil || fLocked == nil || fNB == nil || fExp == nil || fAK == nil || fAL == nil || fMax == nil {
		c.Unknown("R10.1", "anchor fields", 0, "Group/Description fields no longer resolve")
		return
	}
	// the insertion statement
	var insertion *ast.AssignStmt
	ast.Inspect(ac.Body(), func(n ast.Node) bool {
		as, ok := n.(*ast.AssignStmt)
		if !ok || len(as.Lhs) != 1 {
			return true
		}
		if ix, ok := unparen(as.Lhs[0]).(*ast.IndexExpr); ok {
			if t := ff.term(ix.X); t != nil && t.K == 'f' && t.Obj == types.Object(fClients) {
				insertion = as
			}
		}
		return true
	})
	if insertion == nil {
		c.Unknown("R10.1", "insertion", ac.Pos(), "no assignment g.clients[...] = ... in AddClient")
		return
	}
	insIdx := unparen(insertion.Lhs[0]).(*ast.IndexExpr)
	idTerm := ff.term(insIdx.Index)
	mentionsField := func(t *Term, f *types.Var) bool {
		hit := false
		t.walk(func(x *Term) {
			if x.K == 'f' && x.Obj == types.Object(f) {
				hit = true
			}
		})
		return hit
	}
	// the "no operator present" flag(s): bool locals only set true under an op test of a member
	opsFlags := map[types.Object]bool{}
	ast.Inspect(ac.Body(), func(n ast.Node) bool {
		as, ok := n.(*ast.AssignStmt)
		if !ok || len(as.Lhs) != 1 || len(as.Rhs) != 1 {
			return true
		}
		id, ok := unparen(as.Lhs[0]).(*ast.Ident)
		if !ok {
			return true
		}
		o := info.ObjectOf(id)
		if o == nil || !types.Identical(o.Type(), types.Typ[types.Bool]) {
			return true
		}
		st, _ := ff.At(as)
		// only flags that live in the autokick region
		inAK := false
		if st != nil {
			for _, f := range st.Facts() {
				if f.Op == "true" && f.Pos && mentionsField(f.A, fAK) {
					inAK = true
				}
			}
		}
		if !inAK {
			return true
		}
		sound := false
		if tv := info.Types[as.Rhs[0]]; tv.Value != nil {
			switch tv.Value.String() {
			case "false":
				sound = true
			case "true":
				if st != nil {
					for _, f := range st.Facts() {
						if a, is := isContains(f, "op"); is && f.Pos && a.K == 'k' && strings.HasSuffix(a.Name, ".Permissions") {
							sound = true
						}
					}
				}
			}
		}
		if prev, seen := opsFlags[o]; !seen {
			opsFlags[o] = sound
		} else {
			opsFlags[o] = prev && sound
		}
		return true
	})
	// the same test delegated to a function: it returns true only where a
	// member's permissions were found to contain "op"
	opsPredSites := map[token.Pos]bool{}
	opsPreds := map[*types.Func]bool{}
	for _, cs := range p.CallSites() {
		if cs.In.Root() != ac {
			continue
		}
		f := calleeOf(cs)
		if f == nil || f.Pkg() != ac.Pkg.Types {
			continue
		}
		sig, _ := f.Type().(*types.Signature)
		if sig == nil || sig.Results().Len() != 1 || !types.Identical(sig.Results().At(0).Type(), types.Typ[types.Bool]) {
			continue
		}
		sound, seen := opsPreds[f]
		if !seen {
			var src *FuncSrc
			for _, q := range p.Sources() {
				if q.Obj == f && q.Decl != nil {
					src = q
				}
			}
			if src == nil {
				continue
			}
			nTrue, okAll := opPredicateReturns(p, src)
			if nTrue == 0 {
				continue // not a test for operators at all
			}
			sound = okAll
			opsPreds[f] = sound
			c.Check(sound, "R10.1", "operator-present flag "+f.Name(), src.Pos(),
				"returns true only under slices.Contains(member.Permissions(), \"op\")", "the function reporting that an operator is present can say so without an operator")
		}
		if sound {
			opsPredSites[cs.Call.Lparen] = true
		}
	}
	// slices.ContainsFunc(members, <member holds op>) written out in AddClient
	ast.Inspect(ac.Body(), func(n ast.Node) bool {
		call, ok := n.(*ast.CallExpr)
		if !ok {
			return true
		}
		if f := calleeOf(&CallSite{Call: call, In: ac}); f == nil || f.Pkg() == nil || f.Pkg().Path() != "slices" || f.Name() != "ContainsFunc" {
			return true
		}
		if learnt := ff.containsFuncFalse(emptyState, call); learnt != nil {
			for _, f := range learnt.Facts() {
				if a, is := isContains(f, "op"); is && !f.Pos && a.K == 'k' && len(a.Args) == 1 && a.Args[0].K == 'o' && a.Args[0].Name == "each" {
					if !opsPredSites[call.Lparen] {
						opsPredSites[call.Lparen] = true
						c.OK("R10.1", "operator-present flag ContainsFunc", call.Pos(), "slices.ContainsFunc(members, m holds \"op\"): true only if an operator is among them")
					}
				}
			}
		}
		return true
	})
	// op := slices.IndexFunc(members, <member holds op>): op < 0 says no operator is present
	opsIndexVars := map[types.Object]bool{}
	ast.Inspect(ac.Body(), func(n ast.Node) bool {
		as, ok := n.(*ast.AssignStmt)
		if !ok || len(as.Lhs) != 1 || len(as.Rhs) != 1 {
			return true
		}
		id, ok := as.Lhs[0].(*ast.Ident)
		call, ok2 := unparen(as.Rhs[0]).(*ast.CallExpr)
		if !ok || !ok2 {
			return true
		}
		if f := calleeOf(&CallSite{Call: call, In: ac}); f == nil || f.Pkg() == nil || f.Pkg().Path() != "slices" || f.Name() != "IndexFunc" {
			return true
		}
		o := info.ObjectOf(id)
		sound := false
		if learnt := ff.containsFuncFalse(emptyState, call); learnt != nil {
			for _, f := range learnt.Facts() {
				if a, is := isContains(f, "op"); is && !f.Pos && a.K == 'k' && len(a.Args) == 1 && a.Args[0].K == 'o' && a.Args[0].Name == "each" {
					sound = true
				}
			}
		}
		// the variable has no other definition
		ndef := 0
		ast.Inspect(ac.Body(), func(m ast.Node) bool {
			if as2, isAs := m.(*ast.AssignStmt); isAs {
				for _, l := range as2.Lhs {
					if lid, isId := l.(*ast.Ident); isId && info.ObjectOf(lid) == o {
						ndef++
					}
				}
			}
			return true
		})
		sound = sound && ndef == 1
		opsIndexVars[o] = sound
		c.Check(sound, "R10.1", "operator-present flag "+id.Name, as.Pos(),
			"the index of the first member for which slices.Contains(member.Permissions(), \"op\") holds", "the value recording that an operator is present can say so without an operator")
		return true
	})
	nonOp := func(f *Fact) bool { // !slices.Contains(perms, "op") on the joining client's permissions
		a, is := isContains(f, "op")
		return is && !f.Pos && a.K == 'v'
	}
	nonSystem := func(f *Fact) bool {
		_, is := isContains(f, "system")
		return is && !f.Pos
	}
	type refusal struct {
		name   string
		atoms  func(f *Fact) bool
		exempt bool // operators and system clients are exempt
		why    string
	}
	refusals := []refusal{
		{"locked", func(f *Fact) bool {
			return f.Op == "eq" && !f.Pos && ((f.A.K == 'n' && mentionsField(f.B, fLocked)) || (f.B.K == 'n' && mentionsField(f.A, fLocked)))
		}, true, "a non-operator joins a locked group"},
		{"not-before", func(f *Fact) bool {
			if f.Op == "eq" && !f.Pos && ((f.A.K == 'n' && mentionsField(f.B, fNB)) || (f.B != nil && f.B.K == 'n' && mentionsField(f.A, fNB))) {
				return true
			}
			if f.Op == "true" && f.Pos && f.A.K == 'k' && strings.HasSuffix(f.A.Name, ".Before") && len(f.A.Args) > 1 && mentionsField(f.A.Args[1], fNB) {
				return true // now.Before(*NotBefore), the same test written from the other side
			}
			return f.Op == "true" && f.Pos && f.A.K == 'k' && strings.HasSuffix(f.A.Name, ".After") && len(f.A.Args) > 0 && mentionsField(f.A.Args[0], fNB)
		}, true, "a non-operator joins before the group opens"},
		{"expires", func(f *Fact) bool {
			if f.Op == "eq" && !f.Pos && ((f.A.K == 'n' && mentionsField(f.B, fExp)) || (f.B != nil && f.B.K == 'n' && mentionsField(f.A, fExp))) {
				return true
			}
			if f.Op == "true" && f.Pos && f.A.K == 'k' && strings.HasSuffix(f.A.Name, ".After") && len(f.A.Args) > 1 && mentionsField(f.A.Args[1], fExp) {
				return true // now.After(*Expires)
			}
			return f.Op == "true" && f.Pos && f.A.K == 'k' && strings.HasSuffix(f.A.Name, ".Before") && len(f.A.Args) > 0 && mentionsField(f.A.Args[0], fExp)
		}, true, "a non-operator joins after the group closed"},
		{"autokick", func(f *Fact) bool {
			if f.Op == "true" && f.Pos && mentionsField(f.A, fAK) {
				return true
			}
			if f.Op == "true" && !f.Pos && f.A.K == 'r' && f.A.Name == "res0" && opsPredSites[f.A.Pos] {
				return true
			}
			if f.Op == "lt" && f.Pos && f.A.K == 'v' && opsIndexVars[f.A.Obj] && f.B != nil && f.B.K == 'c' && f.B.Name == "0" {
				return true
			}
			if f.Op == "true" && !f.Pos && f.A.K == 'k' {
				if fn, isFn := f.A.Obj.(*types.Func); isFn && opsPreds[fn] {
					return true
				}
			}
			return f.Op == "true" && !f.Pos && f.A.K == 'v' && opsFlags[f.A.Obj]
		}, true, "a non-operator joins an autokick group with no operator present"},
		{"max-clients", func(f *Fact) bool {
			if f.Op != "lt" || f.B == nil {
				return false
			}
			if f.Pos && f.A.K == 'c' && f.A.Name == "0" && mentionsField(f.B, fMax) {
				return true // MaxClients > 0
			}
			// len(g.clients) >= MaxClients  ==  !(len < Max)
			return !f.Pos && f.A.K == 'k' && f.A.Name == "len" && mentionsField(f.A, fClients) && mentionsField(f.B, fMax)
		}, true, "a non-operator joins a full group"},
		{"empty id", func(f *Fact) bool {
			if f.Op != "eq" || !f.Pos || idTerm == nil {
				return false
			}
			return (f.A.Name == `""` && f.B.String() == idTerm.String()) || (f.B.Name == `""` && f.A.String() == idTerm.String())
		}, false, "a client with an empty id becomes a member"},
		{"duplicate id", func(f *Fact) bool {
			if f.Op != "eq" || f.Pos || f.B == nil {
				return false
			}
			isSlot := func(t *Term) bool {
				return t.K == 'i' && mentionsField(t.Args[0], fClients) && idTerm != nil && t.Args[1].String() == idTerm.String()
			}
			return (f.A.K == 'n' && isSlot(f.B)) || (f.B.K == 'n' && isSlot(f.A))
		}, false, "two clients with the same id are both members"},
	}
	for o, ok := range opsFlags {
		c.Check(ok, "R10.1", "operator-present flag "+o.Name(), o.Pos(),
			"set to true only under slices.Contains(member.Permissions(), \"op\")", "the flag recording that an operator is present can be set without an operator")
	}
	for _, r := range refusals {
		r := r
		conj := func(f *Fact) bool {
			if r.atoms(f) {
				return true
			}
			return r.exempt && (nonOp(f) || nonSystem(f))
		}
		reach, path := ff.ReachableNotRefuting(insertion, conj)
		if reach {
			c.Bad("R10.1", "admission: "+r.name, insertion.Pos(), "%s: the insertion is reachable along branches %s without refuting the refusal condition", r.why, strings.Join(path, " "))
		} else {
			c.OK("R10.1", "admission: "+r.name, insertion.Pos(), "every path to the insertion refutes the condition (or establishes operator/system)")
		}
	}

	// ---- R10.2 one critical section ----
	la := NewLockAnalysis(p)
	var gmu *LockClass
	for _, cl := range la.classes {
		if cl.Name == "group.Group.mu" {
			gmu = cl
		}
	}
	sfn := p.SSAFunc(ac.Obj)
	if gmu == nil || sfn == nil {
		c.Unknown("R10.2", "anchor Group.mu", 0, "lock class not found")
	} else {
		explicitUnlock, locks := 0, 0
		var storePos, announce []ssa.Instruction
		for _, b := range sfn.Blocks {
			for _, ins := range b.Instrs {
				if call, ok := ins.(*ssa.Call); ok {
					if k, cls, ok2 := la.lockOp(call.Common()); ok2 && cls == gmu.ID {
						if k == 1 {
							locks++
						}
						if k == 2 {
							explicitUnlock++
						}
					}
					if call.Call.IsInvoke() && (call.Call.Method.Name() == "Joined" || call.Call.Method.Name() == "PushClient") {
						announce = append(announce, ins)
					}
				}
				if mu, ok := ins.(*ssa.MapUpdate); ok && valueEntity(mu.Map) == types.Object(fClients) {
					storePos = append(storePos, ins)
				}
			}
		}
		c.Check(locks == 1 && explicitUnlock == 0, "R10.2", "AddClient: single lock region", ac.Pos(),
			"Group.mu is taken once and released only by the deferred unlock", fmt.Sprintf("AddClient takes Group.mu %d time(s) and unlocks it explicitly %d time(s): the admission tests and the insertion are no longer atomic", locks, explicitUnlock))
		okHeld := len(storePos) > 0
		for _, ins := range append(storePos, announce...) {
			if !la.instIn[ins][1].has(gmu.ID) {
				okHeld = false
			}
		}
		c.Check(okHeld, "R10.2", "AddClient: insertion and announcements under the lock", ac.Pos(),
			fmt.Sprintf("the insertion and %d announcement calls hold Group.mu", len(announce)), "the insertion or an announcement runs without Group.mu")
		// admission reads under the lock: every access to locked/description/clients in AddClient
		bad := 0
		n := 0
		for _, a := range la.accesses {
			if a.fn != sfn {
				continue
			}
			nm := la.owner[a.field]
			if nm == "group.Group.locked" || nm == "group.Group.clients" || nm == "group.Group.description" {
				n++
				if !a.must.has(gmu.ID) {
					bad++
				}
			}
		}
		// the member snapshot the admission tests and the announcements range over is
		// taken inside the critical section of the insertion
		nsnap, badSnap := 0, 0
		for _, b := range sfn.Blocks {
			for _, ins := range b.Instrs {
				call, ok := ins.(*ssa.Call)
				if !ok || call.Referrers() == nil || len(*call.Referrers()) == 0 {
					continue
				}
				sl, ok := call.Type().Underlying().(*types.Slice)
				if !ok {
					continue
				}
				if nt, ok := sl.Elem().(*types.Named); !ok || nt.Obj().Name() != "Client" || nt.Obj().Pkg() == nil || nt.Obj().Pkg().Name() != "group" {
					continue
				}
				nsnap++
				f := call.Call.StaticCallee()
				if f == nil || f.Name() != "getClientsUnlocked" || !la.instIn[ins][1].has(gmu.ID) {
					badSnap++
				}
			}
		}
		c.Check(badSnap == 0 && nsnap > 0, "R10.2", "AddClient: member snapshot taken under the lock", ac.Pos(),
			fmt.Sprintf("%d member list(s) read with getClientsUnlocked while Group.mu is held", nsnap), fmt.Sprintf("%d member list(s) used by AddClient are not read inside the critical section of the insertion: the operator-present test and the announcements work on a stale membership", badSnap))
		c.Check(bad == 0 && n > 0, "R10.2", "AddClient: admission reads under the lock", ac.Pos(),
			fmt.Sprintf("%d reads of locked/clients/description hold Group.mu", n), fmt.Sprintf("%d admission reads happen without Group.mu", bad))
	}

	// ---- R10.3 autoLockKick ----
	if gmu != nil {
		afn := p.SSAFunc(alk.Obj)
		n := p.CallGraph().Nodes[afn]
		k := newKeyer()
		if n != nil {
			for _, e := range n.In {
				if e.Site == nil {
					continue
				}
				held := la.instIn[e.Site][1].has(gmu.ID)
				key := k.key("call group.autoLockKick in", ssaFuncName(e.Caller.Func))
				if strings.HasPrefix(key, "call group.autoLockKick in group.DelClient") {
					key = "call group.autoLockKick in group.DelClient without group.Group.mu"
				}
				c.Check(held, "R10.3", key, e.Site.Pos(), "Group.mu held at the call", "autoLockKick (\"called locked\") is invoked without Group.mu: the re-lock races with joins")
			}
		}
		// in DelClient: same critical section as the delete, on every path after it
		dff := eng.Analyze(dc)
		var del *ast.CallExpr
		ast.Inspect(dc.Body(), func(nd ast.Node) bool {
			if call, ok := nd.(*ast.CallExpr); ok && isBuiltin(dc.Pkg.TypesInfo, call, "delete") {
				del = call
			}
			return true
		})
		if del == nil {
			c.Unknown("R10.3", "DelClient: removal", dc.Pos(), "no delete(g.clients, ...) in DelClient")
		} else {
			// flag: 0 = still in the critical section, 1 = unlocked, 2 = autoLockKick done in section
			step := func(nd ast.Node, st *State, flag int) (int, bool) {
				ast.Inspect(nd, func(x ast.Node) bool {
					call, ok := x.(*ast.CallExpr)
					if !ok {
						return true
					}
					f := calleeOf(&CallSite{Call: call, In: dc})
					if f != nil && f.Pkg() != nil && f.Pkg().Path() == "sync" && f.Name() == "Unlock" && flag == 0 {
						flag = 1
					}
					if fnIs(f, "group", "", "autoLockKick") && flag == 0 {
						flag = 2
					}
					return true
				})
				return flag, false
			}
			pos, found := dff.PathSearch(del, 0, step, nil, func(flag int) bool { return flag != 2 })
			c.Check(!found, "R10.3", "DelClient: autolock re-evaluated in the removal's critical section", del.Pos(),
				"every path from the removal reaches autoLockKick before Group.mu is released",
				"after removing a member DelClient can release Group.mu (or return, at "+p.PosStr(pos)+") before autoLockKick ran: a join can be admitted between the last operator leaving and the re-lock")
		}
	}

	// ---- R10.4 announcements only after insertion ----
	k := newKeyer()
	ast.Inspect(ac.Body(), func(n ast.Node) bool {
		call, ok := n.(*ast.CallExpr)
		if !ok {
			return true
		}
		f := calleeOf(&CallSite{Call: call, In: ac})
		if !(p.ifaceMethodIs(f, "group", "Client", "Joined") || p.ifaceMethodIs(f, "group", "Client", "PushClient")) {
			return true
		}
		c.Check(ff.DominatedByNode(call, insertion), "R10.4", k.key("AddClient:", f.Name(), "after insertion"), call.Pos(),
			"every path to the announcement executes the insertion first", "a client can be announced before (or without) being inserted: a rejected client is announced")
		return true
	})
	var badRet []string
	for _, ret := range ff.Returns() {
		if ff.ReachableFrom(insertion, ret) && (len(ret.Results) != 2 || !isNilIdent(info, ret.Results[1])) {
			badRet = append(badRet, p.PosStr(ret.Pos()))
		}
	}
	c.Check(len(badRet) == 0, "R10.4", "AddClient: no refusal after insertion", insertion.Pos(),
		"every return reachable after the insertion returns a nil error", "a refusal is reachable after the insertion (at "+strings.Join(badRet, ", ")+"): a rejected client is a member")

	// ---- R10.5 autoLockKick condition; add() calls it ----
	aff := eng.Analyze(alk)
	found := false
	ast.Inspect(alk.Body(), func(n ast.Node) bool {
		as, ok := n.(*ast.AssignStmt)
		if !ok || len(as.Lhs) != 1 {
			return true
		}
		t := aff.term(as.Lhs[0])
		if t == nil || t.K != 'f' || t.Obj != types.Object(fLocked) {
			return true
		}
		found = true
		st, _ := aff.At(as)
		var miss []string
		has := func(pred func(f *Fact) bool) bool {
			if st == nil {
				return true
			}
			for _, f := range st.Facts() {
				if pred(f) {
					return true
				}
			}
			return false
		}
		if !has(func(f *Fact) bool { return f.Op == "true" && f.Pos && mentionsField(f.A, fAL) }) {
			miss = append(miss, "description.Autolock")
		}
		if !has(func(f *Fact) bool {
			return f.Op == "eq" && f.Pos && f.B != nil && ((f.A.K == 'n' && mentionsField(f.B, fLocked)) || (f.B.K == 'n' && mentionsField(f.A, fLocked)))
		}) {
			miss = append(miss, "locked == nil")
		}
		if !has(func(f *Fact) bool {
			a, is := isContains(f, "op")
			if !is || f.Pos || a.K != 'k' || len(a.Args) != 1 {
				return false
			}
			return a.Args[0].K == 'o' && a.Args[0].Name == "each"
		}) {
			miss = append(miss, "no member holds op (loop over the members with early return)")
		}
		c.Check(len(miss) == 0, "R10.5", "autoLockKick: lock condition", as.Pos(),
			"g.locked is set only under Autolock, locked == nil and no operator among the members", "the automatic lock is set without: "+strings.Join(miss, ", "))
		return true
	})
	if !found {
		c.Bad("R10.5", "autoLockKick: lock condition", alk.Pos(), "autoLockKick never sets g.locked: autolock does not lock")
	}
	// completeness: while autolock applies (Autolock, not yet locked) the
	// function gives up only because an operator is present
	{
		// slices.ContainsFunc(members, <v holds op>) is the same test as the loop
		opTestSite := map[token.Pos]bool{}
		ast.Inspect(alk.Body(), func(n ast.Node) bool {
			if call, ok := n.(*ast.CallExpr); ok {
				if f := calleeOf(&CallSite{Call: call, In: alk}); f != nil && f.Pkg() == alk.Pkg.Types {
					for _, q := range p.Sources() {
						if q.Obj == f && q.Decl != nil {
							if nt, okAll := opPredicateReturns(p, q); nt > 0 && okAll {
								opTestSite[call.Lparen] = true
							}
						}
					}
				}
				if learnt := aff.containsFuncFalse(emptyState, call); learnt != nil {
					for _, f := range learnt.Facts() {
						if a, is := isContains(f, "op"); is && !f.Pos && a.K == 'k' && len(a.Args) == 1 && a.Args[0].K == 'o' && a.Args[0].Name == "each" {
							opTestSite[call.Lparen] = true
						}
					}
				}
			}
			return true
		})
		P := func(f *Fact) bool {
			switch {
			case f.Op == "true" && !f.Pos && f.A.K == 'r' && f.A.Name == "res0" && opTestSite[f.A.Pos]:
				return true
			case f.Op == "true" && f.Pos && mentionsField(f.A, fAL):
				return true
			case f.Op == "eq" && f.Pos && f.B != nil && ((f.A.K == 'n' && mentionsField(f.B, fLocked)) || (f.B.K == 'n' && mentionsField(f.A, fLocked))):
				return true
			}
			if _, is := isContains(f, "op"); is && !f.Pos {
				return true
			}
			return false
		}
		var lockStore ast.Node
		ast.Inspect(alk.Body(), func(n ast.Node) bool {
			if as, ok := n.(*ast.AssignStmt); ok && len(as.Lhs) == 1 {
				if t := aff.term(as.Lhs[0]); t != nil && t.K == 'f' && t.Obj == types.Object(fLocked) {
					lockStore = as
				}
			}
			return true
		})
		var early []string
		for _, ret := range aff.Returns() {
			if lockStore != nil && aff.ReachableFrom(lockStore, ret) {
				continue
			}
			if reach, _ := aff.ReachableNotRefuting(ret, P); reach {
				early = append(early, p.PosStr(ret.Pos()))
			}
		}
		c.Check(lockStore != nil && len(early) == 0, "R10.5", "autoLockKick: gives up only when an operator is present or autolock does not apply", alk.Pos(),
			"no return before the lock is reachable with Autolock set, the group unlocked and no operator found", "autoLockKick can return (at "+strings.Join(early, ", ")+") without locking although autolock applies and no operator is present (e.g. an empty group): a non-operator is admitted to an operator-less autolock group")
	}
	// the members inspected are the group's current members
	okSnap := false
	ast.Inspect(alk.Body(), func(n ast.Node) bool {
		if call, ok := n.(*ast.CallExpr); ok && fnIs(calleeOf(&CallSite{Call: call, In: alk}), "group", "Group", "getClientsUnlocked") {
			okSnap = true
		}
		return true
	})
	c.Check(okSnap, "R10.5", "autoLockKick: inspects the current members", alk.Pos(), "members read with getClientsUnlocked under the caller's lock", "autoLockKick no longer reads the member list")
	// add(): every nil-error return is preceded by autoLockKick
	addff := eng.Analyze(add)
	eng.Event(alk.Obj)
	addff = eng.Analyze(add)
	var badAdd []string
	nok := 0
	for _, ex := range addff.Exits() {
		if ex.Ret == nil || len(ex.Ret.Results) != 3 || !isNilIdent(add.Pkg.TypesInfo, ex.Ret.Results[2]) {
			continue
		}
		nok++
		called := false
		if ex.St != nil {
			for _, f := range ex.St.Facts() {
				if f.Op == "true" && f.Pos && f.A.K == 'o' && f.A.Name == "called:"+funcName(alk.Obj) {
					called = true
				}
			}
		}
		if !called {
			badAdd = append(badAdd, p.PosStr(ex.Pos))
		}
	}
	c.Check(len(badAdd) == 0 && nok > 0, "R10.5", "add: autolock evaluated on every successful path", add.Pos(),
		"autoLockKick(g) precedes every successful return of add (a group with autolock starts locked; a description change re-evaluates it)",
		"add can succeed without evaluating autolock (returns at "+strings.Join(badAdd, ", ")+")")
}

// isContains: the fact is about slices.Contains(X, "perm"); returns X.
func isContains(f *Fact, perm string) (*Term, bool) {
	if f.Op != "true" || f.A.K != 'k' || f.A.Name != "slices.Contains" || len(f.A.Args) != 2 {
		return nil, false
	}
	if f.A.Args[1].K != 'c' || f.A.Args[1].Name != fmt.Sprintf("%q", perm) {
		return nil, false
	}
	return f.A.Args[0], true
}

// opPredicateReturns examines a boolean function: nTrue counts the returns
// that can yield true and do so only where a member's permissions were found
// to contain "op" (`return true` under slices.Contains(x.Permissions(), "op"),
// or `return slices.ContainsFunc(xs, <x holds op>)`); okAll is false when some
// return can yield true otherwise.
func opPredicateReturns(p *Program, src *FuncSrc) (nTrue int, okAll bool) {
	qf := p.Facts().Analyze(src)
	okAll = true
	for _, ret := range qf.Returns() {
		if len(ret.Results) != 1 {
			okAll = false
			continue
		}
		tv := src.Pkg.TypesInfo.Types[ret.Results[0]]
		if tv.Value != nil && tv.Value.String() == "false" {
			continue
		}
		under := false
		st, _ := qf.At(ret)
		if st != nil && tv.Value != nil && tv.Value.String() == "true" {
			for _, fa := range st.Facts() {
				if a, is := isContains(fa, "op"); is && fa.Pos && a.K == 'k' && strings.HasSuffix(a.Name, ".Permissions") {
					under = true
				}
			}
		}
		if call, isCall := unparen(ret.Results[0]).(*ast.CallExpr); isCall && tv.Value == nil {
			if learnt := qf.containsFuncFalse(emptyState, call); learnt != nil {
				for _, f := range learnt.Facts() {
					if a, is := isContains(f, "op"); is && !f.Pos && a.K == 'k' && len(a.Args) == 1 && a.Args[0].K == 'o' && a.Args[0].Name == "each" {
						under = true
					}
				}
			}
		}
		if under {
			nTrue++
		} else {
			okAll = false
		}
	}
	return
}
