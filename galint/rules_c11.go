package main

import (
	"fmt"
	"go/ast"
	"go/token"
	"go/types"
	"strings"
)

func init() {
	register(&Property{
		ID:        "C11",
		Title:     "Every privileged action requires its permission; non-members hold none",
		Technique: "must-fact dataflow (go/cfg, typed AST) with interprocedural requirement propagation; CFG path rules; sink table resolved through go/types",
		Decides: "R11.1: every privileged sink of the signalling handler (publishing, chat forwarding/history, clearchat, lock, subgroups, setdata, kick, permission changes, identify, record/unrecord, token create/edit/list) is dominated on every path by the test of its permission on the acting client, by current membership (c.group != nil) and - where the sink acts on a group or a token - by the identity of that group with the member's own group; token creation additionally by expiry present, no subgroup scope, and the subset loop over the delegated permissions. " +
			"R11.2: group.AddClient installs permissions (Client.Init) only on a path that ends in admission, and the join handler records the group (or removes the client again) on every path after a successful AddClient. " +
			"R11.3: losing 'present' closes every up-stream with push; leaveGroup clears permissions and group; a permission change always enqueues the notification. " +
			"R11.6: a queued permission change is applied only in the group it was issued for: every store to the client's permission list in the action handler is dominated by the identity of the client's current group with the group the action carries, and the action is built with the issuer's own group (F-V). " +
			"R11.5: revoking a permission (unop, unpresent, shutup) stores a list that no longer contains it, however often it was listed: the helper that removes it deletes every occurrence (slices.DeleteFunc with an equality predicate, or a filtering loop that does not stop at the first hit) and each revocation stores that helper's result (F-U). " +
			"R11.4: WHIP ingest creates a connection only after a successful AddClient and a 'present' test, removing the client on failure; every effect of the WHIP resource handler is guarded by the bearer-token comparison (or an empty session token).",
		NotDecided: []string{
			"'from the moment the affected client has been notified' (ordering of the target's queue against its own messages is a schedule-level fact)",
			"the data race on webClient.permissions between its owner and readers under the group lock",
			"in-place edits of a permission slice through an alias (decided separately by C08 R8.5)",
		},
		Assumptions: []string{
			"a must-fact is killed by every store to a field it mentions (any base object) and by every call whose transitive mod-summary contains such a field; other goroutines are not considered",
			"trivial getters `func (r T) M() X { return r.f }` denote the field",
		},
		Run: runC11,
	})
}

type c11env struct {
	c     *Ctx
	p     *Program
	eng   *FactEngine
	perms *types.Var // webClient.permissions
	grp   *types.Var // webClient.group
	gname *types.Var // Group.name
	cont  *types.Func
	k     *keyer
}

func (e *c11env) permFact(ct *Term, perm *Term) *Fact {
	return mkFact(true, "true", TCall("slices.Contains", e.cont, TField(ct, e.perms), perm), nil)
}

func (e *c11env) memberFact(ct *Term) *Fact {
	return mkFact(false, "eq", TField(ct, e.grp), TNil())
}

func runC11(c *Ctx) {
	p := c.P
	env := &c11env{c: c, p: p, eng: p.Facts(), k: newKeyer()}
	env.perms = p.Field("rtpconn", "webClient", "permissions")
	env.grp = p.Field("rtpconn", "webClient", "group")
	env.gname = p.Field("group", "Group", "name")
	if sp := p.ByPath["slices"]; sp != nil {
		env.cont, _ = sp.Types.Scope().Lookup("Contains").(*types.Func)
	}
	c.Rule("R11.1", "E2", "every privileged sink is dominated by its permission test, membership and group identity", 21)
	c.Rule("R11.2", "E3", "permissions are installed only on admission; a successful AddClient is always recorded or undone", 2)
	c.Rule("R11.3", "E2/E3", "revocation: losing present closes up-streams with push; leaveGroup clears permissions and group; permission changes are announced", 5)
	c.Rule("R11.4", "E2/E3", "WHIP: connection only with present after admission; resource effects guarded by the bearer token", 9)
	c.Rule("R11.5", "E4", "a revocation removes every occurrence of the permission", 4)
	defer runC11Revoke(c)
	c.Rule("R11.6", "E2", "a queued permission change is applied only in the group it was issued for", 7)
	defer runC11ChangeGroup(c)
	if env.perms == nil || env.grp == nil || env.gname == nil || env.cont == nil {
		c.Unknown("R11.1", "anchors", 0, "webClient.permissions / webClient.group / Group.name / slices.Contains no longer resolve")
		return
	}
	// typestate events used by R11.2/R11.3
	for _, ev := range [][3]string{{"group", "", "DelClient"}, {"rtpconn", "", "leaveGroup"}, {"rtpconn", "webClient", "action"}} {
		if f := p.Func(ev[0], ev[1], ev[2]); f != nil {
			env.eng.Event(f.Obj)
		}
	}
	env.sinks()
	env.admission()
	env.revocation()
	env.whip()
}

// ---------- R11.1 ----------

type sinkSpec struct {
	name    string
	match   func(f *types.Func, cs *CallSite) bool
	perms   []string // all required
	anyOf   []string // one of (alternative to perms)
	chat    bool     // message / caption rule
	grpArg  int      // index of the argument that must be the member's group (-1 none; -2 receiver)
	nameArg int      // index of the argument that must be the member's group's name (-1 none)
	extra   func(e *c11env, cs *CallSite, ct *Term) (missing []string)
}

func (e *c11env) sinks() {
	p := e.p
	wc := p.TypeName("rtpconn", "webClient")
	dw := p.TypeName("diskwriter", "Client")
	isPkgFn := func(pkg, recv, name string) func(*types.Func, *CallSite) bool {
		return func(f *types.Func, cs *CallSite) bool { return fnIs(f, pkg, recv, name) }
	}
	specs := []sinkSpec{
		{name: "publish addUpConn", match: isPkgFn("rtpconn", "", "addUpConn"), perms: []string{"present"}, grpArg: -1, nameArg: -1},
		{name: "chat history AddToChatHistory", match: isPkgFn("group", "Group", "AddToChatHistory"), chat: true, grpArg: -2, nameArg: -1},
		{name: "broadcast", match: isPkgFn("rtpconn", "", "broadcast"), chat: true, anyOf: []string{"op"}, grpArg: -1, nameArg: -1},
		{name: "write to another client", match: func(f *types.Func, cs *CallSite) bool {
			if !fnIs(f, "rtpconn", "webClient", "write") {
				return false
			}
			// receiver is not the acting client of the enclosing function
			r := recvExpr(cs.Call)
			own := p.paramOfType(cs.In, "rtpconn", "webClient")
			if id, ok := unparen(r).(*ast.Ident); ok && own != nil && cs.In.Pkg.TypesInfo.ObjectOf(id) == own {
				return false
			}
			// only inside the signalling handler: writes to the target of a message
			return cs.In.Root().Name == "rtpconn.handleClientMessage"
		}, chat: true, grpArg: -1, nameArg: -1},
		{name: "clearchat ClearChatHistory", match: isPkgFn("group", "Group", "ClearChatHistory"), perms: []string{"op"}, grpArg: -2, nameArg: -1},
		{name: "lock SetLocked", match: func(f *types.Func, cs *CallSite) bool {
			return fnIs(f, "group", "Group", "SetLocked") && cs.In.Pkg.PkgPath == modPath+"/rtpconn"
		}, perms: []string{"op"}, grpArg: -2, nameArg: -1},
		{name: "subgroups GetSubGroups", match: func(f *types.Func, cs *CallSite) bool {
			return fnIs(f, "group", "", "GetSubGroups") && cs.In.Pkg.PkgPath == modPath+"/rtpconn"
		}, perms: []string{"op"}, grpArg: -1, nameArg: 0},
		{name: "setdata UpdateData", match: isPkgFn("group", "Group", "UpdateData"), perms: []string{"op"}, grpArg: -2, nameArg: -1},
		{name: "kick kickClient", match: isPkgFn("rtpconn", "", "kickClient"), perms: []string{"op"}, grpArg: 0, nameArg: -1},
		{name: "change permissions of another client", match: func(f *types.Func, cs *CallSite) bool {
			if !fnIs(f, "rtpconn", "webClient", "action") || len(cs.Call.Args) != 1 {
				return false
			}
			t := cs.In.Pkg.TypesInfo.TypeOf(cs.Call.Args[0])
			n, ok := t.(*types.Named)
			return ok && n.Obj().Name() == "changePermissionsAction" && cs.In.Root().Name != "rtpconn.handleAction"
		}, perms: []string{"op"}, grpArg: -1, nameArg: -1},
		{name: "identify Client.Addr", match: func(f *types.Func, cs *CallSite) bool {
			return p.ifaceMethodIs(f, "group", "Client", "Addr") && cs.In.Pkg.PkgPath == modPath+"/rtpconn"
		}, perms: []string{"op"}, grpArg: -1, nameArg: -1},
		{name: "record diskwriter.New", match: isPkgFn("diskwriter", "", "New"), perms: []string{"record"}, grpArg: 0, nameArg: -1},
		{name: "record AddClient(system)", match: func(f *types.Func, cs *CallSite) bool {
			if !fnIs(f, "group", "", "AddClient") || cs.In.Pkg.PkgPath != modPath+"/rtpconn" || len(cs.Call.Args) != 3 {
				return false
			}
			return dw != nil && isPtrTo(cs.In.Pkg.TypesInfo.TypeOf(cs.Call.Args[1]), dw)
		}, perms: []string{"record"}, grpArg: -1, nameArg: 0},
		{name: "unrecord disk.Close", match: func(f *types.Func, cs *CallSite) bool {
			return fnIs(f, "diskwriter", "Client", "Close") && cs.In.Pkg.PkgPath == modPath+"/rtpconn"
		}, perms: []string{"record"}, grpArg: -1, nameArg: -1},
		{name: "unrecord DelClient(disk)", match: func(f *types.Func, cs *CallSite) bool {
			if !fnIs(f, "group", "", "DelClient") || cs.In.Pkg.PkgPath != modPath+"/rtpconn" || len(cs.Call.Args) != 1 {
				return false
			}
			return dw != nil && isPtrTo(cs.In.Pkg.TypesInfo.TypeOf(cs.Call.Args[0]), dw)
		}, perms: []string{"record"}, grpArg: -1, nameArg: -1},
		{name: "token create token.Update", match: func(f *types.Func, cs *CallSite) bool {
			if !fnIs(f, "token", "", "Update") || cs.In.Pkg.PkgPath != modPath+"/rtpconn" || len(cs.Call.Args) != 2 {
				return false
			}
			s, ok := constString(cs.In.Pkg.TypesInfo, cs.Call.Args[1])
			return ok && s == ""
		}, perms: []string{"token"}, grpArg: -1, nameArg: -1, extra: (*c11env).tokenCreate},
		{name: "token edit token.Update", match: func(f *types.Func, cs *CallSite) bool {
			if !fnIs(f, "token", "", "Update") || cs.In.Pkg.PkgPath != modPath+"/rtpconn" || len(cs.Call.Args) != 2 {
				return false
			}
			s, ok := constString(cs.In.Pkg.TypesInfo, cs.Call.Args[1])
			return !(ok && s == "")
		}, perms: []string{"op", "token"}, grpArg: -1, nameArg: -1, extra: (*c11env).tokenEdit},
		{name: "token lookup token.Get", match: func(f *types.Func, cs *CallSite) bool {
			return fnIs(f, "token", "", "Get") && cs.In.Pkg.PkgPath == modPath+"/rtpconn"
		}, perms: []string{"op", "token"}, grpArg: -1, nameArg: -1},
		{name: "token list token.List", match: func(f *types.Func, cs *CallSite) bool {
			return fnIs(f, "token", "", "List") && cs.In.Pkg.PkgPath == modPath+"/rtpconn"
		}, perms: []string{"op", "token"}, grpArg: -1, nameArg: 0},
	}
	_ = wc
	for _, cs := range p.CallSites() {
		f := calleeOf(cs)
		if f == nil {
			continue
		}
		for i := range specs {
			sp := &specs[i]
			if !sp.match(f, cs) {
				continue
			}
			e.checkSink(sp, cs)
		}
	}
}

func (e *c11env) checkSink(sp *sinkSpec, cs *CallSite) {
	c, p := e.c, e.p
	kinds := strings.Join(p.enclosingCase(cs.In, cs.Call, "m.Kind"), ",")
	if kinds == "" {
		kinds = strings.Join(p.enclosingCase(cs.In, cs.Call, "m.Type"), ",")
	}
	key := e.k.key(sp.name, "in", cs.In.Name)
	if kinds != "" {
		key = e.k.key(sp.name, "in", cs.In.Name, "case", kinds)
	}
	own := p.paramOfType(cs.In, "rtpconn", "webClient")
	if own == nil {
		c.Bad("R11.1", key, cs.Call.Pos(), "privileged sink in a function with no acting *webClient in scope: the permission cannot be tied to a client")
		return
	}
	ct := TVar(own)
	ff := e.eng.Analyze(cs.In)
	st, reach := ff.At(cs.Call)
	if !reach || st == nil {
		c.OK("R11.1", key, cs.Call.Pos(), "unreachable")
		return
	}
	var missing, trail, have []string
	need := func(f *Fact) {
		r := e.eng.Holds(cs.In, cs.Call, f)
		if r.ok {
			have = append(have, f.String())
		} else {
			missing = append(missing, f.String())
			trail = append(trail, r.trail...)
		}
	}
	need(e.memberFact(ct))
	for _, pm := range sp.perms {
		need(e.permFact(ct, TStr(pm)))
	}
	if sp.chat || len(sp.anyOf) > 0 {
		ok, why := e.chatPerm(sp, cs, ct, st)
		if ok {
			have = append(have, why)
		} else {
			missing = append(missing, why)
		}
	}
	gterm := TField(ct, e.grp)
	checkGroup := func(x ast.Expr, what string, want *Term) {
		t := ff.term(x)
		if t == nil || !st.EqualUnder(t, want) {
			missing = append(missing, fmt.Sprintf("%s %s is not the member's own %s", what, types.ExprString(x), pretty(want.String())))
		} else {
			have = append(have, fmt.Sprintf("%s = %s", types.ExprString(x), pretty(want.String())))
		}
	}
	switch {
	case sp.grpArg == -2:
		checkGroup(recvExpr(cs.Call), "receiver", gterm)
	case sp.grpArg >= 0 && sp.grpArg < len(cs.Call.Args):
		checkGroup(cs.Call.Args[sp.grpArg], "group argument", gterm)
	}
	if sp.nameArg >= 0 && sp.nameArg < len(cs.Call.Args) {
		checkGroup(cs.Call.Args[sp.nameArg], "group-name argument", TField(gterm, e.gname))
	}
	if sp.extra != nil {
		missing = append(missing, sp.extra(e, cs, ct)...)
	}
	if len(missing) == 0 {
		c.OK("R11.1", key, cs.Call.Pos(), "dominated by: %s", strings.Join(have, "; "))
	} else {
		c.Bad("R11.1", key, cs.Call.Pos(), "not established on every path: %s. %s", strings.Join(missing, "; "), strings.Join(trail, " | "))
	}
}

// chatPerm: the sink must be dominated by slices.Contains(c.permissions, X)
// with X a constant in {message, caption} (or one of sp.anyOf), or a variable
// only ever assigned "message" by default and "caption" under
// Type=="chat" && Kind=="caption".
func (e *c11env) chatPerm(sp *sinkSpec, cs *CallSite, ct *Term, st *State) (bool, string) {
	for _, a := range sp.anyOf {
		if st.HasFact(e.permFact(ct, TStr(a))) {
			return true, "permission " + a
		}
	}
	if !sp.chat {
		return false, "none of the permissions " + strings.Join(sp.anyOf, "/") + " is tested"
	}
	permsStr := TField(ct, e.perms).String()
	for _, f := range st.Facts() {
		if !f.Pos || f.Op != "true" || f.A.K != 'k' || f.A.Name != "slices.Contains" || len(f.A.Args) != 2 {
			continue
		}
		if !st.EqualUnder(f.A.Args[0], TField(ct, e.perms)) && f.A.Args[0].String() != permsStr {
			continue
		}
		x := f.A.Args[1]
		switch x.K {
		case 'c':
			if x.Name == `"message"` || x.Name == `"caption"` {
				return true, "permission " + x.Name
			}
		case 'v':
			ok, why := e.requiredVar(cs.In, x.Obj)
			if ok {
				return true, "permission variable " + x.Obj.Name() + ": " + why
			}
			return false, "permission variable " + x.Obj.Name() + ": " + why
		}
	}
	return false, "no test of the message/caption permission dominates the sink"
}

// requiredVar validates the assignments of the variable naming the required permission.
func (e *c11env) requiredVar(fs *FuncSrc, v types.Object) (bool, string) {
	info := fs.Pkg.TypesInfo
	ff := e.eng.Analyze(fs)
	sawMessage := false
	ok := true
	why := ""
	mt := e.p.Field("rtpconn", "clientMessage", "Type")
	mk := e.p.Field("rtpconn", "clientMessage", "Kind")
	seenVars := map[types.Object]bool{}
	var scan func(v types.Object, depth int)
	scan = func(v types.Object, depth int) {
		if seenVars[v] || depth > 4 {
			return
		}
		seenVars[v] = true
		ast.Inspect(fs.Body(), func(n ast.Node) bool {
			as, isAs := n.(*ast.AssignStmt)
			if !isAs {
				return true
			}
			for i, l := range as.Lhs {
				id, isId := unparen(l).(*ast.Ident)
				if !isId || info.ObjectOf(id) != v || i >= len(as.Rhs) {
					continue
				}
				s, isConst := constString(info, as.Rhs[i])
				if !isConst {
					// a copy of another local that is itself only ever one of the two names
					if rid, isR := unparen(as.Rhs[i]).(*ast.Ident); isR && len(as.Lhs) == len(as.Rhs) {
						if u, isV := info.Uses[rid].(*types.Var); isV && !u.IsField() && u.Parent() != u.Pkg().Scope() {
							scan(u, depth+1)
							continue
						}
					}
					ok, why = false, "assigned a non-constant at "+e.p.PosStr(as.Pos())
					continue
				}
				switch s {
				case "message":
					sawMessage = true
				case "caption":
					st, _ := ff.At(as)
					chat, capt := false, false
					for _, f := range st.Facts() {
						if f.Pos && f.Op == "eq" {
							for _, pr := range [][2]*Term{{f.A, f.B}, {f.B, f.A}} {
								if pr[0].K == 'c' && pr[1].K == 'f' {
									if pr[0].Name == `"chat"` && pr[1].Obj == mt {
										chat = true
									}
									if pr[0].Name == `"caption"` && pr[1].Obj == mk {
										capt = true
									}
								}
							}
						}
					}
					if !chat || !capt {
						ok, why = false, `"caption" is selected without Type=="chat" && Kind=="caption"`
					}
				default:
					ok, why = false, "assigned "+s
				}
			}
			return true
		})
	}
	scan(v, 0)
	if ok && !sawMessage {
		return false, `never defaults to "message"`
	}
	if ok {
		return true, `"message" by default, "caption" only for Type=="chat" && Kind=="caption"`
	}
	return false, why
}

// tokenCreate: the token handed to token.Update(tok, "") is for the member's
// own group, has no subgroup scope, expires, and delegates only held permissions.
func (e *c11env) tokenCreate(cs *CallSite, ct *Term) (missing []string) {
	ff := e.eng.Analyze(cs.In)
	st, _ := ff.At(cs.Call)
	tok := ff.term(cs.Call.Args[0])
	if tok == nil {
		return []string{"token argument is not an access path"}
	}
	fGroup := e.p.Field("token", "Stateful", "Group")
	fSub := e.p.Field("token", "Stateful", "IncludeSubgroups")
	fExp := e.p.Field("token", "Stateful", "Expires")
	fPerms := e.p.Field("token", "Stateful", "Permissions")
	if fGroup == nil || fSub == nil || fExp == nil || fPerms == nil {
		return []string{"token.Stateful fields no longer resolve"}
	}
	gname := TField(TField(ct, e.grp), e.gname)
	if !st.HasFact(mkFact(true, "eq", TField(tok, fGroup), gname)) {
		missing = append(missing, "tok.Group == c.group.Name()")
	}
	if !st.HasFact(mkFact(false, "true", TField(tok, fSub), nil)) {
		missing = append(missing, "!tok.IncludeSubgroups")
	}
	if !st.HasFact(mkFact(false, "eq", TField(tok, fExp), TNil())) {
		missing = append(missing, "tok.Expires != nil")
	}
	each := &Term{K: 'o', Name: "each", Args: []*Term{TField(tok, fPerms)}}
	if !st.HasFact(e.permFact(ct, each)) {
		missing = append(missing, "every delegated permission is held by the creator (subset loop over tok.Permissions with early return)")
	}
	return
}

// tokenEdit: the token handed to token.Update(t, etag) is a clone of a token
// whose Group was compared with the member's group name.
func (e *c11env) tokenEdit(cs *CallSite, ct *Term) (missing []string) {
	ff := e.eng.Analyze(cs.In)
	st, _ := ff.At(cs.Call)
	t := ff.term(cs.Call.Args[0])
	fGroup := e.p.Field("token", "Stateful", "Group")
	if t == nil || fGroup == nil {
		return []string{"token argument is not an access path"}
	}
	gname := TField(TField(ct, e.grp), e.gname)
	// direct: t.Group == name
	if st.HasFact(mkFact(true, "eq", TField(t, fGroup), gname)) {
		return nil
	}
	// through Clone(): t is defined once as X.Clone(), X.Group == name holds at
	// the sink (so no Group field was stored since the comparison), and t.Group
	// is never assigned in this function.
	if t.K == 'v' {
		info := cs.In.Pkg.TypesInfo
		ndef := 0
		var src *Term
		groupStored := false
		ast.Inspect(cs.In.Body(), func(nd ast.Node) bool {
			as, isAs := nd.(*ast.AssignStmt)
			if !isAs {
				return true
			}
			for i, l := range as.Lhs {
				if id, isId := unparen(l).(*ast.Ident); isId && info.ObjectOf(id) == t.Obj {
					ndef++
					if len(as.Lhs) == len(as.Rhs) {
						if call, ok := unparen(as.Rhs[i]).(*ast.CallExpr); ok && fnIs(calleeOf(&CallSite{Call: call, In: cs.In}), "token", "Stateful", "Clone") {
							src = ff.term(recvExpr(call))
						}
					}
				}
				if lt := ff.term(l); lt != nil && lt.String() == TField(t, fGroup).String() {
					groupStored = true
				}
			}
			return true
		})
		if ndef == 1 && src != nil && !groupStored && st.HasFact(mkFact(true, "eq", TField(src, fGroup), gname)) {
			return nil
		}
	}
	return []string{"the edited token's Group is never compared with c.group.Name(): an operator can edit tokens of other groups"}
}

// ---------- R11.2 ----------

func (e *c11env) admission() {
	c, p := e.c, e.p
	// (a) in group.AddClient every return reachable after Client.Init is the success return
	ac := p.Func("group", "", "AddClient")
	if ac == nil {
		c.Unknown("R11.2", "anchor group.AddClient", 0, "not found")
		return
	}
	ff := e.eng.Analyze(ac)
	var inits []*ast.CallExpr
	ast.Inspect(ac.Body(), func(n ast.Node) bool {
		if call, ok := n.(*ast.CallExpr); ok {
			if f, _ := calleeOf(&CallSite{Call: call, In: ac}), 0; p.ifaceMethodIs(f, "group", "Client", "Init") {
				inits = append(inits, call)
			}
		}
		return true
	})
	if len(inits) == 0 {
		c.Unknown("R11.2", "AddClient: Init call", ac.Pos(), "group.AddClient no longer calls Client.Init")
	}
	for _, init := range inits {
		var bad []string
		for _, ret := range ff.Returns() {
			if !ff.ReachableFrom(init, ret) {
				continue
			}
			if len(ret.Results) != 2 || !isNilIdent(ac.Pkg.TypesInfo, ret.Results[1]) {
				bad = append(bad, p.PosStr(ret.Pos()))
			}
		}
		if len(bad) == 0 {
			c.OK("R11.2", "AddClient: Init only on admission", init.Pos(), "every return reachable after Client.Init returns a nil error")
		} else {
			c.Bad("R11.2", "AddClient: Init only on admission", init.Pos(),
				"Client.Init installs the permissions, yet a refusal is still reachable afterwards (returns at %s): a refused client keeps its permissions", strings.Join(bad, ", "))
		}
	}
	joinRecordedRule(c, "R11.2")
}

// joinRecordedRule: every successful AddClient of a *webClient in
// handleClientMessage is followed, on every path, by recording the group in
// c.group (before any leaveGroup/DelClient, which only act on a recorded
// group) - shared by C11 (R11.2) and C14 (R14.4).
func joinRecordedRule(c *Ctx, rule string) {
	p := c.P
	grp := p.Field("rtpconn", "webClient", "group")
	if grp == nil {
		c.Unknown(rule, "anchor webClient.group", 0, "not found")
		return
	}
	hm := p.Func("rtpconn", "", "handleClientMessage")
	if hm == nil {
		c.Unknown(rule, "anchor handleClientMessage", 0, "not found")
		return
	}
	hff := p.Facts().Analyze(hm)
	wc := p.TypeName("rtpconn", "webClient")
	n := 0
	for _, cs := range p.CallSites() {
		if cs.In != hm || !fnIs(calleeOf(cs), "group", "", "AddClient") || len(cs.Call.Args) != 3 {
			continue
		}
		if !isPtrTo(hm.Pkg.TypesInfo.TypeOf(cs.Call.Args[1]), wc) {
			continue
		}
		n++
		ct := hff.term(cs.Call.Args[1])
		res0 := &Term{K: 'r', Name: "res0", Pos: cs.Call.Lparen}
		res1 := &Term{K: 'r', Name: "res1", Pos: cs.Call.Lparen}
		okFact := mkFact(true, "eq", TNil(), res1)
		recorded := mkFact(true, "eq", TField(ct, grp), res0)
		errFact := mkFact(false, "eq", TNil(), res1)
		_, _ = okFact, recorded
		var bad []string
		// flag: 1 = c.group currently records the joined group
		step := func(n ast.Node, st *State, flag int) (int, bool) {
			stop := false
			ast.Inspect(n, func(x ast.Node) bool {
				switch y := x.(type) {
				case *ast.FuncLit:
					return false
				case *ast.AssignStmt:
					for i, l := range y.Lhs {
						lt := hff.term(l)
						if lt != nil && ct != nil && lt.String() == TField(ct, grp).String() {
							flag = 0
							if i < len(y.Rhs) && len(y.Lhs) == len(y.Rhs) {
								if rt := hff.term(y.Rhs[i]); rt != nil && st != nil && st.EqualUnder(rt, res0) {
									flag = 1
								}
							}
						}
					}
				case *ast.CallExpr:
					f := calleeOf(&CallSite{Call: y, In: hm})
					if (fnIs(f, "rtpconn", "", "leaveGroup") || fnIs(f, "group", "", "DelClient")) && len(y.Args) == 1 {
						if at := hff.term(y.Args[0]); at != nil && ct != nil && at.String() == ct.String() {
							// both only remove the client when c.group is set
							if flag == 1 {
								stop = true
							}
						}
					}
				}
				return true
			})
			return flag, stop
		}
		if pos, found := hff.PathSearch(cs.Call, 0, step, func(f *Fact) bool { return f.key == errFact.key }, func(flag int) bool { return flag == 0 }); found {
			bad = append(bad, p.PosStr(pos))
		}
		if len(bad) == 0 {
			c.OK(rule, "join: admitted client is recorded or removed", cs.Call.Pos(), "every exit after a successful AddClient has c.group == the joined group, or leaveGroup/DelClient was called")
		} else {
			c.Bad(rule, "join: admitted client is recorded or removed", cs.Call.Pos(),
				"after a successful AddClient the handler can return (at %s) with the client in the group's member list but c.group unset: the member is never removed and holds permissions while 'not a member'", strings.Join(bad, ", "))
		}
	}
	if n == 0 {
		c.Unknown(rule, "join: AddClient call", hm.Pos(), "no AddClient(*webClient) call in handleClientMessage")
	}
}

func isNilIdent(info *types.Info, e ast.Expr) bool {
	id, ok := unparen(e).(*ast.Ident)
	if !ok {
		return false
	}
	_, isNil := info.ObjectOf(id).(*types.Nil)
	return isNil
}

func hasCalled(st *State, fname string, args ...*Term) bool {
	for _, f := range st.Facts() {
		if f.Pos && f.Op == "true" && f.A.K == 'o' && f.A.Name == "called:"+fname {
			ok := true
			for i, a := range args {
				if a == nil {
					continue
				}
				if i >= len(f.A.Args) || !(f.A.Args[i].String() == a.String() || st.EqualUnder(f.A.Args[i], a)) {
					ok = false
				}
			}
			if ok {
				return true
			}
		}
	}
	return false
}

// ---------- R11.3 ----------

func (e *c11env) revocation() {
	c, p := e.c, e.p
	ha := p.Func("rtpconn", "", "handleAction")
	lg := p.Func("rtpconn", "", "leaveGroup")
	if ha == nil || lg == nil {
		c.Unknown("R11.3", "anchors handleAction/leaveGroup", 0, "not found")
		return
	}
	ff := e.eng.Analyze(ha)
	own := p.paramOfType(ha, "rtpconn", "webClient")
	ct := TVar(own)
	// (a) delUpConn under !present with push=true over getUpConns(c)
	found := false
	for _, cs := range p.CallSites() {
		if cs.In != ha || !fnIs(calleeOf(cs), "rtpconn", "", "delUpConn") || len(cs.Call.Args) != 4 {
			continue
		}
		st, _ := ff.At(cs.Call)
		if st == nil || !st.HasFact(mkFact(false, "true", TCall("slices.Contains", e.cont, TField(ct, e.perms), TStr("present")), nil)) {
			continue
		}
		found = true
		push, isConst := ha.Pkg.TypesInfo.Types[cs.Call.Args[3]]
		okPush := isConst && push.Value != nil && push.Value.String() == "true"
		// the loop ranges over getUpConns(c)
		okRange := false
		for cur := ast.Node(cs.Call); cur != nil; cur = p.Parent(ha.File, cur) {
			if rs, ok := cur.(*ast.RangeStmt); ok {
				if xc, isCall := unparen(rs.X).(*ast.CallExpr); isCall && fnIs(calleeOf(&CallSite{Call: xc, In: ha}), "rtpconn", "", "getUpConns") {
					okRange = true // for ... := range getUpConns(c)
				} else if t := ff.term(rs.X); t != nil {
					stR, _ := ff.At(rs.X)
					for v := range stR.variants(t) {
						if strings.Contains(v, "res0@") {
							// result of which call?
							for _, cs2 := range p.CallSites() {
								if cs2.In == ha && fnIs(calleeOf(cs2), "rtpconn", "", "getUpConns") && strings.Contains(v, fmt.Sprintf("res0@%d", int(cs2.Call.Lparen))) {
									okRange = true
								}
							}
						}
					}
				}
				break
			}
		}
		// and nothing but the absence of 'present' decides whether the loop runs: every
		// test between the case and the loop, taken the other way, says the client still
		// holds present (a flag computed earlier can be wrong about it)
		okOnly := true
		var prevN ast.Node = cs.Call
		for cur := p.Parent(ha.File, cs.Call); cur != nil; cur = p.Parent(ha.File, cur) {
			if _, isCC := cur.(*ast.CaseClause); isCC {
				if _, isTS := p.Parent(ha.File, p.Parent(ha.File, cur)).(*ast.TypeSwitchStmt); isTS {
					break
				}
			}
			if ifs, isIf := cur.(*ast.IfStmt); isIf && (prevN == ast.Node(ifs.Body) || (ifs.Else != nil && prevN == ast.Node(ifs.Else))) {
				stI, _ := ff.At(ifs.Cond)
				if stI == nil {
					stI = emptyState
				}
				other := ff.assume(stI, ifs.Cond, prevN != ast.Node(ifs.Body))
				if other == nil || !other.HasFact(mkFact(true, "true", TCall("slices.Contains", e.cont, TField(ct, e.perms), TStr("present")), nil)) {
					okOnly = false
				}
			}
			prevN = cur
		}
		c.Check(okOnly, "R11.3", "losing present closes the up-streams whatever else is known", cs.Call.Pos(),
			"the only test that can skip the loop is the presence of 'present' in the client's current permissions",
			"closing the up-streams also depends on something other than the client's current permissions: a client that has lost 'present' and has been told so can keep publishing")
		c.Check(okPush && okRange, "R11.3", "losing present closes every up-stream with push", cs.Call.Pos(),
			"under !present, delUpConn(c, id, c.id, push=true) for every connection returned by getUpConns(c)",
			"the revocation loop does not push the close of every up-stream (push argument not the constant true, or the loop is not over getUpConns(c))")
	}
	if !found {
		c.Bad("R11.3", "losing present closes every up-stream with push", ha.Pos(), "handleAction has no delUpConn call dominated by the absence of 'present': a client that lost the right to present keeps publishing")
	}
	// (b) leaveGroup clears permissions and group on every exit after DelClient
	lff := e.eng.Analyze(lg)
	lown := p.paramOfType(lg, "rtpconn", "webClient")
	lct := TVar(lown)
	var bad []string
	nret := 0
	for _, ex := range lff.Exits() {
		st := ex.St
		if st == nil || !hasCalled(st, "group.DelClient", lct) {
			continue
		}
		nret++
		if !st.HasFact(mkFact(true, "eq", TField(lct, e.perms), TNil())) || !st.HasFact(mkFact(true, "eq", TField(lct, e.grp), TNil())) {
			bad = append(bad, p.PosStr(ex.Pos))
		}
	}
	if nret == 0 {
		c.Bad("R11.3", "leaveGroup clears permissions and group", lg.Pos(), "leaveGroup never calls group.DelClient(c) on a path to its exit")
	} else {
		c.Check(len(bad) == 0, "R11.3", "leaveGroup clears permissions and group", lg.Pos(),
			"after DelClient(c) every exit has c.permissions == nil and c.group == nil",
			"leaveGroup can return after DelClient(c) without clearing c.permissions / c.group ("+strings.Join(bad, ", ")+"): a client that left keeps its rights")
	}
	// (c) changePermissionsAction enqueues permissionsChangedAction on every non-error exit
	var clause *ast.CaseClause
	ast.Inspect(ha.Body(), func(n ast.Node) bool {
		cc, ok := n.(*ast.CaseClause)
		if !ok {
			return true
		}
		for _, x := range cc.List {
			if t := ha.Pkg.TypesInfo.TypeOf(x); t != nil {
				if nn, ok := t.(*types.Named); ok && nn.Obj().Name() == "changePermissionsAction" {
					clause = cc
				}
			}
		}
		return true
	})
	if clause == nil {
		c.Unknown("R11.3", "permission change is announced", ha.Pos(), "no case changePermissionsAction in handleAction")
	} else {
		// every return inside the clause returns an error; the clause's last
		// statement (falling out of the switch) is preceded by the enqueue
		okEnq := false
		var badRet []string
		for _, s := range clause.Body {
			if es, ok := s.(*ast.ExprStmt); ok {
				if call, ok := es.X.(*ast.CallExpr); ok && fnIs(calleeOf(&CallSite{Call: call, In: ha}), "rtpconn", "webClient", "action") && len(call.Args) == 1 {
					if nn, ok := ha.Pkg.TypesInfo.TypeOf(call.Args[0]).(*types.Named); ok && nn.Obj().Name() == "permissionsChangedAction" {
						okEnq = true
					}
				}
			}
		}
		// (a silent return that no store to the permissions can precede changes nothing:
		// the refusal of a change issued for another group, R11.6)
		hff := e.eng.Analyze(ha)
		var pstores []ast.Node
		ast.Inspect(clause, func(n ast.Node) bool {
			if as, ok := n.(*ast.AssignStmt); ok {
				for _, l := range as.Lhs {
					if se, ok := unparen(l).(*ast.SelectorExpr); ok {
						if sel := ha.Pkg.TypesInfo.Selections[se]; sel != nil && sel.Obj() == types.Object(e.perms) {
							pstores = append(pstores, as)
						}
					}
				}
			}
			return true
		})
		ast.Inspect(clause, func(n ast.Node) bool {
			if r, ok := n.(*ast.ReturnStmt); ok {
				if len(r.Results) == 1 && isNilIdent(ha.Pkg.TypesInfo, r.Results[0]) {
					after := len(pstores) == 0
					for _, ps := range pstores {
						if hff.ReachableFrom(ps, r) {
							after = true
						}
					}
					if after {
						badRet = append(badRet, p.PosStr(r.Pos()))
					}
				}
			}
			return true
		})
		c.Check(okEnq && len(badRet) == 0, "R11.3", "permission change is announced", clause.Pos(),
			"the changePermissionsAction case ends by enqueuing permissionsChangedAction and has no silent early return",
			"a permission change can complete without enqueuing permissionsChangedAction (the affected client and the group are never told)")
	}
	// (d) unop also removes record
	e.c.Check(e.caseRemoves(ha, "unop", "record") && e.caseRemoves(ha, "unop", "op"), "R11.3", "unop removes op and record", ha.Pos(),
		"case unop removes both op and record", "case unop no longer removes both op and record")
	e.c.Check(e.caseRemoves(ha, "unpresent", "present") && e.caseRemoves(ha, "shutup", "message"), "R11.3", "unpresent/shutup remove their permission", ha.Pos(),
		"unpresent removes present; shutup removes message", "unpresent/shutup no longer remove present/message")
}

// caseRemoves: in handleAction's `switch a.kind`, case k assigns
// c.permissions = remove(perm, c.permissions).
func (e *c11env) caseRemoves(ha *FuncSrc, k, perm string) bool {
	found := false
	info := ha.Pkg.TypesInfo
	ast.Inspect(ha.Body(), func(n ast.Node) bool {
		cc, ok := n.(*ast.CaseClause)
		if !ok {
			return true
		}
		match := false
		for _, x := range cc.List {
			if s, ok := constString(info, x); ok && s == k {
				match = true
			}
		}
		if !match {
			return true
		}
		for _, s := range cc.Body {
			as, ok := s.(*ast.AssignStmt)
			if !ok || len(as.Lhs) != 1 || len(as.Rhs) != 1 {
				continue
			}
			sel, ok := unparen(as.Lhs[0]).(*ast.SelectorExpr)
			if !ok || info.Selections[sel] == nil || info.Selections[sel].Obj() != types.Object(e.perms) {
				continue
			}
			call, ok := as.Rhs[0].(*ast.CallExpr)
			if !ok || !fnIs(calleeOf(&CallSite{Call: call, In: ha}), "rtpconn", "", "remove") || len(call.Args) != 2 {
				continue
			}
			if s, ok := constString(info, call.Args[0]); ok && s == perm {
				found = true
			}
		}
		return true
	})
	return found
}

// ---------- R11.4 ----------

func (e *c11env) whip() {
	c, p := e.c, e.p
	eh := p.Func("webserver", "", "whipEndpointHandler")
	rh := p.Func("webserver", "", "whipResourceHandler")
	if eh == nil || rh == nil {
		c.Unknown("R11.4", "anchors whip handlers", 0, "not found")
		return
	}
	ff := e.eng.Analyze(eh)
	info := eh.Pkg.TypesInfo
	var addc, newc *ast.CallExpr
	var dels []*ast.CallExpr
	ast.Inspect(eh.Body(), func(n ast.Node) bool {
		call, ok := n.(*ast.CallExpr)
		if !ok {
			return true
		}
		f := calleeOf(&CallSite{Call: call, In: eh})
		switch {
		case fnIs(f, "group", "", "AddClient"):
			addc = call
		case fnIs(f, "rtpconn", "WhipClient", "NewConnection"):
			newc = call
		case fnIs(f, "group", "", "DelClient"):
			dels = append(dels, call)
		}
		return true
	})
	if addc == nil || newc == nil {
		c.Unknown("R11.4", "endpoint: AddClient/NewConnection", eh.Pos(), "calls not found")
	} else {
		st, _ := ff.At(newc)
		res1 := &Term{K: 'r', Name: "res1", Pos: addc.Lparen}
		okAdd := st != nil && st.HasFact(mkFact(true, "eq", TNil(), res1))
		c.Check(okAdd, "R11.4", "endpoint: NewConnection after successful AddClient", newc.Pos(),
			"dominated by AddClient(...) returning a nil error", "NewConnection is reachable without a successful AddClient")
		ct := ff.term(recvExpr(newc))
		okPres, direct := false, false
		if st != nil && ct != nil {
			for _, f := range st.Facts() {
				if f.Pos && f.Op == "true" && f.A.K == 'k' && strings.HasSuffix(f.A.Name, "canPresent") && len(f.A.Args) == 1 {
					a := f.A.Args[0]
					if a.K == 'k' && strings.HasSuffix(a.Name, ".Permissions") && len(a.Args) == 1 && st.EqualUnder(a.Args[0], ct) {
						okPres = true
					}
				}
				// or the test written out: slices.Contains(c.Permissions(), "present")
				if a, is := isContains(f, "present"); is && f.Pos && a.K == 'k' && strings.HasSuffix(a.Name, ".Permissions") && len(a.Args) == 1 && st.EqualUnder(a.Args[0], ct) {
					okPres, direct = true, true
				}
			}
		}
		c.Check(okPres, "R11.4", "endpoint: NewConnection requires present", newc.Pos(),
			"dominated by canPresent(c.Permissions())", "NewConnection is reachable without the 'present' test on the new client's permissions")
		// canPresent itself
		if cp := p.Func("webserver", "", "canPresent"); cp != nil {
			okCP := false
			ast.Inspect(cp.Body(), func(n ast.Node) bool {
				if be, ok := n.(*ast.BinaryExpr); ok && be.Op == token.EQL {
					if s, ok := constString(cp.Pkg.TypesInfo, be.Y); ok && s == "present" {
						okCP = true
					}
					if s, ok := constString(cp.Pkg.TypesInfo, be.X); ok && s == "present" {
						okCP = true
					}
				}
				if call, ok := n.(*ast.CallExpr); ok && len(call.Args) == 2 {
					if s, ok := constString(cp.Pkg.TypesInfo, call.Args[1]); ok && s == "present" {
						okCP = true
					}
				}
				return true
			})
			c.Check(okCP, "R11.4", "canPresent tests 'present'", cp.Pos(), "compares against the constant \"present\"", "canPresent no longer tests the constant \"present\"")
		} else if direct {
			c.OK("R11.4", "canPresent tests 'present'", newc.Pos(), "the endpoint tests slices.Contains(c.Permissions(), \"present\") itself")
		}
		// failure edges reach DelClient: every return after AddClient success
		// other than the final success has called DelClient(c)
		var bad []string
		for _, ret := range ff.Returns() {
			st, reach := ff.At(ret)
			if !reach || st == nil || !ff.ReachableFrom(addc, ret) || !st.HasFact(mkFact(true, "eq", TNil(), res1)) {
				continue
			}
			if ff.ReachableFrom(newc, ret) {
				// after NewConnection: success unless its error is non-nil
				nres1 := &Term{K: 'r', Name: "res1", Pos: newc.Lparen}
				if !st.HasFact(mkFact(false, "eq", TNil(), nres1)) {
					continue
				}
			}
			if !hasCalled(st, "group.DelClient", ct) {
				bad = append(bad, p.PosStr(ret.Pos()))
			}
		}
		c.Check(len(bad) == 0, "R11.4", "endpoint: refused or failed sessions are removed", addc.Pos(),
			"every failure exit after admission calls group.DelClient(c)", "a WHIP client stays a member after its session was refused or failed (returns at "+strings.Join(bad, ", ")+")")
	}
	_ = info
	// resource handler: every effect guarded by token comparison
	rff := e.eng.Analyze(rh)
	tokenF := p.Field("rtpconn", "WhipClient", "token")
	effects := map[string]bool{"Close": true, "GotICECandidate": true, "Restart": true, "SetETag": true, "UFragPwd": true, "ETag": true, "GotOffer": true, "NewConnection": true}
	k := newKeyer()
	ast.Inspect(rh.Body(), func(n ast.Node) bool {
		call, ok := n.(*ast.CallExpr)
		if !ok {
			return true
		}
		f := calleeOf(&CallSite{Call: call, In: rh})
		if f == nil || !effects[f.Name()] || !fnIs(f, "rtpconn", "WhipClient", f.Name()) {
			return true
		}
		ct := rff.term(recvExpr(call))
		guard := func(fa *Fact, st *State) bool {
			if ct == nil || tokenF == nil {
				return false
			}
			tokTerm := TField(ct, tokenF)
			isTok := func(t *Term) bool {
				return t.String() == tokTerm.String() || st.EqualUnder(t, tokTerm) || guardEq(rff, t, tokTerm)
			}
			// session has no token
			if fa.Pos && fa.Op == "eq" {
				if fa.A.K == 'c' && fa.A.Name == `""` && isTok(fa.B) {
					return true
				}
				if fa.B.K == 'c' && fa.B.Name == `""` && isTok(fa.A) {
					return true
				}
			}
			// bearer token matches
			if fa.Pos && fa.Op == "true" && fa.A.K == 'k' && strings.HasSuffix(fa.A.Name, "ConstantTimeCompare") && len(fa.A.Args) == 2 {
				return isTok(fa.A.Args[0]) || isTok(fa.A.Args[1])
			}
			return false
		}
		unguarded := rff.ReachableAvoiding(call, guard)
		c.Check(!unguarded, "R11.4", k.key("resource:", f.Name()), call.Pos(),
			"every path passes `c.Token() == \"\"` or a successful ConstantTimeCompare with the session token",
			"reachable without presenting the session's bearer token")
		return true
	})
}

// guardEq: t is a variable defined exactly once in the function from want.
func guardEq(ff *FuncFacts, t, want *Term) bool {
	if t.K != 'v' {
		return false
	}
	info := ff.info()
	n, ok := 0, false
	ast.Inspect(ff.fs.Body(), func(nd ast.Node) bool {
		as, isAs := nd.(*ast.AssignStmt)
		if !isAs {
			return true
		}
		for i, l := range as.Lhs {
			if id, isId := unparen(l).(*ast.Ident); isId && info.ObjectOf(id) == t.Obj {
				n++
				if i < len(as.Rhs) && len(as.Lhs) == len(as.Rhs) {
					if rt := ff.term(as.Rhs[i]); rt != nil && rt.String() == want.String() {
						ok = true
					}
				}
			}
		}
		return true
	})
	return ok && n == 1
}

// R11.5 (F-U): a permission list is a plain copy of what a token or a group
// file lists and may name a permission twice.  Every revocation in the
// changePermissionsAction handler stores remove(p, c.permissions), and remove
// must delete every occurrence.
func runC11Revoke(c *Ctx) {
	p := c.P
	rm := p.Func("rtpconn", "", "remove")
	ha := p.Func("rtpconn", "", "handleAction")
	fPerms := p.Field("rtpconn", "webClient", "permissions")
	if rm == nil || ha == nil || fPerms == nil {
		c.Unknown("R11.5", "anchors", 0, "rtpconn.remove / handleAction / webClient.permissions not found")
		return
	}
	info := rm.Pkg.TypesInfo
	params := rm.params(info)
	if len(params) != 2 || params[0] == nil || params[1] == nil {
		c.Unknown("R11.5", "anchors", 0, "remove(v, l) no longer has two parameters")
		return
	}
	vObj, lObj := params[0], params[1]
	// idiom 1: return slices.DeleteFunc(l, func(w) bool { return w == v })
	okAll, why := false, "neither slices.DeleteFunc(l, func(w) bool { return w == v }) nor a filtering loop over l without an early return"
	isEqV := func(e ast.Expr, w types.Object) bool {
		be, ok := unparen(e).(*ast.BinaryExpr)
		if !ok || be.Op != token.EQL {
			return false
		}
		x, okx := unparen(be.X).(*ast.Ident)
		y, oky := unparen(be.Y).(*ast.Ident)
		if !okx || !oky {
			return false
		}
		a, b := info.ObjectOf(x), info.ObjectOf(y)
		return (a == w && b == vObj) || (a == vObj && b == w)
	}
	body := rm.Body()
	if len(body.List) == 1 {
		if ret, ok := body.List[0].(*ast.ReturnStmt); ok && len(ret.Results) == 1 {
			if call, ok := unparen(ret.Results[0]).(*ast.CallExpr); ok && len(call.Args) == 2 {
				if f := calleeOf(&CallSite{Call: call, In: rm}); f != nil && f.Pkg() != nil && f.Pkg().Path() == "slices" && f.Name() == "DeleteFunc" {
					if id, ok := unparen(call.Args[0]).(*ast.Ident); ok && info.ObjectOf(id) == lObj {
						if lit, ok := unparen(call.Args[1]).(*ast.FuncLit); ok && len(lit.Body.List) == 1 && len(lit.Type.Params.List) == 1 && len(lit.Type.Params.List[0].Names) == 1 {
							if r2, ok := lit.Body.List[0].(*ast.ReturnStmt); ok && len(r2.Results) == 1 && isEqV(r2.Results[0], info.Defs[lit.Type.Params.List[0].Names[0]]) {
								okAll = true
							}
						}
					}
				}
			}
		}
	}
	// idiom 2: a loop over l that keeps the other elements and never leaves early
	if !okAll {
		var loop *ast.RangeStmt
		nloops := 0
		ast.Inspect(body, func(n ast.Node) bool {
			if rs, ok := n.(*ast.RangeStmt); ok {
				nloops++
				loop = rs
			}
			return true
		})
		if nloops == 1 {
			if id, ok := unparen(loop.X).(*ast.Ident); ok && info.ObjectOf(id) == lObj {
				early := false
				ast.Inspect(loop.Body, func(n ast.Node) bool {
					switch x := n.(type) {
					case *ast.ReturnStmt:
						early = true
					case *ast.BranchStmt:
						if x.Tok == token.BREAK || x.Tok == token.GOTO {
							early = true
						}
					}
					return true
				})
				// the elements kept are those that differ from v: an append under w != v
				keeps := false
				if wv, ok := loop.Value.(*ast.Ident); ok {
					wObj := info.ObjectOf(wv)
					ast.Inspect(loop.Body, func(n ast.Node) bool {
						ifs, ok := n.(*ast.IfStmt)
						if !ok {
							return true
						}
						be, ok := unparen(ifs.Cond).(*ast.BinaryExpr)
						if !ok || be.Op != token.NEQ {
							return true
						}
						eq := &ast.BinaryExpr{X: be.X, Y: be.Y, Op: token.EQL}
						if isEqV(eq, wObj) {
							keeps = true
						}
						return true
					})
				}
				if early {
					why = "the loop of remove stops at the first occurrence: a permission listed twice survives its revocation"
				} else if keeps {
					okAll = true
				}
			}
		}
	}
	c.Check(okAll, "R11.5", "remove deletes every occurrence", rm.Pos(), "every element equal to v is dropped", why)
	// each revocation stores remove(<const>, c.permissions) into c.permissions
	hinfo := ha.Pkg.TypesInfo
	k := newKeyer()
	n := 0
	ast.Inspect(ha.Body(), func(nd ast.Node) bool {
		call, ok := nd.(*ast.CallExpr)
		if !ok || !fnIs(calleeOf(&CallSite{Call: call, In: ha}), "rtpconn", "", "remove") || len(call.Args) != 2 {
			return true
		}
		n++
		perm, _ := constString(hinfo, call.Args[0])
		okStore := false
		if as, isAs := p.Parent(ha.File, call).(*ast.AssignStmt); isAs && len(as.Lhs) == 1 && len(as.Rhs) == 1 {
			if ls, ok := unparen(as.Lhs[0]).(*ast.SelectorExpr); ok {
				if rs, ok := unparen(call.Args[1]).(*ast.SelectorExpr); ok {
					sl, sr := hinfo.Selections[ls], hinfo.Selections[rs]
					if sl != nil && sr != nil && sl.Obj() == types.Object(fPerms) && sr.Obj() == types.Object(fPerms) && types.ExprString(ls.X) == types.ExprString(rs.X) {
						okStore = true
					}
				}
			}
		}
		c.Check(okStore, "R11.5", k.key("revocation of", perm, "stores the shortened list"), call.Pos(), "c.permissions = remove(\""+perm+"\", c.permissions)", "the result of remove is not stored back into the client's own permission list")
		return true
	})
	if n < 3 {
		c.Bad("R11.5", "revocations found", ha.Pos(), fmt.Sprintf("only %d calls of remove in the action handler (unop, unpresent, shutup expected)", n))
	}
}

// R11.6 (F-V): permission changes travel through the target's action queue and
// are applied by the target's own loop, which may have left the group and
// joined another one in between.  Every store to webClient.permissions in
// handleAction needs c.group == <the group carried by the action>; the action
// is built with the group the issuer acted in.
func runC11ChangeGroup(c *Ctx) {
	p := c.P
	ha := p.Func("rtpconn", "", "handleAction")
	hm := p.Func("rtpconn", "", "handleClientMessage")
	fPerms := p.Field("rtpconn", "webClient", "permissions")
	fGroup := p.Field("rtpconn", "webClient", "group")
	tn := p.TypeName("rtpconn", "changePermissionsAction")
	if ha == nil || hm == nil || fPerms == nil || fGroup == nil || tn == nil {
		c.Unknown("R11.6", "anchors", 0, "handleAction / handleClientMessage / changePermissionsAction not found")
		return
	}
	isGroupPtr := func(t types.Type) bool {
		pt, ok := t.(*types.Pointer)
		if !ok {
			return false
		}
		nt, ok := pt.Elem().(*types.Named)
		return ok && nt.Obj().Name() == "Group" && nt.Obj().Pkg() != nil && nt.Obj().Pkg().Name() == "group"
	}
	info := ha.Pkg.TypesInfo
	ff := p.Facts().Analyze(ha)
	k := newKeyer()
	n := 0
	ast.Inspect(ha.Body(), func(nd ast.Node) bool {
		as, ok := nd.(*ast.AssignStmt)
		if !ok {
			return true
		}
		for _, l := range as.Lhs {
			se, ok := unparen(l).(*ast.SelectorExpr)
			if !ok {
				continue
			}
			if sel := info.Selections[se]; sel == nil || sel.Obj() != types.Object(fPerms) {
				continue
			}
			n++
			st, _ := ff.At(as)
			okG := false
			if st != nil {
				base := ff.term(se.X)
				for _, f := range st.Facts() {
					if f.Op != "eq" || !f.Pos || f.B == nil || base == nil {
						continue
					}
					for _, pr := range [][2]*Term{{f.A, f.B}, {f.B, f.A}} {
						// c.group == <something>.<field of type *group.Group> of the action
						if pr[0].K == 'f' && pr[0].Obj == types.Object(fGroup) && len(pr[0].Args) == 1 && pr[0].Args[0].String() == base.String() &&
							pr[1].K == 'f' && pr[1].Obj != types.Object(fGroup) && isGroupPtr(pr[1].Obj.Type()) {
							okG = true
						}
					}
				}
			}
			c.Check(okG, "R11.6", k.key("store to permissions", types.ExprString(as.Rhs[0])), as.Pos(), "dominated by c.group == a.group", "a queued permission change is applied whatever group the client is in by now: a change issued in one group takes effect in the group the client joined since (an operator of a group of one's own can make a second connection operator anywhere)")
		}
		return true
	})
	if n < 6 {
		c.Bad("R11.6", "stores to permissions in the action handler", ha.Pos(), fmt.Sprintf("only %d found (op, unop x2, present, unpresent, shutup, unshutup expected)", n))
	}
	// the action is built with the issuer's own group
	minfo := hm.Pkg.TypesInfo
	mf := p.Facts().Analyze(hm)
	nl := 0
	ast.Inspect(hm.Body(), func(nd ast.Node) bool {
		cl, ok := nd.(*ast.CompositeLit)
		if !ok || !types.Identical(minfo.TypeOf(cl), tn.Type()) {
			return true
		}
		nl++
		okLit := false
		st, _ := mf.At(cl)
		recv := hm.params(minfo)[0]
		for _, el := range cl.Elts {
			e := el
			if kv, isKV := el.(*ast.KeyValueExpr); isKV {
				e = kv.Value
			}
			if t := minfo.TypeOf(e); t == nil || !isGroupPtr(t) {
				continue
			}
			gt := mf.term(e)
			own := TField(TVar(recv), fGroup)
			if gt != nil && st != nil && (gt.String() == own.String() || st.HasFact(mkFact(true, "eq", gt, own)) || st.HasFact(mkFact(true, "eq", own, gt)) || st.EqualUnder(gt, own)) {
				okLit = true
			}
		}
		c.Check(okLit, "R11.6", "the permission change carries the issuer's group", cl.Pos(), "changePermissionsAction{g, kind} with g == c.group", "the queued permission change does not say which group it was issued for (or names another group)")
		return true
	})
	if nl == 0 {
		c.Bad("R11.6", "the permission change carries the issuer's group", hm.Pos(), "no changePermissionsAction is built in handleClientMessage")
	}
}
