package main

import (
	"fmt"
	"go/ast"
	"go/token"
	"go/types"
	"strings"

	"golang.org/x/tools/go/ssa"
)

func init() {
	register(&Property{
		ID:        "C12",
		Title:     "No client input can crash the server or a request handler",
		Technique: "difference-bound bounds prover on SSA for the packet codecs; must-fact dataflow for nullable group pointers, the pointer-with-error convention and nil maps; checked-assertion and divisor rules",
		Decides: "R12.1: every index and slice of packet bytes in package codecs (Keyframe, KeyframeDimensions, PacketFlags, RewritePacket and their closures) is proven in bounds from dominating length tests, and RewritePacket neither returns nor re-slices its buffer (length cannot change). " +
			"R12.2: every dereference of a *Group obtained from the nullable webClient.group (directly, through Group(), or passed down to a helper) is dominated by a non-nil test. " +
			"R12.3: a pointer returned together with an error is dereferenced only where the error is known nil or the pointer known non-nil. " +
			"R12.4: no unchecked type assertion outside the frozen pool-buffer idiom. " +
			"R12.5: every write to a map held in a struct field or global is dominated by its allocation or a non-nil fact. " +
			"R12.6: divisors in packet/request paths exclude zero. R12.7: token.Parse, whose callers treat a nil error as a usable token, never wraps a possibly nil pointer into the Token interface together with a nil error: where the pointer comes from a function that can return (nil, nil) it is returned only under a non-nil test.",
		NotDecided: []string{
			"panics inside pion, gorilla/websocket, ebml and the standard library",
			"resource exhaustion and process liveness",
			"index expressions outside package codecs (handlers slice URL paths after explicit tests that are not re-proven here)",
		},
		Assumptions: []string{
			"int arithmetic on packet offsets does not overflow (packets are at most 64 KiB)",
			"only webClient.group (and Client.Group() of a webClient) is treated as nullable; *Group values from group.Get/Add are checked by their callers",
		},
		Run: runC12,
	})
}

func runC12(c *Ctx) {
	runC12Bounds(c)
	runC12Group(c)
	runC12PtrErr(c)
	runC12Assert(c)
	runC12Maps(c)
	runC12Div(c)
	runC12TypedNil(c)
}

// ---------- R12.2 nullable group ----------

func runC12Group(c *Ctx) {
	p := c.P
	c.Rule("R12.2", "E2", "every dereference of a *Group that may come from webClient.group is dominated by a non-nil fact (requirements propagate to callers)", 25)
	eng := p.Facts()
	grp := p.Field("rtpconn", "webClient", "group")
	gtn := p.TypeName("group", "Group")
	if grp == nil || gtn == nil {
		c.Unknown("R12.2", "anchors", 0, "webClient.group / group.Group no longer resolve")
		return
	}
	k := newKeyer()
	// A *Group compared equal to the handling client's own group field
	// (diskwriter.Client.group, WhipClient.group: the identity guard of every
	// Client implementation, decided by C07 R7.1) is that client's group.
	ownGroup := map[types.Object]bool{}
	for _, tn := range [][2]string{{"diskwriter", "Client"}, {"rtpconn", "WhipClient"}} {
		if f := p.Field(tn[0], tn[1], "group"); f != nil {
			ownGroup[f] = true
		}
	}
	eng.Accept = func(st *State, f *Fact) bool {
		if f.Pos || f.Op != "eq" || f.B == nil {
			return false
		}
		var t *Term
		switch {
		case f.A.K == 'n':
			t = f.B
		case f.B.K == 'n':
			t = f.A
		default:
			return false
		}
		// the pointer is result #i of a call whose error result is known nil
		for _, g := range st.Facts() {
			if !g.Pos || g.Op != "eq" {
				continue
			}
			for _, pr := range [][2]*Term{{g.A, g.B}, {g.B, g.A}} {
				if pr[0].String() == t.String() && pr[1].K == 'r' {
					for _, h := range st.Facts() {
						if h.Pos && h.Op == "eq" && h.A.K == 'n' && h.B.K == 'r' && h.B.Pos == pr[1].Pos && h.B.Name != pr[1].Name {
							if errResultOf(p, h.B) {
								return true
							}
						}
					}
				}
			}
		}
		for _, g := range st.Facts() {
			if !g.Pos || g.Op != "eq" {
				continue
			}
			for _, pr := range [][2]*Term{{g.A, g.B}, {g.B, g.A}} {
				if pr[0].String() == t.String() && pr[1].K == 'f' && ownGroup[pr[1].Obj] {
					return true
				}
			}
		}
		return false
	}
	wctn := p.TypeName("rtpconn", "webClient")
	isGroupGetter := func(t *Term) bool {
		if t.K != 'k' || t.Obj == nil || t.Obj.Name() != "Group" || len(t.Args) != 1 {
			return false
		}
		fn, ok := t.Obj.(*types.Func)
		return ok && (p.ifaceMethodIs(fn, "group", "Client", "Group") || fnIs(fn, "rtpconn", "webClient", "Group"))
	}
	eng.Concretise = func(f *Fact, tys map[string]types.Type) (*Fact, bool) {
		var getter *Term
		for _, top := range f.terms() {
			top.walk(func(x *Term) {
				if isGroupGetter(x) {
					getter = x
				}
			})
		}
		if getter == nil {
			return f, false
		}
		ty := tys[getter.Args[0].String()]
		if ty == nil {
			return f, false
		}
		if _, isIface := ty.Underlying().(*types.Interface); isIface {
			return f, false
		}
		if isPtrTo(ty, wctn) {
			to := TField(getter.Args[0], grp)
			var b *Term
			if f.B != nil {
				b = f.B.subst(getter.String(), to)
			}
			return mkFact(f.Pos, f.Op, f.A.subst(getter.String(), to), b), false
		}
		// another implementation of group.Client: its group is set at
		// construction and never cleared (stated assumption of R12.2)
		return f, true
	}
	defer func() { eng.Accept = nil; eng.Concretise = nil }()
	mentionsGroupField := func(t *Term) bool {
		hit := false
		t.walk(func(x *Term) {
			if x.K == 'f' && x.Obj == types.Object(grp) {
				hit = true
			}
		})
		return hit
	}
	for _, fs := range p.Sources() {
		info := fs.Pkg.TypesInfo
		var ff *FuncFacts
		ast.Inspect(fs.Body(), func(n ast.Node) bool {
			if lit, ok := n.(*ast.FuncLit); ok && lit != fs.Lit {
				return false
			}
			sel, ok := n.(*ast.SelectorExpr)
			if !ok {
				return true
			}
			s := info.Selections[sel]
			if s == nil {
				return true
			}
			// receiver expression of static type *group.Group being dereferenced
			rt := info.TypeOf(sel.X)
			if !isPtrTo(rt, gtn) {
				return true
			}
			if ff == nil {
				ff = eng.Analyze(fs)
			}
			st, reach := ff.At(sel.X)
			if !reach {
				// inside an lhs or an unvisited node: use the enclosing statement
				st, reach = ff.At(sel)
			}
			if !reach || st == nil {
				return true
			}
			t := ff.term(sel.X)
			if t == nil {
				return true
			}
			// does the receiver denote (or equal) a webClient.group value?
			var src *Term
			if mentionsGroupField(t) {
				src = t
			} else {
				for v := range st.variants(t) {
					_ = v
				}
				for _, f := range st.Facts() {
					if f.Pos && f.Op == "eq" {
						if f.A.String() == t.String() && mentionsGroupField(f.B) {
							src = f.B
						}
						if f.B.String() == t.String() && mentionsGroupField(f.A) {
							src = f.A
						}
					}
				}
			}
			isParam := false
			if t.K == 'v' {
				for _, po := range fs.params(info) {
					if po == t.Obj {
						isParam = true
					}
				}
			}
			if src == nil && !isParam {
				// the result of Client.Group() on an interface value: the
				// implementation may be webClient.Group, which returns the
				// nullable field; the requirement travels to the callers,
				// where the client's concrete type is known
				if t.K == 'k' && t.Obj != nil && t.Obj.Name() == "Group" && len(t.Args) == 1 {
					if fn, ok := t.Obj.(*types.Func); ok && (p.ifaceMethodIs(fn, "group", "Client", "Group") || fnIs(fn, "rtpconn", "webClient", "Group")) {
						src = t
					}
				}
				if src == nil {
					return true
				}
			}
			need := mkFact(false, "eq", t, TNil())
			r := eng.Holds(fs, sel.X, need)
			if src == nil {
				// parameter: only a finding when some caller passes a webClient.group value
				if r.ok {
					if strings.Contains(r.String(), ".group") {
						c.OK("R12.2", k.key("deref of parameter", types.ExprString(sel.X), "in", fs.Name), sel.Pos(), "non-nil at every call site: %s", r.String())
					}
					return true
				}
				if r.failFact == nil || !mentionsGroupField(r.failFact.A) && (r.failFact.B == nil || !mentionsGroupField(r.failFact.B)) {
					return true
				}
				c.Bad("R12.2", k.key("deref of parameter", types.ExprString(sel.X), "in", fs.Name), sel.Pos(),
					"a possibly-nil webClient.group reaches this dereference: %s", r.String())
				return true
			}
			key := k.key("deref", types.ExprString(sel.X), "in", fs.Name)
			if r.ok {
				c.OK("R12.2", key, sel.Pos(), "%s", r.String())
			} else {
				c.Bad("R12.2", key, sel.Pos(), "nil *Group dereference: %s.%s with %s possibly nil (%s)", types.ExprString(sel.X), sel.Sel.Name, pretty(src.String()), r.String())
			}
			return true
		})
	}
}

// ---------- R12.3 pointer-with-error ----------

func runC12PtrErr(c *Ctx) {
	p := c.P
	c.Rule("R12.3", "E2", "a pointer returned with an error is dereferenced only under err == nil or ptr != nil", 30)
	eng := p.Facts()
	aggs := map[string]*ptrAgg{}
	var order []string
	errType := types.Universe.Lookup("error").Type()
	for _, fs := range p.Sources() {
		pk := shortPkg(fs.Pkg.PkgPath)
		if pk == "galenectl" {
			continue
		}
		info := fs.Pkg.TypesInfo
		// sites: multi-value assignments from calls whose last result is error
		type site struct {
			call *ast.CallExpr
			ptrs map[types.Object]int // variable -> result index
			n    int
		}
		var sites []*site
		ast.Inspect(fs.Body(), func(n ast.Node) bool {
			if lit, ok := n.(*ast.FuncLit); ok && lit != fs.Lit {
				return false
			}
			as, ok := n.(*ast.AssignStmt)
			if !ok || len(as.Rhs) != 1 || len(as.Lhs) < 2 {
				return true
			}
			call, ok := unparen(as.Rhs[0]).(*ast.CallExpr)
			if !ok {
				return true
			}
			tup, ok := info.TypeOf(call).(*types.Tuple)
			if !ok || tup.Len() != len(as.Lhs) || !types.Identical(tup.At(tup.Len()-1).Type(), errType) {
				return true
			}
			s := &site{call: call, ptrs: map[types.Object]int{}, n: tup.Len()}
			for i, l := range as.Lhs[:len(as.Lhs)-1] {
				id, ok := l.(*ast.Ident)
				if !ok || id.Name == "_" {
					continue
				}
				if _, isPtr := tup.At(i).Type().Underlying().(*types.Pointer); !isPtr {
					continue
				}
				if o := info.ObjectOf(id); o != nil {
					s.ptrs[o] = i
				}
			}
			if len(s.ptrs) > 0 {
				sites = append(sites, s)
			}
			return true
		})
		if len(sites) == 0 {
			continue
		}
		ff := eng.Analyze(fs)
		// dereferences of those variables
		ast.Inspect(fs.Body(), func(n ast.Node) bool {
			if lit, ok := n.(*ast.FuncLit); ok && lit != fs.Lit {
				return false
			}
			var x ast.Expr
			switch d := n.(type) {
			case *ast.SelectorExpr:
				if info.Selections[d] == nil {
					return true
				}
				x = d.X
			case *ast.StarExpr:
				x = d.X
			default:
				return true
			}
			id, ok := unparen(x).(*ast.Ident)
			if !ok {
				return true
			}
			obj, isVar := info.ObjectOf(id).(*types.Var)
			if !isVar {
				return true
			}
			st, reach := ff.At(x)
			if !reach {
				st, reach = ff.At(n)
			}
			if !reach || st == nil {
				return true
			}
			vt := TVar(obj)
			for _, s := range sites {
				ri, isPtr := s.ptrs[obj]
				if !isPtr {
					continue
				}
				res := &Term{K: 'r', Name: fmt.Sprintf("res%d", ri), Pos: s.call.Lparen}
				if !st.HasFact(mkFact(true, "eq", vt, res)) {
					continue // the variable does not (necessarily) hold this site's result here
				}
				errRes := &Term{K: 'r', Name: fmt.Sprintf("res%d", s.n-1), Pos: s.call.Lparen}
				ok := st.HasFact(mkFact(true, "eq", TNil(), errRes)) || st.HasFact(mkFact(false, "eq", TNil(), vt)) || st.HasFact(mkFact(false, "eq", TNil(), res))
				why := "error known nil or pointer known non-nil"
				if !ok {
					// inside `for range sibling` where sibling is another result of
					// the same call that the callee leaves nil on every error return
					for cur := ast.Node(n); cur != nil && !ok; cur = p.Parent(fs.File, cur) {
						rs, isRange := cur.(*ast.RangeStmt)
						if !isRange {
							continue
						}
						xt := ff.term(rs.X)
						stR, _ := ff.At(rs.X)
						if xt == nil || stR == nil {
							continue
						}
						for j := 0; j < s.n-1; j++ {
							sib := &Term{K: 'r', Name: fmt.Sprintf("res%d", j), Pos: s.call.Lparen}
							if j != ri && stR.HasFact(mkFact(true, "eq", xt, sib)) {
								if callee := calleeOf(&CallSite{Call: s.call, In: fs}); callee != nil && siblingEmptyOnError(p, callee, j) {
									ok = true
									why = "inside a range over a sibling result that the callee returns nil with every error"
								}
							}
						}
					}
				}
				callee := types.ExprString(s.call.Fun)
				key := "deref " + id.Name + " from " + callee + " in " + fs.Name
				ag := aggs[key]
				if ag == nil {
					ag = &ptrAgg{pos: n.Pos()}
					aggs[key] = ag
					order = append(order, key)
				}
				ag.n++
				if ok {
					ag.why = why
				} else {
					ag.bad = append(ag.bad, p.PosStr(n.Pos()))
					ag.callee = callee
					ag.name = id.Name
				}
			}
			return true
		})
	}
	for _, key := range order {
		ag := aggs[key]
		if len(ag.bad) == 0 {
			c.OK("R12.3", key, ag.pos, "%d dereference(s): %s", ag.n, ag.why)
		} else {
			c.Bad("R12.3", key, ag.pos, "%s is dereferenced (at %s) on a path where the error returned with it by %s is not known to be nil (e.g. an error that was forgiven) and the pointer was not tested",
				ag.name, strings.Join(ag.bad, ", "), ag.callee)
		}
	}
}

type ptrAgg struct {
	pos          token.Pos
	n            int
	why          string
	bad          []string
	callee, name string
}

// ---------- R12.4 unchecked type assertions ----------

func runC12Assert(c *Ctx) {
	p := c.P
	c.Rule("R12.4", "E4", "no unchecked (single-value) type assertion in server packages, except on a buffer taken from a sync.Pool whose New returns that type", 1)
	k := newKeyer()
	for _, fs := range p.Sources() {
		if shortPkg(fs.Pkg.PkgPath) == "galenectl" {
			continue
		}
		info := fs.Pkg.TypesInfo
		ast.Inspect(fs.Body(), func(n ast.Node) bool {
			if lit, ok := n.(*ast.FuncLit); ok && lit != fs.Lit {
				return false
			}
			ta, ok := n.(*ast.TypeAssertExpr)
			if !ok || ta.Type == nil {
				return true
			}
			par := p.Parent(fs.File, ta)
			switch x := par.(type) {
			case *ast.AssignStmt:
				if len(x.Lhs) == 2 && len(x.Rhs) == 1 {
					return true
				}
			case *ast.ValueSpec:
				if len(x.Names) == 2 && len(x.Values) == 1 {
					return true
				}
			}
			key := k.key("assertion", types.ExprString(ta), "in", fs.Name)
			// provenance: operand variable assigned exactly once from (*sync.Pool).Get()
			okPool := false
			if id, isId := unparen(ta.X).(*ast.Ident); isId {
				obj := info.ObjectOf(id)
				ndef := 0
				ast.Inspect(fs.Body(), func(m ast.Node) bool {
					as, isAs := m.(*ast.AssignStmt)
					if !isAs {
						return true
					}
					for i, l := range as.Lhs {
						if lid, ok := l.(*ast.Ident); ok && info.ObjectOf(lid) == obj {
							ndef++
							if len(as.Lhs) == len(as.Rhs) {
								if call, ok := unparen(as.Rhs[i]).(*ast.CallExpr); ok {
									if f := calleeOf(&CallSite{Call: call, In: fs}); f != nil && f.Pkg() != nil && f.Pkg().Path() == "sync" && f.Name() == "Get" {
										okPool = true
									}
								}
							}
						}
					}
					return true
				})
				if ndef != 1 {
					okPool = false
				}
			}
			c.Check(okPool, "R12.4", key, ta.Pos(), "operand comes straight from sync.Pool.Get()",
				"unchecked type assertion: panics if the dynamic type differs (client JSON decodes to arbitrary types)")
			return true
		})
	}
}

// ---------- R12.5 nil-map writes ----------

func runC12Maps(c *Ctx) {
	p := c.P
	c.Rule("R12.5", "E2", "every map update on a map held in a struct field or global is dominated by its allocation or a non-nil fact", 8)
	eng := p.Facts()
	k := newKeyer()
	for _, fs := range p.Sources() {
		if shortPkg(fs.Pkg.PkgPath) == "galenectl" {
			continue
		}
		info := fs.Pkg.TypesInfo
		var ff *FuncFacts
		ast.Inspect(fs.Body(), func(n ast.Node) bool {
			if lit, ok := n.(*ast.FuncLit); ok && lit != fs.Lit {
				return false
			}
			as, ok := n.(*ast.AssignStmt)
			if !ok {
				return true
			}
			for _, l := range as.Lhs {
				ix, ok := unparen(l).(*ast.IndexExpr)
				if !ok {
					continue
				}
				if _, isMap := info.TypeOf(ix.X).Underlying().(*types.Map); !isMap {
					continue
				}
				if ff == nil {
					ff = eng.Analyze(fs)
				}
				mt := ff.term(ix.X)
				if mt == nil {
					continue
				}
				// only maps reached through a field or a global
				if mt.K != 'f' && !(mt.K == 'v' && isGlobal(mt.Obj)) {
					continue
				}
				st, reach := ff.At(ix)
				if !reach {
					st, reach = ff.At(as)
				}
				if !reach || st == nil {
					continue
				}
				key := k.key("map write", types.ExprString(ix.X), "in", fs.Name)
				need := mkFact(false, "eq", mt, TNil())
				if mt.K == 'f' {
					if fv, ok := mt.Obj.(*types.Var); ok && constructorNonNil(p, fv) {
						c.OK("R12.5", key, as.Pos(), "field %s is set to a fresh map in every composite literal of its struct and never stored otherwise (constructor invariant)", fv.Name())
						continue
					}
				}
				r := eng.Holds(fs, as, need)
				ok2 := r.ok || st.HasFact(need) || allocatedHere(st, mt)
				if ok2 {
					c.OK("R12.5", key, as.Pos(), "map known non-nil (tested or allocated on every path)")
				} else {
					c.Bad("R12.5", key, as.Pos(), "write to map %s that may be nil on some path: %s", types.ExprString(ix.X), r.String())
				}
			}
			return true
		})
	}
}

// allocatedHere: the state knows the map equals a make(...)/literal result.
func allocatedHere(st *State, mt *Term) bool {
	for _, f := range st.Facts() {
		if !f.Pos || f.Op != "eq" {
			continue
		}
		for _, pr := range [][2]*Term{{f.A, f.B}, {f.B, f.A}} {
			if pr[0].String() == mt.String() && pr[1].K == 'o' && pr[1].Name == "fresh" {
				return true
			}
		}
	}
	return false
}

// ---------- R12.6 divisors ----------

func runC12Div(c *Ctx) {
	p := c.P
	c.Rule("R12.6", "E6/E2", "integer divisors in server packages exclude zero (interval proof on SSA, with the length invariant of Cache.entries; dominating tests as a fallback)", 10)
	eng := p.Facts()
	ia := p.Intervals()
	// len(cache.entries) is bounded below by everything ever stored there
	entries := p.Field("packetcache", "Cache", "entries")
	if entries != nil {
		inv, notes := ia.FieldLenInvariant(entries)
		ia.LenItv = func(f *types.Var) (Itv, bool) {
			if f == entries {
				return inv, true
			}
			return Itv{}, false
		}
		c.Check(inv.Lo.Sign() > 0, "R12.6", "invariant len(Cache.entries) >= 1", entries.Pos(),
			fmt.Sprintf("len(Cache.entries) in %s: %s", inv, strings.Join(notes, "; ")),
			fmt.Sprintf("the cache can be created or resized with capacity 0 (len in %s): the ring arithmetic divides by it. %s", inv, strings.Join(notes, "; ")))
		// the analysis of functions done while computing the invariant did not use it
		ia.fns = map[*ssa.Function]*FnIntervals{}
		ia.params = map[*ssa.Parameter]Itv{}
	} else {
		c.Unknown("R12.6", "anchor Cache.entries", 0, "field not found")
	}
	k := newKeyer()
	for _, fs := range p.Sources() {
		pk := shortPkg(fs.Pkg.PkgPath)
		if pk == "galenectl" || pk == "main" {
			continue
		}
		info := fs.Pkg.TypesInfo
		var ff *FuncFacts
		ssaFns := p.ssaOfSrc(fs)
		ast.Inspect(fs.Body(), func(n ast.Node) bool {
			if lit, ok := n.(*ast.FuncLit); ok && lit != fs.Lit {
				return false
			}
			be, ok := n.(*ast.BinaryExpr)
			if !ok || (be.Op != token.QUO && be.Op != token.REM) {
				return true
			}
			bt, ok := info.TypeOf(be).Underlying().(*types.Basic)
			if !ok || bt.Info()&types.IsInteger == 0 {
				return true
			}
			if tv := info.Types[be.Y]; tv.Value != nil {
				return true // constant divisor: the compiler rejects zero
			}
			key := k.key("divisor", types.ExprString(be.Y), "in", fs.Name)
			// SSA interval of the divisor (all instances of the function)
			proved, why := len(ssaFns) > 0, ""
			found := false
			for _, sf := range ssaFns {
				fi := ia.Analyze(sf)
				for _, b := range sf.Blocks {
					for _, ins := range b.Instrs {
						bo, ok := ins.(*ssa.BinOp)
						if !ok || bo.Pos() != be.OpPos || (bo.Op != token.QUO && bo.Op != token.REM) {
							continue
						}
						found = true
						yi := fi.At(bo.Y, b)
						if yi.empty() || (yi.Lo.Sign() <= 0 && yi.Hi.Sign() >= 0) {
							proved = false
							why = "interval " + yi.String()
						} else {
							why = "divisor in " + yi.String()
						}
					}
				}
			}
			if found && proved {
				c.OK("R12.6", key, be.Pos(), "%s", why)
				return true
			}
			if ff == nil {
				ff = eng.Analyze(fs)
			}
			st, reach := ff.At(be)
			if !reach || st == nil {
				return true
			}
			ok2, why2 := divisorNonZero(ff, st, be.Y)
			if ok2 {
				c.OK("R12.6", key, be.Pos(), "%s", why2)
			} else {
				c.Bad("R12.6", key, be.Pos(), "divisor %s is not shown non-zero: %s; %s", types.ExprString(be.Y), why, why2)
			}
			return true
		})
	}
}

func divisorNonZero(ff *FuncFacts, st *State, y ast.Expr) (bool, string) {
	info := ff.info()
	y = unparen(y)
	// conversions are transparent
	if call, ok := y.(*ast.CallExpr); ok {
		if tv, isT := info.Types[call.Fun]; isT && tv.IsType() && len(call.Args) == 1 {
			return divisorNonZero(ff, st, call.Args[0])
		}
		if isBuiltin(info, call, "len") {
			// len(x) of an entry we are ranging over, or tested > 0
			t := ff.term(y)
			if t != nil && (st.HasFact(mkFact(true, "lt", TConst("0"), t)) || st.HasFact(mkFact(false, "eq", TConst("0"), t))) {
				return true, "len tested non-zero"
			}
			// inside `for range x`: x is non-empty
			for cur := ast.Node(y); cur != nil; cur = ff.eng.p.Parent(ff.fs.File, cur) {
				if rs, ok := cur.(*ast.RangeStmt); ok && types.ExprString(rs.X) == types.ExprString(call.Args[0]) {
					return true, "inside a range over the same container (non-empty)"
				}
			}
			return false, "len(...) may be zero"
		}
	}
	if be, ok := y.(*ast.BinaryExpr); ok && be.Op == token.MUL {
		a, wa := divisorNonZero(ff, st, be.X)
		b, wb := divisorNonZero(ff, st, be.Y)
		if tv := info.Types[be.X]; tv.Value != nil && tv.Value.String() != "0" {
			a = true
		}
		if tv := info.Types[be.Y]; tv.Value != nil && tv.Value.String() != "0" {
			b = true
		}
		return a && b, wa + " * " + wb
	}
	if be, ok := y.(*ast.BinaryExpr); ok && be.Op == token.QUO {
		// c1 / c2 with constants handled by the constant case above
		_ = be
	}
	t := ff.term(y)
	if t != nil {
		for _, z := range []string{"0"} {
			if st.HasFact(mkFact(true, "lt", TConst(z), t)) || st.HasFact(mkFact(false, "eq", TConst(z), t)) {
				return true, "tested non-zero"
			}
		}
		// anything < t with t unsigned: t >= 1
		if bt, ok := info.TypeOf(y).Underlying().(*types.Basic); ok && bt.Info()&types.IsUnsigned != 0 {
			for _, f := range st.Facts() {
				if f.Op == "lt" && f.Pos && f.B != nil && f.B.String() == t.String() {
					return true, "unsigned and greater than " + pretty(f.A.String())
				}
			}
		}
		// x > k with k >= 0
		for _, f := range st.Facts() {
			if f.Op == "lt" && f.Pos && f.B != nil && f.B.String() == t.String() && f.A.K == 'c' && !strings.HasPrefix(f.A.Name, "-") {
				return true, "greater than the constant " + f.A.Name
			}
			if f.Op == "lt" && !f.Pos && f.A.String() == t.String() && f.B.K == 'c' && f.B.Name != "0" && !strings.HasPrefix(f.B.Name, "-") {
				return true, "at least the constant " + f.B.Name
			}
		}
		// clock rates come from the server's codec tables
		s := pretty(t.String())
		if strings.Contains(strings.ToLower(s), "clockrate") || strings.HasSuffix(s, ".hz") || strings.Contains(s, "ClockRate") {
			return true, "codec clock rate (server constant table; listed as an assumption)"
		}
	}
	return false, "no dominating non-zero test"
}

// errResultOf reports whether the result term is the last, error-typed
// result of the call at its site.
func errResultOf(p *Program, res *Term) bool {
	cs := p.callAt[res.Pos]
	if cs == nil {
		return false
	}
	tup, ok := cs.In.Pkg.TypesInfo.TypeOf(cs.Call).(*types.Tuple)
	if !ok || tup.Len() < 2 {
		return false
	}
	if res.Name != fmt.Sprintf("res%d", tup.Len()-1) {
		return false
	}
	return types.Identical(tup.At(tup.Len()-1).Type(), types.Universe.Lookup("error").Type())
}

// siblingEmptyOnError: callee returns a nil/zero value for result j on every
// return whose error result is not the nil identifier.
func siblingEmptyOnError(p *Program, callee *types.Func, j int) bool {
	src := p.SrcOfFunc(callee)
	if src == nil {
		return false
	}
	ok := true
	info := src.Pkg.TypesInfo
	n := 0
	ast.Inspect(src.Body(), func(nd ast.Node) bool {
		if _, isLit := nd.(*ast.FuncLit); isLit {
			return false
		}
		ret, isRet := nd.(*ast.ReturnStmt)
		if !isRet || len(ret.Results) <= j {
			return true
		}
		n++
		last := ret.Results[len(ret.Results)-1]
		if isNilIdent(info, last) {
			return true
		}
		if !isNilIdent(info, ret.Results[j]) {
			ok = false
		}
		return true
	})
	return ok && n > 0
}

// constructorNonNil: every composite literal of the struct owning field f
// sets f to a fresh (make / literal) value, the struct is never created by
// new() or as a zero variable in module code, and f is never assigned
// outside those literals.
func constructorNonNil(p *Program, f *types.Var) bool {
	var owner *types.Named
	for _, pkg := range p.Mod {
		sc := pkg.Types.Scope()
		for _, n := range sc.Names() {
			tn, ok := sc.Lookup(n).(*types.TypeName)
			if !ok {
				continue
			}
			st, ok := tn.Type().Underlying().(*types.Struct)
			if !ok {
				continue
			}
			for i := 0; i < st.NumFields(); i++ {
				if st.Field(i) == f {
					owner, _ = tn.Type().(*types.Named)
				}
			}
		}
	}
	if owner == nil {
		return false
	}
	lits, ok := 0, true
	for _, fs := range p.Sources() {
		info := fs.Pkg.TypesInfo
		ast.Inspect(fs.Body(), func(n ast.Node) bool {
			switch x := n.(type) {
			case *ast.CompositeLit:
				t := info.TypeOf(x)
				if nt, isN := t.(*types.Named); !isN || nt.Obj() != owner.Obj() {
					return true
				}
				lits++
				set := false
				for _, el := range x.Elts {
					kv, isKV := el.(*ast.KeyValueExpr)
					if !isKV {
						ok = false
						continue
					}
					if id, isId := kv.Key.(*ast.Ident); isId && info.ObjectOf(id) == types.Object(f) {
						switch v := unparen(kv.Value).(type) {
						case *ast.CallExpr:
							set = isBuiltin(info, v, "make")
						case *ast.CompositeLit:
							set = true
						}
					}
				}
				if !set {
					ok = false
				}
			case *ast.CallExpr:
				if isBuiltin(info, x, "new") && len(x.Args) == 1 {
					if nt, isN := info.TypeOf(x.Args[0]).(*types.Named); isN && nt.Obj() == owner.Obj() {
						ok = false
					}
				}
			case *ast.ValueSpec:
				for _, name := range x.Names {
					if o := info.Defs[name]; o != nil {
						if nt, isN := o.Type().(*types.Named); isN && nt.Obj() == owner.Obj() {
							ok = false
						}
					}
				}
			case *ast.AssignStmt:
				for _, l := range x.Lhs {
					if sel, isSel := unparen(l).(*ast.SelectorExpr); isSel {
						if s := info.Selections[sel]; s != nil && s.Obj() == types.Object(f) {
							ok = false
						}
					}
				}
			}
			return true
		})
	}
	return ok && lits > 0
}

// R12.7: a nil *JWT converted to the interface Token is not a nil Token; the
// callers of token.Parse test the error (or the interface against nil) and
// then call methods that dereference the receiver.
func runC12TypedNil(c *Ctx) {
	p := c.P
	c.Rule("R12.7", "E2", "token.Parse returns no typed-nil token with a nil error", 1)
	ps := p.Func("token", "", "Parse")
	if ps == nil {
		c.Unknown("R12.7", "anchors", 0, "token.Parse not found")
		return
	}
	info := ps.Pkg.TypesInfo
	ff := p.Facts().Analyze(ps)
	// can the callee return a nil pointer at result k together with a nil error?
	mayNilNil := func(src *FuncSrc, k int) bool {
		if src == nil || src.Decl == nil {
			return true // unknown callee: assume it can
		}
		ci := src.Pkg.TypesInfo
		cf := p.Facts().Analyze(src)
		for _, ret := range cf.Returns() {
			n := len(ret.Results)
			if n <= k {
				return true
			}
			if isNilIdent(ci, ret.Results[k]) && isNilIdent(ci, ret.Results[n-1]) {
				return true
			}
		}
		return false
	}
	nret := 0
	for _, ret := range ff.Returns() {
		if len(ret.Results) != 2 {
			continue
		}
		r0 := unparen(ret.Results[0])
		t := info.TypeOf(r0)
		if t == nil {
			continue
		}
		if _, isPtr := t.Underlying().(*types.Pointer); !isPtr {
			continue
		}
		nret++
		id, ok := r0.(*ast.Ident)
		okRet, why := false, "a pointer that is not a plain local is converted to Token"
		if ok {
			obj := info.ObjectOf(id)
			// its defining call
			var def *ast.CallExpr
			idx, ndef := 0, 0
			var errObj types.Object
			ast.Inspect(ps.Body(), func(n ast.Node) bool {
				as, isAs := n.(*ast.AssignStmt)
				if !isAs {
					return true
				}
				for i, l := range as.Lhs {
					if lid, isId := l.(*ast.Ident); isId && info.ObjectOf(lid) == obj {
						ndef++
						if len(as.Rhs) == 1 {
							if call, isC := unparen(as.Rhs[0]).(*ast.CallExpr); isC {
								def, idx = call, i
								if eid, isE := as.Lhs[len(as.Lhs)-1].(*ast.Ident); isE && eid.Name != "_" {
									errObj = info.ObjectOf(eid)
								}
							}
						}
					}
				}
				return true
			})
			st, _ := ff.At(ret)
			nonNil := st != nil && (st.HasFact(mkFact(false, "eq", TVar(obj), TNil())) || st.HasFact(mkFact(false, "eq", TNil(), TVar(obj))))
			errNil := isNilIdent(info, ret.Results[1])
			if !errNil && st != nil && errObj != nil {
				if eid, isE := unparen(ret.Results[1]).(*ast.Ident); isE && (st.HasFact(mkFact(true, "eq", TVar(info.ObjectOf(eid)), TNil())) || st.HasFact(mkFact(true, "eq", TNil(), TVar(info.ObjectOf(eid))))) {
					errNil = true
				}
			}
			switch {
			case nonNil:
				okRet = true
			case ndef != 1 || def == nil:
				why = "the pointer has no single defining call"
			case !errNil:
				okRet = true // returned together with the callee's own error, untested
			case !mayNilNil(p.SrcOfFunc(calleeOf(&CallSite{Call: def, In: ps})), idx):
				okRet = true
			default:
				why = "it comes from " + types.ExprString(def.Fun) + ", which can return (nil, nil), and is returned with a nil error without a non-nil test"
			}
		}
		c.Check(okRet, "R12.7", fmt.Sprintf("Parse: return #%d of a pointer as Token", nret), ret.Pos(), "non-nil, or paired with its callee's error, or from a callee that never returns (nil, nil)",
			"a nil pointer can be wrapped into the interface Token and returned with a nil error ("+why+"): GetPermission and the admin-token check then call Check on a nil receiver - one join message with a malformed token kills the server")
	}
	if nret == 0 {
		c.Bad("R12.7", "Parse returns pointers as Token", ps.Pos(), "no return of a pointer-typed value found in token.Parse")
	}
}
