package main

import (
	"fmt"
	"go/ast"
	"go/types"
	"strings"
)

// boundsException is a frozen exception of the bounds prover: an access the
// linear prover cannot decide, with the condition that IS checked and the
// manual argument for the rest.
type boundsException struct {
	fn, access string
	// callee whose successful return (nil error) must dominate the access, if any
	needOK string
	// condition of an if statement with a returning body that must dominate the access, if any
	needGuard string
	// additional structural condition checked on the current tree, if any
	check  func(fs *FuncSrc) bool
	reason string
}

// startIsPrefixLen: in fs every assignment to the variable start is the
// constant 0, or a constant k inside `if strings.HasPrefix(s, lit)` with
// len(lit) >= k (and s is not assigned in that body).
func startIsPrefixLen(fs *FuncSrc) bool {
	info := fs.Pkg.TypesInfo
	ok, n := true, 0
	var visit func(nd ast.Node, guard int64)
	visit = func(nd ast.Node, guard int64) {
		ast.Inspect(nd, func(m ast.Node) bool {
			switch x := m.(type) {
			case *ast.IfStmt:
				g := guard
				if call, isC := unparen(x.Cond).(*ast.CallExpr); isC && len(call.Args) == 2 && types.ExprString(call.Fun) == "strings.HasPrefix" && types.ExprString(call.Args[0]) == "s" {
					if lit, isS := constString(info, call.Args[1]); isS {
						g = int64(len(lit))
					}
				}
				if x.Init != nil {
					visit(x.Init, guard)
				}
				visit(x.Body, g)
				if x.Else != nil {
					visit(x.Else, guard)
				}
				return false
			case *ast.AssignStmt:
				for i, l := range x.Lhs {
					id, isId := l.(*ast.Ident)
					if !isId || id.Name != "start" || i >= len(x.Rhs) {
						continue
					}
					n++
					tv := info.Types[x.Rhs[i]]
					if tv.Value == nil {
						ok = false
						continue
					}
					var v int64
					if _, err := fmt.Sscan(tv.Value.ExactString(), &v); err != nil || v < 0 || v > guard {
						ok = false
					}
				}
			case *ast.IncDecStmt:
				if id, isId := x.X.(*ast.Ident); isId && id.Name == "start" {
					ok = false
				}
			}
			return true
		})
	}
	visit(fs.Body(), 0)
	return ok && n > 0
}

var boundsExceptions = []boundsException{
	{fn: "webserver.scanETag", access: "s[start:]", check: startIsPrefixLen,
		reason: "start is 0, or the constant 2 assigned only under strings.HasPrefix(s, \"W/\") (checked structurally: every assignment to start is a constant not larger than the length of the prefix literal tested around it), so start <= len(s)"},
	{fn: "webserver.(*fileHandler).ServeHTTP", access: "u[len(u) - 1]", needGuard: "!strings.HasPrefix(r.URL.Path, \"/\")",
		reason: "u is r.URL.Path, which starts with '/' (checked: an if on !strings.HasPrefix(r.URL.Path, \"/\") whose body returns dominates the access); the request URL is not modified by the file-system calls in between"},
	{fn: "codecs.PacketFlags", access: "packet.Payload[0]", needOK: "Unmarshal",
		reason: "VP9Packet.Unmarshal returns errShortPacket for an empty payload, so a nil error (checked: dominates the access) implies len(packet.Payload) >= 1"},
	{fn: "codecs.Keyframe", access: "packet.Payload[offset:]",
		reason: "offset starts at 1 with len(Payload) >= 2 established; each iteration adds the length returned by getObu for the slice Payload[offset:], and every return of getObu that lets the loop continue returns a length <= len of that slice (checked separately: R12.1 getObu-postcondition)"},
}

// R12.1: every index / slice expression in package codecs is in bounds.
func runC12Bounds(c *Ctx) {
	c.Rule("R12.1", "E7", "every index and slice expression in packages codecs and webserver is proven in bounds from dominating length tests (linear reasoning over must-facts); RewritePacket never re-slices or returns its buffer", 60)
	runC12BoundsPkg(c, "codecs")
	runC12BoundsPkg(c, "webserver")
}

func runC12BoundsPkg(c *Ctx, pkgName string) {
	p := c.P
	pk := p.Pkg(pkgName)
	if pk == nil {
		c.Unknown("R12.1", "anchor package "+pkgName, 0, "not found")
		return
	}
	eng := p.Facts()
	eng.Semantic = true
	saved := eng.cache
	eng.cache = map[*FuncSrc]*FuncFacts{}
	defer func() { eng.Semantic = false; eng.cache = saved }()
	k := newKeyer()
	for _, fs := range p.Sources() {
		if fs.Pkg != pk {
			continue
		}
		info := fs.Pkg.TypesInfo
		ff := eng.Analyze(fs)
		nn := ff.nonNeg()
		check := func(n ast.Node, container ast.Expr, goals []*linForm, what string) {
			key := k.key(types.ExprString(n.(ast.Expr)), "in", fs.Root().Name)
			st, reach := ff.At(n)
			if !reach {
				st, reach = ff.At(container)
			}
			if !reach || st == nil {
				c.OK("R12.1", key, n.Pos(), "unreachable")
				return
			}
			// what is known about the indexed value itself by construction (path.Clean is never
			// empty, strings.Index stays within its argument): postconditions are attached to
			// the call terms the state mentions, so mention it
			stx := st
			if ct := ff.term(container); ct != nil {
				stx = st.with(mkFact(true, "eq", ct, ct))
			}
			ineqs := stateIneqs(stx)
			var failed []string
			for _, g := range goals {
				if !proveGE0(g, ineqs, nn) {
					failed = append(failed, g.String()+" >= 0")
				}
			}
			if len(failed) == 0 {
				c.OK("R12.1", key, n.Pos(), "%s proven from the dominating tests", what)
				return
			}
			// case split on the antecedent of an implication fact (a value set
			// on one branch together with the condition of that branch)
			for _, imp := range st.m {
				if imp.Op != "imp" || imp.Cond == nil {
					continue
				}
				split := func(pol *Fact) bool {
					s2 := st
					for _, g := range st.m {
						if g.Op == "imp" && g.Cond != nil && g.Cond.key == pol.key && g.Then != nil {
							s2 = s2.add(g.Then)
						}
					}
					s2 = s2.add(pol)
					in2 := stateIneqs(s2)
					for _, g := range goals {
						if !proveGE0(g, in2, nn) {
							return false
						}
					}
					return true
				}
				if split(imp.Cond) && split(complement(imp.Cond)) {
					c.OK("R12.1", key, n.Pos(), "%s proven by case split on %s", what, imp.Cond.String())
					return
				}
			}
			// the less function of sort.Slice is called with 0 <= i, j < len(slice)
			if ix, ok := n.(*ast.IndexExpr); ok && fs.Lit != nil {
				if call, ok := p.Parent(fs.File, fs.Lit).(*ast.CallExpr); ok && len(call.Args) == 2 && call.Args[1] == ast.Expr(fs.Lit) {
					if f := calleeOf(&CallSite{Call: call, In: fs.Parent}); f != nil && f.Pkg() != nil && f.Pkg().Path() == "sort" && (f.Name() == "Slice" || f.Name() == "SliceStable") {
						if types.ExprString(call.Args[0]) == types.ExprString(ix.X) {
							if id, ok := unparen(ix.Index).(*ast.Ident); ok {
								for _, po := range fs.params(info) {
									if po != nil && info.Uses[id] == po {
										c.OK("R12.1", key, n.Pos(), "index is a parameter of the less function of sort.Slice over the same slice (contract: 0 <= i, j < len)")
										return
									}
								}
							}
						}
					}
				}
			}
			// frozen exceptions
			acc := types.ExprString(n.(ast.Expr))
			for _, ex := range boundsExceptions {
				if ex.fn != fs.Root().Name || ex.access != acc {
					continue
				}
				if ex.check != nil && !ex.check(fs.Root()) {
					continue
				}
				if ex.needGuard != "" {
					okG := false
					ast.Inspect(fs.Root().Body(), func(m ast.Node) bool {
						ifs, ok := m.(*ast.IfStmt)
						if !ok || types.ExprString(ifs.Cond) != ex.needGuard || len(ifs.Body.List) == 0 {
							return true
						}
						if _, isRet := ifs.Body.List[len(ifs.Body.List)-1].(*ast.ReturnStmt); isRet && ifs.Else == nil && ff.DominatedByNode(n, ifs.Cond) {
							okG = true
						}
						return true
					})
					if !okG {
						continue
					}
				}
				if ex.needOK != "" {
					okDom := false
					for _, f := range st.Facts() {
						if f.Pos && f.Op == "eq" && f.A.K == 'n' && f.B.K == 'r' {
							if cs := p.callAt[f.B.Pos]; cs != nil && errResultOf(p, f.B) {
								if cal := calleeOf(cs); cal != nil && cal.Name() == ex.needOK {
									okDom = true
								}
							}
						}
					}
					if !okDom {
						continue
					}
				}
				c.OK("R12.1", key, n.Pos(), "frozen exception: %s", ex.reason)
				return
			}
			c.Bad("R12.1", key, n.Pos(), "cannot prove %s in bounds: missing %s; facts: %s", acc, strings.Join(failed, ", "), st.String())
		}
		ast.Inspect(fs.Body(), func(n ast.Node) bool {
			if lit, ok := n.(*ast.FuncLit); ok && lit != fs.Lit {
				return false
			}
			switch x := n.(type) {
			case *ast.IndexExpr:
				ct := info.TypeOf(x.X)
				if ct == nil {
					return true
				}
				var lenForm *linForm
				switch u := ct.Underlying().(type) {
				case *types.Slice:
					t := ff.term(x.X)
					if t == nil {
						c.Bad("R12.1", k.key(types.ExprString(x), "in", fs.Root().Name), x.Pos(), "container is not an access path")
						return true
					}
					lenForm = linOf(TCall("len", nil, t))
				case *types.Array:
					lenForm = newLin()
					lenForm.k = u.Len()
				case *types.Basic: // string
					t := ff.term(x.X)
					if t == nil {
						return true
					}
					lenForm = linOf(TCall("len", nil, t))
				default:
					return true // maps
				}
				it := ff.term(x.Index)
				if it == nil {
					c.Bad("R12.1", k.key(types.ExprString(x), "in", fs.Root().Name), x.Pos(), "index is not a linear expression")
					return true
				}
				idx := linOf(it)
				// idx >= 0 and len - idx - 1 >= 0
				g1 := newLin()
				g1.add(idx, 1)
				g2 := newLin()
				g2.add(lenForm, 1)
				g2.add(idx, -1)
				g2.k--
				check(x, x.X, []*linForm{g1, g2}, fmt.Sprintf("0 <= %s < len", types.ExprString(x.Index)))
			case *ast.SliceExpr:
				ct := info.TypeOf(x.X)
				if ct == nil {
					return true
				}
				var lenForm *linForm
				switch u := ct.Underlying().(type) {
				case *types.Slice, *types.Basic:
					t := ff.term(x.X)
					if t == nil {
						c.Bad("R12.1", k.key(types.ExprString(x), "in", fs.Root().Name), x.Pos(), "container is not an access path")
						return true
					}
					lenForm = linOf(TCall("len", nil, t))
				case *types.Pointer:
					if at, ok := u.Elem().Underlying().(*types.Array); ok {
						lenForm = newLin()
						lenForm.k = at.Len()
					}
				case *types.Array:
					lenForm = newLin()
					lenForm.k = u.Len()
				}
				if lenForm == nil {
					return true
				}
				lo, hi := newLin(), lenForm
				if x.Low != nil {
					t := ff.term(x.Low)
					if t == nil {
						c.Bad("R12.1", k.key(types.ExprString(x), "in", fs.Root().Name), x.Pos(), "low bound is not a linear expression")
						return true
					}
					lo = linOf(t)
				}
				if x.High != nil {
					t := ff.term(x.High)
					if t == nil {
						c.Bad("R12.1", k.key(types.ExprString(x), "in", fs.Root().Name), x.Pos(), "high bound is not a linear expression")
						return true
					}
					hi = linOf(t)
				}
				// 0 <= lo <= hi <= len
				g1 := newLin()
				g1.add(lo, 1)
				g2 := newLin()
				g2.add(hi, 1)
				g2.add(lo, -1)
				g3 := newLin()
				g3.add(lenForm, 1)
				g3.add(hi, -1)
				check(x, x.X, []*linForm{g1, g2, g3}, "0 <= low <= high <= len")
			}
			return true
		})
	}
	// getObu postcondition: every return of the closure that yields a non-nil
	// OBU returns a length <= len(data)
	if kf := p.Func("codecs", "", "Keyframe"); kf != nil {
		for _, fs := range p.Sources() {
			if fs.Lit == nil || fs.Root() != kf || fs.Type().Results == nil || fs.Type().Results.NumFields() != 3 {
				continue
			}
			ff := eng.Analyze(fs)
			nn := ff.nonNeg()
			params := fs.params(fs.Pkg.TypesInfo)
			if len(params) == 0 || params[0] == nil {
				continue
			}
			dataLen := linOf(TCall("len", nil, TVar(params[0])))
			var bad []string
			nret := 0
			for _, ret := range ff.Returns() {
				if len(ret.Results) != 3 || isNilIdent(fs.Pkg.TypesInfo, ret.Results[0]) {
					continue
				}
				nret++
				st, _ := ff.At(ret)
				t := ff.term(ret.Results[1])
				if st == nil || t == nil {
					bad = append(bad, p.PosStr(ret.Pos()))
					continue
				}
				g := newLin()
				g.add(dataLen, 1)
				g.add(linOf(t), -1)
				if !proveGE0(g, stateIneqs(st), nn) {
					bad = append(bad, p.PosStr(ret.Pos()))
				}
			}
			c.Check(len(bad) == 0 && nret > 0, "R12.1", "getObu-postcondition", fs.Pos(),
				fmt.Sprintf("all %d returns with a non-nil OBU return a length <= len(data)", nret),
				"a return of getObu with a non-nil OBU may report a length beyond its input (at "+strings.Join(bad, ", ")+"): the caller then slices out of range")
		}
	}
	// RewritePacket: the buffer parameter is never re-sliced, reassigned or returned
	if rp := p.Func("codecs", "", "RewritePacket"); rp != nil {
		info := rp.Pkg.TypesInfo
		params := rp.params(info)
		var data types.Object
		for _, po := range params {
			if po != nil {
				if sl, ok := po.Type().Underlying().(*types.Slice); ok {
					if bt, ok := sl.Elem().Underlying().(*types.Basic); ok && bt.Kind() == types.Byte {
						data = po
					}
				}
			}
		}
		okLen := data != nil
		why := ""
		ast.Inspect(rp.Body(), func(n ast.Node) bool {
			switch x := n.(type) {
			case *ast.AssignStmt:
				for _, l := range x.Lhs {
					if id, ok := unparen(l).(*ast.Ident); ok && info.ObjectOf(id) == data {
						okLen, why = false, "the buffer variable is reassigned at "+p.PosStr(x.Pos())
					}
				}
			case *ast.SliceExpr:
				if id, ok := unparen(x.X).(*ast.Ident); ok && info.ObjectOf(id) == data {
					okLen, why = false, "the buffer is re-sliced at "+p.PosStr(x.Pos())
				}
			case *ast.CallExpr:
				if isBuiltin(info, x, "append") || isBuiltin(info, x, "copy") {
					for _, a := range x.Args {
						if id, ok := unparen(a).(*ast.Ident); ok && info.ObjectOf(id) == data {
							okLen, why = false, "append/copy on the buffer at "+p.PosStr(x.Pos())
						}
					}
				}
			}
			return true
		})
		res := rp.Type().Results
		if res != nil {
			for _, f := range res.List {
				if _, isSlice := info.TypeOf(f.Type).Underlying().(*types.Slice); isSlice {
					okLen, why = false, "RewritePacket returns a slice"
				}
			}
		}
		c.Check(okLen, "R12.1", "RewritePacket keeps the packet length", rp.Pos(),
			"the []byte parameter is only indexed: never reassigned, re-sliced, appended to or returned", "the packet length can change: "+why)
	} else {
		c.Unknown("R12.1", "anchor codecs.RewritePacket", 0, "not found")
	}
}
