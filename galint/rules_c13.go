package main

import (
	"fmt"
	"go/ast"
	"go/constant"
	"go/token"
	"go/types"
	"sort"
	"strings"

	"golang.org/x/tools/go/ssa"
)

func init() {
	register(&Property{
		ID:        "C13",
		Title:     "Group and client lifecycle is free of data races, deadlocks and lost wakeups",
		Technique: "lock-order graph acyclicity, guarded-by must-lockset, may-block-under-lock effect analysis and wake-up pairing on SSA + VTA call graph",
		Decides: "R13.1: the class-level lock-order graph of the module (every mutex field / package-level mutex; acquisitions propagated transitively over the VTA call graph, closures passed to synchronous library functions treated as called, `go` skipped) is acyclic including self-edges - a sufficient condition for the absence of mutex-only deadlock. " +
			"R13.2: every access to Group.{description,locked,clients,history,timestamp,data}, groups.groups, Channel.queue, WhipClient.{permissions,connection,etag}, configuration.configuration happens with its guarding mutex in the must-held lockset (interprocedural entry locksets; freshly allocated objects exempt). " +
			"R13.3: while Group.mu may be held no call reaches a blocking client-transport primitive (websocket/peer-connection method, blocking channel operation, time.Sleep). " +
			"R13.4: unbounded.Channel.Put appends under the lock and signals Ch without blocking whenever the queue was empty; Get swaps the queue out under the lock; Ch has capacity >= 1; every receive from a Channel.Ch in the module is followed by Get() whose result is consumed in index order.",
		NotDecided: []string{
			"data races on fields that are unguarded by design (webClient.permissions/username/data/requested, negotiation state of rtpDownConnection)",
			"blocking on Go channels outside the group locks (writer loops, hash semaphore)",
			"instance-level lock order within one class",
			"liveness (eventual delivery) beyond the wake-up pairing",
		},
		Assumptions: []string{
			"library callbacks not listed in the synchronous-externals table run asynchronously (listed in coverage.async_registrations)",
			"a goroutine started with `go` holds no lock of its creator",
			"lock identity is class-level (type+field): sound for cycles between classes, conservative for self-edges",
		},
		NeedSSA: true,
		Run:     runC13,
	})
}

type guardSpec struct {
	pkg, typ, field string
	global          bool
	guardField      string
	// functions (by printable name) in which the access is exempt, with the reason
	exempt map[string]string
}

var guardTable = []guardSpec{
	{pkg: "group", typ: "Group", field: "description", guardField: "mu"},
	{pkg: "group", typ: "Group", field: "locked", guardField: "mu"},
	{pkg: "group", typ: "Group", field: "clients", guardField: "mu"},
	{pkg: "group", typ: "Group", field: "history", guardField: "mu"},
	{pkg: "group", typ: "Group", field: "timestamp", guardField: "mu"},
	{pkg: "group", typ: "Group", field: "data", guardField: "mu"},
	{pkg: "group", typ: "groups", field: "groups", guardField: "mu", global: true},
	{pkg: "group", typ: "configuration", field: "configuration", guardField: "mu", global: true},
	{pkg: "unbounded", typ: "Channel", field: "queue", guardField: "mu"},
	{pkg: "rtpconn", typ: "WhipClient", field: "permissions", guardField: "mu",
		exempt: map[string]string{"(*rtpconn.WhipClient).Init": "called only from group.AddClient before the insertion into g.clients publishes the client (checked: R13.2 init-callers)"}},
	{pkg: "rtpconn", typ: "WhipClient", field: "connection", guardField: "mu"},
	{pkg: "rtpconn", typ: "WhipClient", field: "etag", guardField: "mu"},
}

func runC13(c *Ctx) {
	p := c.P
	la := NewLockAnalysis(p)

	c.Rule("R13.0", "E5", "every lock operation is on a classified mutex; every function releases exactly what it acquires", 16)
	for _, cl := range la.classes {
		c.OK("R13.0", "class "+cl.Name, cl.Var.Pos(), "lock class")
	}
	for _, pr := range la.problems {
		c.Unknown("R13.0", "problem "+stripPos(pr), 0, "%s", pr)
	}

	// ---- R13.1 lock order ----
	c.Rule("R13.1", "E5", "the lock-order graph over lock classes is acyclic (including self-edges); each witness of a cyclic edge is one finding", 8)
	cyc := map[lockEdge]bool{}
	for _, e := range la.cyclicEdges() {
		cyc[e] = true
	}
	var edges []lockEdge
	for e := range la.edges {
		edges = append(edges, e)
	}
	sort.Slice(edges, func(i, j int) bool {
		if edges[i].from != edges[j].from {
			return edges[i].from < edges[j].from
		}
		return edges[i].to < edges[j].to
	})
	for _, e := range edges {
		ws := la.edges[e]
		if !cyc[e] {
			c.OK("R13.1", fmt.Sprintf("edge %s->%s", la.className(e.from), la.className(e.to)), ws[0].holdSite,
				"%d witness(es), not on a cycle; e.g. %s", len(ws), la.witnessText(e, ws[0]))
			continue
		}
		for _, w := range ws {
			c.Bad("R13.1", la.witnessKey(e, w), w.holdSite, "lock-order cycle: %s", la.witnessText(e, w))
		}
	}
	c.Note("lock classes: %d; lock-order edges: %d", len(la.classes), len(edges))
	for _, a := range la.asyncReg {
		c.Note("async registration: %s", a)
	}

	// ---- R13.2 guarded-by ----
	c.Rule("R13.2", "E5", "every access to a guarded field holds its mutex (must-held, interprocedural)", 45)
	type gk struct {
		field *types.Var
		guard *LockClass
		spec  *guardSpec
	}
	var guards []gk
	for i := range guardTable {
		g := &guardTable[i]
		var f, m *types.Var
		if g.global {
			f = p.GlobalField(g.pkg, g.typ, g.field)
			m = p.GlobalField(g.pkg, g.typ, g.guardField)
		} else {
			f = p.Field(g.pkg, g.typ, g.field)
			m = p.Field(g.pkg, g.typ, g.guardField)
		}
		if f == nil || m == nil || la.byVar[m] == nil {
			c.Unknown("R13.2", fmt.Sprintf("anchor %s.%s.%s", g.pkg, g.typ, g.field), 0, "guarded field or its mutex no longer resolves")
			continue
		}
		guards = append(guards, gk{f, la.byVar[m], g})
	}
	type agg struct {
		pos   token.Pos
		n     int
		why   string
		fails []string
	}
	okAgg := map[string]*agg{}
	culprits := map[string]*agg{}
	for _, a := range la.accesses {
		for _, g := range guards {
			if a.field != g.field {
				continue
			}
			fname := ssaFuncName(a.fn)
			name := la.owner[g.field]
			key := fmt.Sprintf("%s in %s", name, fname)
			ag := okAgg[key]
			if ag == nil {
				ag = &agg{pos: a.pos}
				okAgg[key] = ag
			}
			ag.n++
			switch {
			case a.fresh:
				ag.why = "access through a freshly allocated object (not yet shared)"
			case g.spec.exempt[fname] != "":
				ag.why = "exempt: " + g.spec.exempt[fname]
			case a.must.has(g.guard.ID):
				ag.why = fmt.Sprintf("%s held (must-lockset %s)", g.guard.Name, la.setString(a.must))
			default:
				kind := "read"
				if a.write {
					kind = "write"
				}
				what := fmt.Sprintf("%s of %s in %s at %s", kind, name, fname, p.PosStr(a.pos))
				ag.fails = append(ag.fails, what)
				for _, cu := range la.blame(a.fn, g.guard.ID, map[*ssa.Function]bool{}) {
					var ck string
					var cpos token.Pos
					if cu.site == nil {
						ck = fmt.Sprintf("%s accessed in %s without %s", name, ssaFuncName(cu.fn), g.guard.Name)
						cpos = a.pos
					} else {
						ck = fmt.Sprintf("call %s in %s without %s", ssaFuncName(cu.callee), ssaFuncName(cu.fn), g.guard.Name)
						cpos = cu.site.Pos()
					}
					ca := culprits[ck]
					if ca == nil {
						ca = &agg{pos: cpos}
						culprits[ck] = ca
					}
					ca.fails = appendUniqueStr(ca.fails, what)
				}
			}
		}
	}
	for key, ag := range okAgg {
		if len(ag.fails) == 0 {
			c.OK("R13.2", key, ag.pos, "%d access(es): %s", ag.n, ag.why)
		}
	}
	for key, ca := range culprits {
		sort.Strings(ca.fails)
		c.Bad("R13.2", key, ca.pos, "unsynchronised access to guarded state: %s", strings.Join(ca.fails, "; "))
	}
	// the Init exemption: WhipClient.Init may only be called from group.AddClient
	if init := p.Func("rtpconn", "WhipClient", "Init"); init != nil {
		fn := p.SSAFunc(init.Obj)
		n := p.CallGraph().Nodes[fn]
		okc := true
		var who []string
		if n != nil {
			for _, e := range n.In {
				cn := ssaFuncName(e.Caller.Func)
				who = append(who, cn)
				if cn != "group.AddClient" && fnInModule(e.Caller.Func) {
					okc = false
				}
			}
		}
		c.Check(okc, "R13.2", "init-callers rtpconn.(*WhipClient).Init", init.Pos(),
			"unlocked initialiser called only from "+strings.Join(who, ","), "unlocked initialiser has other callers: "+strings.Join(who, ","))
	}

	// ---- R13.3 no blocking under the group locks ----
	c.Rule("R13.3", "E5", "no blocking client-transport primitive is reachable while Group.mu may be held (callbacks to clients under the group lock are non-blocking enqueues)", 10)
	var protected lockSet
	for _, cl := range la.classes {
		if cl.Name == "group.Group.mu" {
			protected |= 1 << uint(cl.ID)
		}
	}
	if protected == 0 {
		c.Unknown("R13.3", "anchor group lock", 0, "Group.mu not found")
	}
	nsite := map[string]int{}
	best := map[string]blockedSite{}
	for _, b := range la.blockedUnder {
		if b.held&protected == 0 {
			continue
		}
		last := b.w.chain[len(b.w.chain)-1]
		key := fmt.Sprintf("%s holds %s reaches %s in %s", ssaFuncName(b.fn), la.setString(b.held&protected), b.what, last)
		if old, ok := best[key]; !ok || len(b.w.chain) < len(old.w.chain) {
			best[key] = b
		}
	}
	for key, b := range best {
		c.Bad("R13.3", key, b.pos, "%s at %s, reached through %s", b.what, p.PosStr(b.w.at), strings.Join(b.w.chain, " -> "))
	}
	// positive obligations: every call made while a group lock may be held
	for _, fn := range la.fns {
		for _, blk := range fn.Blocks {
			for _, ins := range blk.Instrs {
				st, ok := la.localIn[ins]
				if !ok || st[0]&protected == 0 {
					continue
				}
				ci, ok := ins.(ssa.CallInstruction)
				if !ok {
					continue
				}
				if k, _, _ := la.lockOp(ci.Common()); k != 0 {
					continue
				}
				if _, isB := ci.Common().Value.(*ssa.Builtin); isB {
					continue
				}
				name := callName(ci)
				nsite[ssaFuncName(fn)+"|"+name]++
				key := fmt.Sprintf("call %s in %s #%d", name, ssaFuncName(fn), nsite[ssaFuncName(fn)+"|"+name])
				c.OK("R13.3", key, ins.Pos(), "made with %s possibly held; no blocking transport primitive reachable", la.setString(st[0]&protected))
			}
		}
	}

	runC13Channel(c, la)
}

func stripPos(s string) string {
	// problems carry a position for the reader; the key must not
	if i := strings.LastIndex(s, " at "); i >= 0 {
		return s[:i]
	}
	return s
}

func callName(ci ssa.CallInstruction) string {
	cc := ci.Common()
	if sc := cc.StaticCallee(); sc != nil {
		return ssaFuncName(sc)
	}
	if cc.IsInvoke() {
		return "(" + strings.ReplaceAll(cc.Value.Type().String(), modPath+"/", "") + ")." + cc.Method.Name()
	}
	return "dynamic:" + cc.Value.Name()
}

// R13.4: the wake-up protocol of unbounded.Channel and of its consumers.
func runC13Channel(c *Ctx, la *LockAnalysis) {
	p := c.P
	c.Rule("R13.4", "E3/E5", "unbounded.Channel: append under lock, non-blocking signal whenever the queue was empty, Get swaps under lock, Ch buffered; consumers call Get after each receive and iterate in order", 8)
	put := p.Func("unbounded", "Channel", "Put")
	get := p.Func("unbounded", "Channel", "Get")
	nw := p.Func("unbounded", "", "New")
	queue := p.Field("unbounded", "Channel", "queue")
	chf := p.Field("unbounded", "Channel", "Ch")
	if put == nil || get == nil || nw == nil || queue == nil || chf == nil {
		c.Unknown("R13.4", "anchors unbounded.Channel", 0, "Put/Get/New/queue/Ch no longer resolve")
		return
	}
	info := put.Pkg.TypesInfo

	// New: Ch is created with capacity >= 1
	okCap := false
	ast.Inspect(nw.Body(), func(n ast.Node) bool {
		kv, ok := n.(*ast.KeyValueExpr)
		if !ok {
			return true
		}
		if id, ok := kv.Key.(*ast.Ident); ok && info.Uses[id] == chf {
			if call, ok := kv.Value.(*ast.CallExpr); ok && isBuiltin(info, call, "make") && len(call.Args) == 2 {
				if tv, ok := info.Types[call.Args[1]]; ok && tv.Value != nil && tv.Value.String() != "0" {
					okCap = true
				}
			}
		}
		return true
	})
	c.Check(okCap, "R13.4", "New: Ch buffered", nw.Pos(), "Ch is made with a constant capacity >= 1, so a signal sent while the consumer is busy is not lost",
		"Ch is not created with a constant capacity >= 1: a wake-up sent while the consumer is not receiving is lost")

	// Put: on SSA.  (a) the store to queue (append) is under Channel.mu;
	// (b) emptiness is computed from len(queue) read under the same critical
	// section and before the append; (c) every path on which that value is
	// true (or all paths) reaches a non-blocking send on Ch after the unlock.
	insts := la.instancesOf(put.Obj)
	ginsts := la.instancesOf(get.Obj)
	var muClass *LockClass
	for _, cl := range la.classes {
		if cl.Name == "unbounded.Channel.mu" {
			muClass = cl
		}
	}
	if len(insts) == 0 || len(ginsts) == 0 || muClass == nil {
		c.Unknown("R13.4", "Put: ssa", put.Pos(), "no analysed SSA instance of Put/Get or no lock class for Channel.mu")
		return
	}
	for _, fn := range insts {
		c.putRules(la, fn, put, queue, chf, muClass)
	}
	for _, gfn := range ginsts {
		c.getRules(la, gfn, get, queue, muClass)
	}
	c.consumerRules(chf)
}

func instTag(fn *ssa.Function) string {
	if len(fn.TypeArgs()) == 0 {
		return ""
	}
	var ts []string
	for _, t := range fn.TypeArgs() {
		ts = append(ts, strings.ReplaceAll(t.String(), modPath+"/", ""))
	}
	return "[" + strings.Join(ts, ",") + "]"
}

func (c *Ctx) putRules(la *LockAnalysis, fn *ssa.Function, put *FuncSrc, queue, chf *types.Var, muClass *LockClass) {
	tag := instTag(fn)
	var stores []*ssa.Store
	var sends []ssa.Instruction // Select (non-blocking) or Send on Ch
	var lenReads []ssa.Instruction
	for _, b := range fn.Blocks {
		for _, ins := range b.Instrs {
			switch i := ins.(type) {
			case *ssa.Store:
				if fa, ok := i.Addr.(*ssa.FieldAddr); ok && fieldOf(fa) == queue {
					stores = append(stores, i)
				}
			case *ssa.Select:
				for _, st := range i.States {
					if st.Dir == types.SendOnly && loadsField(st.Chan, chf) {
						sends = append(sends, i)
						if i.Blocking {
							c.Bad("R13.4", "Put"+tag+": signal non-blocking", i.Pos(), "the signal on Ch is a blocking select: a producer can block for ever while the consumer is busy")
						} else {
							c.OK("R13.4", "Put"+tag+": signal non-blocking", i.Pos(), "select with default")
						}
					}
				}
			case *ssa.Send:
				if loadsField(i.Chan, chf) {
					sends = append(sends, i)
					c.Bad("R13.4", "Put"+tag+": signal non-blocking", i.Pos(), "the signal on Ch is a plain blocking send")
				}
			case *ssa.Call:
				if isBuiltinSSA(i, "len") && loadsField(i.Call.Args[0], queue) {
					lenReads = append(lenReads, i)
				}
			}
		}
	}
	if len(stores) == 0 {
		c.Bad("R13.4", "Put"+tag+": append under lock", put.Pos(), "Put no longer stores to the queue")
	}
	for _, s := range stores {
		st := la.instIn[s]
		_, isAppend := appendOf(s.Val, queue)
		c.Check(st[1].has(muClass.ID) && isAppend, "R13.4", "Put"+tag+": append under lock", s.Pos(),
			"queue = append(queue, v) with Channel.mu held", "the store to queue is not an append of the old queue under Channel.mu")
	}
	if len(sends) == 0 {
		c.Bad("R13.4", "Put"+tag+": signal present", put.Pos(), "Put never signals Ch: the consumer is never woken")
	} else {
		c.OK("R13.4", "Put"+tag+": signal present", sends[0].Pos(), "signal found")
	}
	// lock not held at the signal
	for _, s := range sends {
		st := la.instIn[s]
		c.Check(!st[0].has(muClass.ID), "R13.4", "Put"+tag+": signal after unlock", s.Pos(), "Channel.mu released before signalling", "Channel.mu may still be held at the signal")
	}
	// the signal must be reached on every path on which the queue was empty
	// before the append: find the If guarding the send; its condition must be
	// (len(queue) == 0) read under the lock before the store, taken on the
	// true edge; or the send is unconditional.
	for _, s := range sends {
		ok, why := putSignalGuard(fn, s, stores, lenReads, la, muClass)
		c.Check(ok, "R13.4", "Put"+tag+": signal iff was-empty", s.Pos(), why, why)
	}

}

func (c *Ctx) getRules(la *LockAnalysis, gfn *ssa.Function, get *FuncSrc, queue *types.Var, muClass *LockClass) {
	// Get: returns the old queue and stores nil, under the lock (deferred unlock)
	tag := instTag(gfn)
	var gstores []*ssa.Store
	var rets []*ssa.Return
	for _, b := range gfn.Blocks {
		for _, ins := range b.Instrs {
			switch i := ins.(type) {
			case *ssa.Store:
				if fa, ok := i.Addr.(*ssa.FieldAddr); ok && fieldOf(fa) == queue {
					gstores = append(gstores, i)
				}
			case *ssa.Return:
				rets = append(rets, i)
			}
		}
	}
	okGet := len(gstores) == 1 && len(rets) >= 1
	if okGet {
		s := gstores[0]
		cst, isConst := s.Val.(*ssa.Const)
		okGet = isConst && cst.IsNil() && la.instIn[s][1].has(muClass.ID)
		for _, r := range rets {
			if len(r.Results) != 1 {
				okGet = false
				continue
			}
			v := unspill(r.Results[0])
			ins, isIns := v.(ssa.Instruction)
			if !loadsFieldBefore(v, queue, s) || !isIns || !la.instIn[ins][1].has(muClass.ID) {
				okGet = false
			}
		}
	}
	c.Check(okGet, "R13.4", "Get"+tag+": swap under lock", get.Pos(),
		"Get returns the queue read under Channel.mu and stores nil in the same critical section",
		"Get does not atomically take the whole queue (read, clear and return under one critical section)")

}

func (c *Ctx) consumerRules(chf *types.Var) {
	p := c.P
	// consumers: every receive from a .Ch of a Channel in the module is
	// followed, in the same select case / statement list, by a call to Get
	// on the same channel, whose result is ranged over.
	for _, fs := range p.Sources() {
		if fs.Pkg.PkgPath == modPath+"/unbounded" {
			continue
		}
		n := 0
		ast.Inspect(fs.Body(), func(nd ast.Node) bool {
			if _, ok := nd.(*ast.FuncLit); ok && nd != ast.Node(fs.Lit) {
				return false
			}
			ue, ok := nd.(*ast.UnaryExpr)
			if !ok || ue.Op != token.ARROW {
				return true
			}
			sel, ok := ue.X.(*ast.SelectorExpr)
			if !ok || fs.Pkg.TypesInfo.Uses[sel.Sel] == nil {
				return true
			}
			fv, _ := fs.Pkg.TypesInfo.Uses[sel.Sel].(*types.Var)
			if fv == nil || fv.Origin() != chf {
				return true
			}
			n++
			key := fmt.Sprintf("consumer %s #%d", fs.Name, n)
			ok2, why := consumerDrains(p, fs, ue, sel.X)
			c.Check(ok2, "R13.4", key, ue.Pos(), why, why)
			return true
		})
	}
}

func fieldOf(fa *ssa.FieldAddr) *types.Var {
	st, ok := derefStruct(fa.X.Type())
	if !ok {
		return nil
	}
	f := st.Field(fa.Field)
	return f.Origin()
}

func loadsField(v ssa.Value, f *types.Var) bool {
	u, ok := v.(*ssa.UnOp)
	if !ok || u.Op != token.MUL {
		return false
	}
	fa, ok := u.X.(*ssa.FieldAddr)
	return ok && fieldOf(fa) == f
}

func loadsFieldBefore(v ssa.Value, f *types.Var, st *ssa.Store) bool {
	if !loadsField(v, f) {
		return false
	}
	ld := v.(*ssa.UnOp)
	if ld.Block() != st.Block() {
		return ld.Block().Dominates(st.Block())
	}
	for _, ins := range ld.Block().Instrs {
		if ins == ld {
			return true
		}
		if ins == st {
			return false
		}
	}
	return false
}

func isBuiltinSSA(c *ssa.Call, name string) bool {
	b, ok := c.Call.Value.(*ssa.Builtin)
	return ok && b.Name() == name
}

func isBuiltin(info *types.Info, call *ast.CallExpr, name string) bool {
	id, ok := call.Fun.(*ast.Ident)
	if !ok {
		return false
	}
	b, ok := info.Uses[id].(*types.Builtin)
	return ok && b.Name() == name
}

// appendOf reports whether v is append(load(field), ...).
func appendOf(v ssa.Value, f *types.Var) (*ssa.Call, bool) {
	c, ok := v.(*ssa.Call)
	if !ok || !isBuiltinSSA(c, "append") || len(c.Call.Args) < 1 {
		return nil, false
	}
	return c, loadsField(c.Call.Args[0], f)
}

// putSignalGuard checks that the signal s is executed whenever the queue was
// empty before the append.
func putSignalGuard(fn *ssa.Function, s ssa.Instruction, stores []*ssa.Store, lenReads []ssa.Instruction, la *LockAnalysis, mu *LockClass) (bool, string) {
	// unconditional: the signal's block post-dominates the entry, approximated
	// by "dominates every return"
	blk := s.Block()
	uncond := true
	for _, b := range fn.Blocks {
		if len(b.Instrs) > 0 {
			if _, ok := b.Instrs[len(b.Instrs)-1].(*ssa.Return); ok && !blk.Dominates(b) {
				uncond = false
			}
		}
	}
	if uncond {
		return true, "the signal is sent on every path (always-signal)"
	}
	// find the controlling If: walk up the dominator tree
	for d := blk; d != nil; d = d.Idom() {
		id := d.Idom()
		if id == nil {
			break
		}
		ifi, ok := id.Instrs[len(id.Instrs)-1].(*ssa.If)
		if !ok {
			continue
		}
		// which edge leads to d?
		edge := -1
		for i, succ := range id.Succs {
			if succ == d {
				edge = i
			}
		}
		if edge < 0 {
			continue
		}
		// condition must be len(queue)==0 (true edge) or len(queue)!=0 / >0 (false edge)
		cond := ifi.Cond
		want := 0 // edge on which queue was empty
		bo, ok := cond.(*ssa.BinOp)
		if !ok {
			return false, "the signal is guarded by a condition that is not a test of the queue length read under the lock"
		}
		// the condition compares len(queue) with a small constant; it is an
		// emptiness test when it is true exactly for n == 0 (len == 0, len < 1,
		// 1 > len, len <= 0 ...) or exactly for n >= 1 (len != 0, len > 0, len >= 1 ...)
		var lenCall ssa.Value
		konst := func(v ssa.Value) (int64, bool) {
			k, ok := v.(*ssa.Const)
			if !ok || k.Value == nil || k.Value.Kind() != constant.Int {
				return 0, false
			}
			n, exact := constant.Int64Val(k.Value)
			return n, exact && n >= 0 && n <= 4
		}
		var kv int64
		lenLeft := true
		if n, ok := konst(bo.Y); ok {
			lenCall, kv = bo.X, n
		} else if n, ok := konst(bo.X); ok {
			lenCall, kv, lenLeft = bo.Y, n, false
		} else {
			return false, "the signal is guarded by a comparison that is not against 0"
		}
		holds := func(n int64) bool {
			x, y := n, kv
			if !lenLeft {
				x, y = kv, n
			}
			switch bo.Op {
			case token.EQL:
				return x == y
			case token.NEQ:
				return x != y
			case token.LSS:
				return x < y
			case token.LEQ:
				return x <= y
			case token.GTR:
				return x > y
			case token.GEQ:
				return x >= y
			}
			return false
		}
		onlyZero, onlyPos := holds(0), !holds(0)
		for n := int64(1); n <= 8; n++ {
			if holds(n) {
				onlyZero = false
			} else {
				onlyPos = false
			}
		}
		switch {
		case onlyZero:
			want = 0
		case onlyPos:
			want = 1
		default:
			return false, "unrecognised emptiness test"
		}
		if edge != want {
			return false, "the signal is sent when the queue was NOT empty and skipped when it was empty: the consumer is never woken for the first element (lost wake-up)"
		}
		lc, ok := lenCall.(*ssa.Call)
		if !ok || !isBuiltinSSA(lc, "len") {
			return false, "the emptiness test does not read len(queue)"
		}
		isQueueLen := false
		for _, lr := range lenReads {
			if lr == ssa.Instruction(lc) {
				isQueueLen = true
			}
		}
		if !isQueueLen {
			return false, "the emptiness test is not on the queue"
		}
		if !la.instIn[lc][1].has(mu.ID) {
			return false, "the queue length is read without Channel.mu: the emptiness test races with Get/Put"
		}
		// read before the append
		for _, st := range stores {
			before := false
			if lc.Block() == st.Block() {
				for _, ins := range lc.Block().Instrs {
					if ins == ssa.Instruction(lc) {
						before = true
						break
					}
					if ins == ssa.Instruction(st) {
						break
					}
				}
			} else {
				before = lc.Block().Dominates(st.Block())
			}
			if !before {
				return false, "the queue length is read after the append: the queue is never seen empty, so no wake-up is ever sent"
			}
		}
		return true, "signalled exactly on the edge where len(queue)==0 held under the lock before the append"
	}
	return false, "cannot find the condition guarding the signal"
}

// consumerDrains checks that a receive `<-x.Ch` is followed in its select
// clause (or statement list) by `v := x.Get()` and a range over v.
func consumerDrains(p *Program, fs *FuncSrc, recv *ast.UnaryExpr, base ast.Expr) (bool, string) {
	// find enclosing CommClause or statement list
	var n ast.Node = recv
	var body []ast.Stmt
	for n != nil {
		par := p.Parent(fs.File, n)
		if cc, ok := par.(*ast.CommClause); ok {
			body = cc.Body
			break
		}
		if bs, ok := par.(*ast.BlockStmt); ok {
			// statements after the one containing the receive
			for i, s := range bs.List {
				if s == n {
					body = bs.List[i+1:]
				}
			}
			break
		}
		n = par
	}
	if body == nil {
		return false, "receive from Channel.Ch outside a select clause or statement list"
	}
	info := fs.Pkg.TypesInfo
	baseStr := types.ExprString(base)
	var got types.Object
	for _, s := range body {
		as, ok := s.(*ast.AssignStmt)
		if ok && len(as.Rhs) == 1 {
			if call, ok := as.Rhs[0].(*ast.CallExpr); ok {
				if sel, ok := call.Fun.(*ast.SelectorExpr); ok && sel.Sel.Name == "Get" && types.ExprString(sel.X) == baseStr {
					if f, ok := info.Uses[sel.Sel].(*types.Func); ok && f.Pkg() != nil && f.Pkg().Path() == modPath+"/unbounded" {
						if id, ok := as.Lhs[0].(*ast.Ident); ok {
							got = info.ObjectOf(id)
						}
						continue
					}
				}
			}
		}
		if got != nil {
			if rs, ok := s.(*ast.RangeStmt); ok {
				if id, ok := rs.X.(*ast.Ident); ok && info.ObjectOf(id) == got {
					// the batch has been taken out of the queue: leaving the
					// loop early while the consumer lives on loses the rest
					early := ""
					var depth func(n ast.Node, inner int)
					depth = func(n ast.Node, inner int) {
						ast.Inspect(n, func(m ast.Node) bool {
							switch x := m.(type) {
							case *ast.FuncLit:
								return false
							case *ast.ForStmt:
								if m != n {
									depth(x.Body, inner+1)
									return false
								}
							case *ast.RangeStmt:
								if m != n {
									depth(x.Body, inner+1)
									return false
								}
							case *ast.SwitchStmt, *ast.TypeSwitchStmt, *ast.SelectStmt:
								if m != n {
									// an unlabelled break inside leaves the switch, not the loop
									var b ast.Node
									switch y := x.(type) {
									case *ast.SwitchStmt:
										b = y.Body
									case *ast.TypeSwitchStmt:
										b = y.Body
									case *ast.SelectStmt:
										b = y.Body
									}
									depth(b, inner+1)
									return false
								}
							case *ast.BranchStmt:
								if x.Tok == token.GOTO || (x.Tok == token.BREAK && (inner == 0 || x.Label != nil)) {
									early = p.PosStr(x.Pos())
								}
							}
							return true
						})
					}
					depth(rs.Body, 0)
					if early != "" {
						return false, "the batch returned by " + baseStr + ".Get() is abandoned by a break/goto at " + early + " while the consumer keeps running: the actions queued behind it are lost"
					}
					return true, "receive is followed by " + baseStr + ".Get() and a forward range over the result (queue order, each element once, left early only by returning)"
				}
			}
		}
		if got == nil {
			// any other statement before Get: acceptable only if it cannot leave the clause
			if _, isRet := s.(*ast.ReturnStmt); isRet {
				break
			}
		}
	}
	if got == nil {
		return false, "after receiving from " + baseStr + ".Ch the consumer does not call " + baseStr + ".Get(): queued actions are left unseen until the next wake-up"
	}
	return false, "the slice returned by Get() is not iterated with a forward range"
}

// unspill looks through the stack slot go/ssa introduces for results of
// functions with defers: a load of a local with a single store yields the
// stored value.
func unspill(v ssa.Value) ssa.Value {
	for i := 0; i < 4; i++ {
		u, ok := v.(*ssa.UnOp)
		if !ok || u.Op != token.MUL {
			return v
		}
		al, ok := u.X.(*ssa.Alloc)
		if !ok {
			return v
		}
		var st *ssa.Store
		n := 0
		for _, ref := range *al.Referrers() {
			if s, ok := ref.(*ssa.Store); ok && s.Addr == al {
				st = s
				n++
			}
		}
		if n != 1 {
			return v
		}
		v = st.Val
	}
	return v
}
