package main

import (
	"fmt"
	"go/ast"
	"go/types"
	"strings"
)

func init() {
	register(&Property{
		ID:        "C14",
		Title:     "Every member's view of the user list converges to the true membership",
		Technique: "CFG must-call / dominance rules and argument provenance (must-facts over call-result terms) on AddClient, DelClient and the change broadcasts",
		Decides: "R14.1: after the insertion AddClient tells the newcomer about itself and about every member of the pre-insertion snapshot, and tells each of those about the newcomer, with the id/username/permissions/data of the right client. " +
			"R14.2: DelClient removes only the registered client, then tells the leaver and - once each, from the post-removal snapshot - every remaining member, with the leaver's id. " +
			"R14.3: permission and data changes are broadcast as 'change' events about the client itself to g.GetClients(nil); a 'user' event is forwarded only if it is about the client's current group. " +
			"R14.4: every successful AddClient of a web client is paired with a removal (c.group recorded or the client removed), and the client loop always leaves the group on exit.",
		NotDecided: []string{
			"convergence itself: the relative order of independently queued events (the change broadcasts run in their own goroutine)",
			"exactly-once delivery across racing leave/kick",
		},
		Run: runC14,
	})
}

type c14env struct {
	c   *Ctx
	p   *Program
	eng *FactEngine
}

// provCall returns the call expression whose (first) result the argument is:
// the argument itself, or - for a variable - the call it was last assigned from.
func (e *c14env) provCall(ff *FuncFacts, st *State, arg ast.Expr) *ast.CallExpr {
	arg = unparen(arg)
	if call, ok := arg.(*ast.CallExpr); ok {
		return call
	}
	t := ff.term(arg)
	if t == nil || st == nil {
		return nil
	}
	for _, f := range st.Facts() {
		if !f.Pos || f.Op != "eq" {
			continue
		}
		for _, pr := range [][2]*Term{{f.A, f.B}, {f.B, f.A}} {
			if pr[0].String() == t.String() && pr[1].K == 'r' && pr[1].Name == "res0" {
				if cs := e.p.callAt[pr[1].Pos]; cs != nil {
					return cs.Call
				}
			}
		}
	}
	return nil
}

// isMethodOn: call is X.name() with X the identifier denoting obj.
func isMethodOn(info *types.Info, call *ast.CallExpr, name string, obj types.Object) bool {
	if call == nil {
		return false
	}
	sel, ok := unparen(call.Fun).(*ast.SelectorExpr)
	if !ok || sel.Sel.Name != name {
		return false
	}
	id, ok := unparen(sel.X).(*ast.Ident)
	return ok && info.ObjectOf(id) == obj
}

// checkPush validates one PushClient call: receiver, kind, and that the
// identity arguments are taken from `subject`.
func (e *c14env) checkPush(fs *FuncSrc, call *ast.CallExpr, recv, subject types.Object, kind string, full bool) []string {
	info := fs.Pkg.TypesInfo
	ff := e.eng.Analyze(fs)
	st, _ := ff.At(call)
	var bad []string
	if id, ok := unparen(recvExpr(call)).(*ast.Ident); !ok || info.ObjectOf(id) != recv {
		bad = append(bad, "receiver is not "+recv.Name())
	}
	if len(call.Args) != 6 {
		return append(bad, "unexpected arity")
	}
	if s, ok := constString(info, call.Args[1]); !ok || s != kind {
		bad = append(bad, fmt.Sprintf("kind is not %q", kind))
	}
	if !isMethodOn(info, e.provCall(ff, st, call.Args[2]), "Id", subject) {
		bad = append(bad, "id argument is not "+subject.Name()+".Id()")
	}
	if !isMethodOn(info, e.provCall(ff, st, call.Args[3]), "Username", subject) {
		bad = append(bad, "username argument is not "+subject.Name()+".Username()")
	}
	if full {
		if !isMethodOn(info, e.provCall(ff, st, call.Args[4]), "Permissions", subject) {
			bad = append(bad, "permissions argument is not "+subject.Name()+".Permissions()")
		}
		if !isMethodOn(info, e.provCall(ff, st, call.Args[5]), "Data", subject) {
			bad = append(bad, "data argument is not "+subject.Name()+".Data()")
		}
	}
	return bad
}

func runC14(c *Ctx) {
	p := c.P
	e := &c14env{c: c, p: p, eng: p.Facts()}
	c.Rule("R14.1", "E3/E4", "AddClient announces the newcomer and the existing members to each other with the right identities", 7)
	c.Rule("R14.2", "E3/E4", "DelClient removes only the registered client and announces the departure to the leaver and every remaining member once", 4)
	c.Rule("R14.3", "E3/E4", "permission/data changes are broadcast to all members about the client itself; user events are filtered on the group", 4)
	c.Rule("R14.4", "E3", "every admitted web client is recorded or removed; the client loop always leaves the group", 3)
	ac := p.Func("group", "", "AddClient")
	dc := p.Func("group", "", "DelClient")
	if ac == nil || dc == nil {
		c.Unknown("R14.1", "anchors", 0, "group.AddClient/DelClient not found")
		return
	}
	fClients := p.Field("group", "Group", "clients")
	e.addClient(ac, fClients)
	e.delClient(dc, fClients)
	e.broadcasts()
	e.pairing()
}

func (e *c14env) addClient(ac *FuncSrc, fClients *types.Var) {
	c, p := e.c, e.p
	info := ac.Pkg.TypesInfo
	ff := e.eng.Analyze(ac)
	var insertion *ast.AssignStmt
	ast.Inspect(ac.Body(), func(n ast.Node) bool {
		if as, ok := n.(*ast.AssignStmt); ok && len(as.Lhs) == 1 {
			if ix, ok := unparen(as.Lhs[0]).(*ast.IndexExpr); ok {
				if t := ff.term(ix.X); t != nil && t.K == 'f' && t.Obj == types.Object(fClients) {
					insertion = as
				}
			}
		}
		return true
	})
	params := ac.params(info)
	var newc types.Object
	for _, po := range params {
		if po != nil && types.IsInterface(po.Type()) {
			newc = po
		}
	}
	if insertion == nil || newc == nil {
		c.Unknown("R14.1", "AddClient: insertion", ac.Pos(), "insertion or client parameter not found")
		return
	}
	// the inserted value is the newcomer
	if id, ok := unparen(insertion.Rhs[0]).(*ast.Ident); !ok || info.ObjectOf(id) != newc {
		c.Bad("R14.1", "AddClient: inserts the newcomer", insertion.Pos(), "the value stored in g.clients is not the joining client")
	} else {
		c.OK("R14.1", "AddClient: inserts the newcomer", insertion.Pos(), "g.clients[id] = c")
	}
	// snapshot taken before the insertion
	var snapVar types.Object
	var snapAssign *ast.AssignStmt
	ast.Inspect(ac.Body(), func(n ast.Node) bool {
		as, ok := n.(*ast.AssignStmt)
		if !ok || len(as.Lhs) != 1 || len(as.Rhs) != 1 {
			return true
		}
		if call, ok := unparen(as.Rhs[0]).(*ast.CallExpr); ok && fnIs(calleeOf(&CallSite{Call: call, In: ac}), "group", "Group", "getClientsUnlocked") {
			if id, ok := as.Lhs[0].(*ast.Ident); ok {
				snapVar = info.ObjectOf(id)
				snapAssign = as
				if len(call.Args) != 1 || !isNilIdent(info, call.Args[0]) {
					snapVar = nil
				}
			}
		}
		return true
	})
	okSnap := snapVar != nil && ff.DominatedByNode(insertion, snapAssign) && !ff.ReachableFrom(insertion, snapAssign) && !ff.assignedVars()[snapVar]
	c.Check(okSnap, "R14.1", "AddClient: member snapshot precedes the insertion", ac.Pos(),
		"clients := g.getClientsUnlocked(nil) is taken once, before the insertion, under the same lock",
		"the list of members told about the newcomer is not the complete pre-insertion membership")
	// after the insertion: Joined("join") on c, self add, and the loop
	var joined, selfAdd *ast.CallExpr
	var loop *ast.RangeStmt
	ast.Inspect(ac.Body(), func(n ast.Node) bool {
		switch x := n.(type) {
		case *ast.RangeStmt:
			if id, ok := unparen(x.X).(*ast.Ident); ok && info.ObjectOf(id) == snapVar && ff.ReachableFrom(insertion, x.X) {
				loop = x
				return false
			}
		case *ast.CallExpr:
			f := calleeOf(&CallSite{Call: x, In: ac})
			if !ff.ReachableFrom(insertion, x) {
				return true
			}
			if p.ifaceMethodIs(f, "group", "Client", "Joined") {
				joined = x
			}
			if p.ifaceMethodIs(f, "group", "Client", "PushClient") && selfAdd == nil {
				selfAdd = x
			}
		}
		return true
	})
	okJoined := joined != nil && len(joined.Args) == 2
	if okJoined {
		s, isC := constString(info, joined.Args[1])
		id, isId := unparen(recvExpr(joined)).(*ast.Ident)
		okJoined = isC && s == "join" && isId && info.ObjectOf(id) == newc && ff.DominatedByNode(mustExit(ff), joined)
	}
	c.Check(okJoined, "R14.1", "AddClient: newcomer is told it joined", posOf(joined),
		"c.Joined(name, \"join\") on every path after the insertion", "the newcomer is not (always) sent joined/join")
	if selfAdd == nil {
		c.Bad("R14.1", "AddClient: newcomer learns about itself", ac.Pos(), "no PushClient about the newcomer itself")
	} else {
		bad := e.checkPush(ac, selfAdd, newc, newc, "add", true)
		c.Check(len(bad) == 0 && ff.DominatedByNode(mustExit(ff), selfAdd), "R14.1", "AddClient: newcomer learns about itself", selfAdd.Pos(),
			"c.PushClient(name, \"add\", c.Id(), c.Username(), c.Permissions(), c.Data()) on every path after the insertion", strings.Join(bad, "; "))
	}
	if loop == nil {
		c.Bad("R14.1", "AddClient: loop over the members", ac.Pos(), "no loop over the pre-insertion snapshot after the insertion: existing members and the newcomer do not learn about each other")
		return
	}
	var member types.Object
	if id, ok := loop.Value.(*ast.Ident); ok {
		member = info.ObjectOf(id)
	}
	var toNew, toOld *ast.CallExpr
	nbranch := 0
	ast.Inspect(loop.Body, func(n ast.Node) bool {
		switch x := n.(type) {
		case *ast.IfStmt, *ast.BranchStmt, *ast.ReturnStmt, *ast.SwitchStmt:
			nbranch++
		case *ast.CallExpr:
			f := calleeOf(&CallSite{Call: x, In: ac})
			if p.ifaceMethodIs(f, "group", "Client", "PushClient") {
				if id, ok := unparen(recvExpr(x)).(*ast.Ident); ok {
					if info.ObjectOf(id) == newc {
						toNew = x
					} else if info.ObjectOf(id) == member {
						toOld = x
					}
				}
			}
		}
		return true
	})
	c.Check(nbranch == 0 && ff.DominatedByNode(mustExit(ff), loop.X), "R14.1", "AddClient: loop covers every member", loop.Pos(),
		"the loop body is straight-line (no skip, break or return) and the loop is on every path after the insertion", "the loop over the members can skip a member or be skipped")
	if toNew == nil || member == nil {
		c.Bad("R14.1", "AddClient: newcomer learns about each member", loop.Pos(), "no c.PushClient(...) about the member in the loop")
	} else {
		bad := e.checkPush(ac, toNew, newc, member, "add", true)
		c.Check(len(bad) == 0, "R14.1", "AddClient: newcomer learns about each member", toNew.Pos(), "c.PushClient(\"add\", cc.Id(), cc.Username(), cc.Permissions(), cc.Data())", strings.Join(bad, "; "))
	}
	if toOld == nil || member == nil {
		c.Bad("R14.1", "AddClient: each member learns about the newcomer", loop.Pos(), "no cc.PushClient(...) about the newcomer in the loop")
	} else {
		bad := e.checkPush(ac, toOld, member, newc, "add", true)
		c.Check(len(bad) == 0, "R14.1", "AddClient: each member learns about the newcomer", toOld.Pos(), "cc.PushClient(\"add\", c.Id(), c.Username(), c.Permissions(), c.Data())", strings.Join(bad, "; "))
	}
}

// mustExit returns the final successful return statement (the last return of
// the function): used as the target of "on every path after ..." checks.
func mustExit(ff *FuncFacts) ast.Node {
	rets := ff.Returns()
	if len(rets) == 0 {
		return ff.fs.Body()
	}
	return rets[len(rets)-1]
}

func (e *c14env) delClient(dc *FuncSrc, fClients *types.Var) {
	c, p := e.c, e.p
	info := dc.Pkg.TypesInfo
	ff := e.eng.Analyze(dc)
	params := dc.params(info)
	if len(params) != 1 || params[0] == nil {
		c.Unknown("R14.2", "DelClient: parameter", dc.Pos(), "unexpected signature")
		return
	}
	leaver := params[0]
	var del *ast.CallExpr
	var snapAssign *ast.AssignStmt
	var snapVar types.Object
	var loop *ast.RangeStmt
	var joined *ast.CallExpr
	ast.Inspect(dc.Body(), func(n ast.Node) bool {
		switch x := n.(type) {
		case *ast.CallExpr:
			if isBuiltin(info, x, "delete") {
				del = x
			}
			if p.ifaceMethodIs(calleeOf(&CallSite{Call: x, In: dc}), "group", "Client", "Joined") {
				joined = x
			}
		case *ast.AssignStmt:
			if len(x.Rhs) == 1 && len(x.Lhs) == 1 {
				if call, ok := unparen(x.Rhs[0]).(*ast.CallExpr); ok && fnIs(calleeOf(&CallSite{Call: call, In: dc}), "group", "Group", "getClientsUnlocked") {
					if id, ok := x.Lhs[0].(*ast.Ident); ok && len(call.Args) == 1 && isNilIdent(info, call.Args[0]) {
						snapVar, snapAssign = info.ObjectOf(id), x
					}
				}
			}
		}
		return true
	})
	if del == nil {
		c.Bad("R14.2", "DelClient: removal", dc.Pos(), "DelClient no longer deletes from g.clients")
		return
	}
	// guarded by g.clients[c.Id()] == c
	st, _ := ff.At(del)
	okGuard := false
	if st != nil {
		for _, f := range st.Facts() {
			if f.Op == "eq" && f.Pos && f.B != nil {
				for _, pr := range [][2]*Term{{f.A, f.B}, {f.B, f.A}} {
					if pr[0].K == 'i' && pr[0].Args[0].K == 'f' && pr[0].Args[0].Obj == types.Object(fClients) && pr[1].K == 'v' && pr[1].Obj == leaver {
						okGuard = true
					}
				}
			}
		}
	}
	c.Check(okGuard, "R14.2", "DelClient: removes only the registered client", del.Pos(),
		"the removal is dominated by g.clients[c.Id()] == c", "a stale or foreign client object can delete the registered member with the same id")
	// the snapshot variable is written once
	nSnapDefs := 0
	ast.Inspect(dc.Body(), func(n ast.Node) bool {
		if as, ok := n.(*ast.AssignStmt); ok {
			for _, l := range as.Lhs {
				if id, isId := unparen(l).(*ast.Ident); isId && snapVar != nil && info.ObjectOf(id) == snapVar {
					nSnapDefs++
				}
			}
		}
		return true
	})
	okSnap := snapVar != nil && ff.ReachableFrom(del, snapAssign) && ff.DominatedByNode(snapAssign, del) && nSnapDefs == 1
	c.Check(okSnap, "R14.2", "DelClient: snapshot of the remaining members", posOf(snapAssign),
		"clients := g.getClientsUnlocked(nil) taken after the removal", "the members told about the departure are not the post-removal membership")
	ast.Inspect(dc.Body(), func(n ast.Node) bool {
		if x, ok := n.(*ast.RangeStmt); ok {
			if id, ok := unparen(x.X).(*ast.Ident); ok && info.ObjectOf(id) == snapVar {
				loop = x
			} else if ok && snapVar != nil {
				// a copy of the snapshot (the value handed back by a helper)
				if lst, _ := ff.At(x.X); lst != nil {
					if t := ff.term(x.X); t != nil && lst.EqualUnder(t, TVar(snapVar)) {
						loop = x
					}
				}
			}
		}
		return true
	})
	okJoined := joined != nil && len(joined.Args) == 2
	if okJoined {
		s, isC := constString(info, joined.Args[1])
		id, isId := unparen(recvExpr(joined)).(*ast.Ident)
		okJoined = isC && s == "leave" && isId && info.ObjectOf(id) == leaver
		// on every path after the removal
		if _, found := ff.PathSearchPS(del, 0, func(n ast.Node, st *State, flag int) (int, bool) {
			hit := false
			ast.Inspect(n, func(x ast.Node) bool {
				if x == ast.Node(joined) {
					hit = true
				}
				return true
			})
			return flag, hit
		}, nil, func(int) bool { return true }); found {
			okJoined = false
		}
	}
	c.Check(okJoined, "R14.2", "DelClient: leaver is told it left", posOf(joined), "c.Joined(name, \"leave\") on every path after the removal", "the leaver is not (always) sent joined/leave")
	if loop == nil {
		c.Bad("R14.2", "DelClient: every remaining member is told", dc.Pos(), "no loop over the post-removal snapshot")
		return
	}
	var member types.Object
	if id, ok := loop.Value.(*ast.Ident); ok {
		member = info.ObjectOf(id)
	}
	var push *ast.CallExpr
	npush, nbranch := 0, 0
	ast.Inspect(loop.Body, func(n ast.Node) bool {
		switch x := n.(type) {
		case *ast.IfStmt, *ast.BranchStmt, *ast.ReturnStmt, *ast.SwitchStmt:
			nbranch++
		case *ast.CallExpr:
			if p.ifaceMethodIs(calleeOf(&CallSite{Call: x, In: dc}), "group", "Client", "PushClient") {
				push = x
				npush++
			}
		}
		return true
	})
	_, skipLoop := ff.PathSearchPS(del, 0, func(n ast.Node, st *State, flag int) (int, bool) {
		return flag, n == ast.Node(loop.X) || containsNode(n, loop.X)
	}, nil, func(int) bool { return true })
	if push == nil || member == nil {
		c.Bad("R14.2", "DelClient: every remaining member is told", loop.Pos(), "no PushClient in the loop")
	} else {
		bad := e.checkPush(dc, push, member, leaver, "delete", false)
		if npush != 1 {
			bad = append(bad, fmt.Sprintf("%d PushClient calls per member instead of one", npush))
		}
		if nbranch != 0 {
			bad = append(bad, "the loop body can skip a member")
		}
		if skipLoop {
			bad = append(bad, "the loop can be skipped after the removal")
		}
		c.Check(len(bad) == 0, "R14.2", "DelClient: every remaining member is told", push.Pos(),
			"exactly one cc.PushClient(name, \"delete\", c.Id(), c.Username(), ...) per remaining member, on every path after the removal", strings.Join(bad, "; "))
	}
}

func containsNode(outer, inner ast.Node) bool {
	found := false
	ast.Inspect(outer, func(x ast.Node) bool {
		if x == inner {
			found = true
		}
		return true
	})
	return found
}

func (e *c14env) broadcasts() {
	c, p := e.c, e.p
	ha := p.Func("rtpconn", "", "handleAction")
	hm := p.Func("rtpconn", "", "handleClientMessage")
	if ha == nil || hm == nil {
		c.Unknown("R14.3", "anchors", 0, "handleAction/handleClientMessage not found")
		return
	}
	// "change" broadcasts: PushClient(name, "change", ...) inside a function
	// literal run over g.GetClients(nil); identity arguments are the acting
	// client's own
	check := func(fs *FuncSrc, key string) {
		info := fs.Pkg.TypesInfo
		own := p.paramOfType(fs, "rtpconn", "webClient")
		found := false
		for _, lit := range p.Sources() {
			if lit.Lit == nil || lit.Root() != fs {
				continue
			}
			ast.Inspect(lit.Body(), func(n ast.Node) bool {
				call, ok := n.(*ast.CallExpr)
				if !ok || !p.ifaceMethodIs(calleeOf(&CallSite{Call: call, In: lit}), "group", "Client", "PushClient") || len(call.Args) != 6 {
					return true
				}
				if s, ok := constString(info, call.Args[1]); !ok || s != "change" {
					return true
				}
				// only the broadcast of this case
				if key == "permissions" && !strings.Contains(strings.Join(e.caseTypes(fs, lit.Lit), ","), "permissionsChangedAction") {
					return true
				}
				if key == "data" && !strings.Contains(strings.Join(p.enclosingCase(fs, lit.Lit, "m.Kind"), ","), "setdata") {
					return true
				}
				found = true
				var bad []string
				// the literal is invoked (go func(clients){...}(X)) with X = g.GetClients(nil)
				okAll := false
				par := p.Parent(fs.File, lit.Lit)
				// a parameter of the literal stands for the argument it is invoked with
				var lparams []types.Object
				for _, fld := range lit.Lit.Type.Params.List {
					for _, nm := range fld.Names {
						lparams = append(lparams, info.Defs[nm])
					}
				}
				litArg := func(x ast.Expr) ast.Expr {
					callLit, isCall := par.(*ast.CallExpr)
					id, isId := unparen(x).(*ast.Ident)
					if !isCall || !isId || len(callLit.Args) != len(lparams) {
						return x
					}
					for k, po := range lparams {
						if po != nil && info.Uses[id] == po {
							return callLit.Args[k]
						}
					}
					return x
				}
				if callLit, ok := par.(*ast.CallExpr); ok && len(callLit.Args) == len(lparams) {
					// the members ranged over by the loop around the call
					var over ast.Expr
					for cur := ast.Node(call); cur != nil && cur != ast.Node(lit.Lit); cur = p.Parent(fs.File, cur) {
						if rs, isR := cur.(*ast.RangeStmt); isR {
							over = litArg(rs.X)
							break
						}
					}
					pff := e.eng.Analyze(lit.Parent)
					st, _ := pff.At(callLit)
					if st == nil && len(callLit.Args) > 0 {
						st, _ = pff.At(callLit.Args[0])
					}
					if over != nil {
						if gc := e.provCall(pff, st, over); gc != nil && fnIs(calleeOf(&CallSite{Call: gc, In: lit.Parent}), "group", "Group", "GetClients") && len(gc.Args) == 1 && isNilIdent(info, gc.Args[0]) {
							okAll = true
						}
					}
				}
				if !okAll {
					bad = append(bad, "the recipients are not g.GetClients(nil)")
				}
				// id and username are the client's own (captured variables assigned from c.Id()/c.Username())
				pff := e.eng.Analyze(lit.Parent)
				stLit, _ := pff.At(par)
				for i, meth := range map[int]string{2: "Id", 3: "Username"} {
					argCall := e.provCall(pff, stLit, litArg(call.Args[i]))
					if argCall == nil || !(isMethodOn(info, argCall, meth, own)) {
						// direct field read c.id / c.username is fine too
						if t := pff.term(litArg(call.Args[i])); t != nil && stLit != nil {
							okField := false
							for v := range stLit.variants(t) {
								if strings.HasSuffix(v, "."+strings.ToLower(meth)) || strings.HasSuffix(v, ".username") && meth == "Username" {
									okField = true
								}
							}
							if okField {
								continue
							}
						}
						bad = append(bad, fmt.Sprintf("argument %d is not the client's own %s", i, meth))
					}
				}
				c.Check(len(bad) == 0, "R14.3", "change broadcast: "+key, call.Pos(),
					"PushClient(name, \"change\", own id, own username, ...) to every member of g.GetClients(nil)", strings.Join(bad, "; "))
				return true
			})
		}
		if !found {
			c.Bad("R14.3", "change broadcast: "+key, fs.Pos(), "no 'change' broadcast for this kind of update: other members keep a stale view")
		}
	}
	check(ha, "permissions")
	check(hm, "data")
	// pushClientAction filtered on the group name
	ff := e.eng.Analyze(ha)
	own := p.paramOfType(ha, "rtpconn", "webClient")
	grp := p.Field("rtpconn", "webClient", "group")
	gname := p.Field("group", "Group", "name")
	afield := p.Field("rtpconn", "pushClientAction", "group")
	found := false
	for _, cs := range p.CallSites() {
		if cs.In != ha || !fnIs(calleeOf(cs), "rtpconn", "webClient", "write") {
			continue
		}
		types_ := e.caseTypes(ha, cs.Call)
		if !strings.Contains(strings.Join(types_, ","), "pushClientAction") {
			continue
		}
		found = true
		st, _ := ff.At(cs.Call)
		ok := false
		if st != nil && own != nil && grp != nil && gname != nil && afield != nil {
			want := TField(TField(TVar(own), grp), gname)
			for _, f := range st.Facts() {
				if f.Op == "eq" && f.Pos && f.B != nil {
					for _, pr := range [][2]*Term{{f.A, f.B}, {f.B, f.A}} {
						if pr[0].String() == want.String() && pr[1].K == 'f' && pr[1].Obj == types.Object(afield) {
							ok = true
						}
					}
				}
			}
		}
		c.Check(ok, "R14.3", "user events are filtered on the group", cs.Call.Pos(),
			"the 'user' message is written only under a.group == c.group.Name()", "an event about one group can reach a member of another (no group-name test dominates the write)")
	}
	if !found {
		c.Bad("R14.3", "user events are filtered on the group", ha.Pos(), "pushClientAction is no longer forwarded to the client")
	}
	// changePermissionsAction always enqueues the notification (shared with C11 R11.3)
	okEnq := false
	ast.Inspect(ha.Body(), func(n ast.Node) bool {
		if call, ok := n.(*ast.CallExpr); ok && fnIs(calleeOf(&CallSite{Call: call, In: ha}), "rtpconn", "webClient", "action") && len(call.Args) == 1 {
			if nn, ok := ha.Pkg.TypesInfo.TypeOf(call.Args[0]).(*types.Named); ok && nn.Obj().Name() == "permissionsChangedAction" {
				if strings.Contains(strings.Join(e.caseTypes(ha, call), ","), "changePermissionsAction") {
					okEnq = true
				}
			}
		}
		return true
	})
	c.Check(okEnq, "R14.3", "permission change triggers the broadcast", ha.Pos(), "changePermissionsAction enqueues permissionsChangedAction", "a permission change is never broadcast")
}

// caseTypes returns the type names of the type-switch case clause enclosing n.
func (e *c14env) caseTypes(fs *FuncSrc, n ast.Node) []string {
	for cur := n; cur != nil; cur = e.p.Parent(fs.File, cur) {
		cc, ok := cur.(*ast.CaseClause)
		if !ok {
			continue
		}
		if _, isTS := e.p.Parent(fs.File, e.p.Parent(fs.File, cc)).(*ast.TypeSwitchStmt); !isTS {
			continue
		}
		var out []string
		for _, x := range cc.List {
			if t := fs.Pkg.TypesInfo.TypeOf(x); t != nil {
				if nn, ok := t.(*types.Named); ok {
					out = append(out, nn.Obj().Name())
				}
			}
		}
		return out
	}
	return nil
}

func (e *c14env) pairing() {
	c, p := e.c, e.p
	// the join pairing is decided by C11 R11.2; re-stated here for the ghost-member clause
	cl := p.Func("rtpconn", "", "clientLoop")
	if cl == nil {
		c.Unknown("R14.4", "anchor clientLoop", 0, "not found")
		return
	}
	okDefer := false
	own := p.paramOfType(cl, "rtpconn", "webClient")
	for _, s := range cl.Body().List {
		if ds, ok := s.(*ast.DeferStmt); ok && fnIs(calleeOf(&CallSite{Call: ds.Call, In: cl}), "rtpconn", "", "leaveGroup") && len(ds.Call.Args) == 1 {
			if id, ok := unparen(ds.Call.Args[0]).(*ast.Ident); ok && cl.Pkg.TypesInfo.ObjectOf(id) == own {
				// no return before the defer
				okDefer = true
				for _, s2 := range cl.Body().List {
					if s2 == s {
						break
					}
					ast.Inspect(s2, func(n ast.Node) bool {
						if _, isRet := n.(*ast.ReturnStmt); isRet {
							okDefer = false
						}
						return true
					})
				}
			}
		}
	}
	c.Check(okDefer, "R14.4", "clientLoop always leaves the group", cl.Pos(), "defer leaveGroup(c) is registered before any return", "a disconnecting client can remain a member (leaveGroup not deferred on every exit)")
	// leaveGroup reaches DelClient whenever c.group != nil
	lg := p.Func("rtpconn", "", "leaveGroup")
	if lg != nil {
		e.eng.Event(p.Func("group", "", "DelClient").Obj)
		lff := e.eng.Analyze(lg)
		lown := p.paramOfType(lg, "rtpconn", "webClient")
		grp := p.Field("rtpconn", "webClient", "group")
		bad := 0
		n := 0
		for _, ex := range lff.Exits() {
			if ex.St == nil {
				continue
			}
			n++
			if hasCalled(ex.St, "group.DelClient", TVar(lown)) {
				continue
			}
			// the only other exit: c.group == nil at entry
			entryNil := false
			if ex.Ret != nil {
				if st, _ := lff.At(ex.Ret); st != nil && st.HasFact(mkFact(true, "eq", TField(TVar(lown), grp), TNil())) {
					entryNil = true
				}
			}
			if !entryNil {
				bad++
			}
		}
		c.Check(bad == 0 && n > 0, "R14.4", "leaveGroup removes the member", lg.Pos(), "every exit of leaveGroup either saw c.group == nil or called group.DelClient(c)", "leaveGroup can return without removing the client from its group")
		joinRecordedRule(c, "R14.4")
	}
}
