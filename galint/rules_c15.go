package main

import (
	"fmt"
	"go/ast"
	"go/constant"
	"go/token"
	"go/types"
	"math/big"
	"sort"
	"strings"

	"golang.org/x/tools/go/ssa"
)

func bigInt(v int64) *big.Int { return big.NewInt(v) }

func constantInt64(k *types.Const) (int64, bool) { return constant.Int64Val(k.Val()) }

func init() {
	register(&Property{
		ID:        "C15",
		Title:     "Chat messages are authentic, correctly addressed, and history is bounded",
		Technique: "CFG path search with conjunction refutation (spoofing), must-facts and literal provenance (routing), interval proof on SSA with field-content forwarding (history bound)",
		Decides: "R15.1: no use of the client-supplied source id or username that flows into an outgoing message, the chat history or a kick can execute while it differs from the sender's true id / username; the refusing branches return a ProtocolError, which the close-message mapping turns into a protocol-error close. " +
			"R15.2: the forwarded message copies type, kind, dest, value, noecho, source and username from the request and is marked privileged exactly by the sender's 'op' permission at that moment. " +
			"R15.3: a message without destination is broadcast to the group's members (minus the sender only under noecho), one with a destination is written to exactly g.GetClient(dest); only broadcast chat enters the history. " +
			"R15.4 (proof): len(g.history) <= 50 is an inductive invariant of every writer of Group.history. " +
			"R15.5: ClearChatHistory has the three modes (everything, one user's messages, one message of a user). " +
			"R15.8: a broadcast chat message is recorded in the history before the snapshot of its recipients is taken (no AddToChatHistory is reachable from the GetClients call of the broadcast): a member that joins in between gets it from the replay instead of getting it neither way. " +
			"R15.7: what GetChatHistory returns is a private copy (make+copy, append to an empty slice, slices.Clone), never a slice that shares the group's array: the replay iterates over it outside the lock while clearchat compacts that array in place. " +
			"R15.6: GetChatHistory ages the history against maxHistoryAge(description) before any other read of it; the aging function compares each entry's age with the bound it is given.",
		NotDecided: []string{
			"replay order on join relative to concurrent chat",
			"the age bound in wall-clock terms (only that aging happens before the history is handed out)",
		},
		Run: runC15,
	})
}

func runC15(c *Ctx) {
	defer runC15Private(c)
	defer runC15RecordFirst(c)
	defer runC15Aging(c)
	p := c.P
	c.Rule("R15.1", "E3", "client-supplied source/username never flow out while they differ from the sender's identity; spoofing returns a ProtocolError", 8)
	c.Rule("R15.2", "E4", "the forwarded message is a faithful copy, privileged iff the sender holds op", 9)
	c.Rule("R15.3", "E2", "routing: broadcast iff no destination, noecho excludes only the sender, unicast to GetClient(dest), history only for broadcast chat", 4)
	c.Rule("R15.4", "E6", "len(Group.history) <= maxChatHistory is inductive over all writers of the field", 3)
	c.Rule("R15.5", "E2", "ClearChatHistory: all, by user, by user and id", 2)
	hm := p.Func("rtpconn", "", "handleClientMessage")
	if hm == nil {
		c.Unknown("R15.1", "anchor handleClientMessage", 0, "not found")
		return
	}
	eng := p.Facts()
	ff := eng.Analyze(hm)
	info := hm.Pkg.TypesInfo
	fSource := p.Field("rtpconn", "clientMessage", "Source")
	fUser := p.Field("rtpconn", "clientMessage", "Username")
	fType := p.Field("rtpconn", "clientMessage", "Type")
	fDest := p.Field("rtpconn", "clientMessage", "Dest")
	fNoEcho := p.Field("rtpconn", "clientMessage", "NoEcho")
	cid := p.Field("rtpconn", "webClient", "id")
	cuser := p.Field("rtpconn", "webClient", "username")
	cperms := p.Field("rtpconn", "webClient", "permissions")
	own := p.paramOfType(hm, "rtpconn", "webClient")
	var mobj types.Object
	for _, po := range hm.params(info) {
		if po != nil {
			if n, ok := po.Type().(*types.Named); ok && n.Obj().Name() == "clientMessage" {
				mobj = po
			}
		}
	}
	if fSource == nil || fUser == nil || fType == nil || cid == nil || cuser == nil || own == nil || mobj == nil || fDest == nil || fNoEcho == nil || cperms == nil {
		c.Unknown("R15.1", "anchors", hm.Pos(), "clientMessage/webClient fields or parameters no longer resolve")
		return
	}
	mT, cT := TVar(mobj), TVar(own)
	srcT, usrT := TField(mT, fSource), TField(mT, fUser)
	// spoof conditions
	spoofSrc := factsConj(mkFact(false, "eq", TStr(""), srcT), mkFact(false, "eq", srcT, TField(cT, cid)))
	spoofUsr := factsConj(mkFact(false, "eq", usrT, TNil()), mkFact(false, "eq", TDeref(usrT), TField(cT, cuser)), mkFact(false, "eq", TStr("join"), TField(mT, fType)))
	k := newKeyer()
	ast.Inspect(hm.Body(), func(n ast.Node) bool {
		sel, ok := n.(*ast.SelectorExpr)
		if !ok {
			return true
		}
		s := info.Selections[sel]
		if s == nil || (s.Obj() != types.Object(fSource) && s.Obj() != types.Object(fUser)) {
			return true
		}
		if id, ok := unparen(sel.X).(*ast.Ident); !ok || info.ObjectOf(id) != mobj {
			return true
		}
		// only uses that flow out: call arguments and composite-literal fields
		par := p.Parent(hm.File, sel)
		flows := false
		switch x := par.(type) {
		case *ast.KeyValueExpr:
			flows = x.Value == ast.Expr(sel)
		case *ast.CallExpr:
			for _, a := range x.Args {
				if a == ast.Expr(sel) {
					flows = true
				}
			}
		}
		if !flows {
			return true
		}
		which, conj := "source", spoofSrc
		if s.Obj() == types.Object(fUser) {
			which, conj = "username", spoofUsr
		}
		cases := strings.Join(p.enclosingCase(hm, sel, "m.Type"), ",")
		if which == "username" && cases == "join" {
			return true // credentials of the join request itself
		}
		key := k.key("use of m."+sel.Sel.Name, "case", cases)
		reach, path := ff.ReachableNotRefuting(sel, conj)
		if reach {
			c.Bad("R15.1", key, sel.Pos(), "the client-supplied %s flows out here on a path (%s) on which it was never shown to be empty or equal to the sender's own", which, strings.Join(path, " "))
		} else {
			c.OK("R15.1", key, sel.Pos(), "unreachable while the %s is set and differs from the sender's", which)
		}
		return true
	})
	// the refusing branches return ProtocolError
	nproto := 0
	for _, ret := range ff.Returns() {
		if len(ret.Results) != 1 {
			continue
		}
		isProto := func(e ast.Expr) bool {
			call, ok := unparen(e).(*ast.CallExpr)
			if !ok {
				return false
			}
			if tv, isT := info.Types[call.Fun]; !isT || !tv.IsType() {
				return false
			}
			n, ok := info.TypeOf(call).(*types.Named)
			return ok && n.Obj().Name() == "ProtocolError"
		}
		if id, isId := unparen(ret.Results[0]).(*ast.Ident); isId {
			// a local whose every definition is a ProtocolError
			obj := info.ObjectOf(id)
			ndef, nproto := 0, 0
			ast.Inspect(hm.Body(), func(n ast.Node) bool {
				switch x := n.(type) {
				case *ast.AssignStmt:
					for i, l := range x.Lhs {
						if lid, ok := l.(*ast.Ident); ok && info.ObjectOf(lid) == obj {
							if len(x.Rhs) == len(x.Lhs) && isNilIdent(info, x.Rhs[i]) {
								continue // err = nil: nothing to return there
							}
							ndef++
							if len(x.Rhs) == len(x.Lhs) && isProto(x.Rhs[i]) {
								nproto++
							}
						}
					}
				case *ast.ValueSpec:
					for i, nm := range x.Names {
						if info.ObjectOf(nm) == obj {
							if len(x.Values) == 0 {
								continue // var err error
							}
							ndef++
							if len(x.Values) == len(x.Names) && isProto(x.Values[i]) {
								nproto++
							}
						}
					}
				}
				return true
			})
			if obj == nil || ndef == 0 || ndef != nproto {
				continue
			}
		} else if !isProto(ret.Results[0]) {
			continue
		}
		st, _ := ff.At(ret)
		if st == nil {
			continue
		}
		if st.HasFact(mkFact(false, "eq", srcT, TField(cT, cid))) || st.HasFact(mkFact(false, "eq", TDeref(usrT), TField(cT, cuser))) {
			nproto++
		}
	}
	c.Check(nproto >= 2, "R15.1", "spoofing returns ProtocolError", hm.Pos(),
		"both the id mismatch and the username mismatch return group.ProtocolError", "a spoofed id or username is no longer answered with a ProtocolError (the connection is not closed)")
	if em := p.Func("rtpconn", "", "errorToWSCloseMessage"); em != nil {
		okMap := false
		ast.Inspect(em.Body(), func(n ast.Node) bool {
			cc, ok := n.(*ast.CaseClause)
			if !ok {
				return true
			}
			isPE := false
			for _, x := range cc.List {
				if nn, ok := em.Pkg.TypesInfo.TypeOf(x).(*types.Named); ok && nn.Obj().Name() == "ProtocolError" {
					isPE = true
				}
			}
			if isPE {
				ast.Inspect(cc, func(m ast.Node) bool {
					if sel, ok := m.(*ast.SelectorExpr); ok && sel.Sel.Name == "CloseProtocolError" {
						okMap = true
					}
					return true
				})
			}
			return true
		})
		c.Check(okMap, "R15.1", "ProtocolError closes the connection", em.Pos(), "errorToWSCloseMessage maps group.ProtocolError to CloseProtocolError", "ProtocolError is no longer mapped to a protocol-error close")
	}

	// ---- R15.2 the forwarded message ----
	var mm *ast.CompositeLit
	ast.Inspect(hm.Body(), func(n ast.Node) bool {
		cl, ok := n.(*ast.CompositeLit)
		if !ok {
			return true
		}
		if nn, ok := info.TypeOf(cl).(*types.Named); !ok || nn.Obj().Name() != "clientMessage" {
			return true
		}
		cs := strings.Join(p.enclosingCase(hm, cl, "m.Type"), ",")
		if !strings.Contains(cs, "chat") {
			return true
		}
		// the literal that copies m.Type
		for _, el := range cl.Elts {
			if kv, ok := el.(*ast.KeyValueExpr); ok {
				if id, ok := kv.Key.(*ast.Ident); ok && id.Name == "Type" {
					if t := ff.term(kv.Value); t != nil && t.String() == TField(mT, fType).String() {
						mm = cl
					}
				}
			}
		}
		return true
	})
	if mm == nil {
		c.Bad("R15.2", "forwarded message literal", hm.Pos(), "no clientMessage literal copying m.Type in the chat case")
	} else {
		copies := map[string]bool{"Type": true, "Kind": true, "Dest": true, "Value": true, "NoEcho": true, "Source": true, "Username": true}
		seen := map[string]bool{}
		for _, el := range mm.Elts {
			kv, ok := el.(*ast.KeyValueExpr)
			if !ok {
				continue
			}
			name := kv.Key.(*ast.Ident).Name
			seen[name] = true
			switch {
			case copies[name]:
				t := ff.term(kv.Value)
				want := ""
				if t != nil && t.K == 'f' && t.Args[0].String() == mT.String() {
					want = t.Obj.Name()
				}
				c.Check(want == name, "R15.2", "forwarded "+name, kv.Pos(), "copied from m."+name, "the forwarded "+name+" is not the request's "+name)
			case name == "Privileged":
				t := ff.term(kv.Value)
				isOpTest := func(t *Term) bool {
					return t != nil && t.K == 'k' && t.Name == "slices.Contains" && len(t.Args) == 2 && t.Args[0].String() == TField(cT, cperms).String() && t.Args[1].Name == `"op"`
				}
				ok := isOpTest(t)
				if !ok && t != nil && t.K == 'v' {
					// a local that still equals the test when the message is built
					if st, _ := ff.At(mm); st != nil {
						for _, f := range st.Facts() {
							if f.Op == "eq" && f.Pos && f.B != nil && ((f.A.String() == t.String() && isOpTest(f.B)) || (f.B.String() == t.String() && isOpTest(f.A))) {
								ok = true
							}
						}
						// b := <test>: b true => test, b false => not test (both still standing)
						imp := func(pol bool) bool {
							for _, f := range st.Facts() {
								if f.Op == "imp" && f.Cond != nil && f.Then != nil && f.Cond.Op == "true" && f.Cond.Pos == pol && f.Cond.A.String() == t.String() &&
									f.Then.Op == "true" && f.Then.Pos == pol && isOpTest(f.Then.A) {
									return true
								}
							}
							return false
						}
						if imp(true) && imp(false) {
							ok = true
						}
					}
				}
				c.Check(ok, "R15.2", "forwarded Privileged", kv.Pos(), "slices.Contains(c.permissions, \"op\") evaluated when forwarding", "Privileged is not exactly the sender's current 'op' permission")
			}
		}
		var missing []string
		for name := range copies {
			if !seen[name] {
				missing = append(missing, name)
			}
		}
		sort.Strings(missing)
		c.Check(len(missing) == 0 && seen["Privileged"], "R15.2", "forwarded message is complete", mm.Pos(), "all of Type, Kind, Dest, Value, NoEcho, Source, Username, Privileged are set", "fields not forwarded: "+strings.Join(missing, ","))
	}

	// ---- R15.3 routing ----
	destT := TField(mT, fDest)
	// emptyDest: the state says that the destination (the request's, or its copy in the
	// forwarded message) is / is not the empty string
	emptyDest := func(st *State, pos bool) bool {
		if st.HasFact(mkFact(pos, "eq", TStr(""), destT)) {
			return true
		}
		for _, f := range st.Facts() {
			if f.Op != "eq" || f.Pos != pos || f.B == nil {
				continue
			}
			for _, pr := range [][2]*Term{{f.A, f.B}, {f.B, f.A}} {
				if pr[0].K == 'c' && pr[0].Name == `""` && pr[1].K == 'f' && pr[1].Obj == types.Object(fDest) && st.EqualUnder(pr[1], destT) {
					return true
				}
			}
		}
		return false
	}
	for _, cs := range p.CallSites() {
		if cs.In != hm {
			continue
		}
		f := calleeOf(cs)
		cases := strings.Join(p.enclosingCase(hm, cs.Call, "m.Type"), ",")
		if !strings.Contains(cases, "chat") {
			continue
		}
		st, _ := ff.At(cs.Call)
		if st == nil {
			continue
		}
		switch {
		case fnIs(f, "rtpconn", "", "broadcast"):
			okDest := emptyDest(st, true)
			// recipients: g.GetClients(except), except assigned c only under m.NoEcho
			okRcpt := false
			why := "recipients are not g.GetClients(except)"
			if gc, ok := unparen(cs.Call.Args[0]).(*ast.CallExpr); ok && fnIs(calleeOf(&CallSite{Call: gc, In: hm}), "group", "Group", "GetClients") && len(gc.Args) == 1 {
				if id, ok := unparen(gc.Args[0]).(*ast.Ident); ok {
					ex := info.ObjectOf(id)
					okRcpt, why = exceptVarSound(p, ff, hm, ex, own, TField(mT, fNoEcho))
				}
			}
			c.Check(okDest && okRcpt, "R15.3", "broadcast iff no destination; noecho excludes only the sender", cs.Call.Pos(),
				"broadcast under m.Dest == \"\" to g.GetClients(except), except = c only under m.NoEcho", "broadcast routing: dest==\"\" dominates: "+fmt.Sprint(okDest)+"; "+why)
		case fnIs(f, "rtpconn", "webClient", "write"):
			r := recvExpr(cs.Call)
			if id, ok := unparen(r).(*ast.Ident); ok && info.ObjectOf(id) == own {
				continue
			}
			okDest := emptyDest(st, false)
			// receiver derives from g.GetClient(m.Dest)
			okTarget := false
			rt := ff.term(r)
			if rt != nil {
				for v := range st.variants(rt) {
					_ = v
				}
				// ccc := cc.(*webClient) ; cc := g.GetClient(m.Dest)
				okTarget = derivesFromGetClient(p, ff, hm, st, r, destT)
			}
			c.Check(okDest && okTarget, "R15.3", "unicast to exactly the named destination", cs.Call.Pos(),
				"written under m.Dest != \"\" to g.GetClient(m.Dest)", "a message with a destination is not delivered to exactly g.GetClient(m.Dest)")
		case fnIs(f, "group", "Group", "AddToChatHistory"):
			ok := st.HasFact(mkFact(true, "eq", TStr("chat"), TField(mT, fType))) && st.HasFact(mkFact(true, "eq", TStr(""), destT))
			c.Check(ok, "R15.3", "history only for broadcast chat", cs.Call.Pos(), "dominated by m.Type == \"chat\" && m.Dest == \"\"", "private or non-chat messages enter the history that is replayed to later joiners")
		}
	}
	// both routes exist
	nb, nu := 0, 0
	for _, ob := range c.obls {
		if ob.Rule == "R15.3" && strings.HasPrefix(ob.Key, "broadcast") {
			nb++
		}
		if ob.Rule == "R15.3" && strings.HasPrefix(ob.Key, "unicast") {
			nu++
		}
	}
	c.Check(nb > 0 && nu > 0, "R15.3", "both routes present", hm.Pos(), "the chat case has a broadcast route and a unicast route", "a route is missing")

	runC15History(c)
	runC15Clear(c)
}

// exceptVarSound: variable ex is declared nil (var ex T) and only assigned
// the acting client, under the fact +true(noecho).
func exceptVarSound(p *Program, ff *FuncFacts, fs *FuncSrc, ex, own types.Object, noecho *Term) (bool, string) {
	info := fs.Pkg.TypesInfo
	declNil := false
	ok := true
	why := ""
	n := 0
	ast.Inspect(fs.Body(), func(nd ast.Node) bool {
		switch x := nd.(type) {
		case *ast.ValueSpec:
			for _, name := range x.Names {
				if info.Defs[name] == ex && len(x.Values) == 0 {
					declNil = true
				}
			}
		case *ast.AssignStmt:
			for i, l := range x.Lhs {
				if id, isId := unparen(l).(*ast.Ident); isId && info.ObjectOf(id) == ex {
					n++
					rid, isR := unparen(x.Rhs[i]).(*ast.Ident)
					if !isR || info.ObjectOf(rid) != own {
						ok, why = false, "except is assigned something other than the sender"
						continue
					}
					st, _ := ff.At(x)
					held := st != nil && st.HasFact(mkFact(true, "true", noecho, nil))
					if st != nil && !held {
						// the flag read from the forwarded copy of the request
						for _, f := range st.Facts() {
							if f.Op == "true" && f.Pos && f.A.K == 'f' && f.A.Obj == noecho.Obj && st.EqualUnder(f.A, noecho) {
								held = true
							}
						}
					}
					if !held {
						ok, why = false, "the sender is excluded without m.NoEcho"
					}
				}
			}
		}
		return true
	})
	if !declNil {
		return false, "except does not default to nil (everyone)"
	}
	if n == 0 {
		return false, "noecho is never honoured"
	}
	return ok, why
}

// derivesFromGetClient: expression r is (a checked assertion of) the result
// of g.GetClient(dest).
func derivesFromGetClient(p *Program, ff *FuncFacts, fs *FuncSrc, st *State, r ast.Expr, dest *Term) bool {
	info := fs.Pkg.TypesInfo
	cur := unparen(r)
	for depth := 0; depth < 4; depth++ {
		id, ok := cur.(*ast.Ident)
		if !ok {
			return false
		}
		obj := info.ObjectOf(id)
		// find the unique definition of obj
		var def ast.Expr
		ndef := 0
		ast.Inspect(fs.Body(), func(nd ast.Node) bool {
			if as, ok := nd.(*ast.AssignStmt); ok {
				for i, l := range as.Lhs {
					if lid, ok := l.(*ast.Ident); ok && info.ObjectOf(lid) == obj {
						ndef++
						if len(as.Rhs) == 1 {
							def = as.Rhs[0]
						} else if i < len(as.Rhs) {
							def = as.Rhs[i]
						}
					}
				}
			}
			return true
		})
		if ndef != 1 || def == nil {
			return false
		}
		def = unparen(def)
		switch x := def.(type) {
		case *ast.TypeAssertExpr:
			cur = unparen(x.X)
		case *ast.CallExpr:
			if !fnIs(calleeOf(&CallSite{Call: x, In: fs}), "group", "Group", "GetClient") || len(x.Args) != 1 {
				return false
			}
			t := ff.term(x.Args[0])
			if t != nil && t.String() == dest.String() {
				return true
			}
			// the destination read from the forwarded copy of the request
			if cst, _ := ff.At(x); cst != nil && t != nil && t.K == 'f' && t.Obj == dest.Obj && cst.EqualUnder(t, dest) {
				return true
			}
			return false
		default:
			return false
		}
	}
	return false
}

// R15.5
func runC15Clear(c *Ctx) {
	p := c.P
	cl := p.Func("group", "Group", "ClearChatHistory")
	if cl == nil {
		c.Unknown("R15.5", "anchor ClearChatHistory", 0, "not found")
		return
	}
	info := cl.Pkg.TypesInfo
	ff := p.Facts().Analyze(cl)
	params := cl.params(info) // g, id, userId
	if len(params) != 3 {
		c.Unknown("R15.5", "ClearChatHistory signature", cl.Pos(), "unexpected parameters")
		return
	}
	idT, userT := TVar(params[1]), TVar(params[2])
	fHist := p.Field("group", "Group", "history")
	// mode 1: history = nil under id == "" && userId == ""
	okAll := false
	ast.Inspect(cl.Body(), func(n ast.Node) bool {
		as, ok := n.(*ast.AssignStmt)
		if !ok || len(as.Lhs) != 1 {
			return true
		}
		t := ff.term(as.Lhs[0])
		if t == nil || t.K != 'f' || t.Obj != types.Object(fHist) || !isNilIdent(info, as.Rhs[0]) {
			return true
		}
		st, _ := ff.At(as)
		if st != nil && st.HasFact(mkFact(true, "eq", TStr(""), idT)) && st.HasFact(mkFact(true, "eq", TStr(""), userT)) {
			okAll = true
		}
		return true
	})
	c.Check(okAll, "R15.5", "clear everything", cl.Pos(), "history = nil exactly under id == \"\" && userId == \"\"", "the clear-everything mode is missing or mis-guarded")
	// modes 2/3: DeleteFunc predicate
	okPred := false
	for _, lit := range p.Sources() {
		if lit.Lit == nil || lit.Root() != cl {
			continue
		}
		lff := p.Facts().Analyze(lit)
		lp := lit.params(info)
		if len(lp) != 1 {
			continue
		}
		eT := TVar(lp[0])
		fSrc := p.Field("group", "ChatHistoryEntry", "Source")
		fId := p.Field("group", "ChatHistoryEntry", "Id")
		// the predicate decided return by return: where it can answer true the entry is the
		// user's and (no id was given or it is that id); where it can answer false it is not
		{
			A := mkFact(true, "eq", TField(eT, fSrc), userT)
			B := mkFact(true, "eq", TStr(""), idT)
			C := mkFact(true, "eq", TField(eT, fId), idT)
			nacc, nrej, good := 0, 0, true
			for _, ret := range lff.Returns() {
				if len(ret.Results) != 1 {
					good = false
					continue
				}
				st, _ := lff.At(ret)
				if st == nil {
					continue
				}
				var acc, rej []*State
				if tv := info.Types[ret.Results[0]]; tv.Value != nil {
					if tv.Value.String() == "true" {
						acc = []*State{st}
					} else {
						rej = []*State{st}
					}
				} else {
					acc = lff.edgeVariants(st, ret.Results[0], true)
					rej = lff.edgeVariants(st, ret.Results[0], false)
				}
				for _, v := range acc {
					if v == nil || contradictory(v) {
						continue
					}
					nacc++
					if !(v.HasFact(A) && (v.HasFact(B) || v.HasFact(C))) {
						good = false
					}
				}
				for _, v := range rej {
					if v == nil || contradictory(v) {
						continue
					}
					nrej++
					if !(v.HasFact(complement(A)) || (v.HasFact(complement(B)) && v.HasFact(complement(C)))) {
						good = false
					}
				}
			}
			if good && nacc > 0 && nrej > 0 {
				okPred = true
			}
		}
		for _, ret := range lff.Returns() {
			if len(ret.Results) != 1 {
				continue
			}
			cj := conjuncts(ret.Results[0])
			if len(cj) != 2 {
				continue
			}
			a := lff.assume(emptyState, cj[0], true)
			okSrc := a.HasFact(mkFact(true, "eq", TField(eT, fSrc), userT))
			dj := disjuncts(cj[1])
			okId := len(dj) == 2 &&
				(lff.assume(emptyState, dj[0], true).HasFact(mkFact(true, "eq", TStr(""), idT)) || lff.assume(emptyState, dj[1], true).HasFact(mkFact(true, "eq", TStr(""), idT))) &&
				(lff.assume(emptyState, dj[0], true).HasFact(mkFact(true, "eq", TField(eT, fId), idT)) || lff.assume(emptyState, dj[1], true).HasFact(mkFact(true, "eq", TField(eT, fId), idT)))
			if okSrc && okId {
				okPred = true
			}
		}
	}
	c.Check(okPred, "R15.5", "clear by user / by user and id", cl.Pos(), "predicate e.Source == userId && (id == \"\" || e.Id == id)", "the deletion predicate no longer selects exactly one user's messages (optionally one id)")
}

// R15.4: the history bound as an inductive invariant.
func runC15History(c *Ctx) {
	p := c.P
	fHist := p.Field("group", "Group", "history")
	pk := p.Pkg("group")
	if fHist == nil || pk == nil {
		c.Unknown("R15.4", "anchor Group.history", 0, "not found")
		return
	}
	bound := int64(-1)
	if k, ok := pk.Types.Scope().Lookup("maxChatHistory").(*types.Const); ok {
		if v, ok2 := constantInt64(k); ok2 {
			bound = v
		}
	}
	if bound <= 0 {
		c.Unknown("R15.4", "anchor maxChatHistory", 0, "constant not found")
		return
	}
	ia := p.Intervals()
	inv := Itv{bigInt(0), bigInt(bound)}
	saved := ia.LenItv
	ia.LenItv = func(f *types.Var) (Itv, bool) {
		if f == fHist {
			return inv, true
		}
		if saved != nil {
			return saved(f)
		}
		return Itv{}, false
	}
	ia.fns = map[*ssa.Function]*FnIntervals{}
	ia.params = map[*ssa.Parameter]Itv{}
	ia.plens = map[*ssa.Parameter]Itv{}
	defer func() {
		ia.LenItv = saved
		ia.fns = map[*ssa.Function]*FnIntervals{}
		ia.params = map[*ssa.Parameter]Itv{}
		ia.plens = map[*ssa.Parameter]Itv{}
	}()
	k := newKeyer()
	n := 0
	for fn := range p.CallGraph().Nodes {
		if fn == nil || fn.Blocks == nil || !fnInModule(fn) {
			continue
		}
		for _, b := range fn.Blocks {
			for _, ins := range b.Instrs {
				st, ok := ins.(*ssa.Store)
				if !ok {
					continue
				}
				fa, ok := st.Addr.(*ssa.FieldAddr)
				if !ok || fieldOf(fa) != fHist {
					continue
				}
				n++
				fi := ia.Analyze(fn)
				li := fi.lenItv(st.Val, b)
				key := k.key("writer", ssaFuncName(fn))
				if li.within(inv) {
					c.OK("R15.4", key, st.Pos(), "stores a slice of length %s, given len(history) in %s before (inductive step)", li, inv)
				} else {
					c.Bad("R15.4", key, st.Pos(), "stores a slice whose length is only bounded by %s: the history can exceed %d entries", li, bound)
				}
			}
		}
	}
	if n == 0 {
		c.Bad("R15.4", "writers of Group.history", fHist.Pos(), "no writer found")
	}
}

// R15.6: what is handed out as history has been aged first.
func runC15Aging(c *Ctx) {
	p := c.P
	c.Rule("R15.6", "E3", "the history is aged against max-history-age before it is handed out", 2)
	gh := p.Func("group", "Group", "GetChatHistory")
	dh := p.Func("group", "", "discardObsoleteHistory")
	fHist := p.Field("group", "Group", "history")
	if gh == nil || dh == nil || fHist == nil {
		c.Unknown("R15.6", "anchors", 0, "GetChatHistory / discardObsoleteHistory not found")
		return
	}
	info := gh.Pkg.TypesInfo
	ff := p.Facts().Analyze(gh)
	// the assignment g.history = discardObsoleteHistory(g.history, maxHistoryAge(g.description))
	var aging *ast.AssignStmt
	ast.Inspect(gh.Body(), func(n ast.Node) bool {
		as, ok := n.(*ast.AssignStmt)
		if !ok || len(as.Lhs) != 1 || len(as.Rhs) != 1 {
			return true
		}
		sel, ok := unparen(as.Lhs[0]).(*ast.SelectorExpr)
		if !ok {
			return true
		}
		if s := info.Selections[sel]; s == nil || s.Obj() != types.Object(fHist) {
			return true
		}
		call, ok := unparen(as.Rhs[0]).(*ast.CallExpr)
		if !ok || !fnIs(calleeOf(&CallSite{Call: call, In: gh}), "group", "", "discardObsoleteHistory") || len(call.Args) != 2 {
			return true
		}
		if a0, ok := unparen(call.Args[0]).(*ast.SelectorExpr); ok {
			if s := info.Selections[a0]; s != nil && s.Obj() == types.Object(fHist) {
				if ac, ok := unparen(call.Args[1]).(*ast.CallExpr); ok && fnIs(calleeOf(&CallSite{Call: ac, In: gh}), "group", "", "maxHistoryAge") {
					aging = as
				}
			}
		}
		return true
	})
	// every other read of g.history in GetChatHistory is dominated by it
	okDom, nread := aging != nil, 0
	if aging != nil {
		ast.Inspect(gh.Body(), func(n ast.Node) bool {
			sel, ok := n.(*ast.SelectorExpr)
			if !ok {
				return true
			}
			if s := info.Selections[sel]; s == nil || s.Obj() != types.Object(fHist) {
				return true
			}
			if sel.Pos() >= aging.Pos() && sel.End() <= aging.End() {
				return true
			}
			nread++
			if !ff.DominatedByNode(sel, aging) {
				okDom = false
			}
			return true
		})
	}
	c.Check(okDom && nread > 0, "R15.6", "GetChatHistory ages the history before copying it", gh.Pos(), "g.history = discardObsoleteHistory(g.history, maxHistoryAge(g.description)) dominates every other read", "the history replayed to a joining client is not aged first: entries older than max-history-age are replayed after a quiet period")
	// the aging function drops exactly a prefix of entries older than the bound
	dinfo := dh.Pkg.TypesInfo
	okCmp := false
	ast.Inspect(dh.Body(), func(n ast.Node) bool {
		be, ok := n.(*ast.BinaryExpr)
		if !ok {
			return true
		}
		if call, ok := unparen(be.X).(*ast.CallExpr); ok {
			if f := calleeOf(&CallSite{Call: call, In: dh}); f != nil && f.Pkg() != nil && f.Pkg().Path() == "time" && f.Name() == "Since" {
				params := dh.params(dinfo)
				if id, ok := unparen(be.Y).(*ast.Ident); ok && len(params) == 2 && dinfo.Uses[id] == params[1] && (be.Op == token.LEQ || be.Op == token.LSS || be.Op == token.GTR || be.Op == token.GEQ) {
					okCmp = true
				}
			}
		}
		return true
	})
	c.Check(okCmp, "R15.6", "discardObsoleteHistory compares each entry's age with the bound it is given", dh.Pos(), "time.Since(h[i].Time) against the duration parameter", "the age of an entry is not compared with the configured bound")
}

// R15.7: the replay on join iterates over what GetChatHistory returned after
// the group lock is released, while ClearChatHistory and AddToChatHistory
// shift entries inside the group's array.  Every value GetChatHistory returns
// must be freshly allocated in the function.
func runC15Private(c *Ctx) {
	p := c.P
	c.Rule("R15.7", "E4", "the history handed out is a private copy", 1)
	gh := p.Func("group", "Group", "GetChatHistory")
	if gh == nil {
		c.Unknown("R15.7", "anchors", 0, "GetChatHistory not found")
		return
	}
	info := gh.Pkg.TypesInfo
	// all definitions of a local
	defs := map[types.Object][]ast.Expr{}
	unknownDef := map[types.Object]bool{}
	ast.Inspect(gh.Body(), func(n ast.Node) bool {
		switch x := n.(type) {
		case *ast.AssignStmt:
			for i, l := range x.Lhs {
				id, ok := unparen(l).(*ast.Ident)
				if !ok || id.Name == "_" {
					continue
				}
				o := info.ObjectOf(id)
				if o == nil {
					continue
				}
				if len(x.Rhs) != len(x.Lhs) {
					unknownDef[o] = true
					continue
				}
				defs[o] = append(defs[o], x.Rhs[i])
			}
		case *ast.ValueSpec:
			for i, nm := range x.Names {
				o := info.ObjectOf(nm)
				if len(x.Values) == len(x.Names) {
					defs[o] = append(defs[o], x.Values[i])
				} else if len(x.Values) != 0 {
					unknownDef[o] = true
				}
			}
		case *ast.UnaryExpr:
			if x.Op == token.AND {
				if id, ok := unparen(x.X).(*ast.Ident); ok {
					unknownDef[info.ObjectOf(id)] = true
				}
			}
		}
		return true
	})
	var fresh func(e ast.Expr, seen map[types.Object]bool) bool
	fresh = func(e ast.Expr, seen map[types.Object]bool) bool {
		e = unparen(e)
		if tv, ok := info.Types[e]; ok && tv.IsNil() {
			return true
		}
		switch x := e.(type) {
		case *ast.CompositeLit:
			return true
		case *ast.CallExpr:
			if tv, ok := info.Types[x.Fun]; ok && tv.IsType() && len(x.Args) == 1 {
				return fresh(x.Args[0], seen) // conversion
			}
			if id, ok := unparen(x.Fun).(*ast.Ident); ok {
				if b, isB := info.Uses[id].(*types.Builtin); isB {
					switch b.Name() {
					case "make":
						return true
					case "append":
						return len(x.Args) > 0 && fresh(x.Args[0], seen)
					}
				}
			}
			if f := calleeOf(&CallSite{Call: x, In: gh}); f != nil && f.Pkg() != nil && f.Pkg().Path() == "slices" && f.Name() == "Clone" {
				return true
			}
			return false
		case *ast.Ident:
			o := info.ObjectOf(x)
			v, isVar := o.(*types.Var)
			if !isVar || v.IsField() || v.Parent() == nil || v.Parent() == gh.Pkg.Types.Scope() || unknownDef[o] || seen[o] {
				return false
			}
			ds := defs[o]
			if len(ds) == 0 {
				// declared without a value (nil slice) - or a parameter
				for _, po := range gh.params(info) {
					if po == o {
						return false
					}
				}
				return true
			}
			seen[o] = true
			defer delete(seen, o)
			for _, d := range ds {
				if !fresh(d, seen) {
					return false
				}
			}
			return true
		case *ast.SliceExpr:
			return fresh(x.X, seen)
		}
		return false
	}
	nret := 0
	ok := true
	var bad token.Pos
	ast.Inspect(gh.Body(), func(n ast.Node) bool {
		if _, isLit := n.(*ast.FuncLit); isLit {
			return false
		}
		rs, isR := n.(*ast.ReturnStmt)
		if !isR {
			return true
		}
		nret++
		if len(rs.Results) == 0 {
			// named result
			if gh.Decl.Type.Results != nil {
				for _, fld := range gh.Decl.Type.Results.List {
					for _, nm := range fld.Names {
						if !fresh(nm, map[types.Object]bool{}) {
							ok, bad = false, rs.Pos()
						}
					}
				}
			}
			return true
		}
		for _, r := range rs.Results {
			if !fresh(r, map[types.Object]bool{}) {
				ok, bad = false, rs.Pos()
			}
		}
		return true
	})
	pos := gh.Pos()
	if bad.IsValid() {
		pos = bad
	}
	c.Check(ok && nret > 0, "R15.7", "GetChatHistory returns a private copy", pos, fmt.Sprintf("%d return(s), each of a slice allocated in the function", nret),
		"GetChatHistory hands out a slice that can share the group's array: the replay on join reads it outside the lock while clearchat and new messages shift entries in place")
}

// R15.8: record, then snapshot.  A client admitted between the two steps is in
// neither the snapshot nor - with the other order - the history it replays.
func runC15RecordFirst(c *Ctx) {
	p := c.P
	c.Rule("R15.8", "E3", "a broadcast chat message is recorded before its recipients are snapshotted", 1)
	hm := p.Func("rtpconn", "", "handleClientMessage")
	if hm == nil {
		c.Unknown("R15.8", "anchors", 0, "handleClientMessage not found")
		return
	}
	ff := p.Facts().Analyze(hm)
	var adds, snaps []*ast.CallExpr
	ast.Inspect(hm.Body(), func(n ast.Node) bool {
		call, ok := n.(*ast.CallExpr)
		if !ok {
			return true
		}
		f := calleeOf(&CallSite{Call: call, In: hm})
		if fnIs(f, "group", "Group", "AddToChatHistory") {
			adds = append(adds, call)
		}
		return true
	})
	if len(adds) == 0 {
		c.Bad("R15.8", "history recorded before the recipients are snapshotted", hm.Pos(), "no AddToChatHistory in handleClientMessage")
		return
	}
	// the snapshots of the same case clause: GetClients calls in the clause that contains the record
	clauseOf := func(n ast.Node) *ast.CaseClause {
		var cur ast.Node = n
		var out *ast.CaseClause
		for cur != nil {
			if cc, ok := cur.(*ast.CaseClause); ok {
				out = cc // outermost: the message-type case
			}
			cur = p.Parent(hm.File, cur)
		}
		return out
	}
	ok := true
	var at token.Pos
	n := 0
	for _, a := range adds {
		cl := clauseOf(a)
		if cl == nil {
			continue
		}
		ast.Inspect(cl, func(m ast.Node) bool {
			call, isC := m.(*ast.CallExpr)
			if !isC || !fnIs(calleeOf(&CallSite{Call: call, In: hm}), "group", "Group", "GetClients") {
				return true
			}
			snaps = append(snaps, call)
			n++
			if ff.ReachableFrom(call, a) {
				ok, at = false, a.Pos()
			}
			return true
		})
	}
	pos := adds[0].Pos()
	if at.IsValid() {
		pos = at
	}
	c.Check(ok && n > 0, "R15.8", "history recorded before the recipients are snapshotted", pos, fmt.Sprintf("%d snapshot(s) in the chat case, none of which can be followed by the record", n),
		"the message is recorded in the history after the snapshot of its recipients was taken: a member that joins in between receives it neither live nor in the replay")
}
