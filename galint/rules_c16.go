package main

import (
	"fmt"
	"go/ast"
	"go/token"
	"go/types"
	"sort"
	"strings"
)

func init() {
	register(&Property{
		ID:        "C16",
		Title:     "Stateful tokens: durable, conditionally updated, and revocation is final",
		Technique: "guarded-by must-locksets on SSA, must-facts (compare-and-write, rollback), path-sensitive CFG exploration (atomic replace of the token file)",
		Decides: "R16.1: every access to the token state (tokens, modTime, fileSize, filename) holds the state mutex. " +
			"R16.2: Update of an existing token and Delete mutate the map and rewrite the file only under etag == state.etag() evaluated after a load() in the same critical section; a new token is appended only under etag == \"\". " +
			"R16.3: when the rewrite fails the previous map entry is restored before the error is returned. " +
			"R16.4: rewrite replaces the file through a temporary file in the same directory, renamed only after every Encode and the Close succeeded, removing the temporary file on error; add appends exactly one record with O_APPEND; nothing else in package token writes files. " +
			"R16.6: outside package token the object returned by token.Get is only read: no field store goes through it and it is never handed to Update (edits are made on a Clone). " +
			"R16.5: the API handlers pass to token.Update/Delete the tag their preconditions were evaluated against, unchanged since the evaluation. " +
			"R16.6: outside package token the object returned by token.Get is only read: no field store goes through it and it is never handed to Update (edits are made on a Clone).",
		NotDecided: []string{
			"that the honoured set equals what a fresh server reads after every history (rewrite() re-loads the file through list(), external edits, size/mtime collisions)",
			"atomicity at crash points (rests on rename(2); the temporary token file is not fsynced - power loss is outside the stated model)",
			"expiry arithmetic",
		},
		Run: runC16,
	})
}

func runC16(c *Ctx) {
	p := c.P
	c.Rule("R16.1", "E5", "token state fields are accessed only under the state mutex", 20)
	c.Rule("R16.2", "E2", "compare-and-write under one critical section after load()", 5)
	c.Rule("R16.3", "E2", "rollback of the in-memory entry when the rewrite fails", 2)
	c.Rule("R16.4", "E3", "atomic replace of the token file; append-only add; no other writer", 6)
	c.Rule("R16.5", "E2", "API handlers hand the tested tag to the token store", 2)
	c.Rule("R16.6", "E2", "the store's in-memory tokens are never edited in place by callers", 3)
	c.Rule("R16.7", "E3", "the version tag is derived from the mirrored size and time alone (or everything else it reads is reset with them)", 1)
	defer runC16Tag(c)
	c.Rule("R16.8", "E3", "load() accepts only the end of the file as the end of the tokens", 1)
	defer runC16LoadStrict(c)

	// ---- R16.1 ----
	la := NewLockAnalysis(p)
	var smu *LockClass
	for _, cl := range la.classes {
		if cl.Name == "token.state.mu" {
			smu = cl
		}
	}
	if smu == nil {
		c.Unknown("R16.1", "anchor state.mu", 0, "lock class not found")
	} else {
		guarded := map[*types.Var]bool{}
		for _, fn := range []string{"tokens", "modTime", "fileSize", "filename"} {
			if f := p.Field("token", "state", fn); f != nil {
				guarded[f] = true
			} else {
				c.Unknown("R16.1", "anchor state."+fn, 0, "field not found")
			}
		}
		type agg struct {
			n, bad int
			pos    []string
		}
		aggs := map[string]*agg{}
		var order []string
		for _, a := range la.accesses {
			if !guarded[a.field] {
				continue
			}
			key := "state." + a.field.Name() + " in " + ssaFuncName(a.fn)
			ag := aggs[key]
			if ag == nil {
				ag = &agg{}
				aggs[key] = ag
				order = append(order, key)
			}
			ag.n++
			if !a.must.has(smu.ID) && !a.fresh {
				ag.bad++
				ag.pos = append(ag.pos, p.PosStr(a.pos))
			}
		}
		for _, key := range order {
			ag := aggs[key]
			c.Check(ag.bad == 0, "R16.1", key, 0, fmt.Sprintf("%d access(es) with token.state.mu held", ag.n),
				fmt.Sprintf("%d of %d accesses without the state mutex (at %s)", ag.bad, ag.n, strings.Join(ag.pos, ", ")))
		}
	}

	eng := p.Facts()
	upd := p.Func("token", "state", "Update")
	del := p.Func("token", "state", "Delete")
	load := p.Func("token", "state", "load")
	rew := p.Func("token", "state", "rewrite")
	addf := p.Func("token", "state", "add")
	etagf := p.Func("token", "state", "etag")
	if upd == nil || del == nil || load == nil || rew == nil || addf == nil || etagf == nil {
		c.Unknown("R16.2", "anchors", 0, "state.Update/Delete/load/rewrite/add/etag not all found")
		return
	}
	eng.Event(load.Obj)
	fTokens := p.Field("token", "state", "tokens")

	for _, fs := range []*FuncSrc{upd, del} {
		ff := eng.Analyze(fs)
		info := fs.Pkg.TypesInfo
		recv := fs.params(info)[0]
		var etagParam types.Object
		for _, po := range fs.params(info) {
			if po != nil && po.Name() == "etag" {
				etagParam = po
			}
		}
		if etagParam == nil || recv == nil {
			c.Unknown("R16.2", fs.Name+": etag parameter", fs.Pos(), "not found")
			continue
		}
		cmp := mkFact(true, "eq", TVar(etagParam), TCall(funcName(etagf.Obj), etagf.Obj, TVar(recv)))
		hasLoad := func(st *State) bool { return hasCalled(st, funcName(load.Obj), TVar(recv)) }
		// the rewrite call and the first mutation of the map
		var rwCall *ast.CallExpr
		var muts []ast.Node
		var addCall *ast.CallExpr
		ast.Inspect(fs.Body(), func(n ast.Node) bool {
			switch x := n.(type) {
			case *ast.CallExpr:
				f := calleeOf(&CallSite{Call: x, In: fs})
				if fnIs(f, "token", "state", "rewrite") {
					rwCall = x
				}
				if fnIs(f, "token", "state", "add") {
					addCall = x
				}
				if isBuiltin(info, x, "delete") && len(x.Args) == 2 {
					if t := ff.term(x.Args[0]); t != nil && t.K == 'f' && t.Obj == types.Object(fTokens) {
						muts = append(muts, x)
					}
				}
			case *ast.AssignStmt:
				for _, l := range x.Lhs {
					if ix, ok := unparen(l).(*ast.IndexExpr); ok {
						if t := ff.term(ix.X); t != nil && t.K == 'f' && t.Obj == types.Object(fTokens) {
							muts = append(muts, x)
						}
					}
				}
			}
			return true
		})
		if rwCall == nil || len(muts) == 0 {
			c.Bad("R16.2", fs.Name+": mutation and rewrite", fs.Pos(), "no map mutation or no rewrite call")
			continue
		}
		// the mutation that precedes the rewrite (the rollback comes after it)
		var first ast.Node
		for _, m := range muts {
			if ff.ReachableFrom(m, rwCall) {
				first = m
			}
		}
		if first == nil {
			c.Bad("R16.2", fs.Name+": mutation before rewrite", fs.Pos(), "the map is not modified before the rewrite")
			continue
		}
		for _, site := range []struct {
			n    ast.Node
			what string
		}{{first, "map mutation"}, {rwCall, "rewrite"}} {
			st, _ := ff.At(site.n)
			ok := st != nil && st.HasFact(cmp) && hasLoad(st)
			c.Check(ok, "R16.2", fs.Name+": "+site.what+" under the tag comparison", site.n.Pos(),
				"dominated by etag == state.etag() evaluated after state.load() in this critical section",
				"the "+site.what+" is reachable without etag == state.etag() (after a load in this call): concurrent editors silently overwrite each other")
		}
		if addCall != nil {
			st, _ := ff.At(addCall)
			ok := st != nil && st.HasFact(mkFact(true, "eq", TStr(""), TVar(etagParam))) && hasLoad(st)
			c.Check(ok, "R16.2", fs.Name+": creation only without a tag", addCall.Pos(), "state.add is dominated by etag == \"\" after load()", "a token can be created although the caller expected an existing version")
		}
		// ---- R16.3 rollback ----
		// the entry as it was: a local read from state.tokens[key] before the mutation
		saved := map[types.Object]string{}
		ast.Inspect(fs.Body(), func(n ast.Node) bool {
			as, ok := n.(*ast.AssignStmt)
			if !ok || len(as.Rhs) != 1 || len(as.Lhs) == 0 || len(as.Lhs) > 2 {
				return true
			}
			ix, ok := unparen(as.Rhs[0]).(*ast.IndexExpr)
			if !ok {
				return true
			}
			if t := ff.term(ix.X); t == nil || t.K != 'f' || t.Obj != types.Object(fTokens) {
				return true
			}
			id, ok := as.Lhs[0].(*ast.Ident)
			if !ok || id.Name == "_" {
				return true
			}
			if kt := ff.term(ix.Index); kt != nil && ff.DominatedByNode(first, as) {
				saved[fs.Pkg.TypesInfo.ObjectOf(id)] = kt.String()
			}
			return true
		})
		var bad []string
		nerr := 0
		for _, ex := range ff.Exits() {
			if ex.Ret == nil || ex.St == nil {
				continue
			}
			// error returns after a failed rewrite
			rres := &Term{K: 'r', Name: "res0", Pos: rwCall.Lparen}
			if !ex.St.HasFact(mkFact(false, "eq", TNil(), rres)) {
				continue
			}
			nerr++
			restored := false
			for _, f := range ex.St.Facts() {
				if f.Op == "eq" && f.Pos && f.B != nil {
					for _, pr := range [][2]*Term{{f.A, f.B}, {f.B, f.A}} {
						if pr[0].K == 'i' && pr[0].Args[0].K == 'f' && pr[0].Args[0].Obj == types.Object(fTokens) && pr[1].K == 'v' && saved[pr[1].Obj] != "" && saved[pr[1].Obj] == pr[0].Args[1].String() {
							restored = true
						}
					}
				}
			}
			if !restored {
				bad = append(bad, p.PosStr(ex.Pos))
			}
		}
		c.Check(nerr > 0 && len(bad) == 0, "R16.3", fs.Name+": rollback when the rewrite fails", rwCall.Pos(),
			"every return after a failed rewrite() has restored state.tokens[key] = old", "the in-memory set keeps a change that was not written (returns at "+strings.Join(bad, ", ")+"): the honoured tokens differ from the file")
	}

	// ---- R16.4 ----
	checkAtomicReplace(c, "R16.4", "state.rewrite", rew, false)
	{
		info := addf.Pkg.TypesInfo
		nEnc, okAppend, nOpen := 0, false, 0
		ast.Inspect(addf.Body(), func(n ast.Node) bool {
			call, ok := n.(*ast.CallExpr)
			if !ok {
				return true
			}
			f := calleeOf(&CallSite{Call: call, In: addf})
			if f == nil || f.Pkg() == nil {
				return true
			}
			if f.Name() == "Encode" && f.Pkg().Path() == "encoding/json" {
				nEnc++
			}
			if f.Name() == "OpenFile" && f.Pkg().Path() == "os" && len(call.Args) == 3 {
				nOpen++
				flags := types.ExprString(call.Args[1])
				okAppend = strings.Contains(flags, "O_APPEND") && !strings.Contains(flags, "O_TRUNC")
			}
			return true
		})
		_ = info
		c.Check(nEnc == 1 && nOpen == 1 && okAppend, "R16.4", "state.add appends one record", addf.Pos(),
			"one OpenFile with O_APPEND (no O_TRUNC) and exactly one Encode", fmt.Sprintf("add no longer appends exactly one record (OpenFile=%d append=%v Encode=%d): existing tokens can be truncated or a partial set written", nOpen, okAppend, nEnc))
	}
	// who may write
	pk := p.Pkg("token")
	allowed := map[string]map[string]bool{
		"Rename": {"token.(*state).rewrite": true}, "CreateTemp": {"token.(*state).rewrite": true},
		"Remove": {"token.(*state).rewrite": true}, "OpenFile": {"token.(*state).add": true}, "MkdirAll": {"token.(*state).add": true},
	}
	writers := map[string]bool{"Create": true, "WriteFile": true, "OpenFile": true, "Truncate": true, "Rename": true, "CreateTemp": true, "Remove": true, "RemoveAll": true, "MkdirAll": true}
	var bad []string
	n := 0
	for _, fs := range p.Sources() {
		if fs.Pkg != pk {
			continue
		}
		ast.Inspect(fs.Body(), func(nd ast.Node) bool {
			call, ok := nd.(*ast.CallExpr)
			if !ok {
				return true
			}
			f := calleeOf(&CallSite{Call: call, In: fs})
			if f == nil || f.Pkg() == nil || f.Pkg().Path() != "os" || !writers[f.Name()] {
				return true
			}
			n++
			if !allowed[f.Name()][fs.Root().Name] {
				bad = append(bad, fmt.Sprintf("os.%s in %s", f.Name(), fs.Name))
			}
			return true
		})
	}
	c.Check(len(bad) == 0 && n > 0, "R16.4", "only rewrite and add write the token file", pk.Syntax[0].Pos(),
		fmt.Sprintf("%d file-modifying os calls in package token, all in rewrite/add", n), "other writers: "+strings.Join(bad, "; "))

	// ---- R16.5 ----
	condHandlers(c, "R16.5", func(name string) bool { return strings.HasPrefix(name, "token.") }, false)

	// ---- R16.6 ----
	// What token.Get returns is the store's own in-memory object.  Outside
	// package token it may be read, but an edit must be made on a copy that
	// only becomes current through Update (compare, write, roll back).
	stn := p.TypeName("token", "Stateful")
	tpk := p.Pkg("token")
	if stn == nil || tpk == nil {
		c.Unknown("R16.6", "anchors", 0, "token.Stateful not found")
		return
	}
	eng = p.Facts()
	k6 := newKeyer()
	nget := 0
	for _, fs := range p.Sources() {
		if fs.Pkg == tpk || fs.Lit != nil {
			continue
		}
		info := fs.Pkg.TypesInfo
		var gets []*ast.CallExpr
		ast.Inspect(fs.Body(), func(n ast.Node) bool {
			if call, ok := n.(*ast.CallExpr); ok && fnIs(calleeOf(&CallSite{Call: call, In: fs}), "token", "", "Get") {
				gets = append(gets, call)
			}
			return true
		})
		if len(gets) == 0 {
			continue
		}
		ff := eng.Analyze(fs)
		isStored := func(at ast.Node, e ast.Expr) bool {
			for _, g := range gets {
				if argIsResult(ff, at, e, g, 0) {
					return true
				}
			}
			return false
		}
		for _, g := range gets {
			nget++
			bad := ""
			ast.Inspect(fs.Body(), func(n ast.Node) bool {
				switch x := n.(type) {
				case *ast.AssignStmt:
					for _, l := range x.Lhs {
						sel, ok := unparen(l).(*ast.SelectorExpr)
						if !ok || !isPtrTo(info.TypeOf(sel.X), stn) {
							continue
						}
						if argIsResult(ff, x, sel.X, g, 0) {
							bad = p.PosStr(x.Pos()) + " (field store through the stored token)"
						}
					}
				case *ast.CallExpr:
					if fnIs(calleeOf(&CallSite{Call: x, In: fs}), "token", "", "Update") && len(x.Args) == 2 && isStored(x, x.Args[0]) && argIsResult(ff, x, x.Args[0], g, 0) {
						bad = p.PosStr(x.Pos()) + " (the stored object itself is handed to Update)"
					}
				}
				return true
			})
			c.Check(bad == "", "R16.6", k6.key("token.Get in", fs.Name), g.Pos(), "the object returned by the store is only read; edits go to a clone", "the store's in-memory token is edited in place at "+bad+": an edit that fails or loses the tag comparison still takes effect in memory, and the next rewrite makes it durable")
		}
	}
	if nget < 3 {
		c.Bad("R16.6", "token.Get sites", 0, "only %d callers of token.Get found", nget)
	}
}

// R16.7: Update/Delete compare the caller's tag with state.etag().  That
// comparison tells versions apart only if etag() is a function of the version
// the state mirrors (fileSize, modTime).  Anything else etag() reads or writes
// (a cached tag) must be stored again on every path after each store to
// fileSize or modTime, in whatever function that store sits.
func runC16Tag(c *Ctx) {
	p := c.P
	et := p.Func("token", "state", "etag")
	fSize, fTime := p.Field("token", "state", "fileSize"), p.Field("token", "state", "modTime")
	if et == nil || fSize == nil || fTime == nil {
		c.Unknown("R16.7", "anchors", 0, "state.etag / fileSize / modTime not found")
		return
	}
	info := et.Pkg.TypesInfo
	version := map[types.Object]bool{fSize: true, fTime: true}
	readsV := map[types.Object]bool{}
	other := map[types.Object]bool{} // fields of state and package-level variables etag() touches besides the version
	ast.Inspect(et.Body(), func(n ast.Node) bool {
		switch x := n.(type) {
		case *ast.SelectorExpr:
			if sel := info.Selections[x]; sel != nil && sel.Kind() == types.FieldVal {
				if fv, ok := sel.Obj().(*types.Var); ok {
					o := types.Object(fv.Origin())
					if version[o] {
						readsV[o] = true
					} else if named, ok := derefType(sel.Recv()).(*types.Named); ok && named.Obj().Name() == "state" && named.Obj().Pkg() == et.Pkg.Types {
						other[o] = true
					}
				}
			}
		case *ast.Ident:
			if v, ok := info.Uses[x].(*types.Var); ok && !v.IsField() && v.Parent() == et.Pkg.Types.Scope() {
				other[v] = true
			}
		}
		return true
	})
	if len(readsV) != 2 {
		c.Bad("R16.7", "etag() derives the tag from fileSize and modTime", et.Pos(), "etag() does not read both the mirrored size and the mirrored modification time: successive versions are not told apart")
		return
	}
	if len(other) == 0 {
		c.OK("R16.7", "etag() derives the tag from fileSize and modTime", et.Pos(), "reads nothing else, stores nothing")
		return
	}
	// every store to a version field is followed, on every path, by a store to each other input
	isStoreTo := func(fs *FuncSrc, n ast.Node, objs map[types.Object]bool) types.Object {
		var hit types.Object
		ast.Inspect(n, func(m ast.Node) bool {
			if _, isLit := m.(*ast.FuncLit); isLit {
				return false
			}
			var lhs []ast.Expr
			switch x := m.(type) {
			case *ast.AssignStmt:
				lhs = x.Lhs
			case *ast.IncDecStmt:
				lhs = []ast.Expr{x.X}
			}
			for _, l := range lhs {
				switch y := unparen(l).(type) {
				case *ast.SelectorExpr:
					if sel := fs.Pkg.TypesInfo.Selections[y]; sel != nil {
						if fv, ok := sel.Obj().(*types.Var); ok && objs[fv.Origin()] {
							hit = fv.Origin()
						}
					}
				case *ast.Ident:
					if o := fs.Pkg.TypesInfo.ObjectOf(y); o != nil && objs[o] {
						hit = o
					}
				}
			}
			return true
		})
		return hit
	}
	ok := true
	var where token.Pos
	what := ""
	n := 0
	for _, fs := range p.Sources() {
		if fs.Pkg != et.Pkg || fs == et {
			continue
		}
		ff := p.Facts().Analyze(fs)
		var stores []ast.Node
		ast.Inspect(fs.Body(), func(m ast.Node) bool {
			if fl, isLit := m.(*ast.FuncLit); isLit && m != ast.Node(fs.Lit) && fl != nil {
				return false
			}
			if as, isAs := m.(*ast.AssignStmt); isAs && isStoreTo(fs, as, version) != nil {
				stores = append(stores, as)
			}
			return true
		})
		for _, st := range stores {
			n++
			for o := range other {
				one := map[types.Object]bool{o: true}
				if isStoreTo(fs, st, one) != nil {
					continue
				}
				if _, found := ff.PathSearch(st, 0, func(nd ast.Node, _ *State, flag int) (int, bool) {
					return flag, isStoreTo(fs, nd, one) != nil
				}, nil, func(int) bool { return true }); found {
					ok, where, what = false, st.Pos(), o.Name()
				}
			}
		}
	}
	var names []string
	for o := range other {
		names = append(names, o.Name())
	}
	sort.Strings(names)
	pos := et.Pos()
	if where.IsValid() {
		pos = where
	}
	c.Check(ok && n > 0, "R16.7", "etag() derives the tag from fileSize and modTime", pos, fmt.Sprintf("etag() also uses %v; each of the %d stores to the version is followed by a store to them on every path", names, n),
		fmt.Sprintf("etag() also depends on %s, which is not stored again after this change of the mirrored version: the tag compared by Update/Delete can be the tag of an older version, so a stale editor is not refused", what))
}

func derefType(t types.Type) types.Type {
	if pt, ok := t.(*types.Pointer); ok {
		return pt.Elem()
	}
	return t
}

// R16.8: add() appends one line to the file on the assumption that memory
// mirrors it after load().  load() must therefore fail closed on anything but a
// clean end of file: after a Decode that returned an error other than io.EOF,
// every path resets the state (and no path goes on decoding or returns the
// entries read so far as the file's contents).
func runC16LoadStrict(c *Ctx) {
	p := c.P
	ld := p.Func("token", "state", "load")
	if ld == nil {
		c.Unknown("R16.8", "anchors", 0, "token.(*state).load not found")
		return
	}
	info := ld.Pkg.TypesInfo
	ff := p.Facts().Analyze(ld)
	var dec *ast.CallExpr
	var decStmt ast.Node
	ast.Inspect(ld.Body(), func(n ast.Node) bool {
		if as, ok := n.(*ast.AssignStmt); ok && len(as.Rhs) == 1 {
			if call, ok := unparen(as.Rhs[0]).(*ast.CallExpr); ok {
				if f := calleeOf(&CallSite{Call: call, In: ld}); f != nil && f.Name() == "Decode" && f.Pkg() != nil && f.Pkg().Path() == "encoding/json" {
					dec, decStmt = call, as
				}
			}
		}
		return true
	})
	if dec == nil {
		c.Bad("R16.8", "load fails closed on a damaged file", ld.Pos(), "no `err := decoder.Decode(...)` statement found in load")
		return
	}
	r := &Term{K: 'r', Name: "res0", Pos: dec.Lparen}
	outcome := func(st *State) string {
		if st == nil {
			return ""
		}
		inClass := func(t *Term) bool { return t.String() == r.String() || st.EqualUnder(t, r) }
		for _, f := range st.Facts() {
			if f.A == nil {
				continue
			}
			if f.Op == "eq" && f.Pos && f.B != nil {
				for _, pr := range [][2]*Term{{f.A, f.B}, {f.B, f.A}} {
					if !inClass(pr[0]) {
						continue
					}
					if pr[1].K == 'n' {
						return "nil"
					}
					if pr[1].K == 'v' && pr[1].Obj != nil && pr[1].Obj.Name() == "EOF" && pr[1].Obj.Pkg() != nil && pr[1].Obj.Pkg().Path() == "io" {
						return "eof"
					}
				}
			}
			if f.Op == "true" && f.Pos && f.A.K == 'k' && strings.HasSuffix(f.A.Name, "errors.Is") && len(f.A.Args) == 2 && inClass(f.A.Args[0]) {
				if a := f.A.Args[1]; a.K == 'v' && a.Obj != nil && a.Obj.Name() == "EOF" && a.Obj.Pkg() != nil && a.Obj.Pkg().Path() == "io" {
					return "eof"
				}
			}
		}
		return ""
	}
	resets := func(n ast.Node) bool {
		hit := false
		ast.Inspect(n, func(m ast.Node) bool {
			if call, ok := m.(*ast.CallExpr); ok && fnIs(calleeOf(&CallSite{Call: call, In: ld}), "token", "state", "reset") {
				hit = true
			}
			return true
		})
		return hit
	}
	guardFlags := map[types.Object]bool{}
	ast.Inspect(ld.Body(), func(n ast.Node) bool {
		ds, ok := n.(*ast.DeferStmt)
		if !ok {
			return true
		}
		fl, ok := ds.Call.Fun.(*ast.FuncLit)
		if !ok {
			return true
		}
		for _, s := range fl.Body.List {
			ifs, ok := s.(*ast.IfStmt)
			if !ok || ifs.Init != nil || !resets(ifs.Body) {
				continue
			}
			if u, ok := unparen(ifs.Cond).(*ast.UnaryExpr); ok && u.Op == token.NOT {
				if id, ok := unparen(u.X).(*ast.Ident); ok {
					if v, ok := info.Uses[id].(*types.Var); ok && !v.IsField() {
						guardFlags[v] = true
					}
				}
			}
		}
		return true
	})
	again := token.NoPos
	pos, found := ff.PathSearchPSX(decStmt, 1, func(n ast.Node, st *State, flag int) (int, bool) {
		if flag == 1 {
			switch outcome(st) {
			case "nil":
				flag = 0
			case "eof":
				flag = 2
			}
		}
		if flag == 1 && resets(n) {
			flag = 3
		}
		if n == decStmt {
			if flag == 1 {
				again = n.Pos()
			}
			return flag, true // the next iteration starts afresh
		}
		return flag, false
	}, nil, func(flag int, st *State) bool {
		if flag != 1 {
			return false
		}
		// a deferred `if !valid { state.reset() }` resets on every exit that leaves valid false
		for v := range guardFlags {
			if st != nil && st.HasFact(mkFact(false, "true", TVar(v), nil)) {
				return false
			}
		}
		return true
	})
	_ = info
	if again.IsValid() {
		found, pos = true, again
	}
	at := dec.Pos()
	if found && pos.IsValid() {
		at = pos
	}
	c.Check(!found, "R16.8", "load fails closed on a damaged file", at, "after a Decode error other than io.EOF every path calls state.reset()",
		"load() can carry on (or return the entries read so far as the contents of the file) after a Decode error that is not io.EOF: the next creation appends its line to the damaged tail, the running server honours a token that a restarted server cannot read")
}
