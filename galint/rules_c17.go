package main

import (
	"fmt"
	"go/ast"
	"go/token"
	"go/types"
	"sort"
	"strings"
)

func init() {
	register(&Property{
		ID:        "C17",
		Title:     "The admin API acts only for administrators and never reveals secrets",
		Technique: "CFG path search with conjunction refutation over authentication events (site-result facts), must-facts for the sanitisers and carry-over, type-derived secret-field sets",
		Decides: "R17.1: in every handler reachable from apiHandler no call into the group/token/stats packages, no JSON response and no etag/location disclosure can execute on a path on which no authentication check for the addressed group (checkAdmin, or - only for a non-wildcard user's password - checkAdminOrExplicitPassword for that user) has returned true. " +
			"R17.2: isAdminOrExplicitPassword returns true only after a matching server-admin password, a valid global admin token (root only), a matching explicit password of the named user, or credentials carrying the 'admin' permission for the group. " +
			"R17.3: the sanitisers clear every secret field (derived from the types: fields containing group.Password, plus the token-verification keys) on the copy they return. " +
			"R17.4: every JSON response whose static type can contain a secret field is a sanitiser's result. " +
			"R17.5: updates through the API carry the stored users, wildcard user, keys and passwords over from the definition read under the same lock, and refuse input in which they are set.",
		NotDecided: []string{
			"the HTTP status matrix beyond 'no sink before authentication' (401 vs 404 ordering)",
			"the CheckOrigin policy and timing side channels",
		},
		Run: runC17,
	})
}

type c17env struct {
	c   *Ctx
	p   *Program
	eng *FactEngine
	upg map[*types.Var]bool
}

func runC17(c *Ctx) {
	e := &c17env{c: c, p: c.P, eng: c.P.Facts()}
	c.Rule("R17.1", "E3", "every effect or disclosure of an API handler is unreachable while unauthenticated for the addressed group", 35)
	c.Rule("R17.2", "E2", "isAdminOrExplicitPassword returns true only for the four recognised credentials", 4)
	c.Rule("R17.3", "E2", "sanitisers clear every secret field of the copy they return", 4)
	c.Rule("R17.4", "E4", "JSON responses that can hold secrets are sanitiser results", 2)
	c.Rule("R17.5", "E2/E4", "API updates carry secrets over and refuse them in the input", 7)
	e.auth()
	e.isAdmin()
	e.sanitisers()
	e.responses()
	e.carryOver()
}

// handlers returns the functions of package webserver statically reachable
// from apiHandler that take (http.ResponseWriter, *http.Request, ...).
func (e *c17env) handlers() []*FuncSrc {
	root := e.p.Func("webserver", "", "apiHandler")
	if root == nil {
		return nil
	}
	seen := map[*FuncSrc]bool{root: true}
	work := []*FuncSrc{root}
	var out []*FuncSrc
	isHandler := func(fs *FuncSrc) bool {
		ps := fs.params(fs.Pkg.TypesInfo)
		if len(ps) < 2 || ps[0] == nil || ps[1] == nil {
			return false
		}
		return strings.HasSuffix(ps[0].Type().String(), "http.ResponseWriter") && strings.HasSuffix(ps[1].Type().String(), "http.Request")
	}
	for len(work) > 0 {
		fs := work[len(work)-1]
		work = work[:len(work)-1]
		out = append(out, fs)
		ast.Inspect(fs.Body(), func(n ast.Node) bool {
			call, ok := n.(*ast.CallExpr)
			if !ok {
				return true
			}
			f := calleeOf(&CallSite{Call: call, In: fs})
			if f == nil || f.Pkg() == nil || f.Pkg().Path() != modPath+"/webserver" {
				return true
			}
			src := e.p.SrcOfFunc(f)
			if src == nil || seen[src] || !isHandler(src) {
				return true
			}
			switch f.Name() {
			case "checkAdmin", "checkAdminOrExplicitPassword", "sendJSON", "getJSON", "getText", "apiCORS", "checkPreconditions", "httpError", "methodNotAllowed", "notFound", "failAuthentication", "CheckOrigin":
				return true
			}
			seen[src] = true
			work = append(work, src)
			return true
		})
	}
	sort.Slice(out, func(i, j int) bool { return out[i].Pos() < out[j].Pos() })
	return out
}

func (e *c17env) auth() {
	c, p := e.c, e.p
	hs := e.handlers()
	if len(hs) < 6 {
		c.Unknown("R17.1", "handlers", 0, "fewer than 6 API handlers found from apiHandler")
	}
	for _, fs := range hs {
		info := fs.Pkg.TypesInfo
		ff := e.eng.Analyze(fs)
		type authSite struct {
			call     *ast.CallExpr
			group    *Term
			explicit bool
			user     *Term
		}
		var sites []authSite
		ast.Inspect(fs.Body(), func(n ast.Node) bool {
			call, ok := n.(*ast.CallExpr)
			if !ok {
				return true
			}
			f := calleeOf(&CallSite{Call: call, In: fs})
			switch {
			case fnIs(f, "webserver", "", "checkAdmin") && len(call.Args) == 3:
				sites = append(sites, authSite{call: call, group: ff.term(call.Args[2])})
			case fnIs(f, "webserver", "", "checkAdminOrExplicitPassword") && len(call.Args) == 4:
				sites = append(sites, authSite{call: call, group: ff.term(call.Args[2]), explicit: true, user: ff.term(call.Args[3])})
			}
			return true
		})
		// every explicit-password site is for a non-wildcard user
		for _, s := range sites {
			if !s.explicit {
				continue
			}
			st, _ := ff.At(s.call)
			okNW := false
			if st != nil {
				for _, f := range st.Facts() {
					if f.Op == "true" && !f.Pos && f.A.K == 'v' && f.A.Obj.Name() == "wildcard" {
						okNW = true
					}
				}
			}
			c.Check(okNW, "R17.1", "explicit-password authentication only for a named user in "+fs.Name, s.call.Pos(),
				"checkAdminOrExplicitPassword is reached only with wildcard == false", "a user's own password can authorise changing the wildcard user's password")
		}
		k := newKeyer()
		ast.Inspect(fs.Body(), func(n ast.Node) bool {
			call, ok := n.(*ast.CallExpr)
			if !ok {
				return true
			}
			f := calleeOf(&CallSite{Call: call, In: fs})
			if f == nil || f.Pkg() == nil {
				return true
			}
			var want *Term // group term the sink acts on (nil: any authentication will do)
			var wantUser *Term
			name := ""
			sig, _ := f.Type().(*types.Signature)
			switch pp := f.Pkg().Path(); {
			case pp == modPath+"/group" && sig.Recv() == nil:
				name = "group." + f.Name()
				if f.Name() == "GetDescriptionNames" {
					want = TStr("")
				} else if len(call.Args) > 0 {
					want = ff.term(call.Args[0])
				}
				if f.Name() == "SetUserPassword" && len(call.Args) > 1 {
					wantUser = ff.term(call.Args[1])
				}
			case pp == modPath+"/stats" && sig.Recv() == nil:
				name = "stats." + f.Name()
				want = TStr("")
			case pp == modPath+"/token" && sig.Recv() == nil:
				name = "token." + f.Name()
				if f.Name() == "List" && len(call.Args) > 0 {
					want = ff.term(call.Args[0])
				}
			case fnIs(f, "webserver", "", "sendJSON"):
				name = "sendJSON"
			case f.Name() == "Set" && strings.HasSuffix(f.Pkg().Path(), "net/http") && len(call.Args) == 2:
				if s, ok := constString(info, call.Args[0]); ok && (strings.EqualFold(s, "etag") || strings.EqualFold(s, "location")) {
					name = "header " + strings.ToLower(s)
				}
			case f.Name() == "WriteHeader" && strings.HasSuffix(f.Pkg().Path(), "net/http"):
				name = "WriteHeader"
			}
			if name == "" {
				return true
			}
			key := k.key(name, "in", fs.Name)
			var atoms []*Fact
			var used []string
			for _, s := range sites {
				if want != nil && (s.group == nil || s.group.String() != want.String()) {
					continue
				}
				if s.explicit && want != nil {
					// the explicit password authorises only this user's password change
					if f.Name() != "SetUserPassword" || wantUser == nil || s.user == nil || s.user.String() != wantUser.String() {
						continue
					}
				}
				atoms = append(atoms, mkFact(false, "true", &Term{K: 'r', Name: "res0", Pos: s.call.Lparen}, nil))
				used = append(used, p.PosStr(s.call.Pos()))
			}
			// a boolean local that only ever holds the result of one of these checks
			// (or false) stands for "the check succeeded" where it is tested
			if len(atoms) > 0 {
				okSite := map[token.Pos]bool{}
				for _, a := range atoms {
					okSite[a.A.Pos] = true
				}
				type flagInfo struct{ n, good int }
				flags := map[types.Object]*flagInfo{}
				note := func(l ast.Expr, r ast.Expr) {
					id, isId := unparen(l).(*ast.Ident)
					if !isId {
						return
					}
					o := info.ObjectOf(id)
					if o == nil || !types.Identical(o.Type(), types.Typ[types.Bool]) {
						return
					}
					fi := flags[o]
					if fi == nil {
						fi = &flagInfo{}
						flags[o] = fi
					}
					fi.n++
					if r == nil {
						fi.good++ // zero value
						return
					}
					if tv := info.Types[r]; tv.Value != nil && tv.Value.String() == "false" {
						fi.good++
						return
					}
					if rc, isCall := unparen(r).(*ast.CallExpr); isCall && okSite[rc.Lparen] {
						fi.good++
					}
				}
				ast.Inspect(fs.Body(), func(m ast.Node) bool {
					switch x := m.(type) {
					case *ast.AssignStmt:
						for i, l := range x.Lhs {
							if len(x.Rhs) == len(x.Lhs) {
								note(l, x.Rhs[i])
							} else {
								note(l, x.Rhs[0]) // result of a multi-value expression: not a check
							}
						}
					case *ast.ValueSpec:
						for i, nm := range x.Names {
							if len(x.Values) == len(x.Names) {
								note(nm, x.Values[i])
							} else if len(x.Values) == 0 {
								note(nm, nil)
							} else {
								note(nm, x.Values[0])
							}
						}
					case *ast.UnaryExpr:
						if x.Op == token.AND {
							if id, isId := unparen(x.X).(*ast.Ident); isId {
								if fi := flags[info.ObjectOf(id)]; fi != nil {
									fi.n += 1000
								}
							}
						}
					}
					return true
				})
				for o, fi := range flags {
					if fi.n == fi.good && fi.n > 0 {
						atoms = append(atoms, mkFact(false, "true", TVar(o), nil))
					}
				}
			}
			if len(atoms) == 0 {
				c.Bad("R17.1", key, call.Pos(), "no authentication check for the group this call acts on (%s) exists in %s", termStr(want), fs.Name)
				return true
			}
			reach, path := ff.ReachableNotRefuting(call, factsConj(atoms...))
			if reach {
				c.Bad("R17.1", key, call.Pos(), "reachable without a successful authentication check for %s (path: %s)", termStr(want), strings.Join(path, " "))
			} else {
				c.OK("R17.1", key, call.Pos(), "every path passes a successful check at %s", strings.Join(used, ", "))
			}
			return true
		})
		// token sinks act on the addressed group
		if fs.Name == "webserver.tokensHandler" {
			e.tokenGroup(fs)
		}
	}
}

func termStr(t *Term) string {
	if t == nil {
		return "(any group)"
	}
	return pretty(t.String())
}

// tokenGroup: in tokensHandler, tokens written carry Group == g, tokens
// deleted or disclosed were checked to belong to g.
func (e *c17env) tokenGroup(fs *FuncSrc) {
	c, p := e.c, e.p
	ff := e.eng.Analyze(fs)
	info := fs.Pkg.TypesInfo
	fGroup := p.Field("token", "Stateful", "Group")
	gobj := fs.localVar("g")
	if fGroup == nil || gobj == nil {
		c.Unknown("R17.1", "tokensHandler: anchors", fs.Pos(), "Stateful.Group or parameter g not found")
		return
	}
	gT := TVar(gobj)
	k := newKeyer()
	ast.Inspect(fs.Body(), func(n ast.Node) bool {
		call, ok := n.(*ast.CallExpr)
		if !ok {
			return true
		}
		f := calleeOf(&CallSite{Call: call, In: fs})
		st, _ := ff.At(call)
		if st == nil {
			return true
		}
		hasGroupEq := func(pred func(x *Term) bool) bool {
			for _, fa := range st.Facts() {
				if fa.Op != "eq" || !fa.Pos || fa.B == nil {
					continue
				}
				for _, pr := range [][2]*Term{{fa.A, fa.B}, {fa.B, fa.A}} {
					if pr[0].String() == gT.String() && pr[1].K == 'f' && pr[1].Obj == types.Object(fGroup) && pred(pr[1].Args[0]) {
						return true
					}
				}
			}
			return false
		}
		switch {
		case fnIs(f, "token", "", "Update") && len(call.Args) == 2:
			// argument &newtoken with newtoken.Group == g
			arg := unparen(call.Args[0])
			if u, ok := arg.(*ast.UnaryExpr); ok {
				arg = u.X
			}
			at := ff.term(arg)
			ok := at != nil && hasGroupEq(func(x *Term) bool { return x.String() == at.String() })
			c.Check(ok, "R17.1", k.key("tokensHandler: written token belongs to the addressed group"), call.Pos(), "newtoken.Group == g at the call", "a token can be created or replaced in a group other than the authenticated one")
		case fnIs(f, "token", "", "Delete") && len(call.Args) == 2:
			ok := hasGroupEq(func(x *Term) bool { return e.isGetResult(fs, ff, st, x, call.Args[0]) })
			c.Check(ok, "R17.1", k.key("tokensHandler: deleted token belongs to the addressed group"), call.Pos(), "old.Group == g for old = token.Get(t) with the same t", "a token of another group can be deleted")
		case fnIs(f, "webserver", "", "sendJSON") && len(call.Args) == 3:
			if nn, ok := info.TypeOf(call.Args[2]).(*types.Pointer); ok && strings.HasSuffix(nn.Elem().String(), "token.Stateful") {
				ok := hasGroupEq(func(x *Term) bool { return true })
				if !ok {
					// tok := old.Clone() with old.Group == g at the clone
					if id, isId := unparen(call.Args[2]).(*ast.Ident); isId {
						obj := info.ObjectOf(id)
						ast.Inspect(fs.Body(), func(m ast.Node) bool {
							as, isAs := m.(*ast.AssignStmt)
							if !isAs || len(as.Lhs) != 1 || len(as.Rhs) != 1 {
								return true
							}
							if lid, isL := as.Lhs[0].(*ast.Ident); !isL || info.ObjectOf(lid) != obj {
								return true
							}
							cl, isCall := unparen(as.Rhs[0]).(*ast.CallExpr)
							if !isCall || !fnIs(calleeOf(&CallSite{Call: cl, In: fs}), "token", "Stateful", "Clone") {
								return true
							}
							st2, _ := ff.At(cl)
							src := ff.term(recvExpr(cl))
							if st2 != nil && src != nil && st2.HasFact(mkFact(true, "eq", gT, TField(src, fGroup))) {
								ok = true
							}
							return true
						})
					}
				}
				c.Check(ok, "R17.1", k.key("tokensHandler: disclosed token belongs to the addressed group"), call.Pos(), "old.Group == g dominates the response", "a token of another group can be read")
			}
		}
		return true
	})
}

// isGetResult: term x is the variable holding result #0 of token.Get(arg).
func (e *c17env) isGetResult(fs *FuncSrc, ff *FuncFacts, st *State, x *Term, arg ast.Expr) bool {
	want := ff.term(arg)
	for _, fa := range st.Facts() {
		if fa.Op != "eq" || !fa.Pos || fa.B == nil {
			continue
		}
		for _, pr := range [][2]*Term{{fa.A, fa.B}, {fa.B, fa.A}} {
			if pr[0].String() == x.String() && pr[1].K == 'r' && pr[1].Name == "res0" {
				if cs := e.p.callAt[pr[1].Pos]; cs != nil && fnIs(calleeOf(cs), "token", "", "Get") && len(cs.Call.Args) == 1 {
					if t := ff.term(cs.Call.Args[0]); t != nil && want != nil && t.String() == want.String() {
						return true
					}
				}
			}
		}
	}
	return false
}

// ---------- R17.2 ----------

func (e *c17env) isAdmin() {
	c, p := e.c, e.p
	fs := p.Func("webserver", "", "isAdminOrExplicitPassword")
	if fs == nil {
		c.Unknown("R17.2", "anchor isAdminOrExplicitPassword", 0, "not found")
		return
	}
	ff := e.eng.Analyze(fs)
	info := fs.Pkg.TypesInfo
	params := fs.params(info) // groupname, user, creds
	if len(params) != 3 {
		c.Unknown("R17.2", "signature", fs.Pos(), "unexpected parameters")
		return
	}
	gT, uT := TVar(params[0]), TVar(params[1])
	seen := map[string]bool{}
	k := newKeyer()
	for _, ret := range ff.Returns() {
		if len(ret.Results) != 1 {
			continue
		}
		tv := info.Types[ret.Results[0]]
		if tv.Value != nil && tv.Value.String() != "true" {
			continue
		}
		st, _ := ff.At(ret)
		if st == nil {
			continue
		}
		if tv.Value == nil {
			// `return E`: true is returned exactly when E holds
			st = ff.assume(st, ret.Results[0], true)
			if st == nil || contradictory(st) {
				continue
			}
		}
		// which success site dominates?
		kind := ""
		for _, f := range st.Facts() {
			if f.Op != "true" || !f.Pos || f.A.K != 'r' || f.A.Name != "res0" {
				continue
			}
			cs := p.callAt[f.A.Pos]
			if cs == nil {
				continue
			}
			cal := calleeOf(cs)
			errNil := st.HasFact(mkFact(true, "eq", TNil(), &Term{K: 'r', Name: "res1", Pos: f.A.Pos}))
			switch {
			case fnIs(cal, "webserver", "", "globalAdminMatch") && errNil:
				kind = "server administrator password"
			case fnIs(cal, "webserver", "", "checkGlobalAdminToken") && errNil && st.HasFact(mkFact(true, "eq", TStr(""), gT)):
				kind = "global admin token (root only)"
			case fnIs(cal, "group", "Password", "Match") && errNil && st.HasFact(mkFact(false, "eq", TStr(""), uT)):
				// the password record is desc.Users[user]
				okUser := false
				if sel, ok := unparen(cs.Call.Fun).(*ast.SelectorExpr); ok {
					if rt := ff.term(sel.X); rt != nil {
						for v := range st.variants(rt) {
							_ = v
						}
						// u.Password with u == desc.Users[user] (comma-ok lookup)
						base := rt
						for base.K == 'f' {
							base = base.Args[0]
						}
						for _, g := range st.Facts() {
							if g.Op == "eq" && g.Pos && g.B != nil {
								for _, pr := range [][2]*Term{{g.A, g.B}, {g.B, g.A}} {
									if pr[0].String() == base.String() && pr[1].K == 'r' {
										// result of the map lookup desc.Users[user]
										okUser = e.lookupOfUser(fs, ff, pr[1], uT)
									}
								}
							}
						}
					}
				}
				if okUser {
					kind = "explicit password of the named user"
				}
			}
		}
		for _, f := range st.Facts() {
			if f.Op == "true" && f.Pos && f.A.K == 'k' && f.A.Name == "slices.Contains" && len(f.A.Args) == 2 && f.A.Args[1].Name == `"admin"` {
				// perms from desc.GetPermission(groupname, creds) with nil error
				for _, g := range st.Facts() {
					if g.Op == "eq" && g.Pos && g.B != nil {
						for _, pr := range [][2]*Term{{g.A, g.B}, {g.B, g.A}} {
							if pr[0].String() == f.A.Args[0].String() && pr[1].K == 'r' && pr[1].Name == "res1" {
								cs := p.callAt[pr[1].Pos]
								if cs != nil && fnIs(calleeOf(cs), "group", "Description", "GetPermission") && len(cs.Call.Args) == 2 {
									if t := ff.term(cs.Call.Args[0]); t != nil && t.String() == gT.String() && st.HasFact(mkFact(true, "eq", TNil(), &Term{K: 'r', Name: "res2", Pos: pr[1].Pos})) {
										kind = "credentials with the admin permission for the group"
									}
								}
							}
						}
					}
				}
			}
		}
		if kind == "" {
			c.Bad("R17.2", k.key("return true"), ret.Pos(), "returns true without one of: admin password match, global admin token at the root, explicit password of the named user, 'admin' permission from GetPermission(groupname, creds)")
		} else {
			seen[kind] = true
			c.OK("R17.2", "accepts: "+kind, ret.Pos(), "return true dominated by the corresponding successful check")
		}
	}
	// checkAdmin never authorises through an explicit user password
	if ca := p.Func("webserver", "", "checkAdmin"); ca != nil {
		ok := false
		ast.Inspect(ca.Body(), func(n ast.Node) bool {
			if call, isCall := n.(*ast.CallExpr); isCall && fnIs(calleeOf(&CallSite{Call: call, In: ca}), "webserver", "", "isAdminOrExplicitPassword") && len(call.Args) == 3 {
				if s, isC := constString(ca.Pkg.TypesInfo, call.Args[1]); isC && s == "" {
					ok = true
				}
			}
			// or through a sibling that hands its own user parameter on unchanged:
			// checkAdminOrExplicitPassword(w, r, g, "")
			if call, isCall := n.(*ast.CallExpr); isCall {
				if via := p.SrcOfFunc(calleeOf(&CallSite{Call: call, In: ca})); via != nil && via.Decl != nil && via != ca && via.Pkg == ca.Pkg {
					vinfo := via.Pkg.TypesInfo
					vparams := via.params(vinfo)
					ast.Inspect(via.Body(), func(m ast.Node) bool {
						inner, isC := m.(*ast.CallExpr)
						if !isC || !fnIs(calleeOf(&CallSite{Call: inner, In: via}), "webserver", "", "isAdminOrExplicitPassword") || len(inner.Args) != 3 {
							return true
						}
						id, isId := unparen(inner.Args[1]).(*ast.Ident)
						if !isId {
							return true
						}
						for k, po := range vparams {
							if po != nil && vinfo.Uses[id] == po && k < len(call.Args) && !p.Facts().Analyze(via).assignedVars()[po] {
								if s, isCS := constString(ca.Pkg.TypesInfo, call.Args[k]); isCS && s == "" {
									ok = true
								}
							}
						}
						return true
					})
				}
			}
			return true
		})
		c.Check(ok, "R17.2", "checkAdmin names no user", ca.Pos(), "checkAdmin calls isAdminOrExplicitPassword with user \"\"", "checkAdmin can be satisfied by an ordinary user's password")
	}
}

// lookupOfUser: the result term comes from indexing a Users map with the user parameter.
func (e *c17env) lookupOfUser(fs *FuncSrc, ff *FuncFacts, res *Term, user *Term) bool {
	found := false
	ast.Inspect(fs.Body(), func(n ast.Node) bool {
		ix, ok := n.(*ast.IndexExpr)
		if !ok || ix.Pos() != res.Pos {
			return true
		}
		if sel, ok := unparen(ix.X).(*ast.SelectorExpr); ok && sel.Sel.Name == "Users" {
			if t := ff.term(ix.Index); t != nil && t.String() == user.String() {
				found = true
			}
		}
		return true
	})
	return found
}

// ---------- R17.3 ----------

// secretFields returns the fields of struct `owner` whose type can contain a
// group.Password, plus fields named AuthKeys.
func (e *c17env) secretFields(owner *types.TypeName) []*types.Var {
	pw := e.p.TypeName("group", "Password")
	st, ok := owner.Type().Underlying().(*types.Struct)
	if !ok || pw == nil {
		return nil
	}
	var out []*types.Var
	for i := 0; i < st.NumFields(); i++ {
		f := st.Field(i)
		if f.Name() == "AuthKeys" || typeContains(f.Type(), pw, map[types.Type]bool{}) {
			out = append(out, f)
		}
	}
	return out
}

func typeContains(t types.Type, target *types.TypeName, seen map[types.Type]bool) bool {
	if seen[t] {
		return false
	}
	seen[t] = true
	if n, ok := t.(*types.Named); ok && n.Obj() == target {
		return true
	}
	switch u := t.Underlying().(type) {
	case *types.Pointer:
		return typeContains(u.Elem(), target, seen)
	case *types.Slice:
		return typeContains(u.Elem(), target, seen)
	case *types.Array:
		return typeContains(u.Elem(), target, seen)
	case *types.Map:
		return typeContains(u.Key(), target, seen) || typeContains(u.Elem(), target, seen)
	case *types.Struct:
		for i := 0; i < u.NumFields(); i++ {
			if typeContains(u.Field(i).Type(), target, seen) {
				return true
			}
		}
	}
	return false
}

func (e *c17env) sanitisers() {
	c, p := e.c, e.p
	gsd := p.Func("group", "", "GetSanitisedDescription")
	gsu := p.Func("group", "", "GetSanitisedUser")
	dtn := p.TypeName("group", "Description")
	utn := p.TypeName("group", "UserDescription")
	if gsd == nil || gsu == nil || dtn == nil || utn == nil {
		c.Unknown("R17.3", "anchors", 0, "sanitisers or types not found")
		return
	}
	check := func(fs *FuncSrc, owner *types.TypeName, what string) {
		ff := e.eng.Analyze(fs)
		info := fs.Pkg.TypesInfo
		secrets := e.secretFields(owner)
		if len(secrets) == 0 {
			c.Unknown("R17.3", what+": secret fields", fs.Pos(), "no secret field derived from the types")
			return
		}
		for _, sf := range secrets {
			if e.upgradeCleared(sf) {
				c.OK("R17.3", what+" clears "+sf.Name(), fs.Pos(), "obsolete field: upgradeDescription stores nil in it on every path and readDescription always upgrades before returning a definition")
				continue
			}
			var bad []string
			n := 0
			for _, ret := range ff.Returns() {
				if len(ret.Results) != 3 || !isNilIdent(info, ret.Results[2]) {
					continue
				}
				n++
				// returned value: &desc or u
				rv := unparen(ret.Results[0])
				if u, ok := rv.(*ast.UnaryExpr); ok {
					rv = u.X
				}
				rt := ff.term(rv)
				st, _ := ff.At(ret)
				if rt == nil || st == nil {
					bad = append(bad, p.PosStr(ret.Pos()))
					continue
				}
				if _, isAddr := unparen(ret.Results[0]).(*ast.UnaryExpr); !isAddr {
					// a pointer variable: the object it was set to point to
					if pt := st.PointeeOf(rt); pt != nil {
						rt = pt
					}
				}
				ft := TField(rt, sf)
				cleared := st.HasFact(mkFact(true, "eq", ft, TNil()))
				for _, f := range st.Facts() {
					if f.Op == "eq" && f.Pos && f.B != nil {
						for _, pr := range [][2]*Term{{f.A, f.B}, {f.B, f.A}} {
							if pr[0].String() == ft.String() && pr[1].K == 'c' && strings.HasPrefix(pr[1].Name, "zero:") {
								cleared = true
							}
						}
					}
				}
				if !cleared {
					bad = append(bad, p.PosStr(ret.Pos()))
				}
			}
			c.Check(len(bad) == 0 && n > 0, "R17.3", what+" clears "+sf.Name(), fs.Pos(),
				fmt.Sprintf("%s is nil/zero on the returned copy at every successful return", sf.Name()),
				fmt.Sprintf("the secret field %s survives sanitisation (returns at %s)", sf.Name(), strings.Join(bad, ", ")))
		}
		// the returned value is a copy, not the cached description
		okCopy := false
		ast.Inspect(fs.Body(), func(n ast.Node) bool {
			if as, ok := n.(*ast.AssignStmt); ok && len(as.Rhs) == 1 {
				switch r := unparen(as.Rhs[0]).(type) {
				case *ast.StarExpr:
					okCopy = true
					_ = r
				case *ast.IndexExpr:
					okCopy = true
				}
			}
			return true
		})
		c.Check(okCopy, "R17.3", what+" works on a copy", fs.Pos(), "the sanitised value is a struct copy (the cached definition keeps its secrets)", "the sanitiser edits the shared definition in place")
	}
	check(gsd, dtn, "GetSanitisedDescription")
	check(gsu, utn, "GetSanitisedUser")
}

// upgradeCleared: field f of Description is nil at every return of
// upgradeDescription, and readDescription calls upgradeDescription before
// every successful return.
func (e *c17env) upgradeCleared(f *types.Var) bool {
	if v, ok := e.upg[f]; ok {
		return v
	}
	if e.upg == nil {
		e.upg = map[*types.Var]bool{}
	}
	res := false
	defer func() { e.upg[f] = res }()
	up := e.p.Func("group", "", "upgradeDescription")
	rd := e.p.Func("group", "", "readDescription")
	if up == nil || rd == nil {
		return false
	}
	e.eng.Event(up.Obj)
	ff := e.eng.Analyze(up)
	params := up.params(up.Pkg.TypesInfo)
	if len(params) != 1 {
		return false
	}
	dT := TVar(params[0])
	n := 0
	for _, ex := range ff.Exits() {
		n++
		if ex.St == nil || !ex.St.HasFact(mkFact(true, "eq", TField(dT, f), TNil())) {
			return false
		}
	}
	if n == 0 {
		return false
	}
	rff := e.eng.Analyze(rd)
	nret := 0
	for _, ex := range rff.Exits() {
		if ex.Ret == nil || len(ex.Ret.Results) != 2 || !isNilIdent(rd.Pkg.TypesInfo, ex.Ret.Results[1]) {
			continue
		}
		nret++
		called := false
		if ex.St != nil {
			for _, fa := range ex.St.Facts() {
				if fa.Op == "true" && fa.Pos && fa.A.K == 'o' && fa.A.Name == "called:group.upgradeDescription" {
					called = true
				}
			}
		}
		if !called {
			return false
		}
	}
	res = nret > 0
	return res
}

// ---------- R17.4 ----------

func (e *c17env) responses() {
	c, p := e.c, e.p
	pw := p.TypeName("group", "Password")
	pk := p.Pkg("webserver")
	if pw == nil || pk == nil {
		c.Unknown("R17.4", "anchors", 0, "group.Password / package webserver not found")
		return
	}
	k := newKeyer()
	n := 0
	for _, fs := range p.Sources() {
		if fs.Pkg != pk {
			continue
		}
		info := fs.Pkg.TypesInfo
		var ff *FuncFacts
		ast.Inspect(fs.Body(), func(nd ast.Node) bool {
			if lit, ok := nd.(*ast.FuncLit); ok && lit != fs.Lit {
				return false
			}
			call, ok := nd.(*ast.CallExpr)
			if !ok {
				return true
			}
			f := calleeOf(&CallSite{Call: call, In: fs})
			var arg ast.Expr
			switch {
			case fnIs(f, "webserver", "", "sendJSON") && len(call.Args) == 3:
				arg = call.Args[2]
			case f != nil && f.Name() == "Encode" && f.Pkg() != nil && f.Pkg().Path() == "encoding/json" && len(call.Args) == 1:
				arg = call.Args[0]
			case f != nil && (f.Name() == "Marshal" || f.Name() == "MarshalIndent") && f.Pkg() != nil && f.Pkg().Path() == "encoding/json" && len(call.Args) >= 1:
				arg = call.Args[0]
			default:
				return true
			}
			t := info.TypeOf(arg)
			if t == nil || types.IsInterface(t) {
				return true // sendJSON's own Encode(v any)
			}
			hasSecret := typeContains(t, pw, map[types.Type]bool{})
			if !hasSecret {
				// a field named AuthKeys
				hasSecret = strings.Contains(t.String(), "group.Description")
			}
			if !hasSecret {
				return true
			}
			n++
			if ff == nil {
				ff = e.eng.Analyze(fs)
			}
			st, _ := ff.At(call)
			ok2 := false
			if at := ff.term(arg); at != nil && st != nil {
				for _, fa := range st.Facts() {
					if fa.Op == "eq" && fa.Pos && fa.B != nil {
						for _, pr := range [][2]*Term{{fa.A, fa.B}, {fa.B, fa.A}} {
							if pr[0].String() == at.String() && pr[1].K == 'r' && pr[1].Name == "res0" {
								if cs := p.callAt[pr[1].Pos]; cs != nil {
									if cal := calleeOf(cs); cal != nil && strings.HasPrefix(cal.Name(), "GetSanitised") {
										ok2 = true
									}
								}
							}
						}
					}
				}
			}
			c.Check(ok2, "R17.4", k.key("response of type", types.TypeString(t, func(p *types.Package) string { return p.Name() }), "in", fs.Name), call.Pos(),
				"the value is result #0 of a GetSanitised* call", "a value whose type can hold passwords or keys is sent without coming from a sanitiser")
			return true
		})
	}
	if n == 0 {
		c.Bad("R17.4", "responses with secret-capable types", 0, "none found: the rule no longer sees the description/user responses")
	}
}

// ---------- R17.5 ----------

func (e *c17env) carryOver() {
	c, p := e.c, e.p
	ud := p.Func("group", "", "UpdateDescription")
	uu := p.Func("group", "", "UpdateUser")
	dtn := p.TypeName("group", "Description")
	if ud == nil || uu == nil || dtn == nil {
		c.Unknown("R17.5", "anchors", 0, "UpdateDescription/UpdateUser not found")
		return
	}
	var secrets []*types.Var
	for _, sf := range e.secretFields(dtn) {
		if !e.upgradeCleared(sf) {
			secrets = append(secrets, sf)
		}
	}
	// UpdateDescription: refuses secrets in the input; copies them from old
	{
		ff := e.eng.Analyze(ud)
		info := ud.Pkg.TypesInfo
		params := ud.params(info) // name, etag, desc
		descT := TVar(params[2])
		var rws []*ast.CallExpr
		// the stored description and the error of reading it, by role: the results of readDescription
		var oldObj, errObj types.Object
		ast.Inspect(ud.Body(), func(n ast.Node) bool {
			if call, ok := n.(*ast.CallExpr); ok && fnIs(calleeOf(&CallSite{Call: call, In: ud}), "group", "", "rewriteDescriptionFile") {
				rws = append(rws, call)
			}
			if as, ok := n.(*ast.AssignStmt); ok && len(as.Lhs) == 2 && len(as.Rhs) == 1 {
				if call, ok := unparen(as.Rhs[0]).(*ast.CallExpr); ok && fnIs(calleeOf(&CallSite{Call: call, In: ud}), "group", "", "readDescription") {
					if id, ok := as.Lhs[0].(*ast.Ident); ok {
						oldObj = info.ObjectOf(id)
					}
					if id, ok := as.Lhs[1].(*ast.Ident); ok {
						errObj = info.ObjectOf(id)
					}
				}
			}
			return true
		})
		if len(rws) == 0 {
			c.Bad("R17.5", "UpdateDescription: write", ud.Pos(), "no call to rewriteDescriptionFile")
		}
		var miss, missCopy []string
		var at token.Pos
		for _, rw := range rws {
			at = rw.Pos()
			st, _ := ff.At(rw)
			arg := unparen(rw.Args[1])
			if u, ok := arg.(*ast.UnaryExpr); ok {
				arg = u.X
			}
			newT := ff.term(arg)
			// nothing is stored when the read failed (the group is being created)
			noOld := false
			if st != nil {
				if oldObj != nil && st.HasFact(mkFact(true, "eq", TVar(oldObj), TNil())) {
					noOld = true
				}
				if errObj != nil && st.HasFact(mkFact(false, "eq", TVar(errObj), TNil())) {
					noOld = true
				}
			}
			for _, sf := range secrets {
				if reach, _ := ff.ReachableNotRefuting(rw, factsConj(mkFact(false, "eq", TField(descT, sf), TNil()))); reach {
					miss = append(miss, sf.Name())
				}
				// old != nil => newdesc.F == old.F
				okc := noOld
				if st != nil && newT != nil && oldObj != nil {
					want := mkFact(true, "eq", TField(newT, sf), TField(TVar(oldObj), sf))
					if st.HasFact(want) {
						okc = true
					}
					for _, f := range st.Facts() {
						if f.Op == "imp" && f.Then.key == want.key {
							okc = true
						}
					}
				}
				if !okc {
					missCopy = append(missCopy, sf.Name())
				}
			}
		}
		if len(rws) > 0 {
			c.Check(len(miss) == 0, "R17.5", "UpdateDescription: refuses secrets in the input", at,
				"the write is dominated by desc.Users == nil, desc.WildcardUser == nil, desc.AuthKeys == nil", "input with "+strings.Join(miss, ",")+" set reaches the write: the API can replace stored secrets")
			c.Check(len(missCopy) == 0, "R17.5", "UpdateDescription: carries the stored secrets over", at,
				"newdesc.{Users,WildcardUser,AuthKeys} = old.{...} whenever the group existed", "updating a group drops its stored "+strings.Join(missCopy, ","))
		}
	}
	// UpdateUser: refuses a password in the input; carries the stored one over
	{
		ff := e.eng.Analyze(uu)
		info := uu.Pkg.TypesInfo
		fPw := p.Field("group", "UserDescription", "Password")
		fType := p.Field("group", "RawPassword", "Type")
		var rw *ast.CallExpr
		ast.Inspect(uu.Body(), func(n ast.Node) bool {
			if call, ok := n.(*ast.CallExpr); ok && fnIs(calleeOf(&CallSite{Call: call, In: uu}), "group", "", "rewriteDescriptionFile") {
				rw = call
			}
			return true
		})
		newuser := uu.localVar("newuser")
		old := uu.localVar("old")
		params := uu.params(info)
		if rw == nil || fPw == nil || newuser == nil || old == nil || len(params) != 5 {
			c.Unknown("R17.5", "UpdateUser: anchors", uu.Pos(), "write / newuser / old not found")
		} else {
			st, _ := ff.At(rw)
			okCarry := st != nil && st.HasFact(mkFact(true, "eq", TField(TVar(newuser), fPw), TField(TVar(old), fPw)))
			c.Check(okCarry, "R17.5", "UpdateUser: carries the stored password over", rw.Pos(), "newuser.Password == old.Password at the write", "updating a user drops or replaces the stored password")
			okRefuse := false
			if fType != nil {
				tt := TField(TField(TVar(params[4]), fPw), fType)
				reach, _ := ff.ReachableNotRefuting(rw, factsConj(mkFact(false, "eq", TStr(""), tt)))
				okRefuse = !reach
			}
			c.Check(okRefuse, "R17.5", "UpdateUser: refuses a password in the input", rw.Pos(), "the write is dominated by user.Password.Type == \"\"", "a user definition carrying a password reaches the write")
			// the stored user comes from the description read under this lock
			okSrc := false
			ast.Inspect(uu.Body(), func(n ast.Node) bool {
				if as, ok := n.(*ast.AssignStmt); ok {
					for _, l := range as.Lhs {
						if id, ok := l.(*ast.Ident); ok && info.ObjectOf(id) == old {
							okSrc = true
						}
					}
				}
				return true
			})
			c.Check(okSrc, "R17.5", "UpdateUser: old user read in the same call", uu.Pos(), "old is taken from the description read under groups.mu", "old is never assigned")
		}
	}
	// SetKeys / SetUserPassword / DeleteUser: write back the description they read, changing only what they address
	for _, spec := range []struct {
		name    string
		allowed map[string]bool
	}{
		{"SetKeys", map[string]bool{"AuthKeys": true}},
		{"SetUserPassword", map[string]bool{"Password": true, "Users": true, "WildcardUser": true}},
		{"DeleteUser", map[string]bool{"WildcardUser": true, "Users": true}},
	} {
		fs := p.Func("group", "", spec.name)
		if fs == nil {
			c.Unknown("R17.5", spec.name+": anchor", 0, "not found")
			continue
		}
		ff := e.eng.Analyze(fs)
		info := fs.Pkg.TypesInfo
		var rw *ast.CallExpr
		ast.Inspect(fs.Body(), func(n ast.Node) bool {
			if call, ok := n.(*ast.CallExpr); ok && fnIs(calleeOf(&CallSite{Call: call, In: fs}), "group", "", "rewriteDescriptionFile") {
				rw = call
			}
			return true
		})
		if rw == nil {
			c.Bad("R17.5", spec.name+": write", fs.Pos(), "no call to rewriteDescriptionFile")
			continue
		}
		st, _ := ff.At(rw)
		okProv := false
		if at := ff.term(rw.Args[1]); at != nil && st != nil {
			for _, f := range st.Facts() {
				if f.Op == "eq" && f.Pos && f.B != nil {
					for _, pr := range [][2]*Term{{f.A, f.B}, {f.B, f.A}} {
						if pr[0].String() == at.String() && pr[1].K == 'r' && pr[1].Name == "res0" {
							if cs := p.callAt[pr[1].Pos]; cs != nil && fnIs(calleeOf(cs), "group", "", "readDescription") {
								okProv = true
							}
						}
					}
				}
			}
		}
		// fields of the description assigned in this function
		var other []string
		ast.Inspect(fs.Body(), func(n ast.Node) bool {
			var lhs []ast.Expr
			switch x := n.(type) {
			case *ast.AssignStmt:
				lhs = x.Lhs
			case *ast.CallExpr:
				if isBuiltin(info, x, "delete") && len(x.Args) > 0 {
					lhs = []ast.Expr{x.Args[0]}
				}
			}
			for _, l := range lhs {
				for cur := unparen(l); cur != nil; {
					switch y := cur.(type) {
					case *ast.SelectorExpr:
						if s := info.Selections[y]; s != nil && s.Kind() == types.FieldVal {
							if !spec.allowed[y.Sel.Name] {
								other = append(other, y.Sel.Name)
							}
						}
						cur = unparen(y.X)
					case *ast.IndexExpr:
						cur = unparen(y.X)
					case *ast.StarExpr:
						cur = unparen(y.X)
					default:
						cur = nil
					}
				}
			}
			return true
		})
		c.Check(okProv && len(other) == 0, "R17.5", spec.name+": writes back what it read, changing only its own field", rw.Pos(),
			"the description written is the one returned by readDescription in the same critical section; no other field is assigned",
			fmt.Sprintf("provenance ok: %v; other fields assigned: %s", okProv, strings.Join(other, ",")))
	}
}
